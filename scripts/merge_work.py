#!/usr/bin/env python3
"""Merge a sub-agent's work copy into /verif: new files, delimited blocks of Main.lean / blocprobe.cpp, BlocV.lean imports,
known-finding entries found in its NOTES (```json blocks or a known_findings_*.json file). usage: merge_work.py <workdir> <ID>"""
import json, os, re, shutil, subprocess, sys

W, ID = sys.argv[1], sys.argv[2]
V = "/verif"
SKIP_DIRS = {".git", "evidence", "replays", "__pycache__", ".lake", "scratch", "seeded", "corpus"}
new = []
for root, dirs, files in os.walk(W):
    dirs[:] = [d for d in dirs if d not in SKIP_DIRS]
    for f in files:
        src = os.path.join(root, f)
        rel = os.path.relpath(src, W)
        dst = os.path.join(V, rel)
        if rel in ("TASK.md", "PREAMBLE.md", "PROPS.md") or rel.endswith(".pyc"):
            continue
        if not os.path.exists(dst):
            if rel.startswith("NOTES-"):
                dst = os.path.join(V, "notes", rel)
            os.makedirs(os.path.dirname(dst), exist_ok=True)
            shutil.copy(src, dst)
            new.append(rel)
print("new files:", new)

def blocks(text, open_re, close_re):
    return re.findall(r"(^[ \t]*%s.*?%s[^\n]*\n)" % (open_re, close_re), text, flags=re.S | re.M)

# Main.lean
wm = open(os.path.join(W, "lean/Main.lean")).read()
vm = open(os.path.join(V, "lean/Main.lean")).read()
bl = blocks(wm, r"-- BEGIN %s" % ID, r"-- END %s" % ID)
added = 0
for b in bl:
    if b.strip() in vm:
        continue
    body = b
    if re.search(r"^\s*import ", body, flags=re.M) and "def " not in body and "|" not in body.split("\n")[1]:
        vm = vm.replace("\nopen BlocV BlocV.Proto\n", "\n" + body + "\nopen BlocV BlocV.Proto\n", 1)
    elif re.search(r"^\s*(\||if let)", body.split("\n")[1]):
        if re.search(r"^\s*if let", body.split("\n")[1]):
            vm = vm.replace("def handle (words : List String) : String :=\n", "def handle (words : List String) : String :=\n" + body, 1)
        else:
            vm = vm.replace("  match words with\n", "  match words with\n" + body, 1)
    else:
        vm = vm.replace("def handle (words : List String) : String :=\n", body + "\ndef handle (words : List String) : String :=\n", 1)
    added += 1
open(os.path.join(V, "lean/Main.lean"), "w").write(vm)
print("Main.lean blocks merged:", added, "of", len(bl))
# BlocV.lean imports
vb = open(os.path.join(V, "lean/BlocV.lean")).read()
for l in open(os.path.join(W, "lean/BlocV.lean")).read().split("\n"):
    if l.strip() and l not in vb.split("\n"):
        vb += l + "\n"
open(os.path.join(V, "lean/BlocV.lean"), "w").write(vb)
# harness blocks
wh = open(os.path.join(W, "harness/blocprobe.cpp")).read()
vh = open(os.path.join(V, "harness/blocprobe.cpp")).read()
hb = blocks(wh, r"// BEGIN %s" % ID, r"// END %s" % ID)
print("harness blocks in work copy:", len(hb), "(merge by hand if > 0 and not yet present)")
for b in hb:
    print("----\n" + b[:1500])
# findings
kf = json.load(open(os.path.join(V, "known_findings.json")))
have = {f["id"] for f in kf["findings"]}
cands = []
for root, dirs, files in os.walk(W):
    dirs[:] = [d for d in dirs if d not in SKIP_DIRS]
    for f in files:
        p = os.path.join(root, f)
        if f.startswith("known_findings_") and f.endswith(".json"):
            cands += json.load(open(p)).get("findings", [])
        if f.startswith("NOTES-") and ID.replace("C16C17", "C16") in f or (f.startswith("NOTES-") and ID in f):
            txt = open(p).read()
            for m in re.findall(r"```json\n(.*?)```", txt, flags=re.S):
                dec = json.JSONDecoder()
                i = 0
                mm = m.strip()
                while i < len(mm):
                    while i < len(mm) and mm[i] in " \n\t,[]":
                        i += 1
                    if i >= len(mm):
                        break
                    try:
                        obj, j2 = dec.raw_decode(mm, i)
                    except Exception as e:
                        print("could not parse a json object in", f, e)
                        break
                    i = j2
                    if isinstance(obj, dict) and "id" in obj and "property" in obj:
                        cands.append(obj)
                    elif isinstance(obj, list):
                        cands += [x for x in obj if isinstance(x, dict) and "id" in x and "property" in x]
            mk = open(os.path.join(V, "scripts/mkmanifest.py")).read()
            for m in re.findall(r"```python\n(CHECKS\[.*?)```", txt, flags=re.S):
                key = re.match(r'CHECKS\["(C\d+)"\]', m).group(1)
                if 'CHECKS["%s"]' % key not in mk:
                    mk = mk.replace("NOT_YET = {}", m.rstrip() + "\n\nNOT_YET = {}", 1)
                    print("CHECKS entry added for", key)
            open(os.path.join(V, "scripts/mkmanifest.py"), "w").write(mk)
n = 0
for c in cands:
    if c["id"] not in have:
        kf["findings"].append(c); have.add(c["id"]); n += 1
json.dump(kf, open(os.path.join(V, "known_findings.json"), "w"), indent=1)
print("known findings added:", n)
