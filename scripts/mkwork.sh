#!/bin/sh
# usage: scripts/mkwork.sh <ID>  — private work copy of the framework for a sub-agent task (with the Lean build)
ID=$1; W=/verif-work/$ID
mkdir -p /verif-work; rm -rf "$W"
rsync -a --exclude .git --exclude replays --exclude __pycache__ /verif/ "$W/"
cp /verif-work/PREAMBLE.md "$W/PREAMBLE.md"
echo "$W"
