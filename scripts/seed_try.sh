#!/bin/sh
# usage: scripts/seed_try.sh <seed name> <Cnn> [tier]  — runs the check of ANY property against a seeded mutation on a private copy of /repo
# (own build cache; /repo untouched). Prints the first violation line and rc. Evidence files are restored afterwards.
N="$1"; P="$2"; TIER="${3:-quick}"
cd /verif || exit 2
D=/var/tmp/blocv-try-$$; COPY=$D/repo; CACHE=$D/cache
mkdir -p "$COPY" "$CACHE"
git -C /repo archive HEAD | tar -x -C "$COPY"
( cd "$COPY" && git init -q && git add -A && git -c user.email=x@x -c user.name=x commit -qm base )
git -C "$COPY" apply "/verif/seeded/$N/patch.diff" || { echo "patch does not apply"; rm -rf $D; exit 2; }
cp evidence/$P.json $D/ev.json 2>/dev/null
VERIF_REPO="$COPY" VERIF_CACHE="$CACHE" ./check $P --tier $TIER > $D/out 2>&1; rc=$?
cp $D/ev.json evidence/$P.json 2>/dev/null
grep -A1 '^VIOLATION' $D/out | head -2 | cut -c1-300
echo "$N vs $P: rc=$rc"
rm -rf $D
