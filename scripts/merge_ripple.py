#!/usr/bin/env python3
"""usage: merge_ripple.py <workdir> <base-commit>  — merges a private copy of /verif (made at <base-commit>) back: files the copy changed are
copied when /verif still has the base version, 3-way merged (git merge-file) otherwise; known_findings.json is merged entry by entry (by id)."""
import json, os, subprocess, sys, filecmp, tempfile
W, BASE = sys.argv[1].rstrip("/"), sys.argv[2]
V = "/verif"
SKIP_DIRS = {".git", ".lake", "evidence", "replays", "__pycache__", "corpus"}
SKIP_FILES = {"TASK.md", "PREAMBLE.md", "PROPS.md", "MANIFEST.json", "known_findings.json", "seeded/SWEEP.md", "lean/lake-manifest.json"}
def base_of(rel):
    r = subprocess.run(["git", "-C", V, "show", "%s:%s" % (BASE, rel)], stdout=subprocess.PIPE, stderr=subprocess.DEVNULL)
    return r.stdout if r.returncode == 0 else None
changed, conflicts = [], []
for root, dirs, files in os.walk(W):
    dirs[:] = [d for d in dirs if d not in SKIP_DIRS]
    for f in files:
        p = os.path.join(root, f)
        rel = os.path.relpath(p, W)
        if rel in SKIP_FILES or rel.startswith("seeded/") or f.endswith((".pyc", ".olean")):
            continue
        theirs = open(p, "rb").read()
        b = base_of(rel)
        if b is not None and b == theirs:
            continue
        vp = os.path.join(V, rel)
        cur = open(vp, "rb").read() if os.path.exists(vp) else None
        if cur == theirs:
            continue
        if cur is None or cur == b:
            os.makedirs(os.path.dirname(vp), exist_ok=True)
            open(vp, "wb").write(theirs)
            changed.append(("copy" if cur is not None else "new", rel))
        else:
            with tempfile.TemporaryDirectory() as td:
                fb, ft = os.path.join(td, "base"), os.path.join(td, "theirs")
                open(fb, "wb").write(b or b"")
                open(ft, "wb").write(theirs)
                r = subprocess.run(["git", "merge-file", vp, fb, ft])
                (conflicts if r.returncode != 0 else changed).append(("merge", rel))
# known findings by id
tk = json.load(open(os.path.join(W, "known_findings.json")))["findings"]
bk = {f["id"]: f for f in json.loads(base_of("known_findings.json"))["findings"]}
vk = json.load(open(os.path.join(V, "known_findings.json")))
ids = {f["id"]: i for i, f in enumerate(vk["findings"])}
nf = 0
for f in tk:
    if bk.get(f["id"]) != f:
        if f["id"] in ids:
            vk["findings"][ids[f["id"]]] = f
        else:
            vk["findings"].append(f)
        nf += 1
json.dump(vk, open(os.path.join(V, "known_findings.json"), "w"), indent=1)
for k, r in changed:
    print(k, r)
print("findings entries updated:", nf)
for k, r in conflicts:
    print("CONFLICT", r)
