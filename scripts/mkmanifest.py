#!/usr/bin/env python3
"""Regenerates MANIFEST.json from the table below (kept valid against /root/.vp/MANIFEST.schema.json)."""
import json
import os
import subprocess

HERE = os.path.dirname(os.path.dirname(os.path.abspath(__file__)))

CHECKS = {
    "C03": dict(
        category="proof",
        text=("Lean 4 theorems (BlocV.Proofs.C03) prove, for ALL Int64 operands, that the model of op_add/sub/mul/neg/"
              "div/mod/exp/pop/pus/and/ior/xor equals the mathematical specification of the manual (exact result mod 2^64, "
              "truncating / and % with DIVIDE_BY_ZERO and defined at MIN/-1, zero-fill shifts with reversal and >=64 -> 0, exact "
              "power by squaring, & | ^ ~ bitwise on all 64 bits; int_ops_total / integer_is_integer / evalBin_int connect them to "
              "what evalBin executes); mixed_is_decimal (an operation with a decimal operand yields a decimal, all values); "
              "int_of_decimal_spec: for ALL 2^64 bit patterns int(decimal) succeeds exactly when the double's exact value "
              "(Spec/Float.lean: scaled integer / 2^1074) truncates into [-2^63, 2^63), returns that truncation, OUT_OF_RANGE "
              "otherwise (NaN/inf never succeed); 35 theorems. The model is tied to /repo on every run by an exhaustive lattice^2 + seeded random differential "
              "run of the rebuilt library (ASan+UBSan) against the compiled Lean model, bit-exact also for decimals and int(decimal)."),
        design_ref="DESIGN.md §6 C03, §11, notes/NOTES-p0305.md",
        note=("Trusted: Lean kernel (axioms propext, Classical.choice, Quot.sound only; audited per theorem each run), the "
              "hand-written model's correspondence to the C++ is *tested* (exhaustive over the boundary lattice, sampled "
              "elsewhere), IEEE-754 + - * / pow are the platform's (executed bit-exactly on both sides, not proved)."),
        technique="Lean 4 proof over a hand model + differential correspondence (lattice-exhaustive)"),
}

CHECKS["C04"] = dict(
    category="proof",
    text=("Lean 4 theorems (BlocV.Proofs.C04): for every operand the parser admits to a logical operator (true, false, "
          "untyped null, boolean-typed null — any minor) AND/OR/XOR/NOT equal Kleene's tables, are symmetric, and their "
          "truth value is independent of the type carried by the null; all six relational operators return null when "
          "either operand is null, for ALL values; a null or false condition takes the false branch of if / ends while at "
          "statement level (if_null_condition_takes_false_branch, while_null_condition_ends); null_literal_stable. Tied to /repo by a complete "
          "enumeration of operand class x provenance (variable, constant, constructor, function result, table element, "
          "tuple item) x operator, each expression evaluated five times per program, with deep variable dumps."),
    design_ref="DESIGN.md §6 C04",
    note=("Trusted: Lean kernel; model-to-code correspondence is tested (complete over the stated finite product); the "
          "storage-level half (constant cells are never overwritten) is C05's frame theorem, here observed through dumps."),
    technique="Lean 4 proof (finite case split lifted to all values) + complete provenance enumeration")

CHECKS["C10"] = dict(
    category="proof",
    text=("Lean 4 model of the string/bytes/conversion built-ins (substr family, strpos, replace, trim family, upper/lower, "
          "tokenize, strlen, hex, hash, chr, raw, str incl. an exact %.16g, int, Base64) as total functions over byte lists "
          "with C hazards as outcomes; 47 theorems (BlocV.Proofs.C10): b64dec_b64enc for ALL byte lists (and through evalBuiltin), "
          "int_str_roundtrip for every Int64 incl. INT64_MIN, substr/subraw (2 and 3 arguments) = the independent Spec.Text.substr "
          "for all strings and ALL Int64 positions/counts (substr_full; the INT64_MIN overflow was repaired), lsubstr/rsubstr,  substr_returns_sublist (whatever is returned is the typed null, the "
          "argument, or a contiguous sublist: never data from outside), null in => typed null out, text_builtins_no_hazard (23 "
          "built-ins x every argument list, no excluded region), hex_contract / hex_value (hex(v, n) = Spec.Text.hex for every value "
          "and pad count), abs_contract, pow_exact / pow_eq_operator, strpos / replace / upper / lower / trim / strlen / hex / raw / hash / tokenize_join contracts, "
          "chr / put / concat code range. Tied to /repo by exhaustive short-string x position-lattice calls "
          "(arguments as variables and as temporaries, argument variables dumped after the call) under ASan+UBSan."),
    design_ref="DESIGN.md §6 C10, §11, notes/NOTES-p10.md",
    note=("Trusted: Lean kernel; correspondence is tested (exhaustive over the stated alphabet/lattice, sampled beyond); "
          "strtod (num/isnum on text) is libc and %.16g printing goes through the kernel-opaque Float: num(str(d)) = d and "
          "isnum <=> num are checked on the implementation only (not theorems); "
          "the hazard regions recorded earlier (decimal positions outside int64, INT64_MIN start, hex pad count) were repaired; no C10 finding is open."),
    technique="Lean 4 proof over a hand model + differential correspondence (exhaustive short strings x lattice)")

CHECKS["C13"] = dict(
    category="proof",
    text=("Lean 4 model of the scanner as per-chunk maximal munch over the 28 rules of tokenizer.lex with start conditions, "
          "chunking as tokenizer_buf, reassembly as Parser::next_token and the line readers; theorems (BlocV.Proofs.C13): for "
          "EVERY text and EVERY fragmentation in which each chunk but the last ends after a newline the chunked token stream "
          "equals the whole-text stream (lex_line_aligned, pop_line_aligned, fragmentation_independent), lineReader max yields "
          "such a fragmentation iff no line exceeds max (lineReader_aligned), CRLF = LF, hence layout independence for texts "
          "with lines <= 1023 bytes and no NUL; the full property is FALSE on this tree and its negation is proved at "
          "concrete witnesses (recorded known findings). Tied to /repo by comparing Parser::pop() token streams under every "
          "single split, multi-splits, fixed sizes, the library's own StringReader and the command line's ReadFile "
          "(apps/read_file.cpp on a FILE*), in LF and CRLF form incl. lines whose CR / LF fall on the 1023-byte buffer edge, and by comparing the rule list with tokenizer.lex."),
    design_ref="DESIGN.md §6 C13, notes/NOTES-C13.md",
    note=("Trusted: Lean kernel; the flex-generated automaton (lex._tokenizer.c) is compared with the model on token streams, "
          "not translated; StringReader and ReadFile share one model reader (lineReader 1023 after CR removal)."),
    technique="Lean 4 proof (chunked lexer = whole lexer on line-aligned fragmentations) + token-stream correspondence")

CHECKS["C18"] = dict(
    category="proof",
    text=("csv and utf8 halves by Lean 4 proof: csv_roundtrip (deserialize(serialize row) = row for every row other than the single "
          "empty field, every field content, every separator != encapsulator) and csv_linewise; utf8: decoding the RFC 3629 "
          "encoding of any list of non-zero scalars gives that list, count/at/substr/insert/remove/string agree with the list "
          "functions, utf8_args_total characterises the only out-of-bounds access (at beyond the end: recorded finding); models "
          "are transcriptions of csvparser.cpp / utf8helper.cpp tied by an exhaustive small-alphabet differential run of the "
          "real classes (harness/modprobe.cpp, ASan+UBSan). file and sqlite3 halves: Lean models of plugin_file.cpp (mode parsing, "
          "fwrite as a walk, the 4096-byte read loop, readln, seeks, every null/closed check) and of plugin_sqlite3.cpp (bind/fetch "
          "value mapping, statement state machine); file_write_read_roundtrip (all data, all chunkings, all read counts), "
          "readLoop_eq (= take n), fwriteBytes_eq_writeAt and per-call refinement of a POSIX spec (Spec/FileSpec.lean), "
          "file_args_total, sqlite_value_roundtrip + proved negations for what SQLite's storage classes do not preserve (boolean, "
          "NaN, empty bytes, typed null); tied to the REAL .so modules (ASan+UBSan, in-process, one BLOC statement per call) and to "
          "independent readers (Python reading the file, Python's sqlite3 reading the database) by ~1900 (quick) differential histories."),
    design_ref="DESIGN.md §6 C18, §11, notes/NOTES-C18.md, notes/NOTES-C18F.md",
    note=("Trusted: Lean kernel; correspondence tested (exhaustive over rows <= 3 fields x <= 3 bytes over {sep, enc, space, LF, CR, a}; "
          "byte strings <= 3 over a boundary alphabet); charmap tables (upper/lower/normalisation) out of scope; glibc stdio and SQLite "
          "are trusted (their behaviour is what the models' fread/fwrite/fseek and storage classes say; tested, not proved); one "
          "handle per file, regular files, fixed SQL shapes; stat/dir/errmsg unmodelled; whole-sequence refinement and the "
          "readln/dirname specs are not proved."),
    technique="Lean 4 proof (round trip / refinement to list functions) + exhaustive differential correspondence")

CHECKS["C06"] = dict(
    category="proof",
    text=("Lean 4 interpreter model (BlocV/Model/Interp.lean: statements, the loop combinators forLoop / whileLoop / forallLoop "
          "transcribing FORStatement / WHILEStatement / FORALLStatement::doit, forall iterators as pointers into the traversed "
          "table with forallExit = finalizeControl, blocks, signals). Theorems (BlocV.Proofs.C06, 43): exec_for_visits — the `for` "
          "statement runs its body exactly over Spec.forRange for ALL Int64 first/limit/step and the three directions "
          "(forLoop_visits_up/down: no wrap-around at INT64_MAX/MIN), forRange_closed_form/length, exec_for_terminates, null "
          "first/limit/step => zero iterations, step < 1 => OUT_OF_RANGE before anything runs; exec_forall_var_visits — forall "
          "visits exactly forallOrder (each index once, requested order), exec_let_through_iterator — a write through the iterator "
          "replaces exactly that element; iters_balanced / exec_iters_frames — by mutual induction over the whole interpreter: "
          "after ANY statement, block, call or expression, whatever the outcome (any flow, BLOC error, hazard, out of fuel), the "
          "stack of running forall loops is what it was (no iterator constraint or table lock survives), forallExit_pops resets "
          "the iterator; break/continue/return/error lemmas for the three loops; execList_stops. Tied to /repo by an exhaustive "
          "for-header lattice (incl. INT64 extremes and nulls), forall families (sizes 0..4 and null x direction x variable / "
          "temporary source x read / write through the iterator / break / continue / raise / return at each index; nested on one "
          "and two tables; table changed and iterator retyped afterwards), bounded-exhaustive nestings of for/while/forall with "
          "every exit at every position, bodies modifying the control variable, and seeded random structured programs (half with "
          "tables); printed sequences, final variables, control/exec depth and constraint flags compared with the model."),
    design_ref="DESIGN.md §6 C06, §11, notes/NOTES-p0608.md",
    note=("Trusted: Lean kernel; the interpreter model evaluates over values (C05 links it to the storage discipline); "
          "correspondence tested. The compile-time refusal of changing a traversed table is C09's/C11's subject; forall over a "
          "temporary is covered by the correspondence, its statement-level theorem is for a variable source. The one finding "
          "(a body nulling the for control variable dereferenced null) was repaired: forLoop_null_iterator / exec_for_null_iterator "
          "state the NOT_INTEGER outcome."),
    technique="Lean 4 proof over an interpreter model (loop theorems vs Spec.forRange / forallOrder, control-stack balance by mutual induction) + program-level differential correspondence")

CHECKS["C07"] = dict(
    category="proof",
    text=("Lean 4 theorems (BlocV.Proofs.C07, 18) over the interpreter model: the catchable set is generated from "
          "RuntimeError::THROWABLES and `when others` matches exactly user names + OUT_OF_RANGE + DIVIDE_BY_ZERO; a named "
          "built-in clause matches exactly its error; the FIRST matching clause of the block runs from the state the error "
          "left (handler_selection); an unmatched or uncatchable error leaves the block unchanged and reaches the host; nested "
          "blocks: inner_unmatched_reaches_outer, inner_matching_handles; error_in_callee_reaches_callers_block; "
          "no_residue_control_stack / no_residue_after_run (the forall/iterator stack after a handled or reported error is what "
          "it was before the block: uses C06.iters_balanced), handled_flow_is_handlers_flow (a pending break/continue/return is "
          "the handler's, nothing is left behind), continues_after_handled; raise_outcome, user_raise_matches_same_name / "
          "_not_matched_by_other_name. Tied to /repo by generated nestings x failing operation x handler-name sets at two levels, "
          "each followed by a probe program in the same context, with control/exec depth and constraint flags read through the "
          "BLOC_VERIF accessors (no residue)."),
    design_ref="DESIGN.md §6 C07, §11, notes/NOTES-p0608.md",
    note=("Trusted: Lean kernel; the C++ control stacks (for/while `safety`, exec level) other than the forall stack have no "
          "counterpart in the value-level model: their emptiness after an error is observed (dump after every run + probe "
          "program), not proved; error@1/@2 are not modelled; C++ unwinding assumed to run the transcribed catch blocks; the "
          "interactive runner (apps/cli_parser.cpp) is covered by C19."),
    technique="Lean 4 proof over an interpreter model + generated-nesting differential correspondence")

CHECKS["C08"] = dict(
    category="proof",
    text=("Lean 4 theorems (BlocV.Proofs.C08, 15): a call equals finishCall(caller, body run from calleeInit(f, argument values)); "
          "call_independent_of_caller / call_determined_by_argument_values — result, output and callee run depend on the caller "
          "only through the output stream and work budget, for the full callFunc incl. argument evaluation; "
          "callee_cannot_modify_caller, caller_untouched; locals_start_unset (every declared symbol a typed null at every call); "
          "argument_bound_by_value; overload_by_arity, overloads_coexist; failing_argument_fails_call; recursion_limit (depth 255 "
          "raises RECURSION_LIMIT without evaluating anything; the constant is generated from functor_manager.h) and "
          "recursion_limit_exact (255 nested calls succeed, the 256th raises — by kernel evaluation of a concrete recursive "
          "function). Tied to /repo by placing the same probe call after generated call histories (conditionally assigned / "
          "re-typed locals, recursion to the limit, mutual recursion, failing calls, overloads, self-calling arguments)."),
    design_ref="DESIGN.md §6 C08, §11, notes/NOTES-p0608.md",
    note=("Trusted: Lean kernel; the model creates a fresh callee state per call, the C++ recycles contexts and resets them "
          "(fix commit b7b8574): their equivalence is exactly what the correspondence tests. random()/stdin are documented global "
          "inputs and not modelled; n-parameter binding by value is proved for one parameter and tested for more."),
    technique="Lean 4 proof over an interpreter model + call-history differential correspondence")

CHECKS["C05"] = dict(
    category="proof",
    text=("Lean 4 storage-level model (BlocV/Model/Store.lean: variable / constant / temporary cells with the LVALUE flag, "
          "Pool::keep, LVAL1/LVAL2, which operand each operator cell returns or overwrites, storeVariable's swap/clone). "
          "Theorems (BlocV.Proofs.C05): eval_frame (under the flag invariant, evaluating ANY expression over constants, variables "
          "and the operators leaves every variable slot and constant cell unchanged and re-establishes the invariant), "
          "eval_refines (the storage-level evaluator computes exactly the value-level result, same errors), eval_pool_discipline, "
          "eval_after / eval_twice_equal / eval_error_repeatable (temporaries of one expression never leak into the next; equal "
          "results on re-evaluation), assign_copies, assign_independent (after b = a no later store to one is visible through the "
          "other), assign_refines, assigns_leave_others (any sequence of assignments not targeting b leaves b alone). Tied to /repo "
          "by evaluating every operator / built-in node x operand class x operand source three times through Expression::value "
          "with deep dumps (value, type, LVALUE flag) of every variable slot before and after, and by random alias programs — "
          "since this round also with tables: copy a table, change the original in place (concat/put) and through a forall "
          "iterator, print both — against the value-semantics interpreter (Model/Interp.lean)."),
    design_ref="DESIGN.md §6 C05, §11, notes/NOTES-p0305.md",
    note=("Trusted: Lean kernel; the per-operator placement table (which operand is returned/overwritten) is transcribed by hand "
          "and its observable consequences are tested; container elements, in-place members, tab/tup construction and "
          "user-function arguments are NOT in the storage-level model (LExpr has constants, variables, operators): for them "
          "value semantics is what the interpreter model assumes and the program-level correspondence tests; objects are shared "
          "by reference as documented (C17)."),
    technique="Lean 4 proof (frame + refinement theorems over a storage-level model) + dump-based differential correspondence")

CHECKS["C02"] = dict(
    category="proof",
    text=("Static typing model (Model/Typing.lean: typeChecking/assertTypeUniform, the operators' type() rules, the built-in "
          "signature and result-type tables GENERATED from every builtin_*.cpp/.h on each run) with Lean theorems "
          "(BlocV.Proofs.C02): bin_type_sound — for the 15 binary operators other than - * / ** % an .ok result has EXACTLY the "
          "static type, all operands; bin_type_sound_static_partial — for all 20 operators with exact or opaque operand types, "
          "outside the decidable region binTypeGap, whose exactness is proved (bin_type_gap_exact: inside it every result "
          "contradicts the static type; witnesses `null - 1`, `null % null`, `idf(5) - 3` replayed on the implementation = "
          "recorded known findings); un_type_sound for all unary operators; accept_implies_no_type_error_partial (+ negations: "
          "`true + false`, `t < t`, `5 % ii`, `~2.5` are accepted and fail at run time); builtin_type_sound_partial for 16 "
          "built-ins (negation: b64dec(null)). The property itself is also checked on the implementation node by node — "
          "Expression::type() in parsing mode vs the type of the evaluated value for every operator and ~45 built-ins x operand "
          "classes x (typed variable | opaque function result) — and program by program (one unit vs statement-at-a-time; `$` "
          "variables, loop iterators, retyping)."),
    design_ref="DESIGN.md §6 C02, §11, notes/NOTES-p0102.md",
    note=("Trusted: Lean kernel, extract/sigs.py. The full statement is FALSE on this tree (arithmetic with an untyped null / "
          "opaque operand is typed decimal statically): 20 recorded known findings by operator / built-in cell. Built-ins outside "
          "the 16 proved ones and container members are decided by the exhaustive static/dynamic comparison (testing)."),
    technique="generated typing tables + Lean 4 type-soundness theorems with exact gap regions + exhaustive static/dynamic type comparison")

CHECKS["C01"] = dict(
    category="proof",
    text=("C-level hazards (null dereference of a typed accessor, signed overflow, out-of-range double->integer cast, foreign "
          "exception, divergence) are OUTCOMES of the Lean model, not things it cannot do. Theorems (BlocV.Proofs.C01): "
          "evalUn_no_hazard and evalBin_no_hazard — every unary and all 20 binary operators, EVERY pair of values (nulls, typed "
          "nulls, tables, tuples, every Int64, every double), both aliasing flags, never reach a hazard (hypothesis: table values "
          "have level >= 1, shown necessary by evalBin_hazard_witness and preserved by evalBin_ok_tabOk); pure_no_hazard lifts this "
          "to every expression tree incl. short circuit; evalBuiltin_no_hazard: all 23 modelled built-ins for all argument lists "
          "(substr/subraw: the string length fits int64); evalBuiltin_repaired_witnesses: the former overflow witnesses (substr/"
          "subraw at INT64_MIN, hex pad count, abs, pow) return values since their repair; int_of_decimal_no_hazard for all 2^64 "
          "bit patterns. Tied to /repo by running EVERY built-in (generated keyword "
          "list) x arity x operand class (boundary values always) x operand source, every operator and member method, and generated "
          "programs mutated at every token position + byte edits, under ASan+UBSan+float-cast-overflow through Parser::parse, the C "
          "API and the statement-at-a-time path: any outcome other than value / parse error / runtime error is reported."),
    design_ref="DESIGN.md §6 C01, §11, notes/NOTES-p0102.md",
    note=("Trusted: Lean kernel; sanitizers as the oracle for undefined behaviour; for the built-ins and members not covered by "
          "a no-hazard theorem the verdict comes from the exhaustive sanitizer run (testing), with every crash either a listed "
          "known finding (construct + crash class + witness; none is open for C01 after the repair rounds) or a violation. Stack/heap exhaustion is outside the property's "
          "domain (bounded nesting / sizes in the generators). The parser itself is not modelled here (C12/C13 model it): "
          "malformed text is covered by mutation testing only."),
    technique="Lean 4 no-hazard theorems (all operators, 18 built-ins, expression trees) + exhaustive construct x operand-class sanitizer run + token-level text mutation")

CHECKS["C19"] = dict(
    category="proof",
    text=("Lean 4 proof about a transcription of apps/main.cpp, main_options.cpp, cli_parser.cpp (statement loop), read_file.cpp: "
          "exit_zero_iff_success (every library outcome x every output selection, and at the level of main for every argv), "
          "stdout_eq_library_output (selected output = library output ++ rendering of the returned value; --out leaves stdout empty), "
          "arg_table_faithful (argv = options ++ file :: args for every argv; $ARG = args in order), stderr_class, expr_mode_contract, "
          "interactive_eq_batch_partial (declarations first, no unhandled error, no top-level return => same final state as batch), "
          "with the negations at the recorded witnesses (returned table/bytes not printed; interactive mode continues after return; "
          "function redefinition). The parser is a parameter of the model. Tie to the code: 1000 (quick) process runs of the REAL "
          "sanitizer-built executable compared with the in-process library probe and the model: exit status, stdout bytes, stderr class "
          "and position, --out file, interactive transcript; argument vectors with blanks/quotes/UTF-8/leading '-'/empty/3000-byte words."),
    design_ref="DESIGN.md §6 C19, notes/NOTES-C19.md",
    note=("Trusted: Lean kernel; the subprocess plumbing of vlib/props/c19.py; parser verdicts are inputs of the model (from the generator's "
          "AST and the probe). Normalised, not modelled: readline echo, Elapsed figure, version line, message texts, deferred output of a "
          "failing print in -i. Not covered: CLI commands other than exit, --debug/--color output, a tty."),
    technique="Lean 4 proof of the decision logic + process-level three-way differential test")

CHECKS["C12"] = dict(
    category="proof",
    text=("Lean 4 model of the BLOC parser (token stream of the C13 scanner -> parse trees keeping the `enc` flag; nine precedence "
          "levels, literals incl. std::stoull/strtod, the whole statement grammar) and a byte-exact model of every unparse function; "
          "theorems (BlocV.Proofs.C12): parse o unparse = norm on every well-formed tree of the operator core (all 25 operators, "
          "variables, literals, parentheses) at every precedence level and for assignment statements (also chained), literal and "
          "integer round trips for all strings the parser can build / all non-negative integers, unparse o norm = unparse and "
          "translate o norm = translate for all node kinds (fixpoint, behaviour preserved); the full property is FALSE on this tree: "
          "%.16g is not injective and two further regions (wrapped integer literals, fused print items) are "
          "witnessed by proved negations and recorded as known findings; DO statements round-trip since the repair of "
          "DOStatement::unparse (stmt_do_roundtrip, stmt_do_fixpoint). Tied to /repo by comparing, for generated programs over "
          "the full grammar (every operator pair x parenthesis shape, all literal forms, chained statements, nested blocks, typed "
          "functions, exception clauses), Executable::unparse with the model byte for byte, re-parsing the text in a twin context, "
          "running both and comparing results, output, dumps and the second unparse."),
    design_ref="DESIGN.md §6 C12, notes/NOTES-C12.md",
    note=("Trusted: Lean kernel; theorems are on token lists — that unparse text scans to those tokens is evaluated through the C13 "
          "lexer model on every case, not proved; type/symbol checks of the C++ parser are outside the model (domain = accepted "
          "programs); calls/members/items and non-assignment statements are covered by the correspondence only."),
    technique="Lean 4 proof (recursive-descent parser inverts unparse on the operator core) + unparse/reparse/rerun correspondence")

CHECKS["C14"] = dict(
    category="proof",
    text=("PARTIAL: proof of schedule-independence OF A MODEL at statement granularity + threaded differential test; the C++ "
          "memory model is outside. Lean 4 model (BlocV.Model.World) of several contexts in one process: shared immutable "
          "executables, the shared MUTABLE cells enumerated from the source on every run by extract/shared.py (every `mutable` "
          "member / non-const static; a new one breaks all_shared_cells_classified), per-context state = the interpreter state of "
          "Model/Interp.lean; operations compile/start/step/clone/purge/free. Theorems (BlocV.Proofs.C14): clone_copies; footprint "
          "and reads_footprint (an operation writes only its context + {_level, error record} and reads no shared "
          "mutable cell); steps_commute; interleaving_eq_sequential for EVERY schedule of any number of contexts; "
          "purge_free_independent; shared_writes_benign (constant cells never written, citing C05.eval_frame; all writers of a "
          "node's _level write the same value provided every exec stack is empty between runs); error_record_is_last_writer "
          "(negative); what_buffer_is_thread_local / what_buffer_private / handler_found_under_every_schedule (since the repair of "
          "Error::what: the buffer is listed by the extractor as per-thread state; losing `thread_local` brings it back into the "
          "shared list and breaks the obligation); 37 theorems. Tied to /repo by harness/thrprobe.cpp: scripts of clone/run/purge/free with 2..8 clones on std::threads vs "
          "the same script sequentially vs World.apply under a random interleaving, per-context results, outputs (own fd per "
          "clone) and all variables compared; thorough tier adds a ThreadSanitizer build whose every report is classified by its "
          "site pair against the recorded findings."),
    design_ref="DESIGN.md §6 C14, notes/NOTES-C14.md",
    note=("Full property is FALSE on the tree: data races on Statement::_level, the process-wide error record, the RNG statics, "
          "_type_volatile — recorded known findings; repaired after being found by this check: two lifetime defects (137dbae, "
          "4769647) and Error::what's shared static buffer (a handled user exception could miss its handler). Thread interleavings are sampled, not enumerated. Trusted: Lean "
          "kernel; extract/shared.py's regex listing; thrprobe; ThreadSanitizer for unlisted races on executed paths."),
    technique="Lean 4 proof (commutation + induction on schedules over an extracted shared-cell footprint) + threaded differential testing under ASan/TSan")

CHECKS["C09"] = {
  "category": "proof",
  "text": "Lean 4: value-level model of at/put/insert/delete/concat/count/set@/@N/tab/tup (Model/Members.lean, transcribed from "
          "blocc/member/*.cpp, builtin_tab/tup.cpp, expression_item.cpp, statement_forall.cpp) against the list specification "
          "(Spec/Containers.lean: uniformity with tuples compared by declaration). Theorems: uniform_preserved_partial (induction over "
          "every operation sequence; hypotheses: declarations in play hash injectively, no call in the level-mixing region), "
          "at/delete/put/insert/str_at/item index contracts for every position value, tuple_structure_fixed, "
          "forall_visits_once_in_order, forall_length_fixed, make_type_collision and the negations at the recorded witnesses. "
          "Correspondence: 35k member × receiver × argument × position cases under static and opaque typing, operation sequences, "
          "forall programs, under ASan/UBSan, compared with model and spec.",
  "note": "partial: the full statement is false on the pinned tree (C09.tuple.hashCollision, C09.tuple.hashZero, C09.mix.level, "
          "recorded; the four null-element dereferences of put/insert/concat/set@ were repaired: mix_null_stores_null, table_methods_no_hazard); value refinement of put/insert/concat and forall at statement level are "
          "checked by correspondence only.",
  "technique": "interactive theorem proving (Lean 4 core) + exhaustive lattice differential testing against the executable model",
}

CHECKS["C15"] = {
  "category": "proof",
  "text": "Lean 4 handle state machine of blocc/bloc_capi.h (contexts, clones, symbols, values with caller/library ownership, "
          "expressions, executables, process-wide error record, per-context epochs). Proved for ALL call sequences of the model: "
          "library_pointer_stable (a pointer handed out at epoch e denotes the same unmodified variable cell in every later state "
          "whose epoch is still e), error_record_contract (a failing call leaves exactly its code in bloc_errno/strerror; "
          "successful non-parse calls do not touch it; successful parses clear it), accessor_contract (all eight accessors: succeeds iff the type "
          "matches, data NULL iff null — full since the repair of bloc_literal/bloc_tabchar on null values), api_script_agree (both directions), "
          "context_reusable_after_error (rejected text / failing run). Tie to the code: differential run of state-machine call "
          "sequences (<=40 quick, <=200 thorough) through the real C API only, under ASan+UBSan+LSan, every call's result, "
          "out-parameters, re-read library pointers and errno/strerror compared with the model.",
  "note": "PARTIAL. Memory reclamation is NOT modelled: 'no memory remains' is LeakSanitizer's verdict on the generated sequences "
          "and on every truncation of 7 programs, not a theorem. 8 findings open (errno 0 on EOF, store "
          "nulls scalar sources, item pointers dangle after store, use-after-free when an executable/clone holding a function outlives "
          "the declaring context's purge/free, 4 leak sites in parser error paths); 3 repaired (the two accessor null dereferences, "
          "the callee-context leak when an argument raises). Rejected texts come from a catalog inside the model; the "
          "parser is not modelled here. bloc_break from a second thread, trace and plugins are outside.",
  "technique": "Lean theorems over a transcribed state machine (case analysis over 38 ops + invariant by induction on sequences) "
               "+ model-based differential testing with sanitizers; leak attribution by allocation call-site signature",
}
CHECKS["C15"].setdefault("design_ref", "DESIGN.md §6 C15, notes/NOTES-C15.md")
CHECKS["C15"]["text"] += (" Added after the seeded-mutation round: assign-then-read families (a library-owned variable changed through "
                          "bloc_assign_* and then only read by scripts keeps value and type) and failing FUNCTION declarations in the "
                          "rejected-text catalog (no function is left behind, also right after a successful redefinition).")

CHECKS["C16"] = {
  "category": "proof",
  "text": "Lean model of PluginManager (loaded modules, granted names), the trusted flag (clone, child shells, purge) and the compile-time tests of constructor calls, import and include; theorem object_implies_granted: invariant over ALL host-operation histories (unban, clear, new/trust/clone/free/purge context, compile any program in any context, run any executable in any context), for every loader; corollary for histories without a trusted context (C API); path_import_refused, include_refused, trusted_unrestricted, ctor_everywhere. Tie to the code: complete enumeration of 5 940 permission configurations through the C++ classes and the C API against the model, plus the property evaluated directly on the library's answers.",
  "note": "run-time constructor failures and function arity are not modelled; import of a non-granted module by NAME is accepted by the code (the library is loaded, no object can be made) - outside the property.",
  "technique": "inductive invariant over operation histories (Lean 4) + exhaustive differential enumeration with a verification-only plugin"}
CHECKS["C17"] = {
  "category": "proof",
  "text": "Lean model of the bloc::Complex reference counter, operation by operation (factory, copy/move ctor, destructor, operator=, both swaps) with C-level hazards as outcomes; theorems over ALL operation sequences: refs_eq_live_handles, destroy_at_most_once, destroy_at_zero_only, no_leak_at_quiescence (handle level), no_dangling_counter; store-level operations and a small object language expressed through the handle operations. Tie to the code: every well-formed handle-operation sequence up to length 4/5 on real handles, and random programs (variables, tables, functions, loops, error exits, clones, purge) against the event log of a verification-only module under ASan: constructor/method events and arguments exact, destroy at most once, within [model's earliest release, release of the last context involved], exactly once at quiescence.",
  "note": "the createEnv path on which an argument raises leaked the callee context: repaired, and no_leak_at_quiescence_ctx is now proved for every store-level history (ownership invariant); program-level no-leak of generated BLOC programs is a correspondence result; temp-pool slot reuse is bounded, not modelled; one recorded defect open (null dereference on a moved-from handle, not script-reachable), one repaired earlier (use-after-free when a clone outlives its origin).",
  "technique": "invariant over operation sequences (Lean 4) + bounded-exhaustive and random model-based testing with an instrumented plugin under AddressSanitizer"}

CHECKS["C11"] = dict(
    category="proof",
    text=("Lean 4 model of what one parse does to the context, as a machine over events (registerSymbol with its backup list, "
          "FOR/FORALL/IF/WHILE/BEGIN clause entry and both exits with the safety/lock flags and the exec stack, createOrReplace/"
          "rollback of function declarations, the catch-block unwinding, parsingEnd's reverse-order restore loop); theorems "
          "(BlocV.Proofs.C11) for EVERY event sequence, EVERY context, EVERY structure hash: parsingEnd_restores, "
          "clause_flags_restored, reject_restores_symbols (names, types, decls, flags, exec depth, parsing flag of everything "
          "pre-existing), accept_keeps_flags, reject_restores_functions_partial (texts that do not COMPLETE a redefinition of a pre-existing (name, arity) before "
          "their error; failed redefinitions anywhere in the table are rolled back: failed_redefinition_rolled_back_not_last / "
          "_after_new, null_tuple_symbol_restored — positive since the two fix: commits), context_usable_after_reject; the full "
          "function clause is still FALSE on this tree: negation proved at the complete-redefinition witness — one recorded known "
          "finding. Tied to /repo by "
          "snapshotting the context at every reader call of Parser::parse / parseStatement on one-token-per-line texts: every "
          "observed snapshot must be explained as a model event, the context after a rejected text must equal the model's and, "
          "outside the finding regions, the context before (values, flags, function identities included); texts truncated and "
          "corrupted (drop/duplicate/replace) at EVERY token position through library, C API and interactive path; probe programs "
          "in the disturbed context vs an undisturbed twin."),
    design_ref="DESIGN.md §6 C11, notes/NOTES-C11.md",
    note=("Trusted: Lean kernel; the event vocabulary and the guards of clause entry come from reading the five parse_clause "
          "functions, tied only by the trace correspondence; effects between the last reader call and the error are seen only "
          "through the final dump (one trailing registration is reconstructed); function identity = Functor address within a case."),
    technique="proof + trace-refinement correspondence (model-explained snapshots) + differential twin runs",
)

CHECKS["C16"]["text"] += (" Added after the seeded-mutation round: the default constructor name() (separate early-return path of the "
                          "parser), a module granted twice, and a final phase of EVERY history in which the host clears the permissions "
                          "and a brand-new untrusted context attempts the constructor (must be refused whatever happened before).")
CHECKS["C17"]["text"] += (" Added after the seeded-mutation round, evaluated directly on the verification modules' event log: method calls "
                          "compiled for one module whose run-time receiver belongs to the other module (5 program shapes x 4 methods x both "
                          "directions) and one object referenced by 65535..70000 table elements (counter width).")
CHECKS["C19"]["text"] += (" Added after the seeded-mutation round: programs whose source lines are 1000..3100 bytes long (string literals across "
                          "the reader's 1023-byte pieces) through file, stdin and CRLF form.")
CHECKS["C18"]["text"] += " utf8: inserting an object into itself (the plugin hands the receiver's own storage) is compared with inserting an equal copy."

NOT_YET = {}
for _k, _c in CHECKS.items():
    _c.setdefault("design_ref", "DESIGN.md §6 %s" % _k)
    _c.setdefault("note", "")
    _c.setdefault("technique", "Lean 4 proof + differential correspondence")


ALL = ["C%02d" % i for i in range(1, 20)]


def main():
    hooks = subprocess.run(["git", "-C", "/repo", "log", "--format=%H %s"], stdout=subprocess.PIPE, text=True).stdout.split("\n")
    hook_commits = [l.split(" ", 1)[0] for l in hooks if "verif hook" in l]
    m = {
        "version": 1,
        "setup_cmd": "./setup.sh",
        "hooks": {
            "guard": "BLOC_VERIF",
            "enable": "-DBLOC_VERIF added to CMAKE_CXX_FLAGS/CMAKE_C_FLAGS by vlib/build.py (scratch build under /var/tmp/blocv-cache, never in /repo)",
            "baseline_off_cmd": "./scripts/baseline_off.sh",
            "source_commits": hook_commits,
            "add_only": True,
        },
        "engines": [
            {"name": "lean-proofs", "path": "lean/BlocV/Proofs", "serves_properties": sorted(CHECKS),
             "kind_free_text": "Lean 4 theorems about the hand-written model (lean/BlocV/Model) against the spec (lean/BlocV/Spec); lake build + #print axioms audit + forbidden-token scan on every run; leanchecker in the thorough tier"},
            {"name": "blocv-driver", "path": "lean/Main.lean", "serves_properties": sorted(CHECKS),
             "kind_free_text": "compiled Lean executable running Model and Spec on the case lines"},
            {"name": "blocprobe-harness", "path": "harness/blocprobe.cpp", "serves_properties": sorted(CHECKS),
             "kind_free_text": "C++ probe linked against a fresh ASan+UBSan build of /repo's working tree with -DBLOC_VERIF"},
            {"name": "extractors", "path": "extract/gen.py", "serves_properties": sorted(CHECKS),
             "kind_free_text": "regenerates lean/BlocV/Gen/*.lean (error codes, throwables, keywords, constants) from /repo's sources on every run"},
        ],
        "checks": [],
        "notes": "See DESIGN.md. known_findings.json lists recorded and fixed defects.",
        "not_applicable": [],
    }
    for pid in ALL:
        if pid in CHECKS:
            c = CHECKS[pid]
            m["checks"].append({
                "property_id": pid,
                "quick_cmd": "./check %s --tier quick" % pid,
                "thorough_cmd": "./check %s --tier thorough" % pid,
                "evidence_file": "evidence/%s.json" % pid,
                "replay_cmd_template": "./check %s --replay {path}" % pid,
                "engine": "lean-proofs",
                "level_claimed": {"category": c["category"], "text": c["text"], "design_ref": c["design_ref"]},
                "level_note": c["note"],
                "technique": c["technique"],
            })
        else:
            m["not_applicable"].append({"property_id": pid, "reason": NOT_YET.get(pid, "not claimed yet: the Lean model/theorems and the correspondence stream for this property are still being built (see DESIGN.md §10 order of work)")})
    json.dump(m, open(os.path.join(HERE, "MANIFEST.json"), "w"), indent=1)


if __name__ == "__main__":
    main()
