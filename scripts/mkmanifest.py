#!/usr/bin/env python3
"""Regenerates MANIFEST.json from the table below (kept valid against /root/.vp/MANIFEST.schema.json).
Theorem counts are `coverage.obligations` of evidence/Cnn.json (the evidence files are the authority)."""
import json
import os
import subprocess

HERE = os.path.dirname(os.path.dirname(os.path.abspath(__file__)))

TRUST = "Trusted: Lean kernel (axioms propext, Classical.choice, Quot.sound only; audited per theorem on every run)"

CHECKS = {}

CHECKS["C01"] = dict(
    category="proof",
    text=("C-level hazards are OUTCOMES of the Lean model, not things it cannot do (producible today: null dereference of a typed "
          "accessor, signed overflow, out-of-range double->integer cast, out-of-bounds access; the constructors for division overflow, "
          "shift range, foreign exception and divergence are dead since the repairs in /repo). Theorems "
          "(BlocV.Proofs.C01, 24): evalUn_no_hazard / evalBin_no_hazard (every operator, EVERY pair of values, both aliasing flags), "
          "pure_no_hazard, evalBuiltin_no_hazard (all 53 modelled built-ins, all argument lists), int_of_decimal_no_hazard; round 3 — "
          "the WHOLE interpreter model by mutual induction over its eight functions (Hoare-style predicate NH, state invariant WfSt: "
          "deep table levels, tuple lengths, iterator index < table size, distinct iterator names): exec_no_hazard_partial, "
          "eval_no_hazard_partial, run_no_hazard_partial — every Expr / Stmt constructor, every fuel, depth and budget, for code the "
          "parser's forall lock accepts: the only hazard left is signedOverflow of substr / subraw on a string of >= 2^63 bytes (no "
          "state invariant excludes 63 doublings; not reachable in a process); exec_no_hazard / run_no_hazard (no hazard at all for "
          "programs without those two calls); builtins_in_interp_no_hazard; lock_hypothesis_needed (without the parser's refusal the "
          "model reaches oob); and for TEXTS: elab_wf, text_no_hazard_partial (EVERY byte list, every fuel, no hypothesis: reader + "
          "scanner + parser + elaboration + compile pass + lock + run end in a rejection, `unsupported`, a value, a BLOC error or out "
          "of fuel), text_no_hazard. Tie: EVERY built-in (generated keyword list) x arity x operand class (boundary values AND every "
          "null always kept) x operand source, every operator and member, programs mutated at every token position + byte edits "
          "under ASan+UBSan+float-cast-overflow through Parser::parse, the C API and the statement-at-a-time path; families session, "
          "self, parse-time-eval (expressions the PARSER evaluates: include / import paths, trusted and untrusted), fe (the mutated "
          "texts also through the model front end: a model hazard is a violation, outcome classes must agree; ~11k texts), lock (22 "
          "forall bodies, one unit and statement by statement). ~153k cases."),
    design_ref="DESIGN.md §6 C01, §11, §12, §13, notes/NOTES-p0102.md, notes/NOTES-C10.md, notes/NOTES-C01X.md, notes/NOTES-C01X2.md, notes/AUDIT-session3.md",
    note=(TRUST + "; sanitizers as the oracle for undefined behaviour. The whole-program theorems are about the MODEL: its tie to "
          "the C++ is the differential run (for built-ins and members the exhaustive sanitizer run decides, every crash either a "
          "listed finding — none open under C01; the use-after-free through a held element reference is recorded under C05 — or a "
          "violation). text_no_hazard is about the batch runner (the statement-at-a-time runner has the same lock refusal, tested, no "
          "theorem); the front end leaves out some semantic checks of the C++ parser (function existence / arity, member argument "
          "types): the model then runs texts the library rejects, counted in the evidence; the lock is tested after the compile pass, "
          "so the reported code of a doubly wrong text may differ. Repaired this round: run-time errors of include / import path "
          "expressions escaping the parser (8b0461e, c78eeea). Stack/heap exhaustion is outside the property's domain. The text theorems constrain the `ran` answer of runText (a rejection is a parse-error code and says nothing about the library beyond the fe family's comparison); the parser model no longer produces a foreign-exception outcome (item numbers >= 2^32 follow repair 7b31e38 since the audit)."),
    technique="Lean 4 no-hazard theorems over a hand model (operators, 53 built-ins, the whole interpreter by mutual induction, whole source texts through the model front end) + exhaustive construct x operand-class sanitizer run + token-level text mutation + session histories")

CHECKS["C02"] = dict(
    category="proof",
    text=("Static typing model (Model/Typing.lean + built-in signature tables GENERATED from builtin_*.cpp/.h), a source-text front "
          "end (Model/Elab.lean), the `$` / iterator constraint (Model/Safety.lean) and both compile disciplines (Model/Stepwise.lean). "
          "Round 3 — translator tie for the operators: extract/optypes.py regenerates on every run, from op_*.cpp, "
          "parse_expression.cpp and member_*.cpp, the type() chains, the value() case labels, the assertType calls of every "
          "production and the receiver / value-argument switches of the member methods (Gen/OpTypes.lean, Gen/MemberSigs.lean; a "
          "statement outside its condition language is refused with file:line); Proofs/C02G proves the hand rules EQUAL to the "
          "tables for all types / values: typeBin/typeUn/acceptBin/acceptUn_eq_source, value_case_labels_eq_model_cells, "
          "evalBin_typeerror_iff_not_in_source_table (+ lazy, unary, ordering variants), relational_null_first, "
          "memberReceiver/Lock/Args_eq_source. Also new: the RUN-TIME safety flag as a machine over loop events "
          "(safety_restored_after_loop, dollar_constraint_survives_loops, safety_after_unit) and decidable regions for the recorded "
          "findings: operators (kf_op_region_eq_gap, static_eq_runtime_outside_kf_region) and built-ins (KF.c02BuiltinGap; "
          "builtin_static_eq_runtime_outside_kf_region for the 16 modelled ones). With the earlier bin_type_sound(_static_partial), "
          "expr_type_sound_partial, safety_preserves_major(_partial), stepwise_eq_batch_partial, src_roundtrip_* : 57 theorems. Tie: "
          "static vs run-time type node by node (Expression::type() is compared with the model; a mismatch of an operator or a "
          "built-in is tolerated only inside the region the driver names); gen-binop / gen-unop / gen-member / gen-member-arg (~14.7k: library vs regenerated table vs "
          "hand model; when a C02G theorem stops checking the report names it and an exhaustive operator x operand-class matrix "
          "searches the failing input); safety-loops (867: `$` variables and iterators x loop shapes x exit routes x later units x "
          "three paths; flags of every symbol compared after every unit); source texts run by model and library (fe, fe-mut, "
          "fe-tables, fe-safety, fe-iter, fe-forall, fe-store, fe-dead, fe-hand); one unit vs statement-at-a-time. ~51k cases."),
    design_ref="DESIGN.md §6 C02, §11, §12, §13, notes/NOTES-p0102.md, notes/NOTES-C02FE.md, notes/NOTES-GENOPS.md, notes/NOTES-C02R3.md, notes/NOTES-C02R4.md, notes/AUDIT-session3.md",
    note=(TRUST + ", extract/sigs.py, extract/optypes.py (its reading of the source is tied to the compiled code by the gen-* "
          "families; a semantically neutral rewrite of the source can break the tie without a failing input — it did once, on our "
          "own repair 565b1e8). Still hand-transcribed: typeChecking / assertTypeUniform, the collection branch of member arguments, "
          "set@, complex. The flag machine is driven by event traces the generator knows by construction, not derived from the "
          "interpreter model's own run. The full statement is FALSE on this tree: 20 recorded findings by operator / built-in cell "
          "(each with a decidable region: exact by theorem for the operators, for the built-ins by theorem on the 16 modelled ones and by "
          "source reading + families for the ten math ones), C02.safety_table_major_changes, "
          "C02.stepwise_dead_branch_typed_from_value. Sentence 2 of the property (one unit = statement by statement) and the run-time "
          "half of sentence 3 are decided by the differential families (every program both ways), NOT by a theorem: "
          "stepwise_eq_batch_partial is extensionality of the typing function and mentions neither runner; expr_type_sound_partial "
          "stops at operators and assumes StoreOk, which is not shown preserved by execution; the front end has no symbol table of its own and answers `unsupported` for some constructs."),
    technique="generated typing and operator tables (translator tie) + Lean 4 proof over a hand model (hand rules = generated tables; type soundness with exact gap regions; flag machine) + source-text front end run against the library + exhaustive static/dynamic type comparison")

CHECKS["C03"] = dict(
    category="proof",
    text=("Lean 4 theorems (BlocV.Proofs.C03, 34) prove, for ALL Int64 operands, that the model of op_add/sub/mul/neg/"
          "div/mod/exp/pop/pus/and/ior/xor equals the mathematical specification of the manual (exact result mod 2^64, "
          "truncating / and % with DIVIDE_BY_ZERO and defined at MIN/-1, zero-fill shifts with reversal and >=64 -> 0, exact "
          "power by squaring, & | ^ ~ bitwise on all 64 bits; int_ops_total / integer_is_integer / evalBin_int connect them to "
          "what evalBin executes); mixed_is_decimal (an operation with a decimal operand yields a decimal, all values); "
          "int_of_decimal_spec: for ALL 2^64 bit patterns int(decimal) succeeds exactly when the double's exact value "
          "(Spec/Float.lean: scaled integer / 2^1074) truncates into [-2^63, 2^63), returns that truncation, OUT_OF_RANGE "
          "otherwise (NaN/inf never succeed). The model is tied to /repo on every run by an exhaustive lattice^2 + seeded random differential "
          "run of the rebuilt library (ASan+UBSan) against the compiled Lean model, bit-exact also for decimals and int(decimal); ~78k cases. "
          "Unchanged in round 2 (a seeded NaN-passing range guard of int() was caught at first trial)."),
    design_ref="DESIGN.md §6 C03, §11, notes/NOTES-p0305.md",
    note=(TRUST + ", the hand-written model's correspondence to the C++ is *tested* (exhaustive over the boundary lattice, sampled "
          "elsewhere), IEEE-754 + - * / pow are the platform's (executed bit-exactly on both sides, not proved)."),
    technique="Lean 4 proof over a hand model + differential correspondence (lattice-exhaustive)")

CHECKS["C04"] = dict(
    category="proof",
    text=("Lean 4 theorems (BlocV.Proofs.C04, 14): for every operand the parser admits to a logical operator (true, false, "
          "untyped null, boolean-typed null — any minor) AND/OR/XOR/NOT equal Kleene's tables, are symmetric, and their "
          "truth value is independent of the type carried by the null; all six relational operators return null when "
          "either operand is null, for ALL values; a null or false condition takes the false branch of if / ends while at "
          "statement level (if_null_condition_takes_false_branch, while_null_condition_ends); null_literal_stable. Tied to /repo by a complete "
          "enumeration of operand class x provenance (variable, constant, constructor, function result, table element, "
          "tuple item) x operator, each expression evaluated five times per program (twice in a loop, as an if and a while condition), "
          "with deep variable dumps; round 2 added `flocal` (the null is an unassigned typed local of a function, the expression "
          "evaluated 5x inside it, the function called three times: recycled call contexts) and `litnull` (the constants null, \"\", "
          "raw(), str(), bool(), int() as receiver of every member method / argument of value-returning built-ins, the same node "
          "evaluated three times in a loop: equal results, `null` still null). ~16k cases."),
    design_ref="DESIGN.md §6 C04, §11, §12, notes/AUDIT-session3.md",
    note=(TRUST + "; model-to-code correspondence is tested (complete over the stated finite product); the "
          "storage-level half (constant cells are never overwritten) is C05's frame theorem, here observed through dumps; the "
          "`litnull` family is implementation-only (equal results on re-evaluation): it raised the first alarm for the in-place "
          "member writing through a handed-through operand (876bec0) and replays the witness of a40085e on every run. null_literal_stable is a value-level statement (a literal carries its value): that the constant CELL is never overwritten is C05's theorem for operators and the litnull family's observation beyond them."),
    technique="Lean 4 proof over a hand model (finite case split lifted to all values) + complete provenance enumeration, repeated evaluation")

CHECKS["C05"] = dict(
    category="proof",
    text=("Two Lean 4 storage-level models. Model/Store.lean, the round-1 model of operator expressions only (cells with the LVALUE "
          "flag, Pool::keep, LVAL1/LVAL2, storeVariable): eval_frame, eval_refines, eval_pool_discipline, eval_twice_equal, "
          "assign_copies, assign_independent — the driver no longer executes it. Model/StoreX.lean, the EXECUTED one: locations (root, path) into containers, at / @N "
          "returning the element itself, in-place members with MemberExpression::receiver() / isStorage, tab / tup, assignment, user "
          "calls, a write log; round 3: built-in calls (XExpr.bi) with a placement table for the 17 built-ins of arity >= 2 (LVAL2 / "
          "LVAL1 / hand-through / fresh, read off each value()). "
          "Theorems (BlocV.Proofs.C05, 45): evalX_frame (under the flag invariant every variable slot / constant node NOT in the "
          "log is untouched as a whole cell; ALL expressions incl. built-in calls), flagInvX_preserved, later_ops_leave_others, "
          "assign_var_copies, storage_root, inplace_only_through_storage, const_receiver_cloned, passthrough_cloned; static "
          "footprint: evalX_logs (dynamic log within fpE), evalX_frame_static, storage_not_cst, recv_root_in; NEW "
          "reuse_only_temporaries (every placement combinator in use, every list of argument cells: variables and constants are "
          "identical afterwards, nothing logged — false for a seeded merged combinator), operator_reuse_only_temporaries (the same for "
          "the operators on element cells), builtin_call_frame, evalX_ppool, placement_flag_sound (the returned cell is flagged IFF "
          "its root is a variable slot or constant node); dangling_witness (negative). Tie: node dumps x3 evaluations; driver c05x per step (outcome, values, flags); families inplace, "
          "element / constant receivers and reads, construct, alias_sequence, dangling, arg_forms (892), "
          "iterator_assign_then_read, builtin_passthrough, builtin_arg_sources (1058: EVERY built-in with >= 2 argument slots — "
          "names read from the generated signature table — x every pattern of argument sources {variable, element, item, "
          "constant, operator temporary, call temporary}; the statement parsed once and run 3x so that a clobbered constant node "
          "is re-read; model comparison + the property on the library alone), operator_arg_sources (1259: all operators x type "
          "pairs x 19 source patterns, both orders), result_flag (3502 expressions: flag of the RESULT cell via probe op exprf); "
          "random alias programs vs Model/Interp. ~25.6k cases."),
    design_ref="DESIGN.md §6 C05, §11, §12, §13, notes/NOTES-p0305.md, notes/NOTES-C05.md, notes/NOTES-SEEDS3.md, notes/NOTES-C05R4.md, notes/AUDIT-session3.md",
    note=(TRUST + "; the placement tables (operators, members, built-ins) are transcribed by hand and their observable "
          "consequences tested (hand-through vs LVAL1, which differ only in the flag of the RESULT cell, through result_flag); the model "
          "evaluates every argument before the built-in looks at any (the C++ skips later arguments in some null branches: "
          "unobservable for effect-free arguments, which is what is generated); input / read write into their first argument by "
          "design and are outside. Refinement to the value level and re-evaluation equality are proved for operator expressions "
          "only — and those theorems (eval_refines, eval_twice_equal, …) are about Model/Store.lean, which the driver no longer runs; "
          "StoreX subsumes it for frames, not for the refinement; exprf re-parses, so it ties the flag, not re-evaluation; forall is "
          "not in the storage model; the literal-null clause at storage level beyond operators is decided by the families. Open finding C05.dangling_element_reference."),
    technique="Lean 4 proof (frame, flag-invariant, footprint and placement theorems over a storage-level hand model; one induction on fuel via a preservation predicate closed under bind) + dump-based differential correspondence per step")

CHECKS["C06"] = dict(
    category="proof",
    text=("Lean 4 interpreter model (Model/Interp.lean: statements, forLoop / whileLoop / forallLoop transcribing FOR/WHILE/"
          "FORALLStatement::doit, forall iterators as pointers into the traversed table, blocks, signals; round 2: the compile-time "
          "lock of a traversed table — lockProgram = what Parser::parse accepts while names are locked — and chained in-place "
          "receivers). Theorems (BlocV.Proofs.C06, 50): exec_for_visits — `for` runs its body exactly over Spec.forRange for ALL "
          "Int64 first/limit/step and the three directions (no wrap-around at INT64_MAX/MIN), forRange_closed_form/length, "
          "exec_for_terminates, null header => zero iterations, step < 1 => OUT_OF_RANGE; for_body_assignment (body rewrites the "
          "control variable: next = assigned + step while inside the range in the direction, the loop ends right there otherwise, "
          "also in the last partial-step window and at the INT64 edges); exec_forall_var_visits_locked — for every body the parser "
          "accepts under the lock, forall visits exactly forallOrder, once each, in order (the former run-local hypothesis removed "
          "by Lemmas/Lock.lean lock_all, a third mutual induction); locked_code_keeps_table_length; exec_let_through_iterator; "
          "iters_balanced / exec_iters_frames (after ANY statement, block, call or expression, whatever the outcome, the stack of "
          "running forall loops is what it was); statement_output_only_grows; forLoop_null_iterator. Tie: exhaustive for-header "
          "lattice, forall families (sizes 0..4 and null x direction x source x read / write / break / continue / raise / return at "
          "each index; nested), bounded-exhaustive nestings x exits, for-assign (2067: step x direction x range x assigned value x "
          "position), lock (313 programs, perr 32 exactly when lockProgram refuses), random structured programs; printed "
          "sequences, variables, control/exec depth and constraint flags compared. ~5.7k programs."),
    design_ref="DESIGN.md §6 C06, §11, §12, notes/NOTES-p0608.md, notes/NOTES-INT.md, notes/AUDIT-session3.md",
    note=(TRUST + "; the interpreter model evaluates over values (C05 links it to the storage discipline); correspondence tested. "
          "`every iteration ends normally or with continue` stays a run-local hypothesis of the visiting theorems; forall over a "
          "TEMPORARY is covered by the correspondence, its statement-level theorem is for a variable source; element receivers "
          "(ts.at(0).concat(x)) are not in this model (C05's StoreX has them) and not generated. The one finding (a body nulling the "
          "control variable) was repaired in round 1. The `ctl unchanged` conjunct of statement_output_only_grows is vacuous for program runs (exec never writes St.ctl: for / while are recursion in the model); break / continue scoping in nested loops beyond the frame theorems is decided by the nesting families."),
    technique="Lean 4 proof over an interpreter hand model (loop theorems vs Spec.forRange / forallOrder, control-stack balance and table lock by mutual inductions) + program-level differential correspondence")

CHECKS["C07"] = dict(
    category="proof",
    text=("Lean 4 theorems (BlocV.Proofs.C07, 40) over the interpreter model: catchable set generated from RuntimeError::THROWABLES; "
          "the FIRST matching clause of the nearest block runs from the state the error left, with the error saved as the context's "
          "record (handler_selection, handler_sees_its_error); unmatched / uncatchable errors reach the host; "
          "inner_unmatched_reaches_outer, inner_matching_handles, error_in_callee_reaches_callers_block; no_residue_control_stack / "
          "no_residue_after_run, handled_flow_is_handlers_flow, continues_after_handled. Round 2 — the built-in `error` and error@1/@2/@3 "
          "are modelled (name | keyword, message from the GENERATED format table with the what() buffer size, code): "
          "error_of_user_raise, error_of_builtin_throwable, error_of_clear_record, eval_error_item; the record is taken on entry of a "
          "block and restored when a clause ends (repairs 72036d1, 8256736): inner_handled_error_restores_record, "
          "record_kept_without_clauses, inner_block_keeps_enclosing_record, ok_run_keeps_record (full strength: ANY code that ends "
          "without error leaves the record alone; no flatness proviso since the model follows 8256736), "
          "record_restored_after_failed_inner_clause_witness, error_describes_clause_error_at_every_point (after any prefix of a clause body that ended "
          "normally `error` still is the clause's error; Lemmas/ErrRec.lean, two mutual inductions), failed_handler_keeps_record; "
          "output_only_grows / output_before_error_preserved (frame induction over the whole interpreter); the interactive runner "
          "(apps/cli_parser.cpp loop, repaired by 3db7ed2): interactive_statement_outcome, interactive_runner_no_residue. Tie: "
          "nestings x failing operation x handler sets + probe program; errrec (432: failing op x second failing op x clause names x "
          "8 shapes, each followed by a program reading the record); interactive (622 sessions through the probe op istep: outcomes, "
          "output, variables, control depth); source-shape tie on the cli loop. ~3.1k programs."),
    design_ref="DESIGN.md §6 C07, §11, §12, §13, notes/NOTES-p0608.md, notes/NOTES-INT.md, notes/AUDIT-session3.md",
    note=(TRUST + "; exec level and the symbol constraint flags have no counterpart in the value-level model: their state after an "
          "error is observed (dump after every run + probe program), not proved; the probe op istep is a hand copy of the cli loop, "
          "tied by a source-shape check; a top-level forall / return under the interactive runner is unmodelled; C++ unwinding "
          "assumed to run the transcribed catch blocks; exception names longer than 255 bytes not tied. The four findings recorded "
          "by this check in round 2 (record cleared by an inner handler, stale after a failed inner clause, kept in a recycled call "
          "context, control entry left by the interactive runner) are repaired; their theorems are now positive. St.ctl is written only by the interactive runner's own step: program_run_keeps_control_entries, stepTop_no_residue and interactive_runner_no_residue say nothing about for / while entries (recursion in the model) — their residue after an error is OBSERVED through the hook (control depth after every run), not proved."),
    technique="Lean 4 proof over an interpreter hand model (relational frame inductions) + generated-nesting, error-record and interactive-session differential correspondence")

CHECKS["C08"] = dict(
    category="proof",
    text=("Lean 4 theorems (BlocV.Proofs.C08, 22): a call equals finishCall(caller, body run from calleeInit(f, argument values)); "
          "call_independent_of_caller / call_determined_by_argument_values — result, output and callee run depend on the caller "
          "only through the output stream and work budget, for the full callFunc incl. argument evaluation; "
          "call_independent_of_history (any two call histories, failing calls included; full strength since repair e310d98); "
          "callee_cannot_modify_caller (incl. the caller's error record), caller_untouched; locals_start_unset; "
          "argument_bound_by_value_all; overload_by_arity, overloads_coexist; failing_argument_fails_call; recursion_limit (constant "
          "generated from functor_manager.h), recursion_limit_exact, direct_recursion_stops_at_limit; round 3: "
          "runaway_cycle_stops_at_limit (ANY cycle of functions — direct, mutual, longer — bound in any table, any exception "
          "clauses, any entry depth d, any caller state: exactly RECURSION_LIMIT - d levels run, then the error; nothing of a "
          "deeper level runs) and recursion_limit_any_history (after ANY statement list run before — finished recursions, failed "
          "calls, at the limit or not — a call at the limit fails at once with the caller's state untouched, and a runaway cycle "
          "runs exactly as from a fresh state). Tie: the same probe call after generated call histories (conditionally assigned / "
          "re-typed locals, recursion to the limit, mutual recursion, failing calls, overloads, self-calling arguments); "
          "errrec-history (294), end-forms (a function ending in 12 ways, ordered pairs, histories, through a caller), "
          "depth-history, receiver-forms; round 3: reclimit-after-cache (168 two-program cases: 12 histories that fill or "
          "exhaust the pools of recycled call contexts x 7 wrapper depths x direct / mutual; model comparison AND a model-free "
          "oracle: exactly 255 - k chain lines, the same for every history). ~1.9k programs."),
    design_ref="DESIGN.md §6 C08, §11, §12, §13, notes/NOTES-p0608.md, notes/NOTES-INT.md, notes/NOTES-SEEDS3.md, notes/AUDIT-session3.md",
    note=(TRUST + "; the model creates a fresh callee state per call and has no pool of contexts, the C++ recycles contexts and "
          "resets them (b7b8574, e310d98): their equivalence — incl. the depth test being independent of the pool — is exactly what "
          "the history families test. random()/stdin are documented global inputs and not modelled. A program that declares one "
          "signature twice with a call in between resolves the call differently from the model's collectFuncs (C14's World models "
          "the re-installation; the generators declare each signature once). call_independent_of_history holds by construction (the model keeps no per-function state a history could change): it states the model's shape, the history families test the library against it."),
    technique="Lean 4 proof over an interpreter hand model + call-history differential correspondence")

CHECKS["C09"] = dict(
    category="proof",
    text=("Lean 4 value-level model of at/put/insert/delete/concat/count/set@/@N/tab/tup and of the forall parse-time lock "
          "(Model/Members.lean, transcribed from blocc/member/*.cpp, builtin_tab/tup.cpp, expression_item.cpp, statement_forall.cpp) "
          "proved EQUAL to the list specification (Spec/Containers.lean) for all inputs outside the recorded finding regions. "
          "Theorems (BlocV.Proofs.C09, 80): put_refines, insert_refines, concat_refines, at_delete_count_refine (tables: every "
          "position value x every uniform argument), ops_refine_spec (induction over EVERY operation sequence: each intermediate "
          "receiver is uniform, keeps its header and is the receiver the Spec's list function names), seq_{put,insert,delete,concat}"
          "_refines + raw_at_refines and str/raw/tup_ops_refine_spec (strings, bytes, tuples; sequences), set_refines + item_refines "
          "(1-based), tab_refines, tab_level_bounded (every tab result has 1..254 dimensions: positive since repair 2c67aef), "
          "tup_structure, tup_never_nested (4db32b5), tabFill_stream / tab_varying (element expression changing between "
          "evaluations), handed_through_receiver_unchanged, constant_receiver_unchanged (receiver kinds of "
          "MemberExpression::receiver(), 876bec0 / a40085e), lock_refuses_mutating, locked_body_refused, forall_table_cannot_change, "
          "lockStmt_restores (also for assignment to the traversed table), uniform_preserved_plain, mix_null_stores_null, "
          "table_methods_no_hazard, index contracts, forall_visits_once_in_order; negations at the witnesses of the 3 open findings. "
          "Key lemma classify_fit: the transcribed C++ cascade IS the Spec's fit on exact types. Tie: ~37.6k cases under "
          "ASan/UBSan against model and spec — member x receiver x argument x position lattice under static and opaque typing, "
          "operation sequences, forall programs, lockp (1847 lock programs = members x 13 nestings x receiver root x chain, + "
          "assignment), constructors under opaque typing with level-limit values, receiver kinds (98), random-element tab programs "
          "(48); Spec.canon evaluated on every case."),
    design_ref="DESIGN.md §6 C09, §11, §12, notes/NOTES-C09.md, notes/NOTES-r09.md",
    note=(TRUST + ". The full statement is false on the tree only through C09.mix.level, C09.tuple.hashCollision, "
          "C09.tuple.hashZero (recorded; theorems exclude exactly these regions, KF/C09.lean). The refinement theorems assume "
          "canonical type minors (a hypothesis about the representation, checked on every executed case by the driver, not by a "
          "theorem about a value-constructing interpreter); set/item assume fewer than 2^32-1 items; full uniformity of tab_varying's "
          "result needs injective tuple hashes; forall at statement level is C06's. Correspondence is tested (exhaustive over the "
          "stated lattice)."),
    technique="Lean 4 proof over a hand model (refinement Model = Spec by case analysis of the transcribed cascade against exact types, induction over operation lists and nested forall bodies) + exhaustive small-lattice differential correspondence")

CHECKS["C10"] = dict(
    category="proof",
    text=("Lean 4 model of 53 built-ins as total functions over byte lists with C hazards as outcomes: the string/bytes/conversion "
          "ones (substr family, strpos, replace, trim family, upper/lower, tokenize, strlen, hex, hash, chr, raw, str incl. an exact "
          "%.16g in rational arithmetic, int, Base64) and, since round 2, num / isnum through an exact model of std::stod "
          "(Model/Strtod.lean: decimal / hex / inf / nan grammar, correct rounding, glibc's ERANGE rule `tiny after rounding and "
          "inexact`), bool isnull typeof sign round max min mod atan2 clamp, 15 libm maps, pi ee phi. 66 theorems "
          "(BlocV.Proofs.C10): b64dec_b64enc for ALL byte lists, int_str_roundtrip for every Int64, substr/subraw = Spec.Text.substr "
          "for all strings and ALL Int64 positions/counts, substr_returns_sublist, null in => typed null out, hex/abs/pow/strpos/"
          "replace/trim/hash/tokenize_join contracts, chr / put / concat code range; NEW isnum_iff_num (ALL byte strings, as string "
          "and bytes: isnum true <=> num returns a decimal), isnum_total, num_leading_nul, num_str_roundtrip_partial (±0, ±inf, NaN "
          "and kernel-checked closed instances), num_str_subnormal_fails (negative), sign / max_min / clamp contracts, "
          "mod_eq_operator, bool_isnull_typeof, all_builtins_no_hazard (all 53 x every argument list), strlen / case / trim / "
          "hash_8bit (NUL and bytes >= 0x80 are data). Tie (~49.5k cases, ASan+UBSan; arguments as variables and temporaries, "
          "dumped after the call): short strings x position lattice; num.exhaustive2/3 (every string <= 3 over a 10-character "
          "alphabet, <= 2 over 29), num.grammar, num.boundary (exact midpoints between doubles, subnormal / overflow thresholds), "
          "numstr (num(str(d)) on the double lattice), math1, math2, round2, clamp, conv.types, int.decimal."),
    design_ref="DESIGN.md §6 C10, §11, §12, notes/NOTES-p10.md, notes/NOTES-r10.md, notes/NOTES-C10.md, notes/AUDIT-session3.md",
    note=(TRUST + "; correspondence is tested (exhaustive over the stated alphabets/lattices, sampled beyond). IEEE functions "
          "(libm, fmod, pow) are Lean's Float = the same libm, executed not proved; the correct-rounding theorems of the stod and "
          "%.16g models are missing, so num(str(d)) = d is proved at closed instances and tested on the lattice. Open finding "
          "C10.num.subnormal.erange (num(str(d)) raises OUT_OF_RANGE for subnormals, DBL_MIN, DBL_MAX). `Arguments unchanged` is "
          "vacuous at value level and checked by the dumps. Not modelled: random, read*, input, getsys/getenv, imaginary operands. The no-hazard and returns-a-sublist statements are totality statements about list functions (drop / take cannot read outside): memory safety of the C++ is the sanitizers' verdict in the exhaustive run; values of tokenize / upper / lower / trim / replace beyond the stated contracts are compared, not proved."),
    technique="Lean 4 proof over a hand model (incl. exact strtod / %.16g arithmetic) + differential correspondence (exhaustive short strings x lattice)")

CHECKS["C11"] = dict(
    category="proof",
    text=("Lean 4 model of what a parse does to the context, as a machine over events (registerSymbol with its backup list, "
          "FOR/FORALL/IF/WHILE/BEGIN clause entry and exits with the safety/lock flags and the exec stack, createOrReplace/rollback, "
          "catch-block unwinding, parsingEnd's reverse-order restore; clause entries as written, statement heads by name, HISTORIES "
          "of texts in one context, a session model with the interpreter state); round 3: the journal of function-table changes per "
          "parse (FunctorManager::parsingMark / parsingRevert, repair cbd4980) — St.fmark, St.journal, revertFns, rejectCtx. Theorems "
          "(BlocV.Proofs.C11, 32) for EVERY event sequence / context / structure hash: parsingEnd_restores, clause_flags_restored, "
          "reject_restores_symbols, accept_keeps_flags, context_usable_after_reject; reject_restores_functions at FULL strength (no "
          "hypothesis: after a rejected text the function table is the one the parse started with — names, arities, functor "
          "identities, no entry more; the journal is undone newest first, the wrong order is a counter-example), "
          "reject_restores_functions_statement_level, leftOver_no_function, complete_redefinition_reverted_witness (the former "
          "finding as a positive theorem), later_parse_same_function_table, session_reject_leaves_no_declaration; "
          "for/forall_guard_derived, statement_level_is_id_level, reject_restores_flags_nested, parse_independent_of_fbacked; "
          "later_parse_independent_of_rejected, history_without_rejected(_anywhere), session_history_without_rejected, "
          "reject_then_run_eq_run now for EVERY rejected text (no finding region left); later_parse_depends_on_leftover_names. Tie: "
          "context snapshots at every reader call explained as model events; truncation / corruption at EVERY token through "
          "library, C API and interactive path; twin probes; histories of 2..4 texts with the twin history without the rejected "
          "text, three execution paths, sess; loop heads of the trace = those of the text; the region of the repaired finding is "
          "still generated (~750-1650 single-text cases per path, ~66 histories); a valid text that crashes while it RUNS (call "
          "before redefinition: W.callbefore) is a violation. ~33.5k cases; no known finding."),
    design_ref="DESIGN.md §6 C11, §11, §12, §13, notes/NOTES-C11.md, notes/NOTES-C11FIX.md, notes/AUDIT-session3.md",
    note=(TRUST + "; the event vocabulary comes from reading the five parse_clause functions, tied by the trace correspondence; "
          "`aligned` is a hypothesis kept by every text; the exclusion `T does not mention R's left-overs` is on statement heads in "
          "the model, expression reads are excluded by a token-level test in the check; removing SEVERAL rejected texts at once is "
          "not stated; the call-context cache of a function entry (cleared on replace and on revert) is not in the model: tied by "
          "probe programs under ASan (the clearCache of parsingRevert matters only for a body CALLED at parse time: not generated); "
          "the journal does not nest (no caller parses during a parse on the same root context today); include is not generated by "
          "these families (C01's parse-time-eval and C13's path families read through it); function identity = Functor address "
          "within a case. The run-time half of the session theorems (reject_then_run_eq_run, session_*) is vacuous — Session.submit keeps the run-time state on a reject by definition and the driver re-implements the skip: the parse-context theorems carry the property; variable VALUES after a reject are compared by the families only; reject_restores_functions_partial is full strength under its old name."),
    technique="Lean 4 proof over a hand model (event machine with journal, lift simulation over histories) + trace-refinement correspondence (model-explained snapshots) + differential twin runs",
)

CHECKS["C12"] = dict(
    category="proof",
    text=("Lean 4 model of the BLOC parser (token stream of the C13 scanner -> parse trees keeping the `enc` flag; nine precedence "
          "levels, literals incl. std::stoull and the shared exact std::stod model, the whole statement grammar) and a byte-exact "
          "model of every unparse function. Theorems (BlocV.Proofs.C12, 46): expr_roundtrip — parse o unparse = norm on TOKENS for "
          "every well-formed expression of EVERY node kind (operators, literals, parentheses, built-in / user calls, member calls, "
          "set@, items, argument lists and member chains of any length); print_roundtrip (side condition itemsSep explicit); "
          "stmt_roundtrip (every statement kind incl. if/elsif/else, while, for, forall, begin/exception, function declarations, "
          "nested to any depth), block_roundtrip, program_roundtrip; program_roundtrip_bytes / unparse_fixpoint_program_bytes "
          "(parseText (unparseProgram p) = normP p on BYTES given the one decidable hypothesis hscan: the saved bytes scan to the "
          "token list); parse_fuel_suffices; unparse_fixpoint_program, behaviour_preserved_program (ALL programs: unparse o normP = "
          "unparse; translate o normP = translate on the fragment the translation toProgram covers, `none = none` elsewhere); decimal_roundtrip_iff (a decimal leaf round-trips iff std::stod re-reads its "
          "%.16g text); literal and integer round trips; stmt_do_roundtrip. The full property is FALSE on this tree (%.16g not "
          "injective, wrapped integer literals, fused print items: proved negations, recorded findings). Tie: Executable::unparse "
          "vs the model byte for byte on generated programs over the full grammar (families forms: members, items, set@, forall, "
          "typed declarations…; rdecb: 32 boundary decimal literals; up to 14 nested parentheses), re-parse in a twin, re-run, "
          "second unparse; per case the driver evaluates ptoks (= hscan), prt, wfp, pfix, pfuel, isep. ~3k programs."),
    design_ref="DESIGN.md §6 C12, §11, §12, notes/NOTES-C12.md, notes/NOTES-r12.md, notes/AUDIT-session3.md",
    note=(TRUST + ". NOT proved: that the saved bytes scan to the token lists the theorems speak about (hscan is evaluated through "
          "the C13 lexer model on every case; Lemmas/Scan.lean proves the identifier / punctuation lexemes only); no closed-form "
          "class of decimals satisfying decimal_roundtrip_iff. Type/symbol checks of the C++ parser are outside the model (domain = "
          "accepted programs). Open: C12.decimal_16_digits, C12.wrapped_integer_literal, C12.print_items_fuse. Behaviour preservation rests on the round-trip theorems (same tree => same behaviour) + the re-run of every saved text: behaviour_preserved* are corollaries on the fragment toProgram covers (not members, items, set@, forall, put, trace, typed declarations); the `save` command is not exercised."),
    technique="Lean 4 proof over a hand model (recursive-descent parser inverts unparse: continuation-form induction over precedence levels, member chains, argument lists and blocks; structural fixpoint/behaviour theorems) + unparse/reparse/rerun correspondence with per-case evaluation of the theorem statements")

CHECKS["C13"] = dict(
    category="proof",
    text=("Lean 4 model of the scanner as per-chunk maximal munch over the 28 rules of tokenizer.lex with start conditions, chunking "
          "as tokenizer_buf, reassembly as Parser::next_token; round 3: EVERY reader of source text transcribed call by call "
          "(Model/LexReaders.lean): StringReader (C API, bloc -e), apps ReadFile (bloc FILE, bloc -, load), the private ReadFile of "
          "include, bloc_readstdin and the readline branch of the interactive loop. Theorems (BlocV.Proofs.C13, 34): "
          "lex_line_aligned, pop_line_aligned, fragmentation_independent (chunks ending after a newline: chunked = whole), "
          "lineReader_aligned, CRLF = LF; string/file/includeReader_eq_lineReader, stdinReader / readlineLine_eq_lineSplit, "
          "interactive_readers_agree, *_delivers_every_byte for all six readers (concatenation = text minus CRs, every chunk "
          "non-empty and <= max, every max >= 1), eager_reader_drops_a_byte (a seeded loop shape), readers_same_chunks; "
          "lex_token_aligned_iff — for NUL-free a, b: chunks [a, b] scan like a ++ b IF AND ONLY IF safeSplit a b (decidable without "
          "the chunked scanner: no rule matches across the cut, beginning-of-line rule indifferent): exactly the region where one "
          "cut is harmless; lex_cuts_aligned / pop_cuts_aligned (any number of cuts), unsafe_split_witnesses (15 token classes), "
          "literal_across_chunks / literal_through_reader (a plain literal over any line-aligned chunks, also chunks that are just a "
          "newline, is ONE token with every byte). The full property is FALSE on this tree (proved negations, recorded findings). "
          "Tie: Parser::pop() token streams under every single split, multi-splits, fixed sizes, every reader, LF / CRLF, CR / LF on "
          "the 1023-byte edge; reader_* (every read call of the library vs the model, buffer of exactly max bytes); path_* (164 "
          "programs with a number / identifier / escape / operator / comment on every multiple of 1023, dense and empty-line "
          "texts, through include, C API, both Parser::parse readers, the REAL bloc FILE / bloc - / bloc -i: each must behave like "
          "the library fed with the model's chunks); safe => library = whole-text Spec also inside the finding's region (iff "
          "evaluated on ~77k two-chunk cases per run); rule list, the three read bodies and tokenizer_buf (in tokenizer.lex AND "
          "lex._tokenizer.c) compared with the transcribed text. ~127k cases."),
    design_ref="DESIGN.md §6 C13, §11, §12.3, §13, notes/NOTES-C13.md, notes/NOTES-C13R2.md, notes/NOTES-C13R3.md, notes/AUDIT-session3.md",
    note=(TRUST + "; the flex-generated automaton (lex._tokenizer.c) is compared with the model on token streams, not "
          "translated; the region of the recorded finding is pinned to the recorded 1023-byte chunk (a generated buffer size that "
          "differs makes texts fitting 1023 bytes violations); the converse of lex_cuts_aligned for lists of cuts is not attempted; "
          "literals with escapes over chunks are covered by pop_line_aligned and the families only; bloc -e and the CLI command "
          "load use the same reader classes and are not exercised separately. Observed, not a finding of this property: the "
          "interactive readers do not drop CR. Open: C13.unaligned_chunk_splits_token, C13.nul_truncates_chunk, "
          "C13.reader_drops_lone_cr. fragmentation_independent, lex_cuts_aligned, literal_* hold on their stated regions only (they lack a `_partial` suffix); CRLF = LF does not hold through the stdin / readline readers, which keep CR (no `_fails` theorem states it); escapes split across chunks are decided by the families."),
    technique="Lean 4 proof over a hand model (chunked lexer = whole lexer exactly on safe cuts; every reader delivers every byte) + token-stream, reader-call and execution-path correspondence")

CHECKS["C14"] = dict(
    category="proof",
    text=("PARTIAL: schedule-independence OF A MODEL at statement granularity, the model tied to the interpreter semantics by an "
          "exact theorem, + threaded differential test; the C++ memory model is outside. Lean 4 model (Model/World.lean) of several "
          "contexts in one process: shared immutable executables, the shared MUTABLE cells enumerated from the source on every run "
          "(extract/shared.py), per-context state = the state of Model/Interp.lean; round 2: Context::clone member by member (incl. "
          "trusted copied, trace not), purge, host calls (break, reset_stop, trusted, trace), re-installation of a function by an "
          "executed declaration, calls and variables linked by TABLE INDEX as in the code. Theorems (BlocV.Proofs.C14, 115): "
          "footprint / reads_footprint, steps_commute, interleaving_eq_sequential for EVERY schedule, purge_free_independent, "
          "shared_writes_benign, what_buffer_is_thread_local, error_record_is_last_writer (negative); NEW world_run_eq_runProgram "
          "and clones_run_eq_runProgram (a context — every clone, under ANY interleaving — stepped to the end IS Interp.runProgram: "
          "outcome, variables, output; hypothesis StableDecls discharged by the checkable wfDecls: stableDecls_of_wf, *_wf; "
          "stableDecls_needed), clone_copies_functions (entry by entry, in order, overloads included), index_call_eq_name_call + "
          "reachable_index_call_eq_name_call (tables of all reachable worlds hold each signature once), "
          "reset_skipping_names_is_not_a_copy (a seeded copy loop as proved counter-model), clone_independent_functions, "
          "clone_stop_independent, purge_original_keeps_clone, clone_flags, linked_preserved_run, clone_keeps_linked. Tie "
          "(harness/thrprobe.cpp): scripts with 2..8 clones on std::threads vs sequential vs World under a random interleaving; "
          "results, outputs, variables and now function table (order), flags, stop condition; families over (150 overload tables x "
          "clone trees), redef (60), hist + hist-kill (111: pending return / break / purge / free at every position), redecl, "
          "unlinked; 1250 scenarios, 5000 harness runs; thorough adds a ThreadSanitizer build, every report classified by site pair."),
    design_ref="DESIGN.md §6 C14, §11, §12, notes/NOTES-C14.md, notes/NOTES-r14.md, notes/AUDIT-session3.md",
    note=("Full property is FALSE on the tree: data races on Statement::_level, the process-wide error record, the RNG statics, "
          "_type_volatile — recorded findings. Thread interleavings are sampled, not enumerated. The re-installation of a function "
          "by an executed declaration is modelled in World, not in Interp.runProgram (gap recorded: stableDecls_needed; harmless for "
          "programs declaring each signature once). Not proved: that assignment never reorders symbol slots (symLinked is computed "
          "and compared), that every function body in every table is linked. Runs of an executable in a context that does not "
          "continue its compile-time tables are flagged (linked=0) and not predicted (candidate finding "
          "C15.execute2_foreign_executable_unchecked). " + TRUST + "; extract/shared.py's regex listing; thrprobe; ThreadSanitizer "
          "for unlisted races on executed paths. interleaving_eq_sequential / steps_commute hold by construction of `apply` (an operation touches its own context and the listed shared cells by its type): they state what the MODEL is; that the library is like it is what the threaded runs test."),
    technique="Lean 4 proof over a hand model (commutation + induction on schedules over an extracted shared-cell footprint; simulation World.step <-> Interp.execList with exact fuel; prefix / no-duplicate invariants of the function table) + threaded differential testing under ASan/TSan")

CHECKS["C15"] = dict(
    category="proof",
    text=("Lean 4 handle state machine of blocc/bloc_capi.h (contexts, clones, symbols, values with caller/library ownership, "
          "expressions, executables, process-wide error record, per-context epochs and generations); round 3: 1200 operator texts "
          "GENERATED in Lean from the typing model (25 binary + 5 unary spellings x 5 operand forms x type pairs, each as source and "
          "AST with verdict, error code and position computed in the model). Proved (BlocV.Proofs.C15, 44; the last five — rstore_copy_contract, rstore_move_contract, rstore_copy_ownership, cross_context_isolation_x, cross_store_copies — are about values that travel between two contexts: a pointer from bloc_ctx_load_variable stored into another context is copied, an item pointer is MOVED out of its container, as the code does) for ALL call sequences: "
          "library_pointer_stable, error_record_contract, accessor_contract, api_script_agree, context_reusable_after_error; NEW "
          "typed_rejection_iff / _prog (a generated text is rejected with TYPE_MISMATCH and NULL exactly when Typing.acceptBin / "
          "acceptUn refuses it, at the computed position), rejected_parse_contract_expr / _prog (NULL, own code, the five host "
          "tables unchanged, only the epoch of that context moves), rejected_parses_touch_nothing (ANY sequence of rejected parses "
          "from ANY state), usable_after_reject, accessor_call_contract / accessor_contract_along_sequences, held_run_is_noop, "
          "stop_held_until_release, nothing_runs_while_held, purge_ends_handles_forever with handle_generations_below_clock and "
          "purged_handles_dead_in_reachable_states (no hypothesis left: every handle of a purged context is unusable after ANY later "
          "sequence), cross_context_isolation / cross_context_pointers (calls that do not work IN context d leave its slot "
          "identical). Tie: state-machine call sequences (<=40 quick, <=200 thorough) through the real C API only, under "
          "ASan+UBSan+LSan, every result, out-parameter, re-read pointer and errno/strerror compared; assign-then-read, failing "
          "FUNCTION declarations; op_family (300 cases: 1760 rejected + 630 accepted operator parses through both entry points, each "
          "rejected one followed by a good parse + run in the same context): all verdicts, codes and positions of the typing model "
          "agree with the library (positions follow repair 565b1e8: a left operand ill-typed on its own is reported before the "
          "right one is parsed). ~4.9k sequences."),
    design_ref="DESIGN.md §6 C15, §11, §12.3, §13, notes/NOTES-C15.md, notes/NOTES-r15.md, notes/NOTES-C15R3.md, notes/NOTES-C15R4.md, notes/AUDIT-session3.md",
    note=("PARTIAL. Memory reclamation is NOT modelled: 'a rejected parse leaves nothing allocated' / 'no memory remains' is "
          "LeakSanitizer's verdict on the generated texts and sequences (1760 rejected operator parses, 37 hand texts, 522 "
          "truncations, ~900 random rejected parses per run), not a theorem; leak records are attributed by allocation call site, a "
          "record at the site of a REPAIRED finding is a violation. 5 findings open (errno 0 on EOF, store nulls scalar sources, "
          "item pointers dangle after store, use-after-free when an executable/clone holding a function outlives the declaring "
          "context's purge/free, leak of the wrapper node at end of text after a member call — needs an ownership hand-over); "
          "repaired: the two accessor null dereferences, the callee-context leak, and this round the left-operand leak pattern of "
          "the 17 binary productions (565b1e8), the IF condition (96b2071), RETURN at end of text (4ec8435); 1 candidate recorded by "
          "C14's index-linking model and not exercised here. The 10 accepted `matches` texts have no AST and are skipped; a value "
          "loaded from one context cannot be stored into another in the model (two-context copy/move family not built). bloc_break "
          "from a second thread, trace and plugins are outside. " + TRUST + ". purged_handles_dead_in_reachable_states concludes that the MODEL answers a precondition violation for such a handle (by construction of the handle tables)."),
    technique="Lean 4 proof over a transcribed state machine (case analysis over 38 ops + invariants by induction on sequences; rejected texts generated from the typing model) "
              "+ model-based differential testing with sanitizers; leak attribution by allocation call-site signature")

CHECKS["C16"] = dict(
    category="proof",
    text=("Lean model of PluginManager (loaded modules, granted names), of every member of Context that writes or copies the trusted "
          "bit (constructors, trusted(), clone, purge, child shells / runtimes, trace, parsingBegin/End) and of the compile-time "
          "tests of constructor calls, import and include. Theorems (BlocV.Proofs.C16, 18) over ALL host histories — unban, clear, "
          "new / trust / clone / free / purge / trace-switch of any context, compile of any text accepted or rejected, run of any "
          "executable incl. trace statements and run-time errors: object_implies_granted (about the context that COMPILED the "
          "constructor: trusted, or the module granted, at compilation), untrusted_history_objects_granted (unconditional for "
          "histories without a trusted context), "
          "ctor_compiles_iff, path_import_refused, include_refused, trusted_unrestricted, ctor_everywhere_top / _func; round 2: trusted_bit_invariant (no "
          "operation other than the trust setter on that context changes a context's bit), purge_keeps_untrusted, "
          "clone_inherits_trust_exactly, capi_history_never_trusted (what the C API can do never yields a trusted context), "
          "run_keeps_trust, run_ignores_permissions (revocation after compilation does not matter, a later grant does not help). "
          "Tie: complete product of 8 330 permission configurations (trust x grant x preload x place x import x spelling x form incl. "
          "the default constructor name(), a module granted twice, and a final phase in which the host clears the permissions and a "
          "brand-new untrusted context attempts the constructor) + 3 689 host histories over a 21-event alphabet (grant, revoke, "
          "purge, clone, free, rejected text, run-time error, trace statement / switch, include, import, re-run of an executable "
          "compiled earlier, trust on/off, new context: all sequences <= 2, thorough 3, random up to 7) through the C++ classes "
          "and the C API; after EVERY event the trusted bit of EVERY live context is compared with the model and with the "
          "property's own bookkeeping (model-independent oracle). ~12k cases."),
    design_ref="DESIGN.md §6 C16, §11, §12, notes/NOTES-C16C17.md, notes/NOTES-C1617.md, notes/AUDIT-session3.md",
    note=(TRUST + "; the verification-only plugin harness/vmod. bloc_deinit_plugins mid-session is outside the model (nodes carry "
          "module names, the C++ numeric type ids): finding C16.deinit_reassigns_type_ids, witnessed on every run. Run-time "
          "constructor failures and function arity are not modelled in this layer; import of a non-granted module by NAME is "
          "accepted by the code (the library is loaded, no object can be made) — outside the property. The guarantee is about the COMPILING context, by the property's design (a compile-time test): a host that runs an executable compiled in a trusted context inside an untrusted one (Executable::run(Context&, …) is public; it is how clones share a program) puts objects there without a grant — a host action outside the guarantee. Unconditional: histories without a trusted context = everything the C API can do (capi_history_never_trusted). Spellings are decided by the product family."),
    technique="Lean 4 proof over a hand model (inductive invariant over host-operation histories) + exhaustive / bounded-exhaustive differential enumeration with a verification-only plugin")

CHECKS["C17"] = dict(
    category="proof",
    text=("Lean model of the bloc::Complex reference counter, operation by operation (factory, copy/move ctor, destructor, "
          "operator=, both swaps) with C-level hazards as outcomes; store-level operations; an object language (ObjProg: variables, "
          "tables, functions, loops, error exits, clones, purge; round 2: table delete / insert / concat, forall, a raising method on "
          "a temporary, a failing constructor, the returned-value slot); round 2: layer M — modules, the run-time receiver check of "
          "MemberMETHODExpression, constructor failure, bloc_deinit_plugins. Theorems (BlocV.Proofs.C17, 20) over ALL operation "
          "sequences: refs_eq_live_handles, destroy_at_most_once, destroy_at_zero_only, no_leak_at_quiescence, "
          "no_leak_at_quiescence_ctx, no_dangling_counter; NEW method_on_live_matching_object (every recorded method call ran on an "
          "object created, not yet destroyed, of its own module), receiver_check, args_passed_verbatim, destroy_iff_created, "
          "deinit_after_release_safe (+ decide witnesses of the null call when objects are still referenced), objprog_refines_store (every instruction, block, loop, call is a sequence of store operations, all error "
          "exits: replaces `by construction`), objprog_lifetime (program-level exactly-once destruction), "
          "objprog_method_receiver_live, returned_slot_refines_store. Tie (event log of verification-only modules, ASan): every "
          "well-formed handle-operation sequence up to length 4/5; random object programs (events exact, destroy within the model's "
          "window, exactly once at quiescence); meth (300 two-module method histories vs layer M); model-free families "
          "wrong-module receiver, counter width (65535..70000 references), result-receiver (50), returned-not-taken (76, C API host "
          "that never collects the value), failure-while-building (176: tab / tup / argument list / member failing midway), deinit. "
          "~2.8k cases."),
    design_ref="DESIGN.md §6 C17, §11, §12, notes/NOTES-C16C17.md, notes/NOTES-r15.md, notes/NOTES-C1617.md, notes/AUDIT-session3.md",
    note=(TRUST + "; harness/vmod. ObjProg runs on the store layer with one module (the two-module layer M is tied separately by "
          "meth); set@, tuples of objects and table+table insert/concat are exercised by the model-free families only (their oracle "
          "is the property on the event log, no theorem claimed); re-import after deinit not modelled; temp-pool slot reuse is "
          "bounded, not modelled. Open: C17.moved_from_handle_null_deref (not script-reachable), "
          "C17.deinit_with_live_objects_null_call (host calls bloc_deinit_plugins while objects are referenced). Repaired: "
          "use-after-free when a clone outlives its origin, callee-context leak on a raising argument, tab(n, expr) leaking the "
          "elements built before a later repetition raises (87d5eeb). objprog_refines_store / objprog_lifetime conclude an existential (some sequence of store operations exists): the handle / store-level theorems (refs_eq_live_handles, destroy_at_most_once, destroy_at_zero_only, no_leak_at_quiescence_ctx) and the event-log comparison carry the property; program-level exactly-once is a correspondence result."),
    technique="Lean 4 proof over a hand model (invariant over operation sequences; simulation by induction on fuel with per-instruction lemmas) + bounded-exhaustive and random model-based testing with an instrumented plugin under AddressSanitizer")

CHECKS["C18"] = dict(
    category="proof",
    text=("All four modules by Lean 4 proof (BlocV.Proofs.C18 + C18F, 82) + differential runs on the real code. csv: csv_roundtrip, "
          "csv_linewise; the PLUGIN glue modelled: csv_plugin_ctor, csv_plugin_roundtrip, csv_plugin_next_core (for tables WITH null "
          "elements), csv_plugin_next_null_last, csv_plugin_linewise, csv_plugin_args_total — UNCONDITIONAL since repair ad063b9: no "
          "call of the method table in any state reaches a C++-level fault. utf8: decode_illformed (EVERY byte string: byte-at-a-time "
          "decoder = look-ahead RFC 3629 decoder), decode_valid_agrees, count/at/substr/insert/remove/string = list functions, "
          "utf8_methods_total / utf8_history_total (15 methods, every argument, whole histories: invariant kept, one answer per "
          "call, never a fault — unconditional since 2b1dab4) with utf8_reserve_exact; all five table-driven transformations over the "
          "real character table as a parameter: utf8_case_agrees, utf8_case_total (toupper / tolower), utf8_ctx_agrees, "
          "utf8_ctx_total (capitalize / normalize), utf8_translit_agrees, trun_func + utf8_append_after_transform (no history "
          "changes the installed transformation: text appended later is stored as given — positive since repair 7c5d420). file: file_refines_spec (EVERY list "
          "of stream calls = the POSIX-level spec run, outside the update-stream region), file_refines_spec_repositioned (side "
          "condition discharged from the SHAPE of the history: every switch of direction goes through a seek), "
          "file_update_roundtrip, file_readln_spec / _all, file_write_read_roundtrip + _concat, file_args_total. sqlite3: "
          "sqlite_args_total, sqlite_value_roundtrip + sqlite_roundtrip_iff, sqlite_history_refines_spec (ALL bind / execute / exec / "
          "fetch histories on a prepared INSERT, failing steps anywhere = a one-slot specification), sqlite_rows_function_of_binds, "
          "sqlite_bind_after_any_history. Tie: exhaustive small-alphabet run of the real classes (harness/modprobe.cpp, ~517k) and "
          "~4.7k histories through the REAL .so modules (ASan+UBSan): u8.plugin_ops/_self/_reserve (under an operator new that "
          "throws above a limit)/_case (whole real char table), csv.plugin/_rt/_nulllast, file.bufedge, file.modepairs (12 modes x "
          "64 op pairs, half also run by Python os.*), sql.stepfail, sql.history + every sqlite line against the spec; oracles: "
          "Python reading file and database, a Python CSV writer, the Lean stream spec answering every file call."),
    design_ref="DESIGN.md §6 C18, §11, §12, §13, notes/NOTES-C18.md, notes/NOTES-C18F.md, notes/NOTES-r18.md, notes/NOTES-C18R3.md, notes/NOTES-C18R4.md, notes/AUDIT-session3.md",
    note=(TRUST + "; glibc stdio and SQLite (their behaviour is what the models' fread/fwrite/fseek and storage classes say; tested, "
          "not proved); harness/blocprobe + modprobe + newlimit.cpp (AddressSanitizer's operator new never throws: the bad_alloc "
          "branch of reserve is reached through a preloaded operator new; recorded as an assumption) + vlib comparators. Assumed: "
          "one handle per file, regular files, writes < 2^32 bytes; fopen modes with the glibc flag `m` or `,ccs=` outside the "
          "model; SQL fixed to CREATE TABLE t(a) | t(a NOT NULL) / INSERT / SELECT shapes, the history theorem is for a prepared "
          "INSERT; `Disciplined` is conservative (only seekset inside the file counts as positioning). Not modelled / not proved: "
          "csv serializers for tuples / numeric tables, stat/dir/errmsg, dirname/basename; the "
          "strict RFC decoder is related to the encoder by test only. file_args_total, sqlite_args_total and five of the six conjuncts "
          "of utf8_args_total speak about functions that cannot produce the hazard: they are TOTALITY statements (value or BLOC "
          "error); memory safety of those paths is the sanitizers' verdict; the independent-reader clause is decided by the "
          "families. 6 findings open: utf8 NUL dropped, four sqlite storage-class cells, file update stream without reposition "
          "(also: a read on a write-only stream with output pending). Repaired and closed this round: C18.utf8_reserve_unchecked, "
          "C18.csv_next_null_last_element, C18.utf8_transform_sticky (found and repaired, 7c5d420); regression witnesses, reverting "
          "any of the commits makes the check exit 1."),
    technique="Lean 4 proof over hand models (round trip, sequence-level refinement of POSIX and one-slot SQL specifications by induction over call lists, unconditional totality of the method tables, decoder equivalence by strong induction) + exhaustive / randomised differential correspondence on the real classes and the real plugin .so files with independent readers")

CHECKS["C19"] = dict(
    category="proof",
    text=("Lean 4 proof about a transcription of apps/main.cpp, main_options.cpp, read_file.cpp and the statement loop of "
          "cli_parser.cpp (BlocV.Proofs.C19, 59): exit_zero_iff_success, stdout_eq_library_output, arg_table_faithful, stderr_class, "
          "expr_mode_contract; round 2: getCmd_eq (complete characterisation of option parsing for EVERY argv: options = the if-chain "
          "folded over the leading option words, program vector = the untouched rest), args_after_program_are_ARG (everything after "
          "the program word — file, \"\" or `-` — is $ARG verbatim, no option after it is interpreted), out_routing (selected output = "
          "last --out= among the option words; printed text and returned value there and nowhere else), reader_delivers_every_byte "
          "(ReadFile::read call by call: the chunks concatenate to the file minus CRs for every file and every buffer size >= 1; "
          "eager_reader_drops_a_byte: false for the fread-before-capacity-test variant), interactive_eq_batch_scoped_partial "
          "(declarations anywhere, no redefinition, calls resolve where they stand, last statement may be a top-level return => "
          "same output / variables / returned value as batch; via Lemmas/CliInterp.lean ext_all), fe_program_contract / "
          "fe_reader_transparent (the contract with the parser parameter instantiated by the model's own reader + scanner + parser "
          "+ elaboration); negations at the recorded witnesses. Tie: process runs of the REAL sanitizer-built executable vs the "
          "in-process library probe vs the model (exit status, stdout bytes, stderr class and position, --out file, interactive "
          "transcript): random programs, argument vectors with blanks/quotes/UTF-8/leading '-'/empty/3000-byte words, argvenum (409: "
          "11 option prefixes x program word x 20 tails), longline (physical lines of 1020..1030, 2040..2050, 3069/3070, 20000 "
          "bytes through file, stdin, CRLF), a reader harness compiled from apps/read_file.cpp of the tree under test (651 cases, "
          "chunk by chunk, heap buffer of exactly max bytes), front-end-instance pass (432 runs also judged against the text-driven "
          "model). ~2.6k evaluations."),
    design_ref="DESIGN.md §6 C19, §11, §12, notes/NOTES-C19.md, notes/AUDIT-session3.md",
    note=(TRUST + "; the subprocess plumbing of vlib/props/c19.py. The parser is a parameter of the model except in the fe_* "
          "theorems, which are conditional on Model/Parse + Elab's verdict (no symbol / type checks there: about 6 texts per run that "
          "the C++ rejects with a positioned compile error are exempted in that pass and listed in the evidence; the main pass still "
          "compares them against the probe). Normalised, not modelled: readline echo, Elapsed figure, version line, message texts, "
          "deferred output of a failing print in -i. Not modelled: interactive commands other than exit (load/run/list…), "
          "--debug=all trace, colour, a tty. Not proved: chunk-by-chunk equality of the CLI reader with C13's lineReader (same "
          "concatenation is). Open: returned table/bytes not printed, interactive mode continues after return, interactive "
          "function redefinition. exit_zero_iff_success compares finish ∘ library with library (true by construction of the transcription: it states the model's shape); the interactive PARSER is decided by the transcript families."),
    technique="Lean 4 proof over a hand model of the decision logic and the reader (structural + fuel induction, mutual induction over the interpreter functions) + process-level three-way differential test, argv enumeration, reader harness")

NOT_YET = {}
for _k, _c in CHECKS.items():
    _c.setdefault("design_ref", "DESIGN.md §6 %s" % _k)
    _c.setdefault("note", "")
    _c.setdefault("technique", "Lean 4 proof + differential correspondence")


ALL = ["C%02d" % i for i in range(1, 20)]


def main():
    hooks = subprocess.run(["git", "-C", "/repo", "log", "--format=%H %s"], stdout=subprocess.PIPE, text=True).stdout.split("\n")
    hook_commits = [l.split(" ", 1)[0] for l in hooks if "verif hook" in l]
    m = {
        "version": 1,
        "setup_cmd": "./setup.sh",
        "hooks": {
            "guard": "BLOC_VERIF",
            "enable": "-DBLOC_VERIF added to CMAKE_CXX_FLAGS/CMAKE_C_FLAGS by vlib/build.py (scratch build under /var/tmp/blocv-cache, never in /repo)",
            "baseline_off_cmd": "./scripts/baseline_off.sh",
            "source_commits": hook_commits,
            "add_only": True,
        },
        "engines": [
            {"name": "lean-proofs", "path": "lean/BlocV/Proofs", "serves_properties": sorted(CHECKS),
             "kind_free_text": "Lean 4 theorems about the hand-written model (lean/BlocV/Model) against the spec (lean/BlocV/Spec); lake build + #print axioms audit + forbidden-token scan on every run; leanchecker in the thorough tier"},
            {"name": "blocv-driver", "path": "lean/Main.lean", "serves_properties": sorted(CHECKS),
             "kind_free_text": "compiled Lean executable running Model and Spec on the case lines"},
            {"name": "blocprobe-harness", "path": "harness/blocprobe.cpp", "serves_properties": sorted(CHECKS),
             "kind_free_text": "C++ probe linked against a fresh ASan+UBSan build of /repo's working tree with -DBLOC_VERIF"},
            {"name": "extractors", "path": "extract/gen.py", "serves_properties": sorted(CHECKS),
             "kind_free_text": "regenerates lean/BlocV/Gen/*.lean (error codes, throwables, keywords, constants) from /repo's sources on every run"},
        ],
        "checks": [],
        "notes": "See DESIGN.md. known_findings.json lists recorded and fixed defects.",
        "not_applicable": [],
    }
    for pid in ALL:
        if pid in CHECKS:
            c = CHECKS[pid]
            m["checks"].append({
                "property_id": pid,
                "quick_cmd": "./check %s --tier quick" % pid,
                "thorough_cmd": "./check %s --tier thorough" % pid,
                "evidence_file": "evidence/%s.json" % pid,
                "replay_cmd_template": "./check %s --replay {path}" % pid,
                "engine": "lean-proofs",
                "level_claimed": {"category": c["category"], "text": c["text"], "design_ref": c["design_ref"]},
                "level_note": c["note"],
                "technique": c["technique"],
            })
        else:
            m["not_applicable"].append({"property_id": pid, "reason": NOT_YET.get(pid, "not claimed yet: the Lean model/theorems and the correspondence stream for this property are still being built (see DESIGN.md §10 order of work)")})
    json.dump(m, open(os.path.join(HERE, "MANIFEST.json"), "w"), indent=1)


if __name__ == "__main__":
    main()
