#!/bin/bash
# usage: scripts/seed_sweep_par.sh [-j lanes] [name ...]
# Tries every seeded change (or the named ones) against the quick check of its property, several at a time. Each lane has a
# private copy of the framework (with its Lean build), a private copy of /repo's HEAD and a private build cache that is rebuilt
# IN PLACE (VERIF_BUILD_INPLACE: ninja recompiles only what the patch touches), so /repo, /verif and the shared cache are
# untouched. Writes seeded/SWEEP.md (+ seeded/sweep_<verif commit>.txt) when run without names.
V=$(cd "$(dirname "$0")/.." && pwd); cd "$V" || exit 2
J=4; if [ "$1" = "-j" ]; then J=$2; shift 2; fi
NAMES="$*"; ALL=0; [ -z "$NAMES" ] && ALL=1 && NAMES=$(ls seeded | grep -E '^C[0-9]+-m[0-9]+$')
W=/var/tmp/blocv-sweep-$$; mkdir -p $W
RES=$W/results.txt; : > $RES
lane() {
  k=$1; shift
  L=$W/lane$k; mkdir -p $L/cache
  rsync -a --exclude .git --exclude replays --exclude __pycache__ "$V/" $L/verif/
  mkdir -p $L/repo; git -C /repo archive HEAD | tar -x -C $L/repo
  ( cd $L/repo && git init -q && git add -A && git -c user.email=x@x -c user.name=x commit -qm base )
  for n in "$@"; do
    P=${n%%-*}
    if ! git -C $L/repo apply "$V/seeded/$n/patch.diff" 2>/dev/null; then echo "$n|$P|NO|-|patch does not apply to HEAD" >> $RES; continue; fi
    s=$(date +%s)
    ( cd $L/verif && VERIF_BUILD_INPLACE=1 VERIF_REPO=$L/repo VERIF_CACHE=$L/cache ./check $P --tier quick > $L/out_$n.txt 2>&1 ); rc=$?
    e=$(date +%s)
    git -C $L/repo checkout -- . ; git -C $L/repo clean -fdq
    first=$(grep -A1 '^VIOLATION' $L/out_$n.txt | tail -1 | cut -c1-160 | tr '|\n' '/ ')
    [ $rc = 2 ] && first=$(grep -m1 'BUILD-ERROR' $L/out_$n.txt | cut -c1-160)
    echo "$n|$P|yes|$([ $rc = 1 ] && echo CAUGHT || echo "MISSED rc=$rc")|$first|$((e-s))s" >> $RES
    echo "RESULT $n $P $([ $rc = 1 ] && echo CAUGHT || echo "MISSED rc=$rc") $((e-s))s $first"
  done
}
# deal the names round-robin over the lanes
i=0; declare -a BUCKET
for n in $NAMES; do BUCKET[$((i % J))]+=" $n"; i=$((i+1)); done
for k in $(seq 0 $((J-1))); do [ -n "${BUCKET[$k]}" ] && lane $k ${BUCKET[$k]} & done
wait
if [ $ALL = 1 ]; then
  OUT=seeded/SWEEP.md
  echo "swept at verif $(git -C "$V" rev-parse --short HEAD), repo $(git -C /repo rev-parse --short HEAD)" > $OUT; echo >> $OUT
  echo "| seed | check | applies | result | first report |" >> $OUT; echo "|---|---|---|---|---|" >> $OUT
  sort $RES | awk -F'|' '{print "| "$1" | "$2" | "$3" | "$4" | "$5" |"}' >> $OUT
  cp $RES seeded/sweep_$(git -C "$V" rev-parse --short HEAD).txt
else
  sort $RES
fi
rm -rf "$W"
echo done
