#!/usr/bin/env python3
"""Regenerates the generated parts of DESIGN.md §11.4–§11.6 (between the markers <!-- GEN:x --> … <!-- /GEN:x -->):
repairs made in /repo (from its git log), open known findings (from known_findings.json) with the reason each is recorded
rather than repaired, and the seeded-change table (from seeded/SWEEP.md + seeded/*/README.md)."""
import json
import os
import re
import subprocess

HERE = os.path.dirname(os.path.dirname(os.path.abspath(__file__)))

# why an open finding is recorded rather than repaired (by id prefix; first match wins)
WHY = [
    ("C02.static_vs_runtime", "the static type of arithmetic with an untyped-null / opaque operand is a language-design question (every operator's and ~15 built-ins' type() would change, and with it which programs compile): not a local patch"),
    ("C09.mix.level", "the type-mixing branch ignores the table's dimension: a repair has to decide between rejecting and converting, for four methods and every level: behaviour change"),
    ("C09.tuple", "tuple types are identified by a 16-bit hash of the declaration stored in Type::minor: a repair changes the Type representation library-wide"),
    ("C11.complete_redefinition", "needs a journal of function-table changes per parse (≈25 lines in FunctorManager + two call sites in the parser) and a decision about call-context caches: proposed in notes/NOTES-C11.md, larger than a minimal patch"),
    ("C12.decimal_16_digits", "printing 17 significant digits changes the saved form of almost every decimal constant (0.1 → 0.10000000000000001): a format decision for the maintainer"),
    ("C12.wrapped_integer_literal", "an integer literal ≥ 2^63 is accepted and wraps: rejecting it changes which programs load"),
    ("C12.print_items_fuse", "print items are saved blank-separated without their parentheses: a repair has to re-parenthesise items by a rule that does not exist yet in the unparser"),
    ("C13.interactive_reader_keeps_cr", "a small repair exists (skip CR in ReadInput::read like the other readers; patch in notes/NOTES-C13R4.md) but it changes what interactive users on CRLF input see and only shows without libreadline: left to the maintainer"),
    ("C13.", "the scanner tokenises each reader chunk separately (yy_scan_string per chunk, strlen-based): a repair is a redesign of the reader/scanner interface, not a patch"),
    ("C14.race_stmt_level", "every Statement::execute writes its node's mutable _level: removing the write changes how loops find their level (structural)"),
    ("C14.error_record_process_wide", "bloc_errno/bloc_strerror are one process-wide record by API design; per-context records would change the C API"),
    ("C14.race_rng", "random() is documented as a process-wide input; the generator statics race only in the data-race sense"),
    ("C14.race_type_volatile", "type() const caches into a mutable member of a shared node; benign value race, structural to remove"),
    ("C15.parse_eof_errno_zero", "bloc_errno() is 0 after a text that ends inside a statement: EXC_PARSE_EOF is code 0 by the enum's layout; renumbering is an API change"),
    ("C15.store_nulls_scalar_source", "documented as 'moved if allocated dynamically, otherwise copied'; scalars are moved too: either the code or the documentation changes — maintainer's call"),
    ("C15.store_frees_item_pointers", "item pointers into a table die when the table variable is stored again: inherent in handing out interior pointers; needs documentation rather than code"),
    ("C15.functor_context_dangling_manager", "a function's private context keeps a raw pointer to the declaring context's FunctorManager; two lifetime orders were repaired (137dbae, 4769647), the remaining one (executable outlives the purge of its context) needs shared ownership of the manager"),
    ("C15.leak_", "parser error paths leak already-built sub-expressions (argument evaluation order + throwing assertType): the same pattern exists in every binary-operator production; a systematic fix (owning pointers) is larger than a patch"),
    ("C17.moved_from_handle_null_deref", "bloc::Complex's move constructor leaves a null counter that the other members dereference; only reachable through C++ API misuse patterns inside the library's own Value moves, which never use the moved-from handle: recorded, not script-reachable"),
    ("C18.sqlite_bool_as_integer", "SQLite has no boolean storage class: the type cannot be preserved without a schema convention"),
    ("C18.sqlite_nan_as_null", "documented SQLite behaviour (NaN is stored as NULL)"),
    ("C18.sqlite_empty_bytes_as_null", "sqlite3_bind_blob with a null pointer binds NULL; binding a zero-length blob instead (sqlite3_bind_zeroblob) is a small change but alters what existing databases receive — left to the maintainer"),
    ("C18.sqlite_unbound_item_keeps_old_binding", "an item of a type that cannot be bound is skipped silently; raising an error is a behaviour change for existing scripts"),
    ("C18.file_update_without_reposition", "needs a last-operation flag in the file handle and an fseek at every direction switch (C11 7.21.5.3): more than a local patch; observed misbehaviour depends on glibc buffering"),
    ("C18.utf8_nul_dropped", "code point 0 doubles as the decoder's 'discard' marker: a repair changes the decoder's internal protocol"),
    ("C19.returned_table_bytes_not_printed", "bloc FILE prints nothing for a returned table / bytes / object: what to print is a design decision"),
    ("C19.interactive_continues_after_return", "interactive mode deliberately (bloc_reset_stop) keeps reading after a top-level return; batch stops: documented difference rather than a slip?"),
    ("C19.interactive_function_redefinition", "consequence of compiling statement by statement: a later redefinition cannot affect statements already run"),
    ("C02.safety_table_major_changes", "the property and the manual ('the type of the stored value cannot change') ask that a `$` variable keeps its type, but Symbol::check_safety accepts any table for a table symbol; proved as safety_table_major_fails next to what does hold (safety_preserves_major_partial: a table stays a table); found by a task that had /repo read-only, no patch proposed"),
    ("C02.stepwise_dead_branch_typed_from_value", "second sentence of C02 and the counter-example of DESIGN §1: statement by statement a symbol carries the type of the value stored meanwhile, so a never-executed statement with an opaque operand compiles as one unit only; proved as stepwise_eq_batch_fails next to stepwise_eq_batch_partial (where the two compiles agree), 42 generated variants per run agree between library and model; no patch proposed"),
    ("C05.dangling_element_reference", "memory-unsafe and reachable from plain scripts, but the pattern (a reference into a container held while a later operand is evaluated) sits in every member, binary operator and multi-argument built-in: the repair proposed in notes/NOTES-C05.md reorders argument and receiver evaluation and adds a per-context in-place epoch, i.e. changes the observable evaluation order — larger than a local patch; the model answers `hazard oob` (dangling_witness) and the check tolerates a non-manifesting run"),
    ("C10.num.subnormal.erange", "the property demands num(str(d)) = d up to the printed precision for all doubles, but std::stod throws whenever glibc strtod sets ERANGE (every subnormal, the smallest normal, %.16g of DBL_MAX); proved as num_str_subnormal_fails and confirmed by the numstr stream on every run; no patch proposed (the literal reader goes through the same std::stod)"),
    ("C16.deinit_reassigns_type_ids", "needs a host that calls bloc_deinit_plugins mid-session (the header says it 'should be called on program exit') and keeps executables compiled before it; not reachable from scripts, outside C16's host alphabet (the model's nodes carry module names, the C++ numeric type ids)"),
    ("C17.deinit_with_live_objects_null_call", "same host call as C16.deinit_reassigns_type_ids: bloc_deinit_plugins while a context still holds an object (the header says 'should be called on program exit'); not reachable from scripts; modelled on C17's layer M (deinit_after_release_safe + witnesses of the null call)"),
    ("C18.utf8_reserve_unchecked", "C18 requires every module method to tolerate any argument, the plugin checks reserve(n) only for null; the local patch proposed with the entry (range check, catch std::bad_alloc) was applied to /repo as 2b1dab4 — the entry turns `fixed` when the C18 model (utf8_methods_total) follows"),
    ("C18.csv_next_null_last_element", "C18 requires every module method to tolerate null elements, deserialize_next dereferenced a null last element; the local patch proposed with the entry (null element = empty value, as the serializers do) was applied to /repo as ad063b9 — the entry turns `fixed` when the C18 model (csv_plugin_args_total) follows"),
]


def why(fid):
    for pre, text in WHY:
        if fid.startswith(pre):
            return text
    return "see the notes file of the property"


def gen_repairs():
    log = subprocess.run(["git", "-C", os.environ.get("VERIF_REPO", "/repo"), "log", "--reverse", "--format=%h %s"], stdout=subprocess.PIPE, text=True).stdout.strip().split("\n")
    fixes = [l for l in log if re.match(r"^[0-9a-f]+ fix:", l)]
    hooks = [l for l in log if re.match(r"^[0-9a-f]+ verif hook", l)]
    out = ["%d `fix:` commits and %d hook commit on top of the pinned snapshot (oldest first); the pinned test suite, unedited, passes after each:" % (len(fixes), len(hooks)), ""]
    for l in hooks + fixes:
        h, _, s = l.partition(" ")
        out.append("* `%s` %s" % (h, s))
    return "\n".join(out)


def gen_findings():
    d = json.load(open(os.path.join(HERE, "known_findings.json")))["findings"]
    known = [f for f in d if f.get("status", "known") == "known"]
    fixed = [f for f in d if f.get("status") == "fixed"]
    out = ["`known_findings.json` holds %d entries: %d `fixed` (kept as regression witnesses; they suppress nothing) and %d `known`. "
           "Open findings by property — id, what fails, why it is recorded rather than repaired:" % (len(d), len(fixed), len(known)), ""]
    byp = {}
    for f in known:
        byp.setdefault(f["property"], []).append(f)
    for p in sorted(byp):
        out.append("**%s**" % p)
        out.append("")
        for f in byp[p]:
            what = re.sub(r"\s+", " ", f.get("what", "")).strip()
            if len(what) > 260:
                what = what[:257] + "…"
            out.append("* `%s` — %s *Recorded because:* %s." % (f["id"], what, why(f["id"])))
        out.append("")
    return "\n".join(out)


def gen_seeds():
    p = os.path.join(HERE, "seeded", "SWEEP.md")
    rows = []
    for l in open(p):
        m = re.match(r"^\| (C\d\d-m\d+) \| (C\d\d) \| (\w+) \| ([^|]+) \|", l)
        if m:
            rows.append(m.groups())
    rows.sort()
    out = ["| seed | changed file(s) | what the change is | caught by its property's check |", "|---|---|---|---|"]
    for name, prop, applies, res in rows:
        d = os.path.join(HERE, "seeded", name)
        files = " ".join(sorted(set(re.findall(r"^\+\+\+ b/(\S+)", open(os.path.join(d, "patch.diff")).read(), flags=re.M))))
        rd = os.path.join(d, "README.md")
        title = open(rd).readline().strip().lstrip("# ") if os.path.exists(rd) else "(patch only; see meta.json)"
        title = re.sub(r"^C\d\d\s*/\s*m\d\s*[—-]+\s*", "", title)
        out.append("| %s | %s | %s | %s |" % (name, files, title.replace("|", "/"), res.strip() if applies == "yes" else "patch no longer applies"))
    return "\n".join(out)


def main():
    p = os.path.join(HERE, "DESIGN.md")
    s = open(p).read()
    for key, fn in (("repairs", gen_repairs), ("findings", gen_findings), ("seeds", gen_seeds)):
        a, b = "<!-- GEN:%s -->" % key, "<!-- /GEN:%s -->" % key
        if a in s and b in s:
            i, j = s.index(a) + len(a), s.index(b)
            s = s[:i] + "\n" + fn() + "\n" + s[j:]
    open(p, "w").write(s)


if __name__ == "__main__":
    main()
