#!/usr/bin/env python3
"""Confirm a sub-agent's seeded mutation independently in a scratch worktree and file it under /verif/seeded/<name>/.
usage: confirm_seed.py <srcdir with patch.diff demo.sh README.md> <name> <property id>"""
import json, os, shutil, subprocess, sys, time

src, name, pid = sys.argv[1], sys.argv[2], sys.argv[3]
PRE = os.environ.get("CONFIRM_WT")          # an existing, already built scratch worktree (kept; only reset to HEAD)
WT = PRE or "/tmp/confirm_wt_%s" % name
def sh(cmd, **kw):
    r = subprocess.run(cmd, shell=True, stdout=subprocess.PIPE, stderr=subprocess.STDOUT, text=True, **kw)
    return r.returncode, r.stdout
if PRE:
    rc, o = sh("git -C %s checkout -- . && git -C %s status --short | grep -v '^??'" % (WT, WT)); assert o.strip() == "", o
else:
    subprocess.run("git -C /repo worktree remove --force %s 2>/dev/null; rm -rf %s" % (WT, WT), shell=True)
    rc, o = sh("git -C /repo worktree add -q --detach %s HEAD" % WT); assert rc == 0, o
meta = {"property": pid, "name": name, "base_commit": subprocess.run("git -C /repo rev-parse HEAD", shell=True, stdout=subprocess.PIPE, text=True).stdout.strip(), "ran": []}
try:
    cfg = "cmake -G Ninja -S %s -B %s/_build -DBUILD_TESTING=ON -DCMAKE_BUILD_TYPE=RelWithDebInfo -DCMAKE_CXX_FLAGS=-Wno-error -DCMAKE_C_FLAGS=-Wno-error >/dev/null" % (WT, WT)
    rc, o = sh(cfg + " && cmake --build %s/_build -j8 >/dev/null" % WT); assert rc == 0, o[-2000:]
    rc0, o0 = sh("bash %s/demo.sh %s" % (src, WT)); meta["ran"].append({"cmd": "demo.sh on unmodified tree", "rc": rc0})
    rc, o = sh("git -C %s apply %s/patch.diff" % (WT, src)); assert rc == 0, o
    rc, o = sh("cmake --build %s/_build -j8 2>&1 | tail -3" % WT); meta["ran"].append({"cmd": "build modified tree", "rc": rc}); assert rc == 0, o
    rct, ot = sh("ctest --test-dir %s/_build -j8 2>&1 | tail -3" % WT); meta["ran"].append({"cmd": "ctest on modified tree", "rc": rct, "tail": ot.strip()})
    rc1, o1 = sh("bash %s/demo.sh %s" % (src, WT)); meta["ran"].append({"cmd": "demo.sh on modified tree", "rc": rc1, "tail": o1[-300:]})
    ok = rc0 == 0 and rct == 0 and "100% tests passed" in ot and rc1 != 0
    meta["confirmed"] = ok
    readme = open(os.path.join(src, "README.md")).read() if os.path.exists(os.path.join(src, "README.md")) else ""
    meta["needs_to_manifest"] = readme[:1500]
    if ok:
        dst = os.path.join("/verif/seeded", name)
        os.makedirs(dst, exist_ok=True)
        for f in ("patch.diff", "demo.sh", "README.md"):
            if os.path.exists(os.path.join(src, f)):
                shutil.copy(os.path.join(src, f), dst)
        json.dump(meta, open(os.path.join(dst, "meta.json"), "w"), indent=1)
    print(name, "CONFIRMED" if ok else "NOT CONFIRMED", rc0, rct, rc1)
finally:
    if PRE:
        subprocess.run("git -C %s checkout -- . && cmake --build %s/_build -j8 >/dev/null 2>&1" % (WT, WT), shell=True)
    else:
        subprocess.run("git -C /repo worktree remove --force %s; rm -rf %s" % (WT, WT), shell=True)
