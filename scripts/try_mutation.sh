#!/bin/sh
# usage: scripts/try_mutation.sh <patch.diff> <Cnn> [tier]   — applies the patch to /repo, runs the check, reverts.
P="$1"; ID="$2"; TIER="${3:-quick}"
cd /repo || exit 2
if ! git diff --quiet; then echo "/repo has uncommitted changes; refusing"; exit 2; fi
git apply "$P" || { echo "patch does not apply"; exit 2; }
cd /verif && ./check "$ID" --tier "$TIER" > /tmp/try_mut.out 2>/tmp/try_mut.err; rc=$?
git -C /repo checkout -- .
grep -E "^(VIOLATION|BUILD-ERROR|  )" /tmp/try_mut.out | head -4; echo "known-finding lines: $(grep -c KNOWN-FINDING /tmp/try_mut.out)"
echo "rc=$rc"
