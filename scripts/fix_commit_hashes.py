#!/usr/bin/env python3
"""known_findings.json: make every `fixed` entry's "commit" a commit of /repo (the repairs were first made in a scratch clone and
cherry-picked, which changes hashes): matched by subject line."""
import json, subprocess
def log(repo):
    out = subprocess.run(["git", "-C", repo, "log", "--format=%h\t%s"], stdout=subprocess.PIPE, text=True).stdout.strip().split("\n")
    return [l.split("\t", 1) for l in out if "\t" in l]
repo = log("/repo")
try:
    scratch = log("/var/tmp/fixrepo")
except Exception:
    scratch = []
rh = {h for h, _ in repo}
p = "/verif/known_findings.json"
d = json.load(open(p))
n = 0
for f in d["findings"]:
    if f.get("status") != "fixed":
        continue
    c = f.get("commit", "")
    if any(h.startswith(c) or c.startswith(h) for h in rh) and c:
        continue
    subj = next((s for h, s in scratch if c and (h.startswith(c) or c.startswith(h))), None)
    if subj is None:
        print("cannot resolve", f["id"], c)
        continue
    m = next((h for h, s in repo if s == subj or s[:45] == subj[:45]), None)
    if m is None:
        print("not yet in /repo:", f["id"], c, subj[:60])
        continue
    f["commit"] = m
    n += 1
json.dump(d, open(p, "w"), indent=1)
print("updated", n)
