#!/bin/sh
# Runs janbar/BLOC's own test suite on a build WITHOUT the verification guard (BLOC_VERIF off).
set -e
D=/var/tmp/blocv-cache/baseline-off
rm -rf "$D"; mkdir -p "$D"
cmake -G Ninja -S /repo -B "$D" -DCMAKE_BUILD_TYPE=RelWithDebInfo -DBUILD_TESTING=ON -DCMAKE_CXX_FLAGS=-Wno-error -DCMAKE_C_FLAGS=-Wno-error >/dev/null
cmake --build "$D" -j16 >/dev/null
ctest --test-dir "$D" -j8 --timeout 900
rc=$?
rm -rf "$D"
exit $rc
