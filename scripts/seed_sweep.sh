#!/bin/sh
# usage: scripts/seed_sweep.sh [name ...]  — tries every seeded mutation (or the named ones) against the check of its property on a
# private copy of /repo with a private build cache (so /repo itself stays untouched); writes seeded/SWEEP.md.
V=$(cd "$(dirname "$0")/.." && pwd); cd "$V" || exit 2
W=/var/tmp/blocv-sweep-$$; COPY=$W/repo; CACHE=$W/cache
mkdir -p "$COPY" "$CACHE"
git -C /repo archive HEAD | tar -x -C "$COPY"
( cd "$COPY" && git init -q && git add -A && git -c user.email=x@x -c user.name=x commit -qm base )
NAMES="$*"; [ -z "$NAMES" ] && NAMES=$(ls seeded | grep -E '^C[0-9]+-m[0-9]+$')
OUT=seeded/SWEEP.md
[ -z "$*" ] && echo "| seed | check | applies | result | first report |" > $OUT && echo "|---|---|---|---|---|" >> $OUT
for n in $NAMES; do
  P=${n%%-*}
  if ! git -C "$COPY" apply "$V/seeded/$n/patch.diff" 2>/dev/null; then echo "| $n | $P | NO | - | patch does not apply to HEAD |" >> $OUT; continue; fi
  VERIF_REPO="$COPY" VERIF_CACHE="$CACHE" ./check $P --tier quick > /tmp/sweep_$n.out 2>&1; rc=$?
  git -C "$COPY" checkout -- . ; git -C "$COPY" clean -fdq
  first=$(grep -A1 '^VIOLATION' /tmp/sweep_$n.out | tail -1 | cut -c1-160 | tr '|' '/')
  echo "| $n | $P | yes | $([ $rc = 1 ] && echo CAUGHT || echo "MISSED rc=$rc") | $first |" >> $OUT
  echo "RESULT $n $P $([ $rc = 1 ] && echo CAUGHT || echo "MISSED rc=$rc") $first"
done
rm -rf "$W"
git -C "$V" checkout -- evidence 2>/dev/null
echo done
