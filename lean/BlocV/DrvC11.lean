/-
  Driver command of the C11 correspondence: `pctx acc|rej <snap>^<snap>^…`. I/O glue only; imports the Model
  (BlocV/Model/ParseCtx.lean), never the proofs.

  The snapshots are what the probe op `ptrace` / `stepc` observed of the context every time the scanner asked
  for more text during ONE parse (harness/blocprobe.cpp, `c11Snap`). The driver
    1. takes the first snapshot as the context before the text,
    2. explains every following snapshot as the effect of one (at most two) model events on the model state
       (search over the finite candidate set read off the snapshot) — the observed trace must be a run of the model,
    3. applies the verdict (`rej`: catch blocks + rollback + parsingRevert (the journal) + parsingEnd; `acc`: parsingEnd) and answers
         model=<summary of the final model context> spec=<summary of the pre-existing part demanded by C11>
         kf=<finding region decided from the events | -> fr=<1: the text completed a redefinition of a pre-existing
         function before its error (the region of the repaired finding C11.complete_redefinition_survives_reject) | 0>
         ev=<the events found> [note=…]
  Summary format = snapshot format.
-/
import BlocV.Model.ParseCtx
import BlocV.Gen.Consts

namespace BlocV.DrvC11
open BlocV.ParseCtx

/-! ### the structure hash of the code (`TupleDecl::Decl::make_type`: DJB over (minor << 8) + major, mod 65535) -/
def djb (d : Decl) : Nat :=
  (d.foldl (fun h m => ((h * 32) % 2 ^ 64 + h + ((m.minor * 256) + m.major)) % 2 ^ 64) 5381) % Gen.TYPE_MINOR_MAX

/-! ### parsing the snapshot text -/

def majorOfLetter : Char → Option Nat
  | '?' => some 0 | 'b' => some 1 | 'i' => some 2 | 'd' => some 3 | 's' => some 4 | 'o' => some 5
  | 'r' => some 6 | 'u' => some 7 | 'p' => some 8 | 'c' => some 9 | _ => none

def letterOfMajor : Nat → Char
  | 0 => '?' | 1 => 'b' | 2 => 'i' | 3 => 'd' | 4 => 's' | 5 => 'o' | 6 => 'r' | 7 => 'u' | 8 => 'p' | 9 => 'c' | _ => '!'

def takeNat : List Char → Nat × List Char
  | cs => let ds := cs.takeWhile Char.isDigit
          (ds.foldl (fun n c => n * 10 + (c.toNat - 48)) 0, cs.drop ds.length)

/-- `<letter><level>[{ty,…}|#minor|:minor]` → type, decl, rest -/
def pTy : Nat → List Char → Option (TD × List Char)
  | 0, _ => none
  | fuel + 1, c :: cs =>
    match majorOfLetter c with
    | none => none
    | some mj =>
      let (lv, r1) := takeNat cs
      match r1 with
      | '#' :: r2 => let (mi, r3) := takeNat r2; some ((⟨mj, mi, lv⟩, []), r3)
      | ':' :: r2 => let (mi, r3) := takeNat r2; some ((⟨mj, mi, lv⟩, []), r3)
      | '{' :: r2 =>
        let rec members (k : Nat) (acc : Decl) (r : List Char) : Option (Decl × List Char) :=
          match k with
          | 0 => none
          | k + 1 =>
            match r with
            | '}' :: r' => some (acc, r')
            | ',' :: r' => members k acc r'
            | _ =>
              match pTy fuel r with
              | some ((t, _), r') => members k (acc ++ [t]) r'
              | none => none
        match members (r2.length + 1) [] r2 with
        | some (d, r3) => some ((mkTupleTy djb d lv, d), r3)
        | none => none
      | _ => some ((⟨mj, 0, lv⟩, []), r1)
  | _, [] => none

def parseTD (s : String) : Option TD :=
  match pTy 8 s.toList with
  | some (td, []) => some td
  | _ => none

def showTy (t : Ty) : String :=
  let base := String.singleton (letterOfMajor t.major) ++ toString t.level
  if t.major == 7 then base ++ "#" ++ toString t.minor
  else if t.major == 5 then base ++ ":" ++ toString t.minor
  else base

def showTD (td : TD) : String :=
  if td.1.major == 7 && !td.2.isEmpty then
    String.singleton 'u' ++ toString td.1.level ++ "{" ++ ",".intercalate (td.2.map showTy) ++ "}"
  else showTy td.1

def hexNat? (s : String) : Option Nat :=
  if s.isEmpty then none else
  s.toList.foldl (fun acc c => acc.bind fun n =>
    if c.isDigit then some (n * 16 + (c.toNat - 48))
    else if 'a' ≤ c ∧ c ≤ 'f' then some (n * 16 + (c.toNat - 87)) else none) (some 0)

def hexOfNat (n : Nat) : String := String.ofList (Nat.toDigits 16 n)

/-- what a snapshot shows of one symbol: the safety GETTER (`_safety || _locked`) and the lock -/
structure OSym where
  name : String
  td : TD
  safety : Bool
  locked : Bool
  deriving DecidableEq

structure Snap where
  syms : List OSym
  exec : Nat
  bk : Nat
  cond : Nat
  fns : List Fn
  deriving DecidableEq

def splitNE (s : String) (sep : Char) : List String := if s.isEmpty then [] else s.split (· == sep) |>.toList.map (·.toString)

def parseSym (s : String) : Option OSym :=
  match splitNE s '~' with
  | [n, t, f] =>
    match parseTD t, f.toList with
    | some td, [a, b] => some ⟨n, td, a == '1', b == '1'⟩
    | _, _ => none
  | _ => none

def parseFn (s : String) : Option Fn :=
  match splitNE s '~' with
  | [n, a, b, p] =>
    match a.toNat?, hexNat? p with
    | some ar, some fid => some ⟨n, ar, fid, b == "1"⟩
    | _, _ => none
  | _ => none

def parseSnap (s : String) : Option Snap :=
  match splitNE s '!' with
  | [ps, pe, pb, pc, pf] =>
    if !(ps.startsWith "S" && pe.startsWith "E" && pb.startsWith "B" && pc.startsWith "C" && pf.startsWith "F") then none else
    match (splitNE (ps.drop 1).toString ';').mapM parseSym, (pe.drop 1).toString.toNat?, (pb.drop 1).toString.toNat?,
          (pc.drop 1).toString.toNat?, (splitNE (pf.drop 1).toString ';').mapM parseFn with
    | some syms, some e, some b, some c, some fns => some ⟨syms, e, b, c, fns⟩
    | _, _, _, _, _ => none
  | _ => none

def showSnap (s : Snap) : String :=
  "S" ++ ";".intercalate (s.syms.map fun y => y.name ++ "~" ++ showTD y.td ++ "~" ++ (if y.safety then "1" else "0") ++ (if y.locked then "1" else "0"))
    ++ "!E" ++ toString s.exec ++ "!B" ++ toString s.bk ++ "!C" ++ toString s.cond ++ "!F"
    ++ ";".intercalate (s.fns.map fun f => f.name ++ "~" ++ toString f.arity ++ "~" ++ (if f.body then "1" else "0") ++ "~" ++ hexOfNat f.fid)

/-! ### model state ↔ snapshot -/

def zip3 : List String → List TD → List Fl → List OSym
  | n :: ns, t :: ts, f :: fs => ⟨n, t, Fl.safety f, Fl.locked f⟩ :: zip3 ns ts fs
  | _, _, _ => []

/-- observation of a model context; the break/continue/return bits of `cond` are not touched by parsing and are
carried over from the first snapshot -/
def obs (c : Ctx) (cond0 : Nat) : Snap :=
  ⟨zip3 c.names c.tds c.fls, c.exec, c.backed.length, (cond0 % 8) + (if c.parsing then 8 else 0), c.fns⟩

/-- the context before the text, from the first snapshot (taken after `parsingBegin`). The raw `_safety` of a
locked symbol is not observable; it is taken to be set (`$`-names) or clear — immaterial: a locked symbol is
refused by every event that would look at it. -/
def ctxOfSnap (s : Snap) : Ctx :=
  { names := s.syms.map (·.name), tds := s.syms.map (·.td),
    fls := s.syms.map fun y => (y.safety && !y.locked || (y.locked && y.name.front == '$'), y.locked),
    backed := [], exec := s.exec, parsing := false, fns := s.fns, fbacked := none }

def regTyOf (td : TD) : RegTy :=
  if td.1.major == ROWTYPE && !td.2.isEmpty then .tuple td.2 td.1.level else .plain td.1

/-- candidate events that could lead from the model state to the observed snapshot -/
def candidates (st : St) (cur tgt : Snap) : List Ev :=
  let n := cur.syms.length
  let idx := List.range n
  -- symbols: new ones, then changed types
  let news := (tgt.syms.drop n).take 1 |>.map fun y => Ev.reg y.name (regTyOf y.td)
  let chg := (List.zip cur.syms tgt.syms).filterMap fun (a, b) => if a.td != b.td then some (Ev.reg a.name (regTyOf b.td)) else none
  -- function table: a new entry, or an entry whose functor changed; a body that appeared
  let fnNew := (tgt.fns.drop cur.fns.length).take 1 |>.map fun f => Ev.fnBegin f.name f.arity f.fid
  let fnChg := (List.zip cur.fns tgt.fns).filterMap fun (a, b) => if a.fid != b.fid then some (Ev.fnBegin b.name b.arity b.fid) else none
  -- iterators: a symbol that is not protected yet first (FORALL::parse refuses a protected one unless its own header has just
  -- created it): in a forall nested over the same table "iterator v over t" and "protected v' over the iterator" look alike
  let isSafe := fun (v : Nat) => match cur.syms[v]? with | some y => y.safety | none => false
  let idxV := idx.filter (fun v => !isSafe v) ++ idx.filter isSafe
  let enters := if tgt.exec > cur.exec then
      [Ev.enterBlk] ++ idx.map Ev.enterFor ++ idxV.map (fun v => Ev.enterForall v none)
        ++ idxV.flatMap (fun v => idx.map fun t => Ev.enterForall v (some t))
    else []
  let leaves := if tgt.exec < cur.exec || st.child.isSome then [Ev.leave] else []
  news ++ chg ++ fnNew ++ fnChg ++ leaves ++ enters

/-- one or two events whose effect on `st` is observed as `tgt` -/
def explain (st : St) (cond0 : Nat) (tgt : Snap) : Option (List Ev × St) :=
  let cur := obs st.ctx cond0
  let cands := candidates st cur tgt
  let one := cands.findSome? fun e =>
    match step djb st e with
    | .ok st' => if obs st'.ctx cond0 == tgt then some ([e], st') else none
    | .error _ => none
  match one with
  | some r => some r
  | none =>
    cands.findSome? fun e1 =>
      match step djb st e1 with
      | .error _ => none
      | .ok st1 =>
        (candidates st1 (obs st1.ctx cond0) tgt).findSome? fun e2 =>
          match step djb st1 e2 with
          | .ok st2 => if obs st2.ctx cond0 == tgt then some ([e1, e2], st2) else none
          | .error _ => none

def showRegTy : RegTy → String
  | .plain t => showTy t
  | .tuple d lv => showTD (mkTupleTy djb d lv, d)

def showEv : Ev → String
  | .reg n r => "reg:" ++ n ++ ":" ++ showRegTy r
  | .enterFor i => "for:" ++ toString i
  | .enterForall v none => "forall:" ++ toString v
  | .enterForall v (some t) => "forall:" ++ toString v ++ ":" ++ toString t
  | .enterBlk => "blk"
  | .leave => "leave"
  | .fnBegin n a f => "fn:" ++ n ++ "/" ++ toString a ++ "/" ++ hexOfNat f
  | .fail => "fail"

/-- walk the observed snapshots; `(events, state, index of the first unexplained snapshot)` -/
def walk (cond0 : Nat) : St → List Snap → Nat → List Ev → List Ev × St × Option Nat
  | st, [], _, acc => (acc, st, none)
  | st, s :: rest, k, acc =>
    match explain st cond0 s with
    | some (evs, st') => walk cond0 st' rest (k + 1) (acc ++ evs)
    | none => (acc, st, some k)

def kfOf (c0 c' : Ctx) (evs : List Ev) : String :=
  -- the repaired finding: a redefinition of a pre-existing function was COMPLETED before the error, and it is
  -- still installed afterwards. With the journal the model never says so any more (Proofs/C11: reject_restores_functions);
  -- the test stays so that a model change that loses the revert shows up as a region nobody has listed.
  if redefinitionCompleted djb c0 (St.init c0) evs && !decide (FnsPreserved c0 c')
  then "C11.complete_redefinition_survives_reject" else "-"

/-- the region of the repaired finding, for the coverage statistics of the check -/
def formerRegion (c0 : Ctx) (evs : List Ev) : String :=
  if redefinitionCompleted djb c0 (St.init c0) evs then "1" else "0"

/-- types tried for an unobserved trailing upgrade (which one it was does not matter once it is restored) -/
def someTypes : List RegTy :=
  [.plain ⟨2, 0, 0⟩, .plain ⟨4, 0, 0⟩, .plain ⟨3, 0, 0⟩, .plain ⟨1, 0, 0⟩, .plain ⟨6, 0, 0⟩, .plain ⟨0, 0, 0⟩,
   .plain ⟨2, 0, 1⟩, .plain ⟨4, 0, 1⟩, .plain ⟨0, 0, 1⟩, .plain ⟨7, 0, 0⟩, .tuple [⟨2, 0, 0⟩] 0, .tuple [⟨2, 0, 0⟩] 1]

/-- One registration may happen between the last reader call and the ParseError (e.g. `x = 1 y`: the lookahead `y`
ends the expression, `x` is registered, then `y` is refused): it is not in the trace. When the final context of the
implementation is given and differs from the model's, look for ONE such registration that accounts for it. -/
def hiddenReg (st : St) (cond0 : Nat) (final : Snap) : Option (Ev × Ctx) :=
  let cur := obs st.ctx cond0
  let news := (final.syms.drop cur.syms.length).take 1 |>.map fun y => Ev.reg y.name (regTyOf y.td)
  let ups := cur.syms.flatMap fun y => someTypes.map fun r => Ev.reg y.name r
  (news ++ ups).findSome? fun e =>
    match step djb st e with
    | .ok st' =>
      let c' := rejectCtx djb st'
      if st'.ctx != st.ctx && obs c' cond0 == final then some (e, c') else none
    | .error _ => none

/-! ### name-level reading of explained events (pctx-heads, hist) -/

def stepOr (st : St) (e : Ev) : St :=
  match step djb st e with
  | .ok s => s
  | .error _ => st

/-- name-level reading of an explained event list: ids → names, header registration + clause entry → one statement head.
A registration with the type the symbol already has is not observable: a lone clause entry is the whole header. -/
def decompF : Nat → St → List Ev → List NEv
  | 0, _, _ => []
  | _, _, [] => []
  | fuel + 1, st, e :: es =>
    match st.child with
    | some _ =>
      (match e with
        | .reg n r => NEv.reg n r
        | .enterFor _ => .enterBlk
        | .enterForall _ _ => .enterBlk
        | .enterBlk => .enterBlk
        | .leave => .leave
        | .fnBegin n a f => .fnBegin n a f
        | .fail => .fail) :: decompF fuel (stepOr st e) es
    | none =>
      match e with
      | .reg n r =>
        let st1 := stepOr st e
        match es with
        | .enterFor i :: es' =>
          if r == .plain intTy && findName n st1.ctx.names == some i then
            .forLoop n :: decompF fuel (stepOr st1 (.enterFor i)) es'
          else .reg n r :: decompF fuel st1 es
        | .enterForall i t :: es' =>
          let tn : Option (Option String) := match t with
            | none => some none
            | some j => (st1.ctx.names[j]?).map some
          match findName n st1.ctx.names == some i, tn with
          | true, some tn => .forallLoop n r tn :: decompF fuel (stepOr st1 (.enterForall i t)) es'
          | _, _ => .reg n r :: decompF fuel st1 es
        | _ => .reg n r :: decompF fuel st1 es
      | .enterFor i =>
        (match st.ctx.names[i]? with
          | some n => NEv.forLoop n
          | none => .fail) :: decompF fuel (stepOr st e) es
      | .enterForall v t =>
        let tn : Option (Option String) := match t with
          | none => some none
          | some j => (st.ctx.names[j]?).map some
        (match st.ctx.names[v]?, st.ctx.tds[v]?, tn with
          | some n, some td, some tn => NEv.forallLoop n (regTyOf td) tn
          | _, _, _ => .fail) :: decompF fuel (stepOr st e) es
      | .enterBlk => .enterBlk :: decompF fuel (stepOr st e) es
      | .leave => .leave :: decompF fuel (stepOr st e) es
      | .fnBegin n a f => .fnBegin n a f :: decompF fuel (stepOr st e) es
      | .fail => .fail :: decompF fuel st es

def decomp (st : St) (evs : List Ev) : List NEv := decompF (evs.length + 1) st evs

/-- the FOR / FORALL heads of the text (outside function bodies) as the check reads them off the tokens, in order:
`F:<hex control variable>` / `A:<hex iterator>:<hex target variable | ->`, comma separated -/
def parseHeads (s : String) : List String :=
  if s == "-" then [] else s.splitOn ","

/-- `a` is a subsequence of `b` (a clause entry on an already type-safe FOR variable looks like a plain block in a snapshot:
such a head of the text may be missing from the heads read off the trace, but no head may be there that the text lacks) -/
def isSubseq : List String → List String → Bool
  | [], _ => true
  | _ :: _, [] => false
  | a :: as, b :: bs => if a == b then isSubseq as bs else isSubseq (a :: as) bs

def loopHeads (nevs : List NEv) : List String :=
  nevs.filterMap fun e => match e with
    | .forLoop n => some ("F:" ++ n)
    | .forallLoop v _ t => some ("A:" ++ v ++ ":" ++ t.getD "-")
    | _ => none

def handlePctx (verdict : String) (trace : String) (finalStr : String) (heads : String := "*") : String :=
  match (splitNE trace '^').mapM parseSnap with
  | none => "bad-snap"
  | some [] => "bad-snap"
  | some (s0 :: rest) =>
    let c0 := ctxOfSnap s0
    let cond0 := s0.cond
    let (evs0, st, stuck) := walk cond0 (St.init c0) rest 1 []
    let final0 : Option Ctx :=
      if verdict == "rej" then some (rejectCtx djb st)
      else if st.stack.isEmpty && st.child.isNone then some (parsingEnd djb st.ctx) else none
    let specSnap : Snap := { (obs c0 cond0) with bk := 0 }
    match final0 with
    | none => "model=open-clause-at-accept spec=" ++ showSnap specSnap ++ " ev=" ++ ",".intercalate (evs0.map showEv)
    | some c0' =>
      -- an unobserved trailing registration?
      let (evs, c', hidden) : List Ev × Ctx × Bool :=
        match verdict == "rej" && stuck.isNone, parseSnap finalStr with
        | true, some fin =>
          if obs c0' cond0 == fin then (evs0, c0', false) else
          match hiddenReg st cond0 fin with
          | some (e, c2) => (evs0 ++ [e], c2, true)
          | none => (evs0, c0', false)
        | _, _ => (evs0, c0', false)
      let note := match stuck with
        | some k => " note=unexplained-snapshot-" ++ toString k
        | none => ""
      -- the events the model was run on, as a sanity check of the walk: parseText on them gives the same context
      let viaParse := match parseText djb c0 (evs ++ (if verdict == "rej" then [Ev.fail] else [])) with
        | .reject c2 => verdict == "rej" && c2 == c'
        | .accept c2 => verdict != "rej" && c2 == c'
      -- the clause entries found in the trace must be the FOR / FORALL heads of the text, in order (`*` = not given)
      let lh := loopHeads (decomp (St.init c0) evs)
      let note := if note != "" || heads == "*" || isSubseq lh (parseHeads heads) then note
        else " note=loop-heads-of-the-trace-are-not-those-of-the-text:" ++ ",".intercalate lh
      "model=" ++ showSnap (obs c' cond0) ++ " spec=" ++ showSnap specSnap
        ++ " kf=" ++ (if verdict == "rej" then kfOf c0 c' evs else "-")
        ++ " fr=" ++ (if verdict == "rej" then formerRegion c0 evs else "0")
        ++ " ev=" ++ (if evs.isEmpty then "-" else ",".intercalate (evs.map showEv)) ++ (if hidden then "(unobserved)" else "")
        ++ (if viaParse || stuck.isSome then "" else " note=walk-differs-from-parseText") ++ note

/-- `pctx-events <snap0> <ev,ev,…>`: the model run on an explicit event list (used by the witnesses of the findings) -/
def parseEv (s : String) : Option Ev :=
  match s.splitOn ":" with
  | ["blk"] => some .enterBlk
  | ["leave"] => some .leave
  | ["fail"] => some .fail
  | ["for", i] => i.toNat?.map Ev.enterFor
  | ["forall", v] => v.toNat?.map fun v => Ev.enterForall v none
  | ["forall", v, t] => match v.toNat?, t.toNat? with | some v, some t => some (.enterForall v (some t)) | _, _ => none
  | ["reg", n, t] => (parseTD t).map fun td => Ev.reg n (regTyOf td)
  | ["fn", rest] =>
    match rest.splitOn "/" with
    | [n, a, f] => match a.toNat?, hexNat? f with | some a, some f => some (.fnBegin n a f) | _, _ => none
    | _ => none
  | _ => none

def handleEvents (snap0 : String) (evs : String) : String :=
  match parseSnap snap0, (if evs == "-" then some [] else (evs.splitOn ",").mapM parseEv) with
  | some s0, some es =>
    let c0 := ctxOfSnap s0
    match parseText djb c0 es with
    | .reject c' => "model=rej " ++ showSnap (obs c' s0.cond) ++ " spec=" ++ showSnap { (obs c0 s0.cond) with bk := 0 } ++ " kf=" ++ kfOf c0 c' es
        ++ " fr=" ++ formerRegion c0 es
    | .accept c' => "model=acc " ++ showSnap (obs c' s0.cond) ++ " kf=-"
  | _, _ => "bad-op"

/-! ### histories: `hist <verdict> <trace> <final> <forall heads> <verdict> <trace> <final> <forall heads> …`

Several texts submitted one after the other to ONE context (each `ptrace`d). The model context is CARRIED from text to text
(left-over names, function table, `_backed`): the first snapshot of every text must be the carried model context; every
trace is explained from it; the explained events are read back as statement heads by NAME (`decomp`) and the statement-level
machine `parseTextN` (raw clause entries, FORALL header test, `findSymbol` resolution) must give the same outcome. Then, for
every rejected text k, the model runs the history WITHOUT it (`runHistory` on the name-level texts) and says whether the
hypotheses of `later_parse_independent_of_rejected` hold for it (`hyp<k>`): the check compares that prediction with a twin. -/

/-- one text of a history explained from the carried context `c`: events, final model context, note -/
def explainText (c : Ctx) (cond0 : Nat) (rest : List Snap) (rej : Bool) (finalStr : String) : List Ev × Option Ctx × String :=
  let (evs0, st, stuck) := walk cond0 (St.init c) rest 1 []
  let final0 : Option Ctx :=
    if rej then some (rejectCtx djb st)
    else if st.stack.isEmpty && st.child.isNone then some (parsingEnd djb st.ctx) else none
  match final0 with
  | none => (evs0, none, "open-clause-at-accept")
  | some c0' =>
    let (evs, c') : List Ev × Ctx :=
      match rej && stuck.isNone, parseSnap finalStr with
      | true, some fin =>
        if obs c0' cond0 == fin then (evs0, c0') else
        match hiddenReg st cond0 fin with
        | some (e, c2) => (evs0 ++ [e], c2)
        | none => (evs0, c0')
      | _, _ => (evs0, c0')
    (evs, some c', match stuck with | some k => "unexplained-snapshot-" ++ toString k | none => "-")

structure HText where
  rej : Bool
  nevs : List NEv
  before : Ctx
  after : Ctx
  kf : Bool

def dropNth {α} : List α → Nat → List α
  | [], _ => []
  | _ :: xs, 0 => xs
  | x :: xs, n + 1 => x :: dropNth xs n

def histLoop (cond0 : Nat) : Option Ctx → List (String × String × String × String) → Nat → List HText → List String → List HText × List String
  | _, [], _, acc, out => (acc, out)
  | carried, (verdict, trace, fin, heads) :: rest, k, acc, out =>
    let tag := toString k
    match (splitNE trace '^').mapM parseSnap with
    | none | some [] => (acc, out ++ ["note" ++ tag ++ "=bad-snap"])
    | some (s0 :: snaps) =>
      let c : Ctx := match carried with | some c => c | none => ctxOfSnap s0
      let carryOk := obs (parsingBegin c) cond0 == s0
      let rej := verdict == "rej"
      let (evs, c'?, note0) := explainText c cond0 snaps rej fin
      match c'? with
      | none => (acc, out ++ ["note" ++ tag ++ "=" ++ note0])
      | some c' =>
        let nevs := decomp (St.init c) evs ++ (if rej then [NEv.fail] else [])
        -- the clause entries found in the trace must be the FOR / FORALL heads the text has, in order (kind, variable AND
        -- target: a snapshot alone cannot tell "forall over the already locked table t" from "forall over a temporary" or
        -- from a FOR clause on the same variable)
        let fh := loopHeads nevs
        let note := if note0 != "-" then note0 else if isSubseq fh (parseHeads heads) then "-"
          else "loop-heads-of-the-trace-are-not-those-of-the-text:" ++ ",".intercalate fh
        let o := parseTextN djb c nevs
        let nlOk := o.ok == !rej && o.ctx == c'
        let kf := rej && redefinitionCompleted djb c (St.init c) evs && !decide (FnsPreserved c c')
        let line := ["v" ++ tag ++ "=" ++ (if rej then "rej" else "acc"), "m" ++ tag ++ "=" ++ showSnap (obs c' cond0),
          "carry" ++ tag ++ "=" ++ (if carryOk then "ok" else "DIFF:" ++ showSnap (obs (parsingBegin c) cond0)),
          "nl" ++ tag ++ "=" ++ (if nlOk then "ok" else "DIFF:" ++ (if o.ok then "acc" else "rej") ++ ":" ++ showSnap (obs o.ctx cond0)),
          "kf" ++ tag ++ "=" ++ (if kf then "C11.complete_redefinition_survives_reject" else "-"),
          "fr" ++ tag ++ "=" ++ (if rej then formerRegion c evs else "0"),
          "note" ++ tag ++ "=" ++ note, "ev" ++ tag ++ "=" ++ (if evs.isEmpty then "-" else ",".intercalate (evs.map showEv))]
        histLoop cond0 (some c') rest (k + 1) (acc ++ [⟨rej, nevs, c, c', kf⟩]) (out ++ line)

def triples : List String → Option (List (String × String × String × String))
  | [] => some []
  | a :: b :: c :: d :: rest => (triples rest).map fun r => (a, b, c, d) :: r
  | _ => none

def handleHist (items : List String) : String :=
  match triples items with
  | none => "bad-op"
  | some [] => "bad-op"
  | some ((v, tr, fin, hd) :: rest) =>
    let cond0 : Nat := match (splitNE tr '^').head? >>= parseSnap with | some s => s.cond | none => 0
    let (texts, out) := histLoop cond0 none ((v, tr, fin, hd) :: rest) 1 [] []
    match texts.head? with
    | none => " ".intercalate out
    | some t0 =>
      let c0 := t0.before
      let idx := List.range texts.length
      -- the history without its k-th text, for every rejected k
      let wo := idx.flatMap fun k =>
        match texts[k]? with
        | some t =>
          if !t.rej then [] else
          let others := dropNth texts k
          let r := runHistory djb c0 (others.map (·.nevs))
          let withV := others.map fun u => !u.rej
          let x := leftOver t.before t.after
          let later := texts.drop (k + 1)
          -- the hypothesis of `later_parse_independent_of_rejected` (no proviso on redefinitions any more)
          let hyp := later.all fun u => u.nevs.all (NEv.avoids x)
          let tag := toString (k + 1)
          ["wo" ++ tag ++ "=" ++ String.ofList (r.1.map fun b => if b then 'a' else 'r'),
           "wf" ++ tag ++ "=" ++ showSnap (obs r.2 cond0),
           "hyp" ++ tag ++ "=" ++ (if hyp then "1" else "0"),
           "th" ++ tag ++ "=" ++ (if !hyp then "na" else if r.1 == withV then "ok" else "FAIL")]
        | none => []
      " ".intercalate (out ++ wo)

def handle (words : List String) : Option String :=
  match words with
  | ["pctx", verdict, trace] => some (handlePctx verdict trace "-")
  | ["pctx", verdict, trace, final] => some (handlePctx verdict trace final)
  | ["pctx", verdict, trace, final, heads] => some (handlePctx verdict trace final heads)
  | ["pctx-events", snap0, evs] => some (handleEvents snap0 evs)
  | "hist" :: items => some (handleHist items)
  | _ => none

end BlocV.DrvC11
