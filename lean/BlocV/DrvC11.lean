/-
  Driver command of the C11 correspondence: `pctx acc|rej <snap>^<snap>^…`. I/O glue only; imports the Model
  (BlocV/Model/ParseCtx.lean), never the proofs.

  The snapshots are what the probe op `ptrace` / `stepc` observed of the context every time the scanner asked
  for more text during ONE parse (harness/blocprobe.cpp, `c11Snap`). The driver
    1. takes the first snapshot as the context before the text,
    2. explains every following snapshot as the effect of one (at most two) model events on the model state
       (search over the finite candidate set read off the snapshot) — the observed trace must be a run of the model,
    3. applies the verdict (`rej`: catch blocks + rollback + parsingEnd; `acc`: parsingEnd) and answers
         model=<summary of the final model context> spec=<summary of the pre-existing part demanded by C11>
         kf=<finding region decided from the events | -> ev=<the events found> [note=…]
  Summary format = snapshot format.
-/
import BlocV.Model.ParseCtx
import BlocV.Gen.Consts

namespace BlocV.DrvC11
open BlocV.ParseCtx

/-! ### the structure hash of the code (`TupleDecl::Decl::make_type`: DJB over (minor << 8) + major, mod 65535) -/
def djb (d : Decl) : Nat :=
  (d.foldl (fun h m => ((h * 32) % 2 ^ 64 + h + ((m.minor * 256) + m.major)) % 2 ^ 64) 5381) % Gen.TYPE_MINOR_MAX

/-! ### parsing the snapshot text -/

def majorOfLetter : Char → Option Nat
  | '?' => some 0 | 'b' => some 1 | 'i' => some 2 | 'd' => some 3 | 's' => some 4 | 'o' => some 5
  | 'r' => some 6 | 'u' => some 7 | 'p' => some 8 | 'c' => some 9 | _ => none

def letterOfMajor : Nat → Char
  | 0 => '?' | 1 => 'b' | 2 => 'i' | 3 => 'd' | 4 => 's' | 5 => 'o' | 6 => 'r' | 7 => 'u' | 8 => 'p' | 9 => 'c' | _ => '!'

def takeNat : List Char → Nat × List Char
  | cs => let ds := cs.takeWhile Char.isDigit
          (ds.foldl (fun n c => n * 10 + (c.toNat - 48)) 0, cs.drop ds.length)

/-- `<letter><level>[{ty,…}|#minor|:minor]` → type, decl, rest -/
def pTy : Nat → List Char → Option (TD × List Char)
  | 0, _ => none
  | fuel + 1, c :: cs =>
    match majorOfLetter c with
    | none => none
    | some mj =>
      let (lv, r1) := takeNat cs
      match r1 with
      | '#' :: r2 => let (mi, r3) := takeNat r2; some ((⟨mj, mi, lv⟩, []), r3)
      | ':' :: r2 => let (mi, r3) := takeNat r2; some ((⟨mj, mi, lv⟩, []), r3)
      | '{' :: r2 =>
        let rec members (k : Nat) (acc : Decl) (r : List Char) : Option (Decl × List Char) :=
          match k with
          | 0 => none
          | k + 1 =>
            match r with
            | '}' :: r' => some (acc, r')
            | ',' :: r' => members k acc r'
            | _ =>
              match pTy fuel r with
              | some ((t, _), r') => members k (acc ++ [t]) r'
              | none => none
        match members (r2.length + 1) [] r2 with
        | some (d, r3) => some ((mkTupleTy djb d lv, d), r3)
        | none => none
      | _ => some ((⟨mj, 0, lv⟩, []), r1)
  | _, [] => none

def parseTD (s : String) : Option TD :=
  match pTy 8 s.toList with
  | some (td, []) => some td
  | _ => none

def showTy (t : Ty) : String :=
  let base := String.singleton (letterOfMajor t.major) ++ toString t.level
  if t.major == 7 then base ++ "#" ++ toString t.minor
  else if t.major == 5 then base ++ ":" ++ toString t.minor
  else base

def showTD (td : TD) : String :=
  if td.1.major == 7 && !td.2.isEmpty then
    String.singleton 'u' ++ toString td.1.level ++ "{" ++ ",".intercalate (td.2.map showTy) ++ "}"
  else showTy td.1

def hexNat? (s : String) : Option Nat :=
  if s.isEmpty then none else
  s.toList.foldl (fun acc c => acc.bind fun n =>
    if c.isDigit then some (n * 16 + (c.toNat - 48))
    else if 'a' ≤ c ∧ c ≤ 'f' then some (n * 16 + (c.toNat - 87)) else none) (some 0)

def hexOfNat (n : Nat) : String := String.ofList (Nat.toDigits 16 n)

/-- what a snapshot shows of one symbol: the safety GETTER (`_safety || _locked`) and the lock -/
structure OSym where
  name : String
  td : TD
  safety : Bool
  locked : Bool
  deriving DecidableEq

structure Snap where
  syms : List OSym
  exec : Nat
  bk : Nat
  cond : Nat
  fns : List Fn
  deriving DecidableEq

def splitNE (s : String) (sep : Char) : List String := if s.isEmpty then [] else s.split (· == sep) |>.toList.map (·.toString)

def parseSym (s : String) : Option OSym :=
  match splitNE s '~' with
  | [n, t, f] =>
    match parseTD t, f.toList with
    | some td, [a, b] => some ⟨n, td, a == '1', b == '1'⟩
    | _, _ => none
  | _ => none

def parseFn (s : String) : Option Fn :=
  match splitNE s '~' with
  | [n, a, b, p] =>
    match a.toNat?, hexNat? p with
    | some ar, some fid => some ⟨n, ar, fid, b == "1"⟩
    | _, _ => none
  | _ => none

def parseSnap (s : String) : Option Snap :=
  match splitNE s '!' with
  | [ps, pe, pb, pc, pf] =>
    if !(ps.startsWith "S" && pe.startsWith "E" && pb.startsWith "B" && pc.startsWith "C" && pf.startsWith "F") then none else
    match (splitNE (ps.drop 1).toString ';').mapM parseSym, (pe.drop 1).toString.toNat?, (pb.drop 1).toString.toNat?,
          (pc.drop 1).toString.toNat?, (splitNE (pf.drop 1).toString ';').mapM parseFn with
    | some syms, some e, some b, some c, some fns => some ⟨syms, e, b, c, fns⟩
    | _, _, _, _, _ => none
  | _ => none

def showSnap (s : Snap) : String :=
  "S" ++ ";".intercalate (s.syms.map fun y => y.name ++ "~" ++ showTD y.td ++ "~" ++ (if y.safety then "1" else "0") ++ (if y.locked then "1" else "0"))
    ++ "!E" ++ toString s.exec ++ "!B" ++ toString s.bk ++ "!C" ++ toString s.cond ++ "!F"
    ++ ";".intercalate (s.fns.map fun f => f.name ++ "~" ++ toString f.arity ++ "~" ++ (if f.body then "1" else "0") ++ "~" ++ hexOfNat f.fid)

/-! ### model state ↔ snapshot -/

def zip3 : List String → List TD → List Fl → List OSym
  | n :: ns, t :: ts, f :: fs => ⟨n, t, Fl.safety f, Fl.locked f⟩ :: zip3 ns ts fs
  | _, _, _ => []

/-- observation of a model context; the break/continue/return bits of `cond` are not touched by parsing and are
carried over from the first snapshot -/
def obs (c : Ctx) (cond0 : Nat) : Snap :=
  ⟨zip3 c.names c.tds c.fls, c.exec, c.backed.length, (cond0 % 8) + (if c.parsing then 8 else 0), c.fns⟩

/-- the context before the text, from the first snapshot (taken after `parsingBegin`). The raw `_safety` of a
locked symbol is not observable; it is taken to be set (`$`-names) or clear — immaterial: a locked symbol is
refused by every event that would look at it. -/
def ctxOfSnap (s : Snap) : Ctx :=
  { names := s.syms.map (·.name), tds := s.syms.map (·.td),
    fls := s.syms.map fun y => (y.safety && !y.locked || (y.locked && y.name.front == '$'), y.locked),
    backed := [], exec := s.exec, parsing := false, fns := s.fns, fbacked := none }

def regTyOf (td : TD) : RegTy :=
  if td.1.major == ROWTYPE && !td.2.isEmpty then .tuple td.2 td.1.level else .plain td.1

/-- candidate events that could lead from the model state to the observed snapshot -/
def candidates (st : St) (cur tgt : Snap) : List Ev :=
  let n := cur.syms.length
  let idx := List.range n
  -- symbols: new ones, then changed types
  let news := (tgt.syms.drop n).take 1 |>.map fun y => Ev.reg y.name (regTyOf y.td)
  let chg := (List.zip cur.syms tgt.syms).filterMap fun (a, b) => if a.td != b.td then some (Ev.reg a.name (regTyOf b.td)) else none
  -- function table: a new entry, or an entry whose functor changed; a body that appeared
  let fnNew := (tgt.fns.drop cur.fns.length).take 1 |>.map fun f => Ev.fnBegin f.name f.arity f.fid
  let fnChg := (List.zip cur.fns tgt.fns).filterMap fun (a, b) => if a.fid != b.fid then some (Ev.fnBegin b.name b.arity b.fid) else none
  let enters := if tgt.exec > cur.exec then
      [Ev.enterBlk] ++ idx.map Ev.enterFor ++ idx.map (fun v => Ev.enterForall v none)
        ++ idx.flatMap (fun v => idx.map fun t => Ev.enterForall v (some t))
    else []
  let leaves := if tgt.exec < cur.exec || st.child.isSome then [Ev.leave] else []
  news ++ chg ++ fnNew ++ fnChg ++ leaves ++ enters

/-- one or two events whose effect on `st` is observed as `tgt` -/
def explain (st : St) (cond0 : Nat) (tgt : Snap) : Option (List Ev × St) :=
  let cur := obs st.ctx cond0
  let cands := candidates st cur tgt
  let one := cands.findSome? fun e =>
    match step djb st e with
    | .ok st' => if obs st'.ctx cond0 == tgt then some ([e], st') else none
    | .error _ => none
  match one with
  | some r => some r
  | none =>
    cands.findSome? fun e1 =>
      match step djb st e1 with
      | .error _ => none
      | .ok st1 =>
        (candidates st1 (obs st1.ctx cond0) tgt).findSome? fun e2 =>
          match step djb st1 e2 with
          | .ok st2 => if obs st2.ctx cond0 == tgt then some ([e1, e2], st2) else none
          | .error _ => none

def showRegTy : RegTy → String
  | .plain t => showTy t
  | .tuple d lv => showTD (mkTupleTy djb d lv, d)

def showEv : Ev → String
  | .reg n r => "reg:" ++ n ++ ":" ++ showRegTy r
  | .enterFor i => "for:" ++ toString i
  | .enterForall v none => "forall:" ++ toString v
  | .enterForall v (some t) => "forall:" ++ toString v ++ ":" ++ toString t
  | .enterBlk => "blk"
  | .leave => "leave"
  | .fnBegin n a f => "fn:" ++ n ++ "/" ++ toString a ++ "/" ++ hexOfNat f
  | .fail => "fail"

/-- walk the observed snapshots; `(events, state, index of the first unexplained snapshot)` -/
def walk (cond0 : Nat) : St → List Snap → Nat → List Ev → List Ev × St × Option Nat
  | st, [], _, acc => (acc, st, none)
  | st, s :: rest, k, acc =>
    match explain st cond0 s with
    | some (evs, st') => walk cond0 st' rest (k + 1) (acc ++ evs)
    | none => (acc, st, some k)

def kfOf (c0 c' : Ctx) (evs : List Ev) : String :=
  -- the remaining finding: a redefinition of a pre-existing function was COMPLETED before the error, and it is
  -- still installed afterwards
  if redefinitionCompleted djb c0 (St.init c0) evs && !decide (FnsPreserved c0 c')
  then "C11.complete_redefinition_survives_reject" else "-"

/-- types tried for an unobserved trailing upgrade (which one it was does not matter once it is restored) -/
def someTypes : List RegTy :=
  [.plain ⟨2, 0, 0⟩, .plain ⟨4, 0, 0⟩, .plain ⟨3, 0, 0⟩, .plain ⟨1, 0, 0⟩, .plain ⟨6, 0, 0⟩, .plain ⟨0, 0, 0⟩,
   .plain ⟨2, 0, 1⟩, .plain ⟨4, 0, 1⟩, .plain ⟨0, 0, 1⟩, .plain ⟨7, 0, 0⟩, .tuple [⟨2, 0, 0⟩] 0, .tuple [⟨2, 0, 0⟩] 1]

/-- One registration may happen between the last reader call and the ParseError (e.g. `x = 1 y`: the lookahead `y`
ends the expression, `x` is registered, then `y` is refused): it is not in the trace. When the final context of the
implementation is given and differs from the model's, look for ONE such registration that accounts for it. -/
def hiddenReg (st : St) (cond0 : Nat) (final : Snap) : Option (Ev × Ctx) :=
  let cur := obs st.ctx cond0
  let news := (final.syms.drop cur.syms.length).take 1 |>.map fun y => Ev.reg y.name (regTyOf y.td)
  let ups := cur.syms.flatMap fun y => someTypes.map fun r => Ev.reg y.name r
  (news ++ ups).findSome? fun e =>
    match step djb st e with
    | .ok st' =>
      let c' := parsingEnd djb (unwind st')
      if st'.ctx != st.ctx && obs c' cond0 == final then some (e, c') else none
    | .error _ => none

def handlePctx (verdict : String) (trace : String) (finalStr : String) : String :=
  match (splitNE trace '^').mapM parseSnap with
  | none => "bad-snap"
  | some [] => "bad-snap"
  | some (s0 :: rest) =>
    let c0 := ctxOfSnap s0
    let cond0 := s0.cond
    let (evs0, st, stuck) := walk cond0 (St.init c0) rest 1 []
    let final0 : Option Ctx :=
      if verdict == "rej" then some (parsingEnd djb (unwind st))
      else if st.stack.isEmpty && st.child.isNone then some (parsingEnd djb st.ctx) else none
    let specSnap : Snap := { (obs c0 cond0) with bk := 0 }
    match final0 with
    | none => "model=open-clause-at-accept spec=" ++ showSnap specSnap ++ " ev=" ++ ",".intercalate (evs0.map showEv)
    | some c0' =>
      -- an unobserved trailing registration?
      let (evs, c', hidden) : List Ev × Ctx × Bool :=
        match verdict == "rej" && stuck.isNone, parseSnap finalStr with
        | true, some fin =>
          if obs c0' cond0 == fin then (evs0, c0', false) else
          match hiddenReg st cond0 fin with
          | some (e, c2) => (evs0 ++ [e], c2, true)
          | none => (evs0, c0', false)
        | _, _ => (evs0, c0', false)
      let note := match stuck with
        | some k => " note=unexplained-snapshot-" ++ toString k
        | none => ""
      -- the events the model was run on, as a sanity check of the walk: parseText on them gives the same context
      let viaParse := match parseText djb c0 (evs ++ (if verdict == "rej" then [Ev.fail] else [])) with
        | .reject c2 => verdict == "rej" && c2 == c'
        | .accept c2 => verdict != "rej" && c2 == c'
      "model=" ++ showSnap (obs c' cond0) ++ " spec=" ++ showSnap specSnap
        ++ " kf=" ++ (if verdict == "rej" then kfOf c0 c' evs else "-")
        ++ " ev=" ++ (if evs.isEmpty then "-" else ",".intercalate (evs.map showEv)) ++ (if hidden then "(unobserved)" else "")
        ++ (if viaParse || stuck.isSome then "" else " note=walk-differs-from-parseText") ++ note

/-- `pctx-events <snap0> <ev,ev,…>`: the model run on an explicit event list (used by the witnesses of the findings) -/
def parseEv (s : String) : Option Ev :=
  match s.splitOn ":" with
  | ["blk"] => some .enterBlk
  | ["leave"] => some .leave
  | ["fail"] => some .fail
  | ["for", i] => i.toNat?.map Ev.enterFor
  | ["forall", v] => v.toNat?.map fun v => Ev.enterForall v none
  | ["forall", v, t] => match v.toNat?, t.toNat? with | some v, some t => some (.enterForall v (some t)) | _, _ => none
  | ["reg", n, t] => (parseTD t).map fun td => Ev.reg n (regTyOf td)
  | ["fn", rest] =>
    match rest.splitOn "/" with
    | [n, a, f] => match a.toNat?, hexNat? f with | some a, some f => some (.fnBegin n a f) | _, _ => none
    | _ => none
  | _ => none

def handleEvents (snap0 : String) (evs : String) : String :=
  match parseSnap snap0, (if evs == "-" then some [] else (evs.splitOn ",").mapM parseEv) with
  | some s0, some es =>
    let c0 := ctxOfSnap s0
    match parseText djb c0 es with
    | .reject c' => "model=rej " ++ showSnap (obs c' s0.cond) ++ " spec=" ++ showSnap { (obs c0 s0.cond) with bk := 0 } ++ " kf=" ++ kfOf c0 c' es
    | .accept c' => "model=acc " ++ showSnap (obs c' s0.cond) ++ " kf=-"
  | _, _ => "bad-op"

def handle (words : List String) : Option String :=
  match words with
  | ["pctx", verdict, trace] => some (handlePctx verdict trace "-")
  | ["pctx", verdict, trace, final] => some (handlePctx verdict trace final)
  | ["pctx-events", snap0, evs] => some (handleEvents snap0 evs)
  | _ => none

end BlocV.DrvC11
