/-
  Driver command of the C14 correspondence: I/O glue only. Imports the Model, never the proofs.

    world <fuel> <ops> <hex sexp of program 0> [<hex sexp of program 1> …]

  builds `World.initWorld progs fuel` (context 0 exists, nothing compiled) and applies the operations
  `ops` (joined by `,`) through `World.apply` — the function the C14 theorems are about:
     c<ctx>.<pid>  compile      s<ctx>.<pid>  start a run     t<ctx>  one statement step
     r<ctx>        steps of <ctx> until its run has ended (at most 100000)
     k<src>.<dst>  clone        p<ctx>  purge                 f<ctx>  free
     b<ctx>  bloc_break         u<ctx>  bloc_reset_stop       g<ctx>.<0|1>  trusted     v<ctx>.<0|1>  trace
  The operations go through `World.applyL` (= `World.apply` on the world, `applyL_world`), which also
  records against which table each program was compiled and whether every `start` was linked.
  Answer: `model=<ctx 0>#<ctx 1>#…#<ctx 15> err=<recorded error code|-> linked=<0|1> wf=<0|1 per program>`
  (`wf`: `World.wfDecls [] prog`, the checkable hypothesis of `world_run_eq_runProgram_wf`) where a context is
  `-` (does not exist) or `<running 0|1>~<result>~<hex output>~<name:V;…>~<trusted><trace><stop pending>~<NAME/arity,…>`
  (function table in table order); result = `none` (no run ended yet),
  `ok-`, `ok+<V>`, `rerr+<code>[+<hexarg>]`, `oof`, `hazard+<h>`, `unmodelled` (spaces written as `+`).
-/
import BlocV.Model.World
import BlocV.SExp
import BlocV.Proto

namespace BlocV.DrvC14
open BlocV BlocV.World BlocV.Proto

def parseOp (s : String) : Option (List Op) :=
  let k := s.front
  let rest := (s.drop 1).toString
  let two : Option (Nat × Nat) := match rest.splitOn "." with
    | [a, b] => do let x ← a.toNat?; let y ← b.toNat?; pure (x, y)
    | _ => none
  match k with
  | 'c' => two.map fun (c, p) => [Op.compile c p]
  | 's' => two.map fun (c, p) => [Op.start c p]
  | 'k' => two.map fun (a, b) => [Op.clone a b]
  | 't' => rest.toNat?.map fun c => [Op.step c]
  | 'p' => rest.toNat?.map fun c => [Op.purge c]
  | 'f' => rest.toNat?.map fun c => [Op.free c]
  | 'b' => rest.toNat?.map fun c => [Op.host c .brk]
  | 'u' => rest.toNat?.map fun c => [Op.host c .resetStop]
  | 'g' => two.map fun (c, b) => [Op.host c (.trusted (b != 0))]
  | 'v' => two.map fun (c, b) => [Op.host c (.trace (b != 0))]
  | _ => none

/-- steps of `c` until its run has ended -/
def runOut (w : World) (c : CtxId) : Nat → World
  | 0 => w
  | n + 1 =>
    match w.ctxs c with
    | some x => if x.running then runOut (World.step w c) c n else w
    | none => w

def applyWord (lw : LWorld) (s : String) : Option LWorld :=
  if s.front == 'r' then (s.drop 1).toString.toNat?.map fun c => { lw with w := runOut lw.w c 100000 }
  else (parseOp s).map fun ops => World.runL lw ops

def plus (s : String) : String := s.replace " " "+"

def resultStr : Option (Res (Option Val)) → String
  | none => "none"
  | some (.ok none) => "ok-"
  | some (.ok (some v)) => "ok+" ++ valStr v
  | some (.err c a) => if c == oofCode then "oof" else plus (resStr (.err c a : Res Val))
  | some (.haz h) => plus (resStr (.haz h : Res Val))
  | some .unmodelled => "unmodelled"

def ctxStr : Option Ctx → String
  | none => "-"
  | some x =>
    (if x.running then "1" else "0") ++ "~" ++ resultStr x.result ++ "~" ++ hexOfBytes x.st.output ++ "~" ++
      ";".intercalate (x.st.vars.map fun (n, v) => n ++ ":" ++ valStr v) ++ "~" ++
      (if x.trusted then "1" else "0") ++ (if x.trace then "1" else "0") ++ (if x.retPending then "1" else "0") ++ "~" ++
      ",".intercalate ((sigs x.funcs).map fun (n, a) => n ++ "/" ++ toString a)

def handle (words : List String) : Option String :=
  match words with
  | "world" :: fuel :: ops :: hexes =>
    let progs := hexes.mapM fun hex => SExp.readProgram (String.fromUTF8! (ByteArray.mk (bytesOfHex hex).toArray))
    match progs with
    | none => some "bad-prog"
    | some ps =>
      let w0 := initLWorld ps (fuel.toNat?.getD 100000)
      let wf := (ops.splitOn ",").foldl (fun (ow : Option LWorld) s => ow.bind fun w => applyWord w s) (some w0)
      match wf with
      | none => some "bad-op"
      | some lw =>
        let w := lw.w
        let err := match w.shared .errorRecord with
          | .lastError (some (c, _)) => toString c
          | _ => "-"
        some ("model=" ++ "#".intercalate ((List.range 16).map fun c => ctxStr (w.ctxs c)) ++ " err=" ++ err ++
          " linked=" ++ (if lw.linkedAll then "1" else "0") ++
          " wf=" ++ String.join (ps.map fun p => if wfDecls [] p then "1" else "0"))
  | _ => none

end BlocV.DrvC14
