/-
  Driver commands of round C10 (no `partial`):
    numstr <D:bits>   num(str(d)): the model's `%.16g` text (Model/Fmt.lean `fmt16g`, exact arithmetic) read back
                      by the model's `std::stod` (Model/Strtod.lean); `note=` says whether the double came back
                      bit for bit and carries the text (hex), so that the check can classify by digit count.
    stod <hexbytes>   the bare `std::stod` outcome on a byte string (invalid / range / D:bits).
-/
import BlocV.Proto
import BlocV.Model.Builtins
import BlocV.Model.Fmt

namespace BlocV.DrvC10
open BlocV BlocV.Proto

def handle (words : List String) : Option String :=
  match words with
  | ["numstr", v] =>
    match parseVal v with
    | some (.num d) =>
      let s := Fmt.fmt16g d
      let r : Res Val := numOfString s >>= fun b => pure (Val.num b)
      let same : Bool := match r with
        | .ok (.num b) => b == d || (Num.isNaN b && Num.isNaN d)
        | _ => false
      some ("model=" ++ resStr r ++ " note=" ++ (if same then "same" else "diff") ++ ":" ++ hexOfBytes s)
    | _ => some "bad-op"
  | ["stod", hex] =>
    some ("model=" ++ (match Strtod.stod (bytesOfHex hex) with
      | .invalid => "invalid"
      | .range => "range"
      | .val b => "D:" ++ hex16 b))
  | _ => none

end BlocV.DrvC10
