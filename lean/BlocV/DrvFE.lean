/-
  Driver glue for the source-text front end (task C02FE). Commands:

    src  <fuel> <hex source bytes>                 the text through Lex → Parse → Elab → `Stepwise.runBatch` (compile pass:
                                                   expression acceptance + constraint flags, then `runProgram`);
                                                   SAME answer format as `prog`:  model=<outcome> out=<hex> vars=<n:v;…>
    srcstep <fuel> <hex source bytes>              the same text one statement at a time (`Stepwise.runStepwise`)
    srcs <fuel> <hex text 1> <hex text 2>          two texts one after the other in the same context (as `progs`)
    safety <hex source bytes>                      only the `$` / iterator constraint checker of Model/Typing.lean on the
                                                   elaborated program: model=ok | model=perr <code>

  Outcomes beyond those of `prog`:
    perr <code>            the text is rejected by the parser model (code of Gen.EXC_PARSE_*), or by the constraint checker
    unsupported            the text parses, but holds a construct the interpreter model has no node for; `note=` says which
                           (blanks replaced by `_`)
  Not part of the model: I/O glue and rendering only.
-/
import BlocV.Proto
import BlocV.Model.Elab
import BlocV.Model.Typing
import BlocV.Model.Safety
import BlocV.Model.Stepwise

namespace BlocV.DrvFE
open BlocV BlocV.Proto BlocV.Parse BlocV.Elab

def showOutcome (o : Res (Option Val)) : String :=
  match o with
  | .ok (some v) => "ok " ++ valStr v
  | .ok none => "ok-"
  | .err c a => if c == oofCode then "oof" else resStr (.err c a : Res Val)
  | .haz h => resStr (.haz h : Res Val)
  | .unmodelled => "unmodelled"

def showVars (vs : List (String × Val)) : String :=
  ";".intercalate (vs.map fun (n, v) => n ++ ":" ++ valStr v)

def noBlank (s : String) : String := String.ofList (s.toList.map fun c => if c == ' ' then '_' else c)

def perrAnswer (c : Nat) : String :=
  if c == Parse.eOOF then "model=oof out= vars="
  else if c == Parse.eUnmodelled then "model=unsupported out= vars= note=import/include"
  else if c == Parse.eForeign then "model=unsupported out= vars= note=foreign-exception-in-parser"
  else "model=perr " ++ toString c ++ " out= vars="

/-- text → program, or the answer line that says why there is none -/
def load (hex : String) : Except String (List Stmt) :=
  match frontEnd (bytesOfHex hex) with
  | .error c => .error (perrAnswer c)
  | .ok (.error (.unsupported w)) => .error ("model=unsupported out= vars= note=" ++ noBlank w)
  | .ok (.ok prog) =>
    match Safety.checkProgram prog with
    | some code => .error ("model=perr " ++ toString code ++ " out= vars=")
    | none => .ok prog

/-- text → program without any verdict of the compile pass (that is `Stepwise.runBatch` / `runStepwise`'s business) -/
def loadRaw (hex : String) : Except String (List Stmt) :=
  match frontEnd (bytesOfHex hex) with
  | .error c => .error (perrAnswer c)
  | .ok (.error (.unsupported w)) => .error ("model=unsupported out= vars= note=" ++ noBlank w)
  | .ok (.ok prog) => .ok prog

def showResult (r : Stepwise.Result) : String :=
  if (match r.outcome with | .perr c => c == Stepwise.eRuntimeConstraint | _ => false) then
    "model=unsupported out= vars= note=run-time_constraint_check_(storeVariable)" else
  let o := match r.outcome with
    | .perr c => "perr " ++ toString c
    | .ran x => showOutcome x
  "model=" ++ o ++ " out=" ++ hexOfBytes r.st.output ++ " vars=" ++ showVars r.st.vars

/-- `src`: the text as ONE unit (`Parser::parse` + `Executable::run`) -/
def handleSrc (fuel hex : String) : String :=
  -- BEGIN C01X2 (the answer is `Stepwise.runText`, rendered; same lines as `loadRaw` + `runBatch` gave)
  match Stepwise.runText (fuel.toNat?.getD 100000) (bytesOfHex hex) with
  | .rejected c => perrAnswer c
  | .unsupported w => "model=unsupported out= vars= note=" ++ noBlank w
  | .ran r => showResult r
  -- END C01X2

/-- `srcstep`: the text one statement at a time (`parseStatement` + run, repeated) -/
def handleSrcStep (fuel hex : String) : String :=
  match loadRaw hex with
  | .error a => a
  | .ok prog => showResult (Stepwise.runStepwise (fuel.toNat?.getD 100000) prog)

def handleSrcs (fuel hex1 hex2 : String) : String :=
  match load hex1, load hex2 with
  | .ok p1, .ok p2 =>
    let fu := fuel.toNat?.getD 100000
    let r1 := runProgram fu p1
    let funcs := collectFuncs (p1 ++ p2)
    let vars0 := (mainDecls funcs p2).foldl (fun vs (n, t) => if vs.any (·.1 == n) then vs else vs ++ [(n, Val.null t)]) r1.st.vars
    let st1 : St := { r1.st with vars := vars0, returned := none, budget := 300000 }
    let r2 : RunResult := match execList funcs 0 fu p2 st1 with
      | (.ok _, s) => { outcome := .ok s.returned, st := s }
      | (.err c a, s) => { outcome := .err c a, st := s }
      | (.haz h, s) => { outcome := .haz h, st := s }
      | (.unmodelled, s) => { outcome := .unmodelled, st := s }
    "model=" ++ showOutcome r1.outcome ++ ";" ++ showOutcome r2.outcome ++ " out=" ++ hexOfBytes r2.st.output ++
      " vars=" ++ showVars r2.st.vars
  | .error a, _ => a
  | _, .error a => a

def handleSafety (hex : String) : String :=
  match frontEnd (bytesOfHex hex) with
  | .error c => perrAnswer c
  | .ok (.error (.unsupported w)) => "model=unsupported note=" ++ noBlank w
  | .ok (.ok prog) =>
    match Safety.checkProgram prog with
    | some code => "model=perr " ++ toString code
    | none => "model=ok"

/-- `store <symbol type> <0|1 safety> <type of stored value> <type of new value>`: `Safety.storeCheck` -/
def handleStore (sym safety cur new : String) : String :=
  let ty := fun (s : String) => match pTy s.toList with
    | some ((t, _), []) => some t
    | _ => none
  match ty sym, ty cur, ty new with
  | some a, some b, some c =>
    match Safety.storeCheck a (safety == "1") b c with
    | .ok t => "model=ok " ++ tyStrSimple t
    | .err c a => "model=" ++ resStr (.err c a : Res Val)
    | .haz h => "model=" ++ resStr (.haz h : Res Val)
    | .unmodelled => "model=unmodelled"
  | _, _, _ => "bad-op"

def handle (words : List String) : Option String :=
  match words with
  | ["store", sym, safety, cur, new] => some (handleStore sym safety cur new)
  | ["src", fuel, hex] => some (handleSrc fuel hex)
  | ["src", fuel] => some (handleSrc fuel "")
  | ["srcstep", fuel, hex] => some (handleSrcStep fuel hex)
  | ["srcstep", fuel] => some (handleSrcStep fuel "")
  | ["srcs", fuel, h1, h2] => some (handleSrcs fuel h1 h2)
  | ["safety", hex] => some (handleSafety hex)
  | _ => none

end BlocV.DrvFE
