/-
  Specification — containers (property C09).

  "At every moment each element of a table has exactly the table's element type (same for nested
  tables and tables of tuples) and each tuple has the item types it was created with; any construction
  or method call that would break this is rejected … and leaves the container unchanged. at, put,
  insert, delete, concat, count and set@ … produce the documented result for in-range positions
  (tables 0-based, tuples 1-based), raise an index error for every out-of-range or null position."

  A table is an element type and a list of values; `uniform` says every element has exactly that type,
  recursively, where a tuple type is its *declaration* (never the 16-bit hash the implementation
  compares). Each method is the obvious list function (`List.set`, `List.eraseIdx`, take/drop splice).
  The outcome of a call is `SOut`:
    ok r x      the call must succeed with result r and leave the receiver as x
    reject c    the call must be refused (compile time or run time) — receiver unchanged;
                c = index: with the index error; range: OUT_OF_RANGE; type / any: any refusal
    either r x  the call may be refused, or must succeed as `ok r x` (see UNDETERMINED below)

  -- UNDETERMINED BY DOCUMENTATION (the Spec follows the code, or allows both behaviours)
  * element order of `insert(p, table)`: the manual says "insert table of items … at index"; the code
    inserts them in REVERSE order; the Spec is defined as what the code does.
  * int↔decimal mixing of an element argument: put/insert/set@ convert at run time (decimal → integer
    by truncation, integer → nearest double), concat refuses at compile time when the types are
    known: `either`. The same holds for a typed NULL of the other numeric type (`num()` given for an
    integer table / item, `int()` for a decimal one): the manual only says that a null element "must be
    typed" (tab, tup, set@) and that the argument is "of the same type or of the sequenced subtype"
    (concat); it neither promises nor forbids the conversion of a null. So the Spec accepts it exactly as
    it accepts the non-null conversion — the null of the ELEMENT type is stored, or the call is refused
    (`fit`: `.conv (.null Ty.int)` / `.conv (.null Ty.num)` → `either`) — and only for an element type of
    level 0: for a table of tables it is a type error (`reject type`; the code stores a level-0 null
    there: finding C09.mix.level).
  * a null table / null tuple / (strings, bytes:) any null given to insert or concat: the code returns
    the receiver unchanged without an error, or refuses at compile time: `either` (the container is
    unchanged in both cases).
  * which error wins when both the position and the element are bad: the index error (as the code).
  * a non-integer, non-null position (decimal): refused (the code: NOT_INTEGER at run time).
  * methods on null receivers (index error for at/put/insert/delete, null count, adoption of the
    argument by concat) are outside the Spec's domain: compared Impl = Model only.
-/
import BlocV.Model.Num

namespace BlocV.Spec
open BlocV

/-- Exact type of a value: tuples by declaration. `minor` is the module id of an object type (and
the hash carried by a *null* tuple-typed value, which has no declaration); `decl` the declaration
of a tuple / table-of-tuples type. -/
structure ETy where
  major : Major
  minor : Nat
  decl : List Ty
  level : Nat
  deriving DecidableEq, Repr

/-- the minor matters for object types (module id) and for undeclared tuple types only -/
def normMinor (t : Ty) : Nat := if t.major == .obj || t.major == .tup then t.minor else 0

def mkETy (t : Ty) (decl : List Ty) (level : Nat) : ETy :=
  if t.major == .tup && !decl.isEmpty then ⟨.tup, 0, decl, level⟩ else ⟨t.major, normMinor t, [], level⟩

def etyOf : Val → ETy
  | .tup decl _ => mkETy (makeTupleTy decl 0) decl 0
  | .tab t decl _ => mkETy t decl t.level
  | v => mkETy v.type [] v.type.level

/-- element type of a table with header `(t, decl)` -/
def elemETy (t : Ty) (decl : List Ty) : ETy := mkETy t decl (t.level - 1)

/-- the types a tuple item may have: boolean, integer, decimal, complex, string, bytes, object -/
def scalarTy (t : Ty) : Bool :=
  t.level == 0 &&
    ((t.minor == 0 && (t.major == .bool || t.major == .int || t.major == .num || t.major == .imag ||
        t.major == .str || t.major == .raw)) || t.major == .obj)

/-- a value that is not a container -/
def scalarVal : Val → Bool
  | .tup _ _ => false
  | .tab _ _ _ => false
  | v => scalarTy v.type

/-- header of a table: at least one dimension; a table of tuples carries the declaration and the
minor the implementation derives from it. -/
def headerOk (t : Ty) (decl : List Ty) : Bool :=
  t.level ≥ 1 && t.level < 255 && t.major != .none &&
    (if t.major == .tup then !decl.isEmpty && t == makeTupleTy decl t.level
     else decl.isEmpty)

mutual
  /-- Every element of every table (at every depth) has exactly the table's element type, and every
  tuple has the item types of its declaration; `P` holds of every tuple declaration that occurs
  ("the declarations in play"). -/
  def uniformP (P : List Ty → Bool) : Val → Bool
    | .tab t decl es => (headerOk t decl && (t.major != .tup || P decl)) && uniformAll P (elemETy t decl) es
    | .tup decl items =>
      (!decl.isEmpty && decl.all scalarTy && P decl) && (items.map Val.type == decl && items.all scalarVal)
    | _ => true
  def uniformAll (P : List Ty → Bool) (e : ETy) : List Val → Bool
    | [] => true
    | v :: vs => (etyOf v == e && uniformP P v) && uniformAll P e vs
end

/-- `uniform` = uniform whatever the declarations are. -/
def uniform (v : Val) : Bool := uniformP (fun _ => true) v

def Uniform (v : Val) : Prop := uniform v = true
/-- uniform, and every tuple declaration in the value satisfies `P` -/
def UniformIn (P : List Ty → Bool) (v : Val) : Prop := uniformP P v = true

instance (v : Val) : Decidable (Uniform v) := inferInstanceAs (Decidable (uniform v = true))
instance (P : List Ty → Bool) (v : Val) : Decidable (UniformIn P v) := inferInstanceAs (Decidable (uniformP P v = true))

/-- Canonical minors: the implementation's `Type` carries a non-zero minor only for object types (module id) and tuple
types (structure hash) — every constructor of `bloc::Type` for another major leaves it 0. A `Val` of the model can be
written with any minor; the value-refinement theorems (Proofs/C09.lean `*_refines`) assume the values are in the image
of the implementation: the value's own type and the types of the elements of a table are canonical. -/
def canonTy (t : Ty) : Bool := t.minor == normMinor t

def canon (v : Val) : Bool :=
  canonTy v.type && (match v with
    | .tab _ _ es => es.all (fun e => canonTy e.type)
    | _ => true)

inductive SErr | index | type | range | any
  deriving DecidableEq, Repr

inductive SOut
  | ok (res recv : Val)
  | reject (e : SErr)
  | either (res recv : Val)
  deriving Repr

/-! ### positions -/

/-- a position `0 ≤ p < n` given as a value: null and out-of-range integers are index errors,
anything that is not an integer is refused. -/
def pos (p : Val) (n : Nat) : Except SErr Nat :=
  match p with
  | .int i => if 0 ≤ i.toInt ∧ i.toInt < (n : Int) then .ok i.toInt.toNat else .error .index
  | .null _ => .error .index
  | _ => .error .any

/-- a null that insert/concat ignore: a null table of any type, a null tuple -/
def ignoredNull (x : Val) : Bool :=
  match x with
  | .null t => t.level > 0 || t.major == .tup
  | _ => false

/-! ### does a value fit an element type -/

inductive Fit
  | exact (v : Val)      -- stored as it is / as the typed null it denotes
  | conv (v : Val)       -- int↔decimal conversion
  | bad                  -- a decimal that has no integer value in range
  | no
  deriving Repr

def tyOfETy (e : ETy) : Ty := { major := e.major, minor := e.minor, level := e.level }

def isUntypedNull (x : Val) : Bool :=
  match x with
  | .null t => t.major == .none && t.level == 0
  | _ => false

def fit (e : ETy) (x : Val) : Fit :=
  if etyOf x == e then .exact x
  else if isUntypedNull x then (if e.major == .tup then .no else .exact (.null (tyOfETy e)))
  else if e.level == 0 && e.major == .int then
    match x with
    | .num d => match Num.truncInt d with
      | some z => if -2 ^ 63 ≤ z ∧ z < 2 ^ 63 then .conv (.int (Int64.ofInt z)) else .bad
      | none => .bad
    | .null t => if t.major == .num && t.level == 0 then .conv (.null Ty.int) else .no
    | _ => .no
  else if e.level == 0 && e.major == .num then
    match x with
    | .int i => .conv (.num (Num.bits i.toFloat))
    | .null t => if t.major == .int && t.level == 0 then .conv (.null Ty.num) else .no
    | _ => .no
  else .no

/-! ### tables -/

def tabAt (recv : Val) (es : List Val) (p : Val) : SOut :=
  match pos p es.length with
  | .ok i => match es[i]? with
    | some e => .ok e recv
    | none => .reject .index
  | .error e => .reject e

def tabPut (t : Ty) (d : List Ty) (es : List Val) (p x : Val) : SOut :=
  match pos p es.length with
  | .error e => .reject e
  | .ok i =>
    match fit (elemETy t d) x with
    | .exact v =>
      let r := Val.tab t d (es.set i v)
      -- UNDETERMINED: a typed null *table* of the element type is refused by the code (an untyped null is adopted)
      if ignoredNull x then .either r r else .ok r r
    | .conv v => let r := Val.tab t d (es.set i v); .either r r
    | .bad => .reject .any
    | .no => .reject .type

/-- what insert/concat add: the elements to splice (in the order of the argument), or a refusal -/
inductive Add
  | elems (vs : List Val) (sure : Bool)
  | nothing
  | reject (e : SErr)

def addOf (recv : Val) (t : Ty) (d : List Ty) (x : Val) : Add :=
  if ignoredNull x then .nothing
  else match x with
    | .tab _ _ xs => if etyOf x == etyOf recv then .elems xs true else
        (match fit (elemETy t d) x with
          | .exact v => .elems [v] true
          | _ => .reject .type)
    | _ =>
      match fit (elemETy t d) x with
      | .exact v => .elems [v] true
      | .conv v => .elems [v] false
      | .bad => .reject .any
      | .no => .reject .type

def tabInsert (recv : Val) (t : Ty) (d : List Ty) (es : List Val) (p x : Val) : SOut :=
  match pos p (es.length + 1) with
  | .error e => .reject e
  | .ok i =>
    match addOf recv t d x with
    | .nothing => .either recv recv
    | .reject e => .reject e
    | .elems vs sure =>
      -- UNDETERMINED BY DOCUMENTATION: the inserted table appears in reverse order
      let r := Val.tab t d (es.take i ++ vs.reverse ++ es.drop i)
      if sure then .ok r r else .either r r

def tabConcat (recv : Val) (t : Ty) (d : List Ty) (es : List Val) (x : Val) : SOut :=
  match addOf recv t d x with
  | .nothing => .either recv recv
  | .reject e => .reject e
  | .elems vs sure =>
    let r := Val.tab t d (es ++ vs)
    if sure then .ok r r else .either r r

def tabDelete (t : Ty) (d : List Ty) (es : List Val) (p : Val) : SOut :=
  match pos p es.length with
  | .error e => .reject e
  | .ok i => let r := Val.tab t d (es.eraseIdx i); .ok r r

/-! ### strings and bytes: sequences of 8-bit integers -/

/-- a character code -/
def code (x : Val) : Except SErr UInt8 :=
  match x with
  | .int i => if 0 ≤ i.toInt ∧ i.toInt ≤ 255 then .ok (UInt8.ofNat i.toInt.toNat) else .error .range
  | .null _ => .error .type
  | _ => .error .any

def seqAt (recv : Val) (s : Bytes) (p : Val) : SOut :=
  match pos p s.length with
  | .ok i => match s[i]? with
    | some b => .ok (.int (Int64.ofNat b.toNat)) recv
    | none => .reject .index
  | .error e => .reject e

def seqPut (mk : Bytes → Val) (s : Bytes) (p x : Val) : SOut :=
  match pos p s.length with
  | .error e => .reject e
  | .ok i => match code x with
    | .ok c => let r := mk (s.set i c); .ok r r
    | .error e => .reject e

/-- the bytes an argument of insert/concat stands for: a string (also for bytes receivers), bytes
(bytes receivers only), or one character code -/
def seqArg (isRaw : Bool) (x : Val) : Except SErr Bytes :=
  match x with
  | .str b => .ok b
  | .raw b => if isRaw then .ok b else .error .any
  | .int _ => match code x with
    | .ok c => .ok [c]
    | .error e => .error e
  | _ => .error .any

def seqInsert (recv : Val) (mk : Bytes → Val) (isRaw : Bool) (s : Bytes) (p x : Val) : SOut :=
  match pos p (s.length + 1) with
  | .error e => .reject e
  | .ok i =>
    if x.isNull then .either recv recv else
    match seqArg isRaw x with
    | .ok b => let r := mk (s.take i ++ b ++ s.drop i); .ok r r
    | .error e => .reject e

def seqConcat (recv : Val) (mk : Bytes → Val) (isRaw : Bool) (s : Bytes) (x : Val) : SOut :=
  if x.isNull then .either recv recv else
  match seqArg isRaw x with
  | .ok b => let r := mk (s ++ b); .ok r r
  | .error e => .reject e

def seqDelete (mk : Bytes → Val) (s : Bytes) (p : Val) : SOut :=
  match pos p s.length with
  | .error e => .reject e
  | .ok i => let r := mk (s.eraseIdx i); .ok r r

/-! ### the methods, on the Spec's domain: non-null uniform receivers -/

def specAt (recv p : Val) : Option SOut :=
  if !uniform recv then none else
  match recv with
  | .tab _ _ es => some (tabAt recv es p)
  | .str s => some (seqAt recv s p)
  | .raw s => some (seqAt recv s p)
  | _ => none

def specPut (recv p x : Val) : Option SOut :=
  if !uniform recv then none else
  match recv with
  | .tab t d es => some (tabPut t d es p x)
  | .str s => some (seqPut Val.str s p x)
  | .raw s => some (seqPut Val.raw s p x)
  | _ => none

def specInsert (recv p x : Val) : Option SOut :=
  if !uniform recv then none else
  match recv with
  | .tab t d es => some (tabInsert recv t d es p x)
  | .str s => some (seqInsert recv Val.str false s p x)
  | .raw s => some (seqInsert recv Val.raw true s p x)
  | _ => none

def specConcat (recv x : Val) : Option SOut :=
  if !uniform recv then none else
  match recv with
  | .tab t d es => some (tabConcat recv t d es x)
  | .str s => some (seqConcat recv Val.str false s x)
  | .raw s => some (seqConcat recv Val.raw true s x)
  | _ => none

def specDelete (recv p : Val) : Option SOut :=
  if !uniform recv then none else
  match recv with
  | .tab t d es => some (tabDelete t d es p)
  | .str s => some (seqDelete Val.str s p)
  | .raw s => some (seqDelete Val.raw s p)
  | _ => none

def specCount (recv : Val) : Option SOut :=
  if !uniform recv then none else
  match recv with
  | .tab _ _ es => some (.ok (.int (Int64.ofNat es.length)) recv)
  | .str s => some (.ok (.int (Int64.ofNat s.length)) recv)
  | .raw s => some (.ok (.int (Int64.ofNat s.length)) recv)
  | .tup _ items => some (.ok (.int (Int64.ofNat items.length)) recv)
  | _ => none

/-! ### tuples: ranks 1..n -/

def specItem (recv : Val) (rank : Nat) : Option SOut :=
  if !uniform recv then none else
  match recv with
  | .tup _ items =>
    if 1 ≤ rank ∧ rank ≤ items.length then
      match items[rank - 1]? with
      | some v => some (.ok v recv)
      | none => some (.reject .index)
    else some (.reject .index)
  | _ => none

def specSet (recv : Val) (rank : Nat) (x : Val) : Option SOut :=
  if !uniform recv then none else
  match recv with
  | .tup decl items =>
    if x.type.level != 0 then some (.reject .any) else
    if 1 ≤ rank ∧ rank ≤ items.length then
      match decl[rank - 1]? with
      | some dt =>
        match fit (mkETy dt [] 0) x with
        | .exact v => let r := Val.tup decl (items.set (rank - 1) v); some (.ok r r)
        | .conv v => let r := Val.tup decl (items.set (rank - 1) v); some (.either r r)
        | .bad => some (.reject .any)
        | .no => some (.reject .type)
      | none => some (.reject .index)
    else some (.reject .index)
  | _ => none

/-! ### tab(n, x) -/

/-- `tab(n, x)` for a non-null count: n copies of x, which must have a defined type. -/
def specTab (args : List Val) : Option SOut :=
  match args with
  | [.int n, x] =>
    if !uniform x then none else
    if n.toInt < 0 then some (.reject .index) else
    if n.toInt > 1048576 then none else
    let es := List.replicate n.toInt.toNat x
    match x with
    | .tup decl _ => let r := Val.tab (makeTupleTy decl 1) decl es; some (.ok r r)
    | .tab t decl _ =>
      if t.level ≥ 254 then some (.reject .any) else
      let r := Val.tab t.levelUp decl es; some (.ok r r)
    | .null t =>
      if t.major == .none || (t.major == .tup && t.minor == 0 && t.level == 0) then some (.reject .any)
      else if t.major == .tup then none      -- a typed null tuple has no declaration: outside the domain
      else if t.level ≥ 254 then some (.reject .any)
      else let r := Val.tab t.levelUp [] es; some (.ok r r)
    | v => let r := Val.tab v.type.levelUp [] es; some (.ok r r)
  | _ => none

/-! ### tup(x, …) -/

/-- `tup(x1, …, xn)`, n ≥ 1. The manual (tup): "Item can be boolean, integer, decimal, complex, string, object, or bytes.
Nesting and table are not allowed"; (types): "Element can be null, but they must be typed". So: a tuple of exactly the given
items for scalar items (typed nulls of scalar types included), a refusal — compile time or run time — for an untyped null,
a table, a tuple, a null table, a null tuple. -/
def specTup (args : List Val) : Option SOut :=
  if args.isEmpty then none
  else if args.all scalarVal then
    let r := Val.tup (args.map Val.type) args
    some (.ok r r)
  else some (.reject .any)

end BlocV.Spec
