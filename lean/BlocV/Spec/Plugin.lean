/-
  Spec of C16: the property's own permission predicates. Nothing about the code.
-/
import BlocV.Model.Plugin

namespace BlocV.Spec.Plugin
open BlocV.Plugin

/-- The property's permission predicate for a constructor call compiled in a context. -/
def mayConstruct (trusted : Bool) (granted : List Name) (m : Name) : Prop := trusted = true ∨ m ∈ granted

/-- Importing a library by path and including a source file: iff trusted. -/
def mayImportPath (trusted : Bool) : Prop := trusted = true
def mayInclude (trusted : Bool) : Prop := trusted = true

end BlocV.Spec.Plugin
