/-
  Independent specification of a regular file as POSIX sees it (C18, file half): a file is a byte list, one
  file offset per open description; `pread`/`pwrite` in closed form. Nothing here mentions stdio, chunks of
  4096 bytes, BLOC handles or modes-as-strings.

  * `readAt c pos n`     : the bytes `read(2)` delivers at offset `pos` for a request of `n` bytes.
  * `writeAt c pos d`    : the file after `write(2)` of `d` at offset `pos`; a gap between the old end and
                            `pos` reads as zero bytes (sparse extension by `lseek` beyond the end).
  * `SFile`              : content + offset + O_APPEND flag, with `sread` / `swrite` / `sseek`.
-/
namespace BlocV.Spec.File

abbrev Bytes := List UInt8

/-- what a reader at offset `pos` gets for a request of `n` bytes -/
def readAt (c : Bytes) (pos n : Nat) : Bytes := (c.drop pos).take n

/-- the old content padded with zero bytes up to `pos` when `pos` is beyond the end -/
def padTo (c : Bytes) (pos : Nat) : Bytes := c ++ List.replicate (pos - c.length) 0

/-- the file after writing `d` at offset `pos` -/
def writeAt (c : Bytes) (pos : Nat) (d : Bytes) : Bytes :=
  if d = [] then c else (padTo c pos).take pos ++ d ++ c.drop (pos + d.length)

/-- an open file description: content of the file it refers to, offset, O_APPEND -/
structure SFile where
  content : Bytes
  pos : Nat
  append : Bool
  deriving Repr, DecidableEq

/-- `read(fd, n)`: delivers `readAt`, advances the offset by the number of bytes delivered -/
def sread (f : SFile) (n : Nat) : Bytes × SFile :=
  let d := readAt f.content f.pos n
  (d, { f with pos := f.pos + d.length })

/-- `write(fd, d)`: with O_APPEND the offset is first set to the end of the file -/
def swrite (f : SFile) (d : Bytes) : SFile :=
  if d = [] then f      -- a write of zero bytes has no effect at all
  else
    let at_ := if f.append then f.content.length else f.pos
    { f with content := writeAt f.content at_ d, pos := at_ + d.length }

inductive Whence | set | cur | end_
  deriving Repr, DecidableEq

/-- `lseek`: EINVAL (`none`) when the resulting offset would be negative or beyond `maxOff` -/
def sseek (maxOff : Nat) (f : SFile) (w : Whence) (off : Int) : Option SFile :=
  let base : Int := match w with | .set => 0 | .cur => f.pos | .end_ => f.content.length
  let t := base + off
  if t < 0 ∨ t > maxOff then none else some { f with pos := t.toNat }

/-- how `open(2)` treats an existing / missing file -/
structure OpenHow where
  create : Bool
  trunc : Bool
  excl : Bool
  append : Bool
  atEnd : Bool      -- initial offset at the end of the file (stdio's "a")
  deriving Repr, DecidableEq

inductive OpenRes
  | ok (f : SFile)
  | enoent
  | eexist
  deriving Repr, DecidableEq

def sopen (old : Option Bytes) (h : OpenHow) : OpenRes :=
  match old with
  | none => if h.create then .ok ⟨[], 0, h.append⟩ else .enoent
  | some c =>
    if h.create ∧ h.excl then .eexist
    else
      let c' := if h.trunc then [] else c
      .ok ⟨c', if h.atEnd then c'.length else 0, h.append⟩

/-! ### a stream of calls on one open file description

`SStream` = an open file description (`SFile`) with its access mode (`canRead` / `canWrite`: O_RDONLY, O_WRONLY,
O_RDWR) and what the owner of the descriptor allows itself to ask (`mayRead` / `mayWrite`). A request the owner does
not allow itself is refused (`denied`) before anything happens; a `read` on a description without read access
delivers nothing, a `write` without write access writes nothing (EBADF: count 0). Still no stdio and no chunks. -/

/-- up to and including the first LF (the whole text when there is none) -/
def uptoLF : Bytes → Bytes
  | [] => []
  | b :: r => if b = 10 then [b] else b :: uptoLF r

/-- a line read never delivers more than this many bytes -/
def LINE_CAP : Nat := 4096

/-- what one "read a line" request delivers from the unread part `rest` of the file: the bytes up to and including
    the first LF, cut at `LINE_CAP` bytes (the rest of a longer line is delivered by the next request) -/
def sline (rest : Bytes) : Bytes := uptoLF (rest.take LINE_CAP)

structure SStream where
  f : SFile
  canRead : Bool
  canWrite : Bool
  mayRead : Bool
  mayWrite : Bool
  deriving Repr, DecidableEq

inductive SOp
  | read (n : Int)
  | readLine
  | write (d : Bytes)
  | seek (w : Whence) (off : Int)
  | tell
  | sync
  deriving Repr, DecidableEq

inductive SRes
  | data (d : Bytes)
  /-- `none` = end of file: nothing left to deliver -/
  | line (l : Option Bytes)
  | count (n : Nat)
  | errno (e : Int)
  | offset (n : Nat)
  | done
  | denied
  deriving Repr, DecidableEq

def sstep (maxOff : Nat) (s : SStream) : SOp → SStream × SRes
  | .read n =>
    if !s.mayRead then (s, .denied)
    else if n ≤ 0 ∨ !s.canRead then (s, .data [])
    else
      let r := sread s.f n.toNat
      ({ s with f := r.2 }, .data r.1)
  | .readLine =>
    if !s.mayRead then (s, .denied)
    else if !s.canRead then (s, .line none)
    else
      let rest := s.f.content.drop s.f.pos
      if rest = [] then (s, .line none)
      else ({ s with f := { s.f with pos := s.f.pos + (sline rest).length } }, .line (some (sline rest)))
  | .write d =>
    if !s.mayWrite then (s, .denied)
    else if !s.canWrite then (s, .count 0)
    else ({ s with f := swrite s.f d }, .count d.length)
  | .seek wh off =>
    match sseek maxOff s.f wh off with
    | none => (s, .errno 22)
    | some f' => ({ s with f := f' }, .errno 0)
  | .tell => (s, .offset s.f.pos)
  | .sync => (s, .done)

def srun (maxOff : Nat) : SStream → List SOp → SStream × List SRes
  | s, [] => (s, [])
  | s, op :: ops =>
    let r := sstep maxOff s op
    let rest := srun maxOff r.1 ops
    (rest.1, r.2 :: rest.2)

end BlocV.Spec.File
