/-
  Spec for the csv half of C18: what "lossless" means.

  "deserialising what serialise produced returns the original fields for every row with at least one
  non-empty or several fields and any field content (separators, quotes, line breaks), also when a
  record is fed line by line."

  Nothing here mentions how the parser works: a codec is a pair of functions, and a line-wise client is
  the loop every user of `deserialize` / `deserialize_next` writes (documented in plugin_csv.cpp:
  "returns FALSE when the record is complete, otherwise TRUE when it needs more line").
-/

namespace BlocV.Spec.Csv

abbrev Field := List UInt8
abbrev Row := List Field

/-- The rows the property speaks about: several fields, or one non-empty field. -/
def RowOk (row : Row) : Prop := 2 ≤ row.length ∨ ∃ f, row = [f] ∧ f ≠ []

instance (row : Row) : Decidable (RowOk row) := by
  unfold RowOk
  match row with
  | [] => exact isFalse (by simp)
  | [f] => exact if h : f = [] then isFalse (by simp [h]) else isTrue (Or.inr ⟨f, rfl, h⟩)
  | _ :: _ :: _ => exact isTrue (Or.inl (by simp))

/-- A text as a line reader delivers it: cut after every LF; no piece is empty; the empty text has no line. -/
def splitAfterLF : List UInt8 → List (List UInt8)
  | [] => []
  | c :: cs =>
    if c = 0x0a then [c] :: splitAfterLF cs
    else match splitAfterLF cs with
      | [] => [[c]]
      | l :: ls => (c :: l) :: ls

/-- One parser call as the client sees it: `some (needsMore, fields)`, or `none` if the call failed
(parse error or worse). -/
abbrev Call := Option (Bool × Row)

/-- The client loop after the first call: while the parser asks for more and a line is left, give it
the next line together with the fields so far. Returns the last answer and the lines NOT consumed. -/
def feedMore (next : Row → List UInt8 → Call) : Call → List (List UInt8) → Call × List (List UInt8)
  | some (true, out), l :: ls => feedMore next (next out l) ls
  | r, ls => (r, ls)

/-- The whole line-wise client: first line through `first`, the following ones through `next`. -/
def feedLines (first : List UInt8 → Call) (next : Row → List UInt8 → Call) :
    List (List UInt8) → Call × List (List UInt8)
  | [] => (first [], [])
  | l :: ls => feedMore next (first l) ls

/-- Round trip of one row: complete record (`needsMore = false`) with exactly the original fields. -/
def RoundTrip (ser : Row → List UInt8) (de : List UInt8 → Call) (row : Row) : Prop :=
  de (ser row) = some (false, row)

/-- Line-wise round trip: the client loop consumes every line of the serialized record and ends with a
complete record holding exactly the original fields. -/
def RoundTripLines (ser : Row → List UInt8) (first : List UInt8 → Call) (next : Row → List UInt8 → Call)
    (row : Row) : Prop :=
  feedLines first next (splitAfterLF (ser row)) = (some (false, row), [])

end BlocV.Spec.Csv
