/-
  Specification side of C13: what a source text means to the scanner when it is seen WHOLE.

  `lexWhole` applies the rule list of tokenizer.lex (the same `Rule` list, the same
  longest-match / first-rule disambiguation, the same start conditions) to the entire text as ONE
  buffer: no chunk boundary exists, so no token, escape, comment delimiter or operator can be cut,
  beginning-of-line is true only at the very start and after a '\n', and nothing is truncated.
  C13 says that the stream obtained through any reader equals this one.

  Line ends.  The property identifies CRLF and LF line ends: the meaning of a text is that of the
  text in which every "\r\n" is replaced by "\n" (`crlfToLf`). A '\r' that is not followed by '\n' is
  an ordinary byte of the text (the scanner has no rule for it: it is returned as the byte 13, and
  inside a string literal or a comment it is part of the content).

  -- UNDETERMINED BY DOCUMENTATION: whether the newline token is handed to the parser's caller
  -- depends on the parser state (`keepNl`); the Spec takes it as a parameter like the Model does.
-/
import BlocV.Model.Lex

namespace BlocV.Lex

/-- The token sequence of a text scanned as a single buffer. -/
def lexWhole (text : Bytes) : List Tok := (lex .initial true text).1

/-- "\r\n" ↦ "\n"; every other byte unchanged. -/
def crlfToLf : Bytes → Bytes
  | [] => []
  | [c] => [c]
  | c :: d :: t => if c == 13 && d == 10 then 10 :: crlfToLf t else c :: crlfToLf (d :: t)

/-- The `(code, text)` stream the parser should see for a text. -/
def specStream (keepNl : Bool) (text : Bytes) : List Tok := reasm keepNl [] (lexWhole text)

/-- The lines of a text: each with its terminating '\n'; the last one may lack it; none is empty. -/
def splitLines : Bytes → List Bytes
  | [] => []
  | c :: t =>
    if c == 10 then [10] :: splitLines t
    else match splitLines t with
      | [] => [[c]]
      | l :: ls => (c :: l) :: ls

/-- No line of the text, terminator included, is longer than `max` bytes. -/
def LinesFit (max : Nat) (s : Bytes) : Prop := ∀ l ∈ splitLines s, l.length ≤ max

/-- "\n" ↦ "\r\n": the same text with MS-DOS line ends. -/
def lfToCrlf : Bytes → Bytes
  | [] => []
  | c :: t => if c == 10 then 13 :: 10 :: lfToCrlf t else c :: lfToCrlf t

/-- What C13 asks of a READER of source text (C13R2): the chunks it hands to the scanner, call after call,
concatenate to `expected` (the text, minus the bytes the reader is documented to remove) — no byte lost, none
duplicated, order kept —, every chunk fits the buffer it was given, and no chunk is empty (the scanner takes an
empty result for the end of the input: an empty chunk before the end would cut the text, so "non-empty" is the
progress clause). Defined on the list of chunks, independently of how any reader produces them. -/
def Delivers (max : Nat) (chunks : List Bytes) (expected : Bytes) : Prop :=
  chunks.flatten = expected ∧ ∀ c ∈ chunks, c ≠ [] ∧ c.length ≤ max

end BlocV.Lex
