/-
  Spec C03 — the exact value of an IEEE-754 binary64 ("double") bit pattern, and what `int(d)` must
  return, in mathematical integers. Nothing here mentions UInt64, Float, bit operators or the model.

  A pattern is a natural number `n < 2^64`:
      bit 63       sign            s = n / 2^63 mod 2
      bits 62..52  biased exponent e = n / 2^52 mod 2^11
      bits 51..0   fraction        f = n mod 2^52
  IEEE-754 §3.4:  e = 2047            : NaN (f ≠ 0) or ±infinity (f = 0)           — not a number with a value
                  1 ≤ e ≤ 2046        : value = (−1)^s · (2^52 + f) · 2^(e − 1075)  (normal)
                  e = 0               : value = (−1)^s · f · 2^(−1074)              (zero, subnormal)
  Every finite double is therefore an integer multiple of 2^−1074: `scaled n` is that integer, i.e.
      value n = scaled n / 2^1074          exactly.
  "The value lies in the integer range" is −2^63 ≤ value < 2^63, i.e. −2^63·2^1074 ≤ scaled < 2^63·2^1074;
  truncation toward zero of the value is `Int.tdiv (scaled n) (2^1074)`.
-/
import BlocV.Spec.Arith

namespace BlocV.Spec.F64

def signField (n : Nat) : Nat := n / 2 ^ 63 % 2
def expField (n : Nat) : Nat := n / 2 ^ 52 % 2 ^ 11
def fracField (n : Nat) : Nat := n % 2 ^ 52

/-- NaN and ±infinity: exponent field all ones. -/
def isFinite (n : Nat) : Prop := expField n ≠ 2047
instance (n : Nat) : Decidable (isFinite n) := by unfold isFinite; infer_instance

/-- The integer significand: hidden bit present for normal numbers, absent for zero/subnormals. -/
def significand (n : Nat) : Nat := if expField n = 0 then fracField n else 2 ^ 52 + fracField n

/-- The power of two by which the significand is multiplied in `scaled` (`max e 1 − 1`). -/
def scaleExp (n : Nat) : Nat := if expField n = 0 then 0 else expField n - 1

/-- The common denominator of all finite doubles: `2^1074`. -/
def unit : Int := 2 ^ 1074

/-- `value · 2^1074` of a finite double, an integer. -/
def scaled (n : Nat) : Int :=
  if signField n = 1 then -((significand n * 2 ^ scaleExp n : Nat) : Int)
  else ((significand n * 2 ^ scaleExp n : Nat) : Int)

/-- `−2^63 ≤ value < 2^63` for the rational `value = scaled / unit`. -/
def inIntRange (n : Nat) : Prop := -2 ^ 63 * unit ≤ scaled n ∧ scaled n < 2 ^ 63 * unit
instance (n : Nat) : Decidable (inIntRange n) := by unfold inIntRange; infer_instance

/-- Truncation toward zero of the value of a finite double. -/
def trunc (n : Nat) : Int := Int.tdiv (scaled n) unit

/-- Truncation as an option: `none` for NaN and ±infinity. This is the argument `Spec.intOfDecimal`
(Spec/Arith.lean) expects. -/
def truncOpt (n : Nat) : Option Int := if isFinite n then some (trunc n) else none

/-- `int(d)`: succeeds exactly when `d` is a number whose value lies in [−2^63, 2^63), and then
returns the value truncated toward zero; OUT_OF_RANGE otherwise (NaN and ±infinity included). -/
def intOf (n : Nat) : IRes :=
  if isFinite n ∧ inIntRange n then .val (trunc n) else .outOfRange

end BlocV.Spec.F64
