/-
  Specification side of C12: what "the text produced from a compiled program is accepted again, means the
  same and unparses to the same text" says about parse trees.

    * `norm`      the only difference the property allows between a tree and the tree read back from its
                  text: an operator that is the operand of a unary operator comes back ENCLOSED (unparse
                  writes `-(a power b)` for `- a ** b`); grouping is unchanged.
    * `wf`        the image of the parser on which the round trip holds (decidable): precedence-respecting
                  trees (`lvlE`), non-negative integer constants, decimal constants that survive "%.16g",
                  NUL-free string constants, upper-case non-reserved names, built-ins with an accepted arity.
    * regions     where it does NOT hold (known findings): `hasNegInt`, `hasNum17`, `printAdj`.
                  `doHead` is the region of a REPAIRED finding (C12.do_without_keyword, fix 1a89173): it
                  excludes nothing any more; the DO theorems of Proofs/C12.lean hold inside it as well.
    * `toExpr` / `toStmts`   the translation into the interpreter's AST (Model/Interp.lean), forgetting `enc`:
                  two trees with the same translation have the same behaviour by construction.
-/
import BlocV.Model.Parse
import BlocV.Model.Unparse
import BlocV.Model.Interp

namespace BlocV.Roundtrip
open BlocV BlocV.Parse BlocV.Unparse

/-! ## Normal form -/

mutual
  def norm : PExpr → PExpr
    | .int v => .int v
    | .num d => .num d
    | .str s => .str s
    | .var n => .var n
    | .kw n => .kw n
    | .call n args => .call n (normArgs args)
    | .fcall n args => .fcall n (normArgs args)
    | .member e n args => .member (norm e) n (normArgs args)
    | .setm e no a => .setm (norm e) no (norm a)
    | .item e no => .item (norm e) no
    | .un op enc x => .un op enc (setEnc (norm x))
    | .bin op enc a b => .bin op enc (norm a) (norm b)
  def normArgs : List PExpr → List PExpr
    | [] => []
    | a :: as => norm a :: normArgs as
end

/-! ## The image of the parser -/

/-- The precedence level at which the parser produces the node (1 = element). -/
def lvlE : PExpr → Nat
  | .bin op false _ _ => lvlOf op
  | .un _ false _ => 3
  | _ => 1

/-- A decimal constant that reads back as itself from the text `unparse` writes for it. -/
def numOk (d : UInt64) : Bool := parseNumeric (numText d) == some d

/-- Names as the parser stores them: upper-cased, and not a keyword of any table the parser consults
before it takes a word for a symbol. -/
def nameOk (n : Bytes) : Bool := upper n == n && !reserved n && !n.isEmpty

def isConstKw (k : Bytes) : Bool :=
  [bytesOf "null", bytesOf "true", bytesOf "false", bytesOf "error", bytesOf "phi", bytesOf "pi", bytesOf "ee", bytesOf "ii"].contains k

def isNumLit : PExpr → Bool
  | .int _ => true
  | .num _ => true
  | _ => false

mutual
  def wf : PExpr → Bool
    | .int v => v ≥ 0
    | .num d => numOk d
    | .str s => s.all (· != 0)
    | .var n => nameOk n
    | .kw k => isConstKw k
    | .call n args => isBuiltinKw n && (constKw n).isNone && arityOk n args.length && wfArgs args
    | .fcall n args => nameOk n && wfArgs args
    | .member e n args =>
      memberArity.any (fun m => bytesOf m.1 == n && m.2 == args.length) && wf e && lvlE e == 1 && !isNumLit e && wfArgs args
    | .setm e no a => no < 2 ^ 32 && wf e && lvlE e == 1 && !isNumLit e && wf a
    | .item e no => no < 2 ^ 32 && wf e && lvlE e == 1 && !isNumLit e
    | .un _ _ x => wf x && lvlE x ≤ 2
    | .bin op _ a b =>
      wf a && wf b &&
      (if lvlOf op == 2 then lvlE a ≤ 1 && lvlE b ≤ 2
       else if lvlOf op == 8 then lvlE a ≤ 7 && lvlE b ≤ 7
       else lvlE a ≤ lvlOf op && lvlE b ≤ lvlOf op - 1)
  def wfArgs : List PExpr → Bool
    | [] => true
    | a :: as => wf a && wfArgs as
end

mutual
  /-- The operator core: no calls, members or items anywhere. -/
  def core : PExpr → Bool
    | .int _ | .num _ | .str _ | .var _ | .kw _ => true
    | .call .. | .fcall .. | .member .. | .setm .. | .item .. => false
    | .un _ _ x => core x
    | .bin _ _ a b => core a && core b
end

/-- The text of the expression ends with a bare variable name (so a following `(` would read as a call). -/
def endsVar : PExpr → Bool
  | .var _ => true
  | .bin _ false _ b => endsVar b
  | .un _ false x => enclosed x && endsVar x
  | _ => false

/-- The text of the expression starts with `(`. -/
def startsParen : PExpr → Bool
  | .bin _ true _ _ => true
  | .un _ true _ => true
  | .bin _ false a _ => startsParen a
  | .member e _ _ => startsParen e
  | .setm e _ _ => startsParen e
  | .item e _ => startsParen e
  | _ => false

/-- The first token of the text is a word (KEYWORD token). -/
def startsWord : PExpr → Bool
  | .var _ | .kw _ | .call .. | .fcall .. => true
  | .bin _ false a _ => startsWord a
  | .un .bnot false _ => true                 -- `not`
  | .member e _ _ => startsWord e
  | .setm e _ _ => startsWord e
  | .item e _ => startsWord e
  | _ => false

/-! ## Regions of the recorded findings -/

mutual
  /-- an integer constant that is negative (written ≥ 2^63 in the source; `std::stoull`) -/
  def hasNegInt : PExpr → Bool
    | .int v => v < 0
    | .call _ args | .fcall _ args => hasNegIntArgs args
    | .member e _ args => hasNegInt e || hasNegIntArgs args
    | .setm e _ a => hasNegInt e || hasNegInt a
    | .item e _ => hasNegInt e
    | .un _ _ x => hasNegInt x
    | .bin _ _ a b => hasNegInt a || hasNegInt b
    | _ => false
  def hasNegIntArgs : List PExpr → Bool
    | [] => false
    | a :: as => hasNegInt a || hasNegIntArgs as
end

mutual
  /-- a decimal constant that "%.16g" does not give back -/
  def hasNum17 : PExpr → Bool
    | .num d => !numOk d
    | .call _ args | .fcall _ args => hasNum17Args args
    | .member e _ args => hasNum17 e || hasNum17Args args
    | .setm e _ a => hasNum17 e || hasNum17 a
    | .item e _ => hasNum17 e
    | .un _ _ x => hasNum17 x
    | .bin _ _ a b => hasNum17 a || hasNum17 b
    | _ => false
  def hasNum17Args : List PExpr → Bool
    | [] => false
    | a :: as => hasNum17 a || hasNum17Args as
end

/-- consecutive items of a print / put list whose texts fuse into a function call: `X` then `(…)` -/
def printAdj : List PExpr → Bool
  | a :: b :: rest => (endsVar a && startsParen b) || printAdj (b :: rest)
  | _ => false

/-- Region of the REPAIRED finding C12.do_without_keyword (fix 1a89173), kept as the name of where the
defect was: a DO statement whose expression does not start with a word. Its expression text alone —
`(…);`, `1;`, `-x;`, `"s";` — is not a statement, and DOStatement::unparse used to write only that. It
now writes `do ` first for every DO statement, so the saved text loads again inside this region as well
(`C12.stmt_do_roundtrip` has no hypothesis about it; its example lies inside). Not a known-finding region
any more: the driver does not report it, the check suppresses nothing for it. -/
def doHead (e : PExpr) : Bool := !startsWord e

/-! ## Translation into the interpreter's AST -/

def strOf (b : Bytes) : String := String.ofList (b.map fun c => Char.ofNat c.toNat)

def toBinOp : POp → Option BinOp
  | .add => some .add | .sub => some .sub | .mul => some .mul | .div => some .div | .mod => some .mod
  | .exp => some .exp | .and => some .and | .ior => some .ior | .xor => some .xor | .pop => some .pop
  | .pus => some .pus | .eq => some .eq | .ne => some .ne | .lt => some .lt | .le => some .le
  | .gt => some .gt | .ge => some .ge | .band => some .band | .bior => some .bior | .bxor => some .bxor
  | .matches => none

def toUnOp : PUn → UnOp
  | .neg => .neg | .pos => .pos | .not => .not | .bnot => .bnot

mutual
  /-- forgets `enc`; `none` = a node the interpreter model does not have (matches, members, items) -/
  def toExpr : PExpr → Option Expr
    | .int v => some (.lit (.int v))
    | .num d => some (.lit (.num d))
    | .str s => some (.lit (.str s))
    | .var n => some (.var (strOf n))
    | .kw k =>
      if k == bytesOf "null" then some (.lit (.null Ty.none))
      else if k == bytesOf "true" then some (.lit (.bool true))
      else if k == bytesOf "false" then some (.lit (.bool false))
      else some (.call (strOf k) [])
    | .call n args => (toExprs args).map (Expr.call (strOf n))
    | .fcall n args => (toExprs args).map (Expr.fcall (strOf n))
    | .member .. => none
    | .setm .. => none
    | .item .. => none
    | .un op _ x => (toExpr x).map (Expr.un (toUnOp op))
    | .bin op _ a b =>
      match toBinOp op, toExpr a, toExpr b with
      | some o, some x, some y => some (.bin o x y)
      | _, _, _ => none
  def toExprs : List PExpr → Option (List Expr)
    | [] => some []
    | a :: as =>
      match toExpr a, toExprs as with
      | some x, some xs => some (x :: xs)
      | _, _ => none
end

def toTy (t : Bytes) : Option Ty :=
  if t.isEmpty || t == bytesOf "undefined" then some Ty.none
  else if t == bytesOf "boolean" then some Ty.bool
  else if t == bytesOf "integer" then some Ty.int
  else if t == bytesOf "decimal" then some Ty.num
  else if t == bytesOf "string" then some Ty.str
  else if t == bytesOf "bytes" then some Ty.raw
  else if t == bytesOf "complex" then some Ty.imag
  else none

def toDir : PDir → Dir
  | .auto => .auto | .asc => .asc | .desc => .desc

def optExpr : Option PExpr → Option (Option Expr)
  | none => some none
  | some e => (toExpr e).map some

mutual
  /-- A chained statement `a = 1, b = 2` becomes the sequence of its members (LET never sets a stop
  condition, so running the chain and running the sequence are the same). -/
  def toStmts : PStmt → Option (List Stmt)
    | .nop => some [.nop]
    | .brk => some [.breakS]
    | .cont => some [.continueS]
    | .trace _ => none
    | .ret e => (optExpr e).map fun x => [.returnS x]
    | .letS n e nx =>
      match toExpr e, toNext nx with
      | some x, some r => some (.letS (strOf n) x :: r)
      | _, _ => none
    | .letn .. => none
    | .print args => (toExprs args).map fun xs => [.printS xs]
    | .put _ => none
    | .doS e => (toExpr e).map fun x => [.doS x]
    | .raise n => some [.raiseS (strOf n)]
    | .ifS rules els =>
      match toRules rules, toElse els with
      | some rs, some e => some [.ifS (rs ++ e)]
      | _, _ => none
    | .whileS c body =>
      match toExpr c, toBlock body with
      | some x, some b => some [.whileS x b]
      | _, _ => none
    | .forS v b e step dir body =>
      match toExpr b, toExpr e, optExpr step, toBlock body with
      | some x, some y, some s, some bd => some [.forS (strOf v) x y s (toDir dir) bd]
      | _, _, _, _ => none
    | .forall .. => none
    | .begin body catches =>
      match toBlock body, toCatches catches with
      | some b, some cs => some [.beginS b cs]
      | _, _ => none
    | .func n params rt body catches =>
      match params.mapM (fun p => (toTy p.2).map fun t => (strOf p.1, t)), toTy rt, toBlock body, toCatches catches with
      | some ps, some r, some b, some cs => some [.funcS (strOf n) ps r b cs]
      | _, _, _, _ => none
  def toNext : Option PStmt → Option (List Stmt)
    | none => some []
    | some s => toStmts s
  def toElse : Option (List PStmt) → Option (List (Option Expr × List Stmt))
    | none => some []
    | some b => (toBlock b).map fun x => [(none, x)]
  def toBlock : List PStmt → Option (List Stmt)
    | [] => some []
    | s :: ss =>
      match toStmts s, toBlock ss with
      | some x, some xs => some (x ++ xs)
      | _, _ => none
  def toRules : List (PExpr × List PStmt) → Option (List (Option Expr × List Stmt))
    | [] => some []
    | (c, b) :: rs =>
      match toExpr c, toBlock b, toRules rs with
      | some x, some y, some r => some ((some x, y) :: r)
      | _, _, _ => none
  def toCatches : List (Bytes × List PStmt) → Option (List (String × List Stmt))
    | [] => some []
    | (n, b) :: cs =>
      match toBlock b, toCatches cs with
      | some y, some r => some ((strOf n, y) :: r)
      | _, _ => none
end

def toProgram (p : List PStmt) : Option (List Stmt) := toBlock p

/-! ## Normal form of statements and programs; side conditions of the statement round trip -/

mutual
  /-- `norm` applied to every expression of a statement (the only change a round trip may make) -/
  def normS : PStmt → PStmt
    | .nop => .nop
    | .brk => .brk
    | .cont => .cont
    | .trace e => .trace (norm e)
    | .ret none => .ret none
    | .ret (some e) => .ret (some (norm e))
    | .letS n e nx => .letS n (norm e) (normNext nx)
    | .letn n ty nx => .letn n ty (normNext nx)
    | .print args => .print (normArgs args)
    | .put args => .put (normArgs args)
    | .doS e => .doS (norm e)
    | .raise n => .raise n
    | .ifS rules els => .ifS (normRules rules) (match els with | some b => some (normB b) | none => none)
    | .whileS c body => .whileS (norm c) (normB body)
    | .forS v b e step dir body =>
      .forS v (norm b) (norm e) (match step with | some s => some (norm s) | none => none) dir (normB body)
    | .forall v e dir body => .forall v (norm e) dir (normB body)
    | .begin body catches => .begin (normB body) (normCatches catches)
    | .func n params rt body catches => .func n params rt (normB body) (normCatches catches)
  def normNext : Option PStmt → Option PStmt
    | none => none
    | some s => some (normS s)
  def normCatches : List (Bytes × List PStmt) → List (Bytes × List PStmt)
    | [] => []
    | (n, b) :: cs => (n, normB b) :: normCatches cs
  def normRules : List (PExpr × List PStmt) → List (PExpr × List PStmt)
    | [] => []
    | (c, b) :: rs => (norm c, normB b) :: normRules rs
  def normB : List PStmt → List PStmt
    | [] => []
    | s :: ss => normS s :: normB ss
end

/-- normal form of a program -/
def normP (p : List PStmt) : List PStmt := normB p

/-- The side condition of print / put lists, explicit and decidable: `PRINTStatement::unparse` separates the items by
ONE blank, so the item `b` that follows `a` must start with a token that does not continue an expression — not a
binary operator (a sign: `X` `-1` would read back as `X - 1`), and not `(` when `a` ends with a bare name (`X` `(…)`
reads back as a call: `printAdj`, finding C12.print_items_fuse). `stops9` is `C12L.Stops 9` spelled out here. -/
def stops9 (t : Tok) : Bool :=
  (opAt 2 t).isNone && (opAt 4 t).isNone && (opAt 5 t).isNone && (opAt 6 t).isNone && (opAt 7 t).isNone &&
  (opAt 8 t).isNone && (opAt 9 t).isNone && t.code != cDOT && t.code != cAT

def sepOk (a b : PExpr) : Bool :=
  match toksExpr b with
  | t :: _ => stops9 t && (!endsVar a || t.code != cLP)
  | [] => false

def itemsSep : List PExpr → Bool
  | a :: b :: rest => sepOk a b && itemsSep (b :: rest)
  | _ => true

/-- Statements without a block ("flat"), well formed: the domain of `C12.stmt_roundtrip_flat`. -/
def wfFlat : PStmt → Bool
  | .nop | .brk | .cont => true
  | .trace e => wf e
  | .ret none => true
  | .ret (some e) => wf e
  | .letS n e none => nameOk n && wf e
  | .letS n e (some s) => nameOk n && wf e && wfFlat s
  | .letn n ty none => nameOk n && typeKws.contains ty
  | .letn n ty (some s) => nameOk n && typeKws.contains ty && wfFlat s
  | .print args => wfArgs args && itemsSep args
  | .put args => wfArgs args && itemsSep args
  | .doS e => wf e
  | .raise n => nameOk n
  | _ => false

def wfFlatB : List PStmt → Bool
  | [] => true
  | s :: ss => wfFlat s && wfFlatB ss

/-! ## Well-formed statements of every kind (domain of `C12.stmt_roundtrip` / `C12.program_roundtrip`) -/

/-- the words that end a clause: no statement starts with one of them -/
def enderKws : List Bytes := [bytesOf "end", bytesOf "elsif", bytesOf "else", bytesOf "exception", bytesOf "when"]

/-- a function parameter as the parser stores it: upper-cased name; no type, or a type keyword other than `undefined`
(which the parser turns into "no type") -/
def paramOk (p : Bytes × Bytes) : Bool :=
  upper p.1 == p.1 && (p.2.isEmpty || (typeKws.contains p.2 && p.2 != bytesOf "undefined"))

def wfOpt : Option PExpr → Bool
  | none => true
  | some e => wf e

mutual
  /-- `nested` = the statement stands inside a block (function declarations are rejected there) -/
  def wfS (nested : Bool) : PStmt → Bool
    | .nop | .brk | .cont => true
    | .trace e => wf e
    | .ret none => true
    | .ret (some e) => wf e
    | .letS n e nx => nameOk n && wf e && wfNext nested nx
    | .letn n ty nx => nameOk n && typeKws.contains ty && wfNext nested nx
    | .print args => wfArgs args && itemsSep args
    | .put args => wfArgs args && itemsSep args
    | .doS e => wf e
    | .raise n => nameOk n
    | .ifS rules els => !rules.isEmpty && wfRules rules && wfElse els
    | .whileS c body => wf c && !body.isEmpty && wfB body
    | .forS v b e step _ body => nameOk v && wf b && wf e && wfOpt step && !body.isEmpty && wfB body
    | .forall v e _ body => nameOk v && wf e && !body.isEmpty && wfB body
    | .begin body catches => wfB body && wfCatches catches
    | .func n params rt body catches =>
      !nested && nameOk n && params.all paramOk && typeKws.contains rt && wfB body && wfCatches catches
  def wfNext (nested : Bool) : Option PStmt → Bool
    | none => true
    | some s => wfS nested s
  def wfElse : Option (List PStmt) → Bool
    | none => true
    | some b => !b.isEmpty && wfB b
  def wfRules : List (PExpr × List PStmt) → Bool
    | [] => true
    | (c, b) :: rs => wf c && !b.isEmpty && wfB b && wfRules rs
  def wfCatches : List (Bytes × List PStmt) → Bool
    | [] => true
    | (n, b) :: cs => nameOk n && !b.isEmpty && wfB b && wfCatches cs
  /-- a block: every statement well formed as a nested statement -/
  def wfB : List PStmt → Bool
    | [] => true
    | s :: ss => wfS true s && wfB ss
end

/-- a program: every statement well formed as a top-level statement -/
def wfP : List PStmt → Bool
  | [] => true
  | s :: ss => wfS false s && wfP ss

end BlocV.Roundtrip
