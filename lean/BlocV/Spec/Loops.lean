/-
  Spec C06 — the iterations a `for` header denotes, on mathematical integers (no wrap-around).

  `for v in first to limit [step s] [asc|desc]`:
    * a null bound or step: no iteration (decided before this function is reached);
    * a step below 1 is an error (OUT_OF_RANGE);
    * limit > first: ascending first, first+s, … while ≤ limit — unless `desc` was requested: none;
    * limit ≤ first: descending first, first−s, … while ≥ limit — unless `asc` was requested and
      limit ≠ first: none. (Equal bounds: exactly one iteration in every mode.)
-/
namespace BlocV.Spec

inductive Direction | auto | asc | desc
  deriving DecidableEq, Repr

/-- `cur, cur+step, …` while `≤ max`, at most `fuel` values. -/
def upFrom : Nat → Int → Int → Int → List Int
  | 0, _, _, _ => []
  | f + 1, cur, max, step => if cur > max then [] else cur :: upFrom f (cur + step) max step

/-- `cur, cur−step, …` while `≥ min`, at most `fuel` values. -/
def downFrom : Nat → Int → Int → Int → List Int
  | 0, _, _, _ => []
  | f + 1, cur, min, step => if cur < min then [] else cur :: downFrom f (cur - step) min step

/-- The values the control variable takes (for a body that does not assign it), `step ≥ 1`. -/
def forRange (first limit step : Int) (dir : Direction) : List Int :=
  if limit > first then
    if dir = .desc then [] else upFrom ((limit - first).toNat + 1) first limit step
  else
    if dir = .asc ∧ limit ≠ first then [] else downFrom ((first - limit).toNat + 1) first limit step

/-- The number of iterations in closed form (`step ≥ 1`): `|limit − first| / step + 1` when the
direction can be met, else 0. -/
def forCount (first limit step : Int) (dir : Direction) : Nat :=
  if limit > first then
    if dir = .desc then 0 else ((limit - first) / step).toNat + 1
  else
    if dir = .asc ∧ limit ≠ first then 0 else ((first - limit) / step).toNat + 1

/-- The values in closed form: `first ± i·step` for `i < forCount …` (that this is `forRange` for
every `step ≥ 1` is `C06.forRange_closed_form`). -/
def forValues (first limit step : Int) (dir : Direction) : List Int :=
  (List.range (forCount first limit step dir)).map fun (i : Nat) =>
    if limit > first then first + (i : Int) * step else first - (i : Int) * step

example : forValues 1 10 4 .auto = [1, 5, 9] := by decide
example : forValues 3 1 1 .auto = [3, 2, 1] := by decide
example : forCount (-9223372036854775808) 9223372036854775807 1 .auto = 2 ^ 64 := by decide

example : forRange 1 10 4 .auto = [1, 5, 9] := by decide
example : forRange 3 1 1 .auto = [3, 2, 1] := by decide
example : forRange 3 3 5 .desc = [3] := by decide
example : forRange 1 3 1 .desc = [] := by decide
example : forRange 9223372036854775806 9223372036854775807 1 .auto = [9223372036854775806, 9223372036854775807] := by decide

end BlocV.Spec
