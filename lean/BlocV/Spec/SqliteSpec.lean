/-
  Specification of a PREPARED STATEMENT with one parameter, as the property C18 states it for the sqlite3 module:
  "the rows a statement stores are the function of the values bound at the time of each execute".

  Nothing of the module is used here (no handle, no status flag, no SQLite): a client holds one parameter slot; `bind`
  replaces its content (or leaves it, when the tuple has no item that can be bound), `execute` stores the CURRENT content
  as a new row unless the table refuses it (constraint), a one-step `exec` stores its own argument and does not touch the
  slot, every other call (fetch, header, isopen, a query) changes nothing. `α` is the type of stored values, `ok` the
  table's constraint.
-/
namespace BlocV.Spec.Sqlite

/-- one call of a client that holds a prepared INSERT -/
inductive Call (α : Type) where
  /-- `bind(tuple)`: `some v` = the first item is bound as `v`; `none` = nothing bindable (empty tuple, an object): slot kept -/
  | bind (v : Option α)
  /-- `execute()` -/
  | execute
  /-- one-step `exec(sql, tuple)` storing `v` -/
  | exec (v : α)
  /-- any call that neither binds nor executes -/
  | other
  deriving Repr

/-- what the client knows: the parameter slot and the rows stored so far (oldest first) -/
structure St (α : Type) where
  slot : α
  rows : List α

/-- answer of a call as far as the specification fixes it: did the call store a row (`some true`), was it refused
    (`some false`), or does it not execute anything (`none`) -/
abbrev Ans := Option Bool

def step {α : Type} (ok : α → Bool) (s : St α) : Call α → St α × Ans
  | .bind (some v) => ({ s with slot := v }, none)
  | .bind none => (s, none)
  | .execute => if ok s.slot then ({ s with rows := s.rows ++ [s.slot] }, some true) else (s, some false)
  | .exec v => if ok v then ({ s with rows := s.rows ++ [v] }, some true) else (s, some false)
  | .other => (s, none)

def run {α : Type} (ok : α → Bool) : St α → List (Call α) → St α × List Ans
  | s, [] => (s, [])
  | s, c :: cs =>
    let r := step ok s c
    let rest := run ok r.1 cs
    (rest.1, r.2 :: rest.2)

/-- closed form of the stored rows: each successful `execute` contributes the value of the LAST bind before it -/
def stored {α : Type} (ok : α → Bool) : α → List (Call α) → List α
  | _, [] => []
  | _, .bind (some v) :: cs => stored ok v cs
  | cur, .bind none :: cs => stored ok cur cs
  | cur, .execute :: cs => if ok cur then cur :: stored ok cur cs else stored ok cur cs
  | cur, .exec v :: cs => if ok v then v :: stored ok cur cs else stored ok cur cs
  | cur, .other :: cs => stored ok cur cs

end BlocV.Spec.Sqlite
