/-
  Spec for the utf8 half of C18: an independent UTF-8 encoder/decoder written from RFC 3629 §3
  (bit layout 0xxxxxxx / 110xxxxx 10xxxxxx / 1110xxxx 10xxxxxx 10xxxxxx / 11110xxx 10xxxxxx 10xxxxxx
  10xxxxxx; shortest form only; no surrogates D800–DFFF; nothing above U+10FFFF), on code points as
  `Nat`. It does not use the byte-range table of RFC 3629 §4 that the implementation is written from.
-/

namespace BlocV.Spec.Utf8

/-- Unicode scalar values. -/
def isScalar (n : Nat) : Bool := n < 0xD800 ∨ (0xE000 ≤ n ∧ n ≤ 0x10FFFF)

def byte (n : Nat) : UInt8 := UInt8.ofNat (n % 256)

/-- RFC 3629 §3 encoding of one code point. -/
def encode (n : Nat) : List UInt8 :=
  if n < 0x80 then [byte n]
  else if n < 0x800 then [byte (0xC0 + n / 0x40), byte (0x80 + n % 0x40)]
  else if n < 0x10000 then [byte (0xE0 + n / 0x1000), byte (0x80 + n / 0x40 % 0x40), byte (0x80 + n % 0x40)]
  else [byte (0xF0 + n / 0x40000), byte (0x80 + n / 0x1000 % 0x40), byte (0x80 + n / 0x40 % 0x40),
        byte (0x80 + n % 0x40)]

def encodeAll (cps : List Nat) : List UInt8 := cps.flatMap encode

/-- 10xxxxxx -/
def isCont (b : Nat) : Bool := 0x80 ≤ b ∧ b < 0xC0

/-- Decode one code point from the front of the text: `(value, number of bytes)`; `none` if the text
does not start with a well-formed sequence (continuation byte or F8–FF as lead, missing or bad
continuation byte, over-long form, surrogate, above U+10FFFF). -/
def decode1 (bs : List Nat) : Option (Nat × Nat) :=
  match bs with
  | [] => none
  | b0 :: rest =>
    if b0 < 0x80 then some (b0, 1)
    else if b0 < 0xC0 then none
    else if b0 < 0xE0 then
      match rest with
      | b1 :: _ =>
        let v := (b0 - 0xC0) * 0x40 + (b1 - 0x80)
        if isCont b1 ∧ 0x80 ≤ v then some (v, 2) else none
      | _ => none
    else if b0 < 0xF0 then
      match rest with
      | b1 :: b2 :: _ =>
        let v := (b0 - 0xE0) * 0x1000 + (b1 - 0x80) * 0x40 + (b2 - 0x80)
        if isCont b1 ∧ isCont b2 ∧ 0x800 ≤ v ∧ isScalar v then some (v, 3) else none
      | _ => none
    else if b0 < 0xF8 then
      match rest with
      | b1 :: b2 :: b3 :: _ =>
        let v := (b0 - 0xF0) * 0x40000 + (b1 - 0x80) * 0x1000 + (b2 - 0x80) * 0x40 + (b3 - 0x80)
        if isCont b1 ∧ isCont b2 ∧ isCont b3 ∧ 0x10000 ≤ v ∧ isScalar v then some (v, 4) else none
      | _ => none
    else none

/-- Strict decoder: `some` code points iff the whole text is well-formed. (`k` = bytes of the current
sequence still to be passed over.) -/
def decodeGo : Nat → List Nat → Option (List Nat)
  | _, [] => some []
  | k + 1, _ :: bs => decodeGo k bs
  | 0, b :: bs =>
    match decode1 (b :: bs) with
    | some (v, len) => (decodeGo (len - 1) bs).map (v :: ·)
    | none => none

def decode (bs : List UInt8) : Option (List Nat) := decodeGo 0 (bs.map (·.toNat))

/-- Lenient decoder: left to right; a well-formed sequence is taken, any other byte is dropped.
This is what "ill-formed input is discarded" means once stated precisely. -/
def lenientGo : Nat → List Nat → List Nat
  | _, [] => []
  | k + 1, _ :: bs => lenientGo k bs
  | 0, b :: bs =>
    match decode1 (b :: bs) with
    | some (v, len) => v :: lenientGo (len - 1) bs
    | none => lenientGo 0 bs

def lenient (bs : List UInt8) : List Nat := lenientGo 0 (bs.map (·.toNat))

/-- Big-endian packing of a byte sequence into one number (the module's representation of a
character). -/
def packBE (bs : List UInt8) : Nat := bs.foldl (fun acc b => acc * 256 + b.toNat) 0

/-- The module's "codepoint" of a Unicode scalar value. -/
def pack (n : Nat) : Nat := packBE (encode n)

/-! ### list operations the string operations are compared with -/

def lSubstr (cps : List Nat) (pos n : Nat) : List Nat := (cps.drop pos).take n
def lRemove (cps : List Nat) (pos n : Nat) : List Nat := cps.take pos ++ cps.drop (pos + n)
def lInsert (cps : List Nat) (pos : Nat) (c : Nat) : List Nat := cps.take pos ++ c :: cps.drop pos

end BlocV.Spec.Utf8
