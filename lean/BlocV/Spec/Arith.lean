/-
  Spec C03 — integer arithmetic as the property and the reference manual state it, on
  mathematical integers. Nothing here mentions Int64, casts or C.

  An integer value is a mathematical integer in [−2^63, 2^63). `wrap` reduces any integer into
  that range modulo 2^64.
-/
namespace BlocV.Spec

def wrap (z : Int) : Int := Int.bmod z (2 ^ 64)

/-- The 64-bit pattern of an integer value, as a natural number in [0, 2^64). -/
def pattern (z : Int) : Nat := (z % 2 ^ 64).toNat

inductive IRes
  | val (z : Int)
  | divideByZero
  | outOfRange
  deriving DecidableEq, Repr

def add (a b : Int) : Int := wrap (a + b)
def sub (a b : Int) : Int := wrap (a - b)
def mul (a b : Int) : Int := wrap (a * b)
def neg (a : Int) : Int := wrap (-a)

/-- `/` truncates toward zero, raises DIVIDE_BY_ZERO on a zero divisor, defined for every other pair. -/
def div (a b : Int) : IRes := if b = 0 then .divideByZero else .val (wrap (Int.tdiv a b))
/-- `%` is the remainder of the truncating division. -/
def mod (a b : Int) : IRes := if b = 0 then .divideByZero else .val (wrap (Int.tmod a b))

/-- `a ** n` for `n ≥ 0`: the exact power reduced modulo 2^64. -/
def pow (a : Int) (n : Nat) : Int := wrap (a ^ n)

/-- Manual §Bitwise operators: "Both right and left shifts fill the vacant bits with zeros. Negative
displacements shift to the other direction; displacements with absolute values equal to or higher
than the number of bits in an integer result in zero." -/
def shl (a n : Int) : Int :=
  if n ≥ 64 ∨ n ≤ -64 then 0
  else if n ≥ 0 then wrap ((pattern a * 2 ^ n.toNat) % 2 ^ 64 : Nat)
  else wrap ((pattern a / 2 ^ (-n).toNat : Nat))

def shr (a n : Int) : Int :=
  if n ≥ 64 ∨ n ≤ -64 then 0
  else if n ≥ 0 then wrap ((pattern a / 2 ^ n.toNat : Nat))
  else wrap ((pattern a * 2 ^ (-n).toNat) % 2 ^ 64 : Nat)

/-- Bitwise operators act on all 64 bits of the pattern. -/
def band (a b : Int) : Int := wrap ((pattern a &&& pattern b : Nat))
def bor (a b : Int) : Int := wrap ((pattern a ||| pattern b : Nat))
def bxor (a b : Int) : Int := wrap ((pattern a ^^^ pattern b : Nat))
def bnot (a : Int) : Int := wrap ((2 ^ 64 - 1 - pattern a : Nat))

/-- `int(d)` for a decimal whose exact truncation toward zero is `t` (`none` for NaN and ±inf):
succeeds exactly when the value lies in the integer range. -/
def intOfDecimal (t : Option Int) : IRes :=
  match t with
  | some z => if -2 ^ 63 ≤ z ∧ z < 2 ^ 63 then .val z else .outOfRange
  | none => .outOfRange

end BlocV.Spec
