/-
  Spec — C19, what the property says about the `bloc` command, without options tables, streams of
  the C runtime, or the order of tests in `main`.

  "Running `bloc file [args...]` (or `-`) produces on the selected output exactly what the same
  program prints when run through the library, stores the arguments in order in the table $ARG,
  prints the returned value if any, and exits with status 0 iff the program compiled and ran without
  an unhandled error; otherwise it writes an error message (with line:column for compile errors) to
  standard error and exits non-zero."
-/
import BlocV.Model.Interp

namespace BlocV.Spec.Cli
open BlocV

/-- exit status 0 ⇔ compiled ∧ ran without an unhandled error. -/
def exitStatus (compiled ranOk : Bool) : Nat := if compiled && ranOk then 0 else 1

/-- `$ARG`: the arguments after the program name, in order, as a table of strings. -/
def argTable (args : List Bytes) : Val := .tab { major := .str, level := 1 } [] (args.map Val.str)

/-! ### the command line: `bloc [options] program [args…]`

The manual's synopsis: options come first; the first word that is not an option is the program (a file
name, or `-` for the standard input); EVERYTHING after it belongs to the program, whatever it looks like. -/

/-- A word is read as an option iff it starts with '-' and is not the single dash. (The empty word is not.) -/
def isOptionWord (w : Bytes) : Bool :=
  match w with
  | [] => false
  | [45] => false
  | c :: _ => c == 45

/-- The option words: the longest prefix of option words. -/
def optionWords (argv : List Bytes) : List Bytes := argv.takeWhile isOptionWord

/-- The program word and its arguments: the rest, untouched. -/
def programWords (argv : List Bytes) : List Bytes := argv.dropWhile isOptionWord

/-- `--out=PATH` → `PATH`. -/
def outValue (w : Bytes) : Option Bytes :=
  match w with
  | 45 :: 45 :: 111 :: 117 :: 116 :: 61 :: v => some v
  | _ => none

/-- The selected output file: the value of the LAST `--out=` among the option words (empty: standard output). -/
def outPath (opts : List Bytes) : Bytes :=
  match (opts.filterMap outValue).getLast? with
  | some p => p
  | none => []

/-- "the file minus CRs": what the reader must deliver to the parser, every other byte once and in order. -/
def withoutCr (file : Bytes) : Bytes := file.filter (· != 13)

/-- ASCII text as bytes (kernel-reducible, unlike `String.toUTF8`). -/
def str (s : String) : Bytes := s.toList.map fun c => UInt8.ofNat c.toNat

def hexU (n : Nat) : UInt8 := if n < 10 then UInt8.ofNat (48 + n) else UInt8.ofNat (55 + n)
def hexL (n : Nat) : UInt8 := if n < 10 then UInt8.ofNat (48 + n) else UInt8.ofNat (87 + n)

/-- One line of the library's bytes dump (`Value::outputTabchar`): offset, 16 hex cells, the printable characters. -/
def dumpLine (off : Nat) (row : Bytes) : Bytes :=
  ((List.range 8).map fun i => hexU ((off >>> (4 * (7 - i))) % 16)) ++ str ":  " ++
  (row.map fun c => [hexL (c.toNat / 16), hexL (c.toNat % 16), 32]).flatten ++
  (List.replicate (16 - row.length) (str "   ")).flatten ++ [32] ++
  (row.map fun c => if c > 32 && c < 127 then c else 46) ++ [10]

def dump : Nat → Nat → Bytes → Bytes
  | 0, _, _ => []
  | fuel + 1, off, v => if v.isEmpty then [] else dumpLine off (v.take 16) ++ dump fuel (off + 16) (v.drop 16)

def majorName : Major → String
  | .none => "undefined" | .bool => "boolean" | .int => "integer" | .num => "decimal" | .str => "string"
  | .obj => "object" | .raw => "bytes" | .tup => "tuple" | .ptr => "pointer" | .imag => "complex"

/-- "prints the returned value": the text the library's own `print` statement writes for the value
(statement_print.cpp), the final newline apart. `none`: not determined here (objects, tuples of
objects; tuple-typed tables, whose name needs the declaration).

-- UNDETERMINED BY DOCUMENTATION: the manual does not say how the command renders a returned value;
the library's `print` is taken as the reference since the property ties the command's output to
"what the same program prints when run through the library". For null, boolean, integer, decimal
and string values the command's `output()` coincides with it (theorem `outputVal_eq_print`). -/
def returnedText (fmtNum : UInt64 → Bytes) : Val → Option Bytes
  | .null t => if t.level == 0 then some (str "null") else none
  | .bool b => some (str (if b then "TRUE" else "FALSE"))
  | .int i => some (intToString i)
  | .num d => some (fmtNum d)
  | .str s => some (s.takeWhile (· != 0))
  | .raw s => some (dump (s.length + 1) 0 s)
  | .tab t _ elems =>
    if t.major == .tup || t.major == .obj then none
    else some (List.replicate t.level 91 ++ str (majorName t.major) ++ List.replicate t.level 93 ++ [91] ++ Fmt.natStr elems.length ++ [93])
  | _ => none

/-- The selected output of a successful run: the library's output followed by the returned value. -/
def selectedOutput (fmtNum : UInt64 → Bytes) (libOut : Bytes) (ret : Option Val) : Option Bytes :=
  match ret with
  | none => some libOut
  | some v => (returnedText fmtNum v).map (libOut ++ ·)

/-- An error message for a compile error names the position as `line:column`. -/
def hasPosition (msg : Bytes) (l c : Nat) : Prop :=
  ∃ pre post, msg = pre ++ Fmt.natStr l ++ [58] ++ Fmt.natStr c ++ post

end BlocV.Spec.Cli
