/-
  Spec C04 — Kleene's strong three-valued logic on {true, false, null}, and strictness of the
  relational operators in null.
-/
namespace BlocV.Spec

inductive K | t | f | n
  deriving DecidableEq, Repr

def K.and : K → K → K
  | .f, _ => .f
  | _, .f => .f
  | .t, .t => .t
  | _, _ => .n

def K.or : K → K → K
  | .t, _ => .t
  | _, .t => .t
  | .f, .f => .f
  | _, _ => .n

def K.xor : K → K → K
  | .n, _ => .n
  | _, .n => .n
  | a, b => if a = b then .f else .t

def K.not : K → K
  | .t => .f
  | .f => .t
  | .n => .n

/-- A null or false condition takes the false branch. -/
def K.cond : K → Bool
  | .t => true
  | _ => false

end BlocV.Spec
