/-
  Spec — independent mathematical specifications of the text built-ins (property C10), written on
  `List UInt8` and unbounded integers, with no reference to the model's `Int64` index arithmetic.
  Model/Builtins.lean is proved equal to these in Proofs/C10.lean (outside the recorded finding regions).
-/
namespace BlocV.Spec.Text

/-- `substr(x, begin [, count])` / `subraw`: a negative `begin` counts from the end; the count is
clamped to what is available (absent = everything); a position that is still negative after the
adjustment, or a non-positive count, gives the empty string. -/
def substr (s : List UInt8) (pos : Int) (count : Option Int) : List UInt8 :=
  let c : Int := s.length
  let a : Int := if pos < 0 then pos + c else pos
  let n : Int := max (min (count.getD c) (c - a)) 0
  if 0 ≤ a then (s.drop a.toNat).take n.toNat else []

/-- `lsubstr(x, count)`: the first `count` bytes (all of `x` when count is oversized, none when ≤ 0). -/
def lsubstr (s : List UInt8) (count : Int) : List UInt8 := s.take count.toNat

/-- `rsubstr(x, count)`: the last `count` bytes. -/
def rsubstr (s : List UInt8) (count : Int) : List UInt8 := s.drop (s.length - count.toNat)

/-- `i` is the first occurrence of `needle` in `hay` at or after `start` (what `strpos` returns). -/
def FirstOcc (hay needle : List UInt8) (start i : Nat) : Prop :=
  start ≤ i ∧ i ≤ hay.length ∧ needle <+: hay.drop i ∧ ∀ j, start ≤ j → j < i → ¬ needle <+: hay.drop j

/-- `needle` does not occur in `hay` at or after `start`. -/
def NoOcc (hay needle : List UInt8) (start : Nat) : Prop :=
  ∀ j, start ≤ j → j ≤ hay.length → ¬ needle <+: hay.drop j

/-- Joining pieces with a separator (inverse of `tokenize` without null trimming). -/
def join (sep : List UInt8) : List (List UInt8) → List UInt8
  | [] => []
  | [p] => p
  | p :: q :: ps => p ++ sep ++ join sep (q :: ps)

theorem substr_infix (s : List UInt8) (pos : Int) (count : Option Int) : substr s pos count <:+: s := by
  have key : ∀ (a n : Int), (if 0 ≤ a then (s.drop a.toNat).take n.toNat else []) <:+: s := by
    intro a n
    split
    · exact List.IsInfix.trans (List.take_prefix _ _).isInfix (List.drop_suffix _ _).isInfix
    · exact List.nil_infix
  exact key _ _

theorem lsubstr_prefix (s : List UInt8) (n : Int) : lsubstr s n <+: s := List.take_prefix _ _
theorem rsubstr_suffix (s : List UInt8) (n : Int) : rsubstr s n <:+ s := List.drop_suffix _ _

theorem lsubstr_length (s : List UInt8) (n : Int) : (lsubstr s n).length = min n.toNat s.length := by
  simp [lsubstr, List.length_take]

theorem rsubstr_length (s : List UInt8) (n : Int) : (rsubstr s n).length = min n.toNat s.length := by
  simp only [rsubstr, List.length_drop]; omega

example : substr [1, 2, 3, 4, 5] (-2) none = [4, 5] := by decide
example : substr [1, 2, 3, 4, 5] 1 (some 2) = [2, 3] := by decide
example : substr [1, 2, 3, 4, 5] (-9) (some 7) = [] := by decide
example : rsubstr [1, 2, 3] 2 = [2, 3] := by decide

end BlocV.Spec.Text
