/-
  Spec — independent mathematical specifications of the text built-ins (property C10), written on
  `List UInt8` and unbounded integers, with no reference to the model's `Int64` index arithmetic.
  Model/Builtins.lean is proved equal to these in Proofs/C10.lean, for all arguments (the former
  finding regions — substr/subraw at INT64_MIN, hex pad counts near INT64_MAX — were repaired).
-/
namespace BlocV.Spec.Text

/-- `substr(x, begin [, count])` / `subraw`: a negative `begin` counts from the end; the count is
clamped to what is available (absent = everything); a position that is still negative after the
adjustment, or a non-positive count, gives the empty string. -/
def substr (s : List UInt8) (pos : Int) (count : Option Int) : List UInt8 :=
  let c : Int := s.length
  let a : Int := if pos < 0 then pos + c else pos
  let n : Int := max (min (count.getD c) (c - a)) 0
  if 0 ≤ a then (s.drop a.toNat).take n.toNat else []

/-- `lsubstr(x, count)`: the first `count` bytes (all of `x` when count is oversized, none when ≤ 0). -/
def lsubstr (s : List UInt8) (count : Int) : List UInt8 := s.take count.toNat

/-- `rsubstr(x, count)`: the last `count` bytes. -/
def rsubstr (s : List UInt8) (count : Int) : List UInt8 := s.drop (s.length - count.toNat)

/-- `i` is the first occurrence of `needle` in `hay` at or after `start` (what `strpos` returns). -/
def FirstOcc (hay needle : List UInt8) (start i : Nat) : Prop :=
  start ≤ i ∧ i ≤ hay.length ∧ needle <+: hay.drop i ∧ ∀ j, start ≤ j → j < i → ¬ needle <+: hay.drop j

/-- `needle` does not occur in `hay` at or after `start`. -/
def NoOcc (hay needle : List UInt8) (start : Nat) : Prop :=
  ∀ j, start ≤ j → j ≤ hay.length → ¬ needle <+: hay.drop j

/-- Joining pieces with a separator (inverse of `tokenize` without null trimming). -/
def join (sep : List UInt8) : List (List UInt8) → List UInt8
  | [] => []
  | [p] => p
  | p :: q :: ps => p ++ sep ++ join sep (q :: ps)

/-! ### hex -/

/-- One lower-case hexadecimal digit (`0`–`9`, `a`–`f`) as a byte. -/
def hexDigit (d : Nat) : UInt8 := UInt8.ofNat (if d < 10 then 48 + d else 87 + d)

/-- The `w` low-order hexadecimal digits of `u`, most significant first (zero padded). -/
def hexFixed (u : Nat) : Nat → List UInt8
  | 0 => []
  | w + 1 => hexDigit (u / 16 ^ w % 16) :: hexFixed u w

/-- Drop leading `'0'` characters as long as more than `keep` characters remain. -/
def stripZeros (keep : Nat) : List UInt8 → List UInt8
  | [] => []
  | d :: ds => if d = 48 ∧ keep < ds.length + 1 then stripZeros keep ds else d :: ds

/-- `hex(v [, n])`: the 64-bit two's-complement pattern of `v` in lower-case hexadecimal, without
leading zeros but never fewer than `n` digits and never fewer than one — i.e. the 16-digit zero-padded
numeral with leading zeros removed while more than `max 1 (min n 16)` digits remain. Every pad count is
meaningful: `n ≤ 1` (negative included) asks for no padding, `n ≥ 16` (INT64_MAX included) for all 16
digits. (Absent pad count = 0.) -/
def hex (v n : Int) : List UInt8 :=
  stripZeros (max 1 (min n 16)).toNat (hexFixed (v % 2 ^ 64).toNat 16)

/-- Value of one lower-case hexadecimal digit character. -/
def hexDigitVal (c : UInt8) : Nat := if c < 58 then c.toNat - 48 else c.toNat - 87

/-- Value of a numeral of lower-case hexadecimal digits (inverse of `hex` on the digits). -/
def hexValue (ds : List UInt8) : Nat := ds.foldl (fun a c => a * 16 + hexDigitVal c) 0

theorem hexFixed_length (u : Nat) : ∀ w, (hexFixed u w).length = w
  | 0 => rfl
  | w + 1 => by simp [hexFixed, hexFixed_length u w]

theorem stripZeros_suffix (keep : Nat) : ∀ l : List UInt8, stripZeros keep l <:+ l
  | [] => List.suffix_refl _
  | d :: ds => by
    unfold stripZeros
    split
    · exact List.IsSuffix.trans (stripZeros_suffix keep ds) (List.suffix_cons _ _)
    · exact List.suffix_refl _

theorem stripZeros_length (keep : Nat) : ∀ l : List UInt8, min keep l.length ≤ (stripZeros keep l).length
  | [] => by simp [stripZeros]
  | d :: ds => by
    unfold stripZeros
    split
    · rename_i h
      have := stripZeros_length keep ds
      simp only [List.length_cons]
      omega
    · omega

/-- `hex` yields between `max 1 (min n 16)` and 16 characters, a suffix of the 16-digit numeral. -/
theorem hex_length (v n : Int) : (max 1 (min n 16)).toNat ≤ (hex v n).length ∧ (hex v n).length ≤ 16 := by
  unfold hex
  have h1 := stripZeros_length (max 1 (min n 16)).toNat (hexFixed (v % 2 ^ 64).toNat 16)
  have h2 := (stripZeros_suffix (max 1 (min n 16)).toNat (hexFixed (v % 2 ^ 64).toNat 16)).length_le
  rw [hexFixed_length] at h1 h2
  omega

theorem hexDigitVal_fin : ∀ n : Fin 16, hexDigitVal (hexDigit n.val) = n.val := by decide +kernel

theorem hexDigitVal_hexDigit (d : Nat) (h : d < 16) : hexDigitVal (hexDigit d) = d := hexDigitVal_fin ⟨d, h⟩

theorem foldl_hexFixed (u : Nat) : ∀ (w a : Nat),
    (hexFixed u w).foldl (fun a c => a * 16 + hexDigitVal c) a = a * 16 ^ w + u % 16 ^ w := by
  intro w
  induction w with
  | zero => intro a; simp [hexFixed, Nat.mod_one]
  | succ w ih =>
    intro a
    simp only [hexFixed, List.foldl_cons]
    rw [ih, hexDigitVal_hexDigit _ (Nat.mod_lt _ (by decide)), Nat.mod_pow_succ, Nat.pow_succ]
    rw [Nat.add_mul, Nat.mul_assoc, Nat.mul_comm 16 (16 ^ w), Nat.mul_comm (u / 16 ^ w % 16)]
    omega

theorem hexValue_eq (ds : List UInt8) : hexValue ds = ds.foldl (fun a c => a * 16 + hexDigitVal c) 0 := rfl

theorem hexValue_stripZeros (keep : Nat) : ∀ l : List UInt8, hexValue (stripZeros keep l) = hexValue l
  | [] => rfl
  | d :: ds => by
    unfold stripZeros
    split
    · rename_i h
      rw [hexValue_stripZeros keep ds, h.1]
      rfl
    · rfl

/-- The digits of `hex v n` denote the 64-bit two's-complement pattern of `v`, whatever the pad count. -/
theorem hexValue_hex (v n : Int) : hexValue (hex v n) = (v % 2 ^ 64).toNat := by
  unfold hex
  rw [hexValue_stripZeros, hexValue_eq, foldl_hexFixed]
  have : (v % 2 ^ 64).toNat < 16 ^ 16 := by
    have h1 : 0 ≤ v % 2 ^ 64 := Int.emod_nonneg _ (by decide)
    have h2 : v % 2 ^ 64 < 2 ^ 64 := Int.emod_lt_of_pos _ (by decide)
    omega
  rw [Nat.mod_eq_of_lt this]; omega

example : hex 255 4 = "00ff".toUTF8.toList := by decide +kernel
example : hex 255 0 = "ff".toUTF8.toList := by decide +kernel
example : hex 0 (-5) = "0".toUTF8.toList := by decide +kernel
example : hex (-1) 0 = "ffffffffffffffff".toUTF8.toList := by decide +kernel
example : hex 1 9223372036854775807 = "0000000000000001".toUTF8.toList := by decide +kernel
example : hexValue (hex 48879 9) = 48879 := by decide +kernel

theorem substr_infix (s : List UInt8) (pos : Int) (count : Option Int) : substr s pos count <:+: s := by
  have key : ∀ (a n : Int), (if 0 ≤ a then (s.drop a.toNat).take n.toNat else []) <:+: s := by
    intro a n
    split
    · exact List.IsInfix.trans (List.take_prefix _ _).isInfix (List.drop_suffix _ _).isInfix
    · exact List.nil_infix
  exact key _ _

theorem lsubstr_prefix (s : List UInt8) (n : Int) : lsubstr s n <+: s := List.take_prefix _ _
theorem rsubstr_suffix (s : List UInt8) (n : Int) : rsubstr s n <:+ s := List.drop_suffix _ _

theorem lsubstr_length (s : List UInt8) (n : Int) : (lsubstr s n).length = min n.toNat s.length := by
  simp [lsubstr, List.length_take]

theorem rsubstr_length (s : List UInt8) (n : Int) : (rsubstr s n).length = min n.toNat s.length := by
  simp only [rsubstr, List.length_drop]; omega

example : substr [1, 2, 3, 4, 5] (-2) none = [4, 5] := by decide
example : substr [1, 2, 3, 4, 5] 1 (some 2) = [2, 3] := by decide
example : substr [1, 2, 3, 4, 5] (-9) (some 7) = [] := by decide
example : rsubstr [1, 2, 3] 2 = [2, 3] := by decide

end BlocV.Spec.Text
