/-
  Driver command of the C05 storage-level correspondence: I/O glue only. Imports the Model, never the proofs.

    c05x <fuel> <hex of an S-expression script>

  script ::= item*          item ::= (func NAME (PARAM*) stmt*)      a user function (parsed once: its constant
                                                                      nodes persist across calls)
                                   | (def K stmt*)                    parse executable K (its constant nodes are
                                                                      allocated now, once)
                                   | (run K)                          run executable K in the main context
                                   | (flag e)                         value and LVALUE flag of the result cell of e (probe op exprf)
  stmt ::= (let NAME e) | (do e) | (return e)
  e    ::= (lit V) | (var NAME) | (un OP e) | (bin OP e e) | (member M e e*) | (item e N) | (setitem e N e)
         | (call tab) | (call tab e e) | (call tup e*) | (fcall NAME e*)
         | (call BUILTIN e*)     BUILTIN in the placement table `biPlace` (built-ins of two and more arguments)
  Every `run` executes `execXs` of Model/StoreX.lean — the function the C05 theorems are about — on the one
  persistent state. Answer: `model=<step>|<step>|…`, one step per `run`:
     `<outcome>#<NAME>=<V>/<l|t>;…`   outcome = ok | rerr+<code> | hazard+<h> | unmodelled | oof
  (after a step that did not end `ok` the model has no state: the remaining steps are `stop`).
-/
import BlocV.Model.StoreX
import BlocV.SExp
import BlocV.Proto

namespace BlocV.DrvC05
open BlocV BlocV.Proto BlocV.SExp

/-- translation state: constant nodes allocated so far, functions (name, arity) in table order -/
structure Tr where
  csts : List Val := []
  funcs : List (String × Nat) := []
  deriving Inhabited

abbrev TrM := StateT (Tr × List String) Option     -- second component: the scope (symbol names of the context)

def lookupVar (n : String) : TrM Nat := do
  let (t, sc) ← get
  match sc.findIdx? (· == n) with
  | some i => pure i
  | none => set (t, sc ++ [n]); pure sc.length

def newCst (v : Val) : TrM Nat := do
  let (t, sc) ← get
  set ({ t with csts := t.csts ++ [v] }, sc)
  pure t.csts.length

def toX : Nat → S → TrM XExpr
  | 0, _ => failure
  | fuel + 1, .list [.atom "lit", .atom v] => do
    match parseVal v with
    | some x => let i ← newCst x; pure (.cst i)
    | none => failure
  | fuel + 1, .list [.atom "var", .atom n] => do let i ← lookupVar n; pure (.var i)
  | fuel + 1, .list [.atom "un", .atom op, a] => do
    match unOpOfName op with
    | some o => let x ← toX fuel a; pure (.un o x)
    | none => failure
  | fuel + 1, .list [.atom "bin", .atom op, a, b] => do
    match binOpOfName op with
    | some o => let x ← toX fuel a; let y ← toX fuel b; pure (.bin o x y)
    | none => failure
  | fuel + 1, .list (.atom "member" :: .atom n :: recv :: args) => do
    match Member.ofName n with
    | some m => let r ← toX fuel recv; let xs ← args.mapM (toX fuel); pure (.mem m r xs)
    | none => failure
  | fuel + 1, .list [.atom "item", e, .atom n] => do
    let r ← toX fuel e
    match n.toNat? with
    | some k => pure (.item r (itemIndex k))
    | none => failure
  | fuel + 1, .list [.atom "setitem", e, .atom n, a] => do
    let r ← toX fuel e
    match n.toNat? with
    | some k => let x ← toX fuel a; pure (.setItem r (itemIndex k) x)
    | none => failure
  | fuel + 1, .list [.atom "call", .atom "tab"] => pure .tab0
  | fuel + 1, .list [.atom "call", .atom "tab", n, e] => do let a ← toX fuel n; let b ← toX fuel e; pure (.tab a b)
  | fuel + 1, .list (.atom "call" :: .atom "tup" :: args) => do let xs ← args.mapM (toX fuel); pure (.tup xs)
  | fuel + 1, .list (.atom "call" :: .atom n :: args) => do
    -- a built-in of two and more arguments: placement table `biPlace` of Model/StoreX.lean
    if (biPlace n []).isSome then let xs ← args.mapM (toX fuel); pure (.bi n xs) else failure
  | fuel + 1, .list (.atom "fcall" :: .atom n :: args) => do
    let (t, _) ← get
    match t.funcs.findIdx? (fun f => f.1 == n && f.2 == args.length) with
    | some i => let xs ← args.mapM (toX fuel); pure (.call i xs)
    | none => failure
  | fuel + 1, _ => failure

def toXS : S → TrM XStmt
  | .list [.atom "let", .atom n, e] => do let x ← toX 1000 e; let i ← lookupVar n; pure (.assign i x)
  | .list [.atom "do", e] => do let x ← toX 1000 e; pure (.doE x)
  | .list [.atom "return", e] => do let x ← toX 1000 e; pure (.ret x)
  | _ => failure

structure DS where
  tr : Tr := {}
  scope : List String := []
  funs : List XFun := []
  exes : List (Nat × List XStmt) := []
  xs : XS := { st := { vars := [], csts := [], pool := [], wm := 0 } }
  dead : Bool := false
  out : List String := []
  deriving Inhabited

/-- make the store follow the translation: new symbols start as untyped nulls, new constant nodes hold their
literal; both carry LVALUE (`MemorySlot` constructor, `StaticExpression` constructor). -/
def sync (d : DS) : DS :=
  let σ := d.xs.st
  let vars := σ.vars ++ (List.replicate (d.scope.length - σ.vars.length) { val := .null Ty.none, lv := true })
  let csts := σ.csts ++ ((d.tr.csts.drop σ.csts.length).map fun v => { val := v, lv := true })
  { d with xs := { d.xs with st := { σ with vars := vars, csts := csts } } }

def dumpStr (d : DS) : String :=
  ";".intercalate ((d.scope.zip d.xs.st.vars).map fun (n, c) => n ++ "=" ++ valStr c.val ++ (if c.lv then "/l" else "/t"))

def outcomeStr {α} : Res α → String
  | .ok _ => "ok"
  | .err c _ => if c == oofCode then "oof" else "rerr+" ++ toString c
  | .haz h => (resStr (.haz h : Res Val)).replace " " "+"
  | .unmodelled => "unmodelled"

def step (fuel : Nat) (d : DS) : S → Option DS
  | .list (.atom "func" :: .atom n :: .list ps :: body) => do
    let params ← ps.mapM fun p => match p with
      | .atom a => some a
      | _ => none
    -- the function is known inside its own body (recursion) with its final index
    let tr0 := { d.tr with funcs := d.tr.funcs ++ [(n, params.length)] }
    let (stmts, (tr1, sc)) ← (body.mapM toXS).run (tr0, params)
    let fn : XFun := { nparams := params.length, locals := sc.map fun _ => Ty.none, body := stmts }
    pure (sync { d with tr := tr1, funs := d.funs ++ [fn] })
  | .list (.atom "def" :: .atom k :: body) => do
    let kk ← k.toNat?
    let (stmts, (tr1, sc)) ← (body.mapM toXS).run (d.tr, d.scope)
    pure (sync { d with tr := tr1, scope := sc, exes := (kk, stmts) :: d.exes })
  | .list [.atom "run", .atom k] => do
    let kk ← k.toNat?
    if d.dead then pure { d with out := d.out ++ ["stop"] } else
    let stmts ← (d.exes.find? (·.1 == kk)).map (·.2)
    match execXs d.funs fuel stmts d.xs with
    | .ok (_, s') =>
      let d' := { d with xs := s' }
      pure { d' with out := d'.out ++ ["ok#" ++ dumpStr d'] }
    | r => pure { d with dead := true, out := d.out ++ [outcomeStr r ++ "#"] }
  | .list [.atom "flag", e] => do
    -- C05R4: evaluate an expression (a freshly parsed node: its literals are new constant nodes) and report the value and the
    -- LVALUE flag of the RESULT cell (`getX`: the flag of the root), as the probe op `exprf` does; then the statement ends
    if d.dead then pure { d with out := d.out ++ ["stop"] } else
    let (x, (tr1, sc)) ← (toX 1000 e).run (d.tr, d.scope)
    let d1 := sync { d with tr := tr1, scope := sc }
    match XM.bind (evalX d1.funs fuel x) (fun loc => XM.bind (xget loc) (fun c => XM.bind xendStatement (fun _ => XM.pure c))) d1.xs with
    | .ok (c, s') => pure { d1 with xs := s', out := d1.out ++ ["ok#" ++ valStr c.val ++ (if c.lv then "/l" else "/t")] }
    | r => pure { d1 with dead := true, out := d1.out ++ [outcomeStr r ++ "#"] }
  | _ => none

def runScript (fuel : Nat) (items : List S) : Option DS :=
  items.foldlM (step fuel) {}

def handle : List String → Option String
  | ["c05x", fuel, hex] =>
    match SExp.readAll (String.fromUTF8! (ByteArray.mk (bytesOfHex hex).toArray)) with
    | none => some "bad-script"
    | some items =>
      match runScript (fuel.toNat?.getD 200) items with
      | some d => some ("model=" ++ "|".intercalate d.out)
      | none => some "bad-script"
  | _ => none

end BlocV.DrvC05
