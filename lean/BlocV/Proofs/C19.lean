/-
  C19 — the `bloc` command reports outcome, output and arguments faithfully.
  Property theorems only. Model: Model/Cli.lean (apps/main.cpp, main_options.cpp, cli_parser.cpp,
  read_file.cpp); Spec: Spec/Cli.lean. The parser and the message texts are fields of `Env`: every
  theorem holds for every `Env`.
-/
import BlocV.Model.Cli
import BlocV.Spec.Cli
import BlocV.Proofs.Lemmas.CliInterp

namespace BlocV.C19
open BlocV BlocV.Cli

/-! ### the argument vector -/

/-- `getCmd` splits the command line at the FIRST word that is not option-shaped (does not start
with '-', or is exactly "-"): everything before is an accepted option, the program vector is the
untouched rest — whatever it contains (words starting with '-', `--out=…`, empty words). -/
theorem getCmd_split (argv : List Bytes) : ∀ (o o' : Options) (prog : List Bytes),
    getCmd o argv = .ok o' prog →
    ∃ pre, argv = pre ++ prog ∧ pre.all optionShaped = true ∧ (prog = [] ∨ ∃ f r, prog = f :: r ∧ optionShaped f = false) := by
  induction argv with
  | nil =>
    intro o o' prog h
    simp [getCmd] at h
    exact ⟨[], by simp [h.2]⟩
  | cons a rest ih =>
    intro o o' prog h
    unfold getCmd at h
    by_cases ha : optionShaped a = true
    · simp only [ha, if_true] at h
      cases hap : applyOption o a with
      | none => simp [hap] at h
      | some o1 =>
        simp only [hap] at h
        obtain ⟨pre, h1, h2, h3⟩ := ih o1 o' prog h
        exact ⟨a :: pre, by simp [h1], by simp [ha, h2], h3⟩
    · have ha' : optionShaped a = false := by simpa using ha
      simp only [ha'] at h
      simp at h
      exact ⟨[], by simp [h.2], by simp, Or.inr ⟨a, rest, h.2.symm, ha'⟩⟩

/-- **arg_table_faithful.** In program mode the command line is `options ++ file :: args` with
`file` the first non-option word, and the program runs in a context whose only variable is `$ARG` =
the table of strings `args`, in order (the Spec's table), for EVERY argv. -/
theorem arg_table_faithful (env : Env) (argv : List Bytes) (o : Options) (file : Bytes) (args : List Bytes)
    (h : modeOf argv = .program o file args) :
    (∃ pre, argv = pre ++ file :: args ∧ pre.all optionShaped = true ∧ optionShaped file = false) ∧
    (initState args).vars = [("$ARG", Spec.Cli.argTable args)] ∧
    (∀ text, library env text args = match env.compile text with
        | .perr pos w => .compileError pos w
        | .ok prog => .ran (runProgram env.fuel prog (initState args))) := by
  refine ⟨?_, rfl, fun _ => rfl⟩
  unfold modeOf at h
  cases hg : getCmd {} argv with
  | bad a => simp [hg] at h
  | ok o1 prog =>
    simp only [hg] at h
    cases prog with
    | nil => simp at h
    | cons f r =>
      simp only at h
      by_cases hc : o1.docli = true
      · simp [hc] at h
      · by_cases he : o1.doexp = true
        · simp [hc, he] at h
        · simp [hc, he] at h
          obtain ⟨pre, h1, h2, h3⟩ := getCmd_split argv {} o1 (f :: r) hg
          obtain ⟨_, hf, hr⟩ := h
          subst hf; subst hr
          refine ⟨pre, h1, h2, ?_⟩
          rcases h3 with h3 | ⟨f', r', e, hf'⟩
          · cases h3
          · cases e; exact hf'

example : modeOf [str "--out=o", str "p.bloc", str "-x", str "", str "a b"] =
    .program { fileSout := str "o" } (str "p.bloc") [str "-x", str "", str "a b"] := by decide

/-- In interactive mode EVERY word after the options is an argument, the "program" word included. -/
example : modeOf [str "-i", str "p.bloc", str "a"] = .interactive { docli := true } [str "p.bloc", str "a"] := by decide

/-- Options are recognised by prefix: `-info` is `-i`, `--output=x` is `--out` without a value. -/
example : getCmd {} [str "-info", str "--output=x", str "-"] = .ok { docli := true } [str "-"] := by decide
example : getCmd {} [str "--out=a", str "--out=b", str "-q", str "f"] = .bad (str "-q") := by decide

/-! ### `getCmd` in full: the latch, and what comes after the program word -/

/-- The if-chain of `getCmd` folded over a list of option words; `.error a` = the first word no test accepts. -/
def applyOptions : Options → List Bytes → Except Bytes Options
  | o, [] => .ok o
  | o, a :: rest =>
    match applyOption o a with
    | some o' => applyOptions o' rest
    | none => .error a

/-- The C test `**it != '-' || strlen(*it) == 1` (negated) is the Spec's notion of an option word. -/
theorem optionShaped_eq_spec (w : Bytes) : optionShaped w = Spec.Cli.isOptionWord w := by
  cases w with
  | nil => rfl
  | cons c t =>
    cases t with
    | nil =>
      by_cases hc : c = 45
      · subst hc; rfl
      · simp [optionShaped, Spec.Cli.isOptionWord, hc]
    | cons d t' =>
      by_cases hc : c = 45
      · subst hc; simp [optionShaped, Spec.Cli.isOptionWord]
      · simp [optionShaped, Spec.Cli.isOptionWord]

/-- **getCmd, completely.** For EVERY argv and starting options: the options are the if-chain folded over
the longest prefix of option words and nothing else; the program vector is the rest of argv, untouched
(the `cmd` latch: once the program word — a file name, the empty word, or `-` — has been seen, no later
word is looked at, whatever it looks like); an unknown option among the option words is the only failure. -/
theorem getCmd_eq (argv : List Bytes) : ∀ o : Options,
    getCmd o argv = match applyOptions o (Spec.Cli.optionWords argv) with
      | .error a => .bad a
      | .ok o' => .ok o' (Spec.Cli.programWords argv) := by
  induction argv with
  | nil => intro o; rfl
  | cons a rest ih =>
    intro o
    unfold getCmd Spec.Cli.optionWords Spec.Cli.programWords
    rw [optionShaped_eq_spec]
    by_cases ha : Spec.Cli.isOptionWord a = true
    · simp only [ha, if_true, List.takeWhile_cons, List.dropWhile_cons]
      simp only [applyOptions]
      cases hap : applyOption o a with
      | none => rfl
      | some o1 => exact ih o1
    · have ha' : Spec.Cli.isOptionWord a = false := by simpa using ha
      simp [ha', applyOptions]

theorem optionWords_append (pre : List Bytes) (p : Bytes) (tail : List Bytes)
    (hpre : pre.all Spec.Cli.isOptionWord = true) (hp : Spec.Cli.isOptionWord p = false) :
    Spec.Cli.optionWords (pre ++ p :: tail) = pre ∧ Spec.Cli.programWords (pre ++ p :: tail) = p :: tail := by
  induction pre with
  | nil => simp [Spec.Cli.optionWords, Spec.Cli.programWords, hp]
  | cons a r ih =>
    simp only [List.all_cons, Bool.and_eq_true] at hpre
    have := ih hpre.2
    simp only [Spec.Cli.optionWords, Spec.Cli.programWords] at this ⊢
    simp [hpre.1, this.1, this.2]

/-- **args_after_program_are_ARG.** Write the command line as `pre ++ p :: tail` with `pre` option words
and `p` not one (a file name, `""`, or `-`). Then, for every `tail` — words starting with a dash, `--out=…`,
`-i`, `-e`, `-h`, `--`, numbers like `-1` `-2.5`, empty words — :
(1) `getCmd` returns the options computed from `pre` ALONE and the program vector `p :: tail` verbatim;
(2) in program mode (`-i`, `-e` not among `pre`) the process is `runProgramMode` with those options, the
    program `p`, and `$ARG` = the Spec's table of `tail`, in order;
(3) with `-i` among `pre` every word `p :: tail` is an argument; with `-e` (no `-i`) they are the expression;
(4) an unknown option is reported only when it stands in `pre`. -/
theorem args_after_program_are_ARG (env : Env) (pre : List Bytes) (p : Bytes) (tail : List Bytes) (stdin : Bytes)
    (hpre : pre.all Spec.Cli.isOptionWord = true) (hp : Spec.Cli.isOptionWord p = false) :
    (∀ o, getCmd o (pre ++ p :: tail) = match applyOptions o pre with
      | .error a => .bad a
      | .ok o' => .ok o' (p :: tail)) ∧
    (∀ o, applyOptions {} pre = .ok o → o.docli = false → o.doexp = false →
      modeOf (pre ++ p :: tail) = .program o p tail ∧
      run env (pre ++ p :: tail) stdin = runProgramMode env o p tail stdin ∧
      (initState tail).vars = [("$ARG", Spec.Cli.argTable tail)]) ∧
    (∀ o, applyOptions {} pre = .ok o → o.docli = true → modeOf (pre ++ p :: tail) = .interactive o (p :: tail)) ∧
    (∀ o, applyOptions {} pre = .ok o → o.docli = false → o.doexp = true → modeOf (pre ++ p :: tail) = .expr o (p :: tail)) ∧
    (∀ a, applyOptions {} pre = .error a → modeOf (pre ++ p :: tail) = .badOption a) := by
  have hw := optionWords_append pre p tail hpre hp
  have hg : ∀ o, getCmd o (pre ++ p :: tail) = match applyOptions o pre with
      | .error a => .bad a
      | .ok o' => .ok o' (p :: tail) := by
    intro o; rw [getCmd_eq, hw.1, hw.2]
  refine ⟨hg, ?_, ?_, ?_, ?_⟩
  · intro o ho hi he
    have hm : modeOf (pre ++ p :: tail) = .program o p tail := by
      unfold modeOf; rw [hg, ho]; simp [hi, he]
    exact ⟨hm, by unfold run; rw [hm], rfl⟩
  · intro o ho hi
    unfold modeOf; rw [hg, ho]; simp [hi]
  · intro o ho hi he
    unfold modeOf; rw [hg, ho]; simp [hi, he]
  · intro a ha
    unfold modeOf; rw [hg, ha]

/-- `bloc - -v tail`, `bloc file --out=x`, `bloc - -1 -2.5`, `bloc --out=o - -n 3`, an empty program word. -/
example : modeOf [str "-", str "-v", str "tail"] = .program {} (str "-") [str "-v", str "tail"] := by decide
example : modeOf [str "file", str "--out=x"] = .program {} (str "file") [str "--out=x"] := by decide
example : modeOf [str "-", str "-1", str "-2.5"] = .program {} (str "-") [str "-1", str "-2.5"] := by decide
example : modeOf [str "--out=o", str "-", str "-n", str "3"] = .program { fileSout := str "o" } (str "-") [str "-n", str "3"] := by decide
example : modeOf [str "", str "-i", str "--"] = .program {} [] [str "-i", str "--"] := by decide
/-- `--`, `-v`, `-d` are unknown options (there is no end-of-options word); `--out o` takes `o` as the program. -/
example : modeOf [str "--", str "f"] = .badOption (str "--") ∧ modeOf [str "-v", str "f"] = .badOption (str "-v") ∧
    modeOf [str "--out", str "o", str "f"] = .program {} (str "o") [str "f"] := by decide
example : [str "--color", str "--out=o"].all Spec.Cli.isOptionWord = true ∧ Spec.Cli.isOptionWord (str "-") = false ∧
    applyOptions {} [str "--color", str "--out=o"] = .ok { color := true, fileSout := str "o" } := ⟨by decide, by decide, by rfl⟩

/-! ### where the output goes -/

theorem hasPrefix_iff (p : Bytes) : ∀ s : Bytes, hasPrefix s p = true ↔ ∃ r, s = p ++ r := by
  induction p with
  | nil => intro s; cases s <;> simp [hasPrefix]
  | cons o opt ih =>
    intro s
    cases s with
    | nil => simp [hasPrefix]
    | cons c t =>
      simp only [hasPrefix, Bool.and_eq_true, beq_iff_eq, ih t, List.cons_append, List.cons.injEq]
      constructor
      · rintro ⟨h1, r, h2⟩; exact ⟨r, h1, h2⟩
      · rintro ⟨r, h1, h2⟩; exact ⟨h1, r, h2⟩

theorem cmdOption_fst (s opt old : Bytes) : (cmdOption s opt old).1 = hasPrefix s opt := by
  unfold cmdOption
  split
  · split <;> simp_all
  · simp_all

/-- One option word: `file_sout` becomes the value of a `--out=V` word and is left alone by every other word. -/
theorem applyOption_fileSout (o o' : Options) (a : Bytes) (h : applyOption o a = some o') :
    o'.fileSout = match Spec.Cli.outValue a with
      | some v => v
      | none => o.fileSout := by
  unfold applyOption at h
  simp only [cmdOption_fst] at h
  have hno : ∀ (pfx r : Bytes), a = pfx ++ r → (∀ r', Spec.Cli.outValue (pfx ++ r') = none) → Spec.Cli.outValue a = none := by
    intro pfx r e hh; rw [e]; exact hh r
  split at h
  · rename_i h1
    obtain ⟨r, hr⟩ := (hasPrefix_iff _ _).1 h1
    have : Spec.Cli.outValue a = none := hno _ r hr (by intro r'; simp [str, Spec.Cli.outValue])
    cases h; simp [this]
  · split at h
    · rename_i _ h1
      obtain ⟨r, hr⟩ := (hasPrefix_iff _ _).1 h1
      have : Spec.Cli.outValue a = none := hno _ r hr (by intro r'; simp [str, Spec.Cli.outValue])
      cases h; simp [this]
    · split at h
      · rename_i _ _ h1
        have : Spec.Cli.outValue a = none := by
          rcases Bool.or_eq_true _ _ ▸ h1 with h1 | h1
          · obtain ⟨r, hr⟩ := (hasPrefix_iff _ _).1 h1
            exact hno _ r hr (by intro r'; simp [str, Spec.Cli.outValue])
          · obtain ⟨r, hr⟩ := (hasPrefix_iff _ _).1 h1
            exact hno _ r hr (by intro r'; simp [str, Spec.Cli.outValue])
        cases h; simp [this]
      · split at h
        · rename_i _ _ _ h1
          obtain ⟨r, hr⟩ := (hasPrefix_iff _ _).1 h1
          have : Spec.Cli.outValue a = none := hno _ r hr (by intro r'; simp [str, Spec.Cli.outValue])
          cases h; simp [this]
        · split at h
          · rename_i _ _ _ _ h1
            have : Spec.Cli.outValue a = none := by
              rcases Bool.or_eq_true _ _ ▸ h1 with h1 | h1
              · obtain ⟨r, hr⟩ := (hasPrefix_iff _ _).1 h1
                exact hno _ r hr (by intro r'; simp [str, Spec.Cli.outValue])
              · obtain ⟨r, hr⟩ := (hasPrefix_iff _ _).1 h1
                exact hno _ r hr (by intro r'; simp [str, Spec.Cli.outValue])
            cases h; simp [this]
          · split at h
            · rename_i _ _ _ _ _ h1
              obtain ⟨r, hr⟩ := (hasPrefix_iff _ _).1 h1
              cases h
              subst hr
              cases r with
              | nil => simp [cmdOption, hasPrefix, str, Spec.Cli.outValue]
              | cons c r' =>
                by_cases hc : c = 61
                · subst hc; simp [cmdOption, hasPrefix, str, Spec.Cli.outValue]
                · simp [cmdOption, hasPrefix, str, Spec.Cli.outValue, hc]
            · cases h

/-- `finish` after a library run, per selection: where the printed text is. -/
theorem stdout_eq_library_output_aux (env : Env) (r : RunResult) :
    ((finish env .stdout (.ran r)).stdout = (match r.outcome with
        | .ok (some v) => r.st.output ++ outputVal v
        | _ => r.st.output) ∧ (finish env .stdout (.ran r)).outFile = none) ∧
    (∀ path, (finish env (.file path) (.ran r)).stdout = [] ∧ (finish env (.file path) (.ran r)).outFile = some (path, (match r.outcome with
        | .ok (some v) => r.st.output ++ outputVal v
        | _ => r.st.output))) := by
  obtain ⟨oc, rst⟩ := r
  unfold finish
  cases oc with
  | ok v => cases v <;> simp [deliver]
  | err c a => by_cases hc : (c == oofCode) = true <;> simp [hc, deliver]
  | haz h => simp [deliver]
  | unmodelled => simp [deliver]

theorem getLast?_cons_some {α} (a : α) (l : List α) (x : α) (h : l.getLast? = some x) : (a :: l).getLast? = some x := by
  cases l with
  | nil => simp at h
  | cons b t => simpa [List.getLast?_cons_cons] using h

/-- After all option words: `file_sout` is the value of the LAST `--out=V` word, or what it was before. -/
theorem applyOptions_fileSout : ∀ (pre : List Bytes) (o o' : Options), applyOptions o pre = .ok o' →
    o'.fileSout = match (pre.filterMap Spec.Cli.outValue).getLast? with
      | some p => p
      | none => o.fileSout := by
  intro pre
  induction pre with
  | nil => intro o o' h; simp [applyOptions] at h; simp [h]
  | cons a rest ih =>
    intro o o' h
    unfold applyOptions at h
    cases hap : applyOption o a with
    | none => simp [hap] at h
    | some o1 =>
      simp only [hap] at h
      have h1 := applyOption_fileSout o o1 a hap
      have h2 := ih o1 o' h
      rw [h2]
      cases hv : Spec.Cli.outValue a with
      | none => simp only [List.filterMap_cons, hv]; rw [hv] at h1; simp only at h1; rw [h1]
      | some v =>
        rw [hv] at h1; simp only at h1
        simp only [List.filterMap_cons, hv]
        cases hl : (rest.filterMap Spec.Cli.outValue).getLast? with
        | none =>
          have : rest.filterMap Spec.Cli.outValue = [] := by simpa using hl
          simp [this, h1]
        | some x => rw [getLast?_cons_some v _ x hl]

/-- **out_routing.** For every command line `pre ++ p :: tail` in program mode: the output is selected by the
option words `pre` ALONE — the standard output when no `--out=V` with a non-empty `V` is the last one, else the
file `V` of the last `--out=` (a `--out=…` AFTER the program word selects nothing: it is an argument). When the
program text is available and the file opens, whatever the library run `r` printed, followed by the rendering of
the returned value, is on the selected output and nowhere else: with a file selected the standard output is empty
and the file holds it; with the standard output selected no file is made. -/
theorem out_routing (env : Env) (pre : List Bytes) (p : Bytes) (tail : List Bytes) (stdin : Bytes) (o : Options)
    (hpre : pre.all Spec.Cli.isOptionWord = true) (hp : Spec.Cli.isOptionWord p = false)
    (ho : applyOptions {} pre = .ok o) (hi : o.docli = false) (he : o.doexp = false) :
    selOf o = (if (Spec.Cli.outPath pre).isEmpty then .stdout else .file (Spec.Cli.outPath pre)) ∧
    (∀ text r, (if p == [45] then some stdin else env.readFile p) = some text →
      ((Spec.Cli.outPath pre).isEmpty = true ∨ env.canWrite (Spec.Cli.outPath pre) = true) →
      library env (readText text) tail = .ran r →
      let P := run env (pre ++ p :: tail) stdin
      let printed := match r.outcome with
        | .ok (some v) => r.st.output ++ outputVal v
        | _ => r.st.output
      ((Spec.Cli.outPath pre).isEmpty = true → P.stdout = printed ∧ P.outFile = none) ∧
      ((Spec.Cli.outPath pre).isEmpty = false → P.stdout = [] ∧ P.outFile = some (Spec.Cli.outPath pre, printed))) := by
  have hfs : o.fileSout = Spec.Cli.outPath pre := by
    have := applyOptions_fileSout pre {} o ho
    rw [this]; unfold Spec.Cli.outPath; cases (pre.filterMap Spec.Cli.outValue).getLast? <;> rfl
  have hsel : selOf o = (if (Spec.Cli.outPath pre).isEmpty then .stdout else .file (Spec.Cli.outPath pre)) := by
    unfold selOf; rw [hfs]
  refine ⟨hsel, ?_⟩
  intro text r hsrc hw hlib
  have hrun := ((args_after_program_are_ARG env pre p tail stdin hpre hp).2.1 o ho hi he).2.1
  simp only [hrun]
  unfold runProgramMode
  rw [hsel, hfs, hsrc]
  simp only [hlib]
  have hsl := stdout_eq_library_output_aux env r
  by_cases hE : (Spec.Cli.outPath pre).isEmpty = true
  · simp only [hE, if_true]
    simp only [Bool.false_eq_true, if_false]
    exact ⟨fun _ => hsl.1, fun h => by simp at h⟩
  · have hE' : (Spec.Cli.outPath pre).isEmpty = false := by simpa using hE
    have hcw : env.canWrite (Spec.Cli.outPath pre) = true := by
      rcases hw with hw | hw
      · exact absurd hw hE
      · exact hw
    simp only [hE', Bool.false_eq_true, if_false, hcw, Bool.not_true]
    exact ⟨fun h => by simp at h, fun _ => hsl.2 _⟩

/-- `bloc --out=a --out=b p x`: the file is `b`; `bloc --out=a --out= p`: the standard output again;
`bloc p --out=x`: the standard output, `--out=x` is `$ARG[0]`. -/
example : Spec.Cli.outPath [str "--out=a", str "--color", str "--out=b"] = str "b" ∧ Spec.Cli.outPath [str "--out=a", str "--out="] = [] ∧
    Spec.Cli.outPath [str "--output=x", str "--out"] = [] ∧
    modeOf [str "p", str "--out=x"] = .program {} (str "p") [str "--out=x"] := by decide

/-! ### the reader (`ReadFile::read`) -/

theorem dropCr_cons (c : UInt8) (t : Bytes) : dropCr (c :: t) = if c == 13 then dropCr t else c :: dropCr t := by
  unfold dropCr
  by_cases h : c = 13 <;> simp [h]

/-- One call neither loses nor duplicates a byte: what was in the buffer plus the stream without its CRs is
what is returned plus the remaining stream without its CRs. -/
theorem readCall_conserves (max : Nat) : ∀ (stream acc : Bytes),
    acc.reverse ++ dropCr stream = (readCall max acc stream).1 ++ dropCr (readCall max acc stream).2 := by
  intro stream
  induction stream with
  | nil => intro acc; simp [readCall, dropCr]
  | cons c t ih =>
    intro acc
    unfold readCall
    by_cases hlt : acc.length < max
    · simp only [hlt, if_true]
      by_cases hc : c = 13
      · subst hc; simp only [beq_self_eq_true, if_true]; rw [← ih acc]; simp [dropCr_cons]
      · have hc' : (c == 13) = false := by simpa using hc
        simp only [hc', Bool.false_eq_true, if_false]
        by_cases hn : c = 10
        · subst hn; simp [dropCr_cons]
        · have hn' : (c != 10) = true := by simpa using hn
          simp only [hn', if_true]
          rw [← ih (c :: acc)]
          simp [dropCr_cons, hc']
    · simp [hlt]

/-- A call never returns more than `max` bytes (the buffer is never overrun). -/
theorem readCall_bounded (max : Nat) : ∀ (stream acc : Bytes), acc.length ≤ max → (readCall max acc stream).1.length ≤ max := by
  intro stream
  induction stream with
  | nil => intro acc h; simpa [readCall] using h
  | cons c t ih =>
    intro acc h
    unfold readCall
    by_cases hlt : acc.length < max
    · simp only [hlt, if_true]
      split
      · exact ih acc h
      · split
        · exact ih (c :: acc) (by simp only [List.length_cons]; omega)
        · simp only [List.length_reverse, List.length_cons]; omega
    · simpa [hlt] using h

/-- The stream only shrinks, by at least the number of bytes delivered. -/
theorem readCall_consumes (max : Nat) : ∀ (stream acc : Bytes),
    (readCall max acc stream).1.length + (readCall max acc stream).2.length ≤ acc.length + stream.length := by
  intro stream
  induction stream with
  | nil => intro acc; simp [readCall]
  | cons c t ih =>
    intro acc
    unfold readCall
    by_cases hlt : acc.length < max
    · simp only [hlt, if_true]
      split
      · have := ih acc; simp only [List.length_cons]; omega
      · split
        · have := ih (c :: acc); simp only [List.length_cons] at this ⊢; omega
        · simp only [List.length_reverse, List.length_cons]; omega
    · simp [hlt]

/-- With room for at least one byte, a call returns nothing only at the end of the file (only CRs were left). -/
theorem readCall_empty (max : Nat) (hmax : 1 ≤ max) : ∀ (stream acc : Bytes),
    (readCall max acc stream).1 = [] → acc = [] ∧ dropCr stream = [] := by
  intro stream
  induction stream with
  | nil => intro acc h; simpa [readCall, dropCr] using h
  | cons c t ih =>
    intro acc h
    unfold readCall at h
    by_cases hlt : acc.length < max
    · simp only [hlt, if_true] at h
      by_cases hc : c = 13
      · subst hc
        simp only [beq_self_eq_true, if_true] at h
        have := ih acc h
        exact ⟨this.1, by simpa [dropCr_cons] using this.2⟩
      · have hc' : (c == 13) = false := by simpa using hc
        simp only [hc', Bool.false_eq_true, if_false] at h
        split at h
        · exact absurd (ih (c :: acc) h).1 (by simp)
        · simp at h
    · simp only [hlt, if_false] at h
      have : acc = [] := by simpa using h
      subst this
      simp at hlt
      omega

theorem readChunksF_flatten (max : Nat) (hmax : 1 ≤ max) : ∀ (fuel : Nat) (stream : Bytes), stream.length < fuel →
    (readChunksF max fuel stream).flatten = dropCr stream := by
  intro fuel
  induction fuel with
  | zero => intro stream h; omega
  | succ k ih =>
    intro stream h
    unfold readChunksF
    have hc := readCall_conserves max stream []
    have hl := readCall_consumes max stream []
    simp only [List.reverse_nil, List.nil_append, List.length_nil, Nat.zero_add] at hc hl
    by_cases he : (readCall max [] stream).1 = []
    · have := readCall_empty max hmax stream [] he
      simp [he, this.2]
    · have hne : (readCall max [] stream).1.isEmpty = false := by simpa using he
      simp only [hne, Bool.false_eq_true, if_false, List.flatten_cons]
      have hpos : 0 < (readCall max [] stream).1.length := List.length_pos_iff.2 he
      rw [ih _ (by omega), ← hc]

/-- **reader_delivers_every_byte.** For every file content and every buffer size `max ≥ 1`, the concatenation
of the chunks the reader returns (call after call, until it returns 0) is the file minus its CR bytes: no
byte is dropped or duplicated at a buffer-full boundary, at a newline, at a CR, or at the end of the file;
every chunk is non-empty and fits the buffer. -/
theorem reader_delivers_every_byte (max : Nat) (hmax : 1 ≤ max) (file : Bytes) :
    (readChunks max file).flatten = Spec.Cli.withoutCr file ∧
    (∀ c ∈ readChunks max file, c ≠ [] ∧ c.length ≤ max) := by
  refine ⟨readChunksF_flatten max hmax _ file (by omega), ?_⟩
  unfold readChunks
  generalize file.length + 1 = fuel
  induction fuel generalizing file with
  | zero => intro c hc; simp [readChunksF] at hc
  | succ k ih =>
    intro c hc
    unfold readChunksF at hc
    by_cases he : (readCall max [] file).1 = []
    · simp [he] at hc
    · have hne : (readCall max [] file).1.isEmpty = false := by simpa using he
      simp only [hne, Bool.false_eq_true, if_false, List.mem_cons] at hc
      rcases hc with hc | hc
      · subst hc; exact ⟨he, readCall_bounded max file [] (by simp)⟩
      · exact ih _ c hc

/-- What `main` hands to the parser (1023 bytes asked per call) is the file minus CRs. -/
theorem readText_eq_dropCr (file : Bytes) : readText file = dropCr file :=
  (reader_delivers_every_byte Lex.chunkMax (by decide) file).1

/-- Boundary cases at a small buffer: a line of exactly `max`, `max+1`, `2·max` bytes, CRs at the boundary, no final newline. -/
example : readChunks 4 (str "abcd\nefghi\r\njklmnopq\rr") = [str "abcd", str "\n", str "efgh", str "i\n", str "jklm", str "nopq", str "r"] := by decide
example : (readChunks 4 (str "abcd\nefghi\r\njklmnopq\rr")).flatten = str "abcd\nefghi\njklmnopqr" := by decide
example : readChunks 3 (str "\r\r") = [] ∧ readChunks 1 (str "a\rb") = [str "a", str "b"] := by decide

/-- The reader that fetches the byte BEFORE testing the capacity (seeded mutation C19-m3: `while (fread(&c…) == 1
&& read < max_size)`) — the property above is false for it: the byte at each buffer-full boundary is lost. -/
def readCallEager (max : Nat) : Bytes → Bytes → Bytes × Bytes
  | acc, [] => (acc.reverse, [])
  | acc, c :: t =>
    if acc.length < max then
      if c == 13 then readCallEager max acc t
      else if c != 10 then readCallEager max (c :: acc) t
      else ((c :: acc).reverse, t)
    else (acc.reverse, t)                                      -- the byte `c` has been consumed and is dropped

theorem eager_reader_drops_a_byte :
    let r1 := readCallEager 4 [] (str "abcdefg")
    let r2 := readCallEager 4 [] r1.2
    r1.1 ++ r2.1 = str "abcdfg" ∧ dropCr (str "abcdefg") = str "abcdefg" := by decide


/-! ### exit status -/

def succeeded : LibOutcome → Bool
  | .ran r => match r.outcome with
    | .ok _ => true
    | _ => false
  | _ => false

theorem deliver_exit (sel : Sel) (out err : Bytes) (ex : Exit) : (deliver sel out err ex).exit = ex := by
  cases sel <;> rfl

/-- **exit_zero_iff_success.** For every outcome of the library and every output selection: exit
status 0 ⇔ the program compiled and ran without an unhandled error. (Nothing else enters: a
returned value that `output()` cannot print still gives 0.) -/
theorem exit_zero_iff_success (env : Env) (sel : Sel) (lo : LibOutcome) :
    (finish env sel lo).exit = .code 0 ↔ succeeded lo = true := by
  cases lo with
  | compileError pos w =>
    cases pos with
    | none => simp [finish, deliver_exit, succeeded]
    | some p => obtain ⟨l, c⟩ := p; simp [finish, deliver_exit, succeeded]
  | ran r =>
    obtain ⟨oc, rst⟩ := r
    unfold finish succeeded
    cases oc with
    | ok v => cases v <;> simp [deliver_exit]
    | err c a =>
      by_cases hc : (c == oofCode) = true
      · simp [hc, deliver_exit]
      · simp [hc, deliver_exit]
    | haz h => simp [deliver_exit]
    | unmodelled => simp [deliver_exit]

/-- The exit status is the Spec's, whenever the process ends by itself (no hazard, not cut off). -/
theorem exit_status_spec (env : Env) (sel : Sel) (lo : LibOutcome) (n : Nat)
    (h : (finish env sel lo).exit = .code n) :
    n = Spec.Cli.exitStatus (match lo with | .ran _ => true | _ => false) (succeeded lo) := by
  cases lo with
  | compileError pos w =>
    cases pos with
    | none => simp [finish, deliver_exit] at h; simp [Spec.Cli.exitStatus, h]
    | some p => obtain ⟨l, c⟩ := p; simp [finish, deliver_exit] at h; simp [Spec.Cli.exitStatus, h]
  | ran r =>
    obtain ⟨oc, rst⟩ := r
    unfold finish at h
    unfold succeeded Spec.Cli.exitStatus
    cases oc with
    | ok v => cases v <;> simp [deliver_exit] at h <;> simp [h]
    | err c a =>
      by_cases hc : (c == oofCode) = true
      · simp [hc, deliver_exit] at h
      · simp [hc, deliver_exit] at h; simp [h]
    | haz hh => simp [deliver_exit] at h
    | unmodelled => simp [deliver_exit] at h

/-- The same at the level of `main`, for every argv in program mode: status 0 ⇔ the output file (if
any) opens, the program text is available, it compiles, and the run ends without error. -/
theorem exit_zero_iff_success_main (env : Env) (argv : List Bytes) (stdin : Bytes) (o : Options) (file : Bytes) (args : List Bytes)
    (h : modeOf argv = .program o file args) :
    (run env argv stdin).exit = .code 0 ↔
      ((o.fileSout.isEmpty = true ∨ env.canWrite o.fileSout = true) ∧
       ∃ text, (if file == [45] then some stdin else env.readFile file) = some text ∧
         succeeded (library env (dropCr text) args) = true) := by
  unfold run
  simp only [h]
  unfold runProgramMode selOf
  simp only [readText_eq_dropCr]
  by_cases he : o.fileSout.isEmpty = true
  · cases hs : (if file == [45] then some stdin else env.readFile file) with
    | none => simp [he]
    | some text => simp [he, exit_zero_iff_success]
  · have he' : o.fileSout.isEmpty = false := by simpa using he
    by_cases hw : env.canWrite o.fileSout = true
    · cases hs : (if file == [45] then some stdin else env.readFile file) with
      | none => simp [he', hw]
      | some text => simp [he', hw, exit_zero_iff_success]
    · have hw' : env.canWrite o.fileSout = false := by simpa using hw
      simp [he', hw']

def demoEnv : Env :=
  { compile := (fun _ => .ok []), parseExpr := (fun _ => .perr []), parseInteractive := (fun _ => []), readFile := (fun _ => none),
    canWrite := (fun _ => true), what := (fun _ _ => []) }

example : (finish demoEnv .stdout (.ran (runProgram 10 [.returnS (some (.lit (.int 5)))] {}))).exit = .code 0 ∧
    (finish demoEnv .stdout (.ran (runProgram 10 [.printS [.lit (.int 4)], .returnS (some (.lit (.int 5)))] {}))).stdout = [52, 10, 53] := by
  decide +kernel

/-! ### the selected output -/

/-- What ended up on the selected output: stdout, or the content of the `--out` file. -/
def selected (sel : Sel) (p : Proc) : Option Bytes :=
  match sel with
  | .stdout => some p.stdout
  | .file path => match p.outFile with
    | some (q, c) => if q == path then some c else none
    | none => none

theorem selected_deliver (sel : Sel) (out err : Bytes) (ex : Exit) : selected sel (deliver sel out err ex) = some out := by
  cases sel <;> simp [selected, deliver]

/-- **stdout_eq_library_output.** For every library run and every selection, the selected output
is EXACTLY the library's printed output, followed — when the run returned a value — by `outputVal`
of it; after a runtime error, the output printed before the error, nothing more. With `--out` nothing
of it goes to stdout. -/
theorem stdout_eq_library_output (env : Env) (sel : Sel) (r : RunResult) :
    selected sel (finish env sel (.ran r)) = some (match r.outcome with
      | .ok (some v) => r.st.output ++ outputVal v
      | _ => r.st.output) ∧
    (∀ path, sel = .file path → (finish env sel (.ran r)).stdout = []) := by
  obtain ⟨oc, rst⟩ := r
  constructor
  · unfold finish
    cases oc with
    | ok v => cases v <;> simp [selected_deliver]
    | err c a => by_cases hc : (c == oofCode) = true <;> simp [hc, selected_deliver]
    | haz h => simp [selected_deliver]
    | unmodelled => simp [selected_deliver]
  · intro path hp
    subst hp
    unfold finish
    cases oc with
    | ok v => cases v <;> simp [deliver]
    | err c a => by_cases hc : (c == oofCode) = true <;> simp [hc, deliver]
    | haz h => simp [deliver]
    | unmodelled => simp [deliver]

/-- A compile error leaves the selected output empty (the `--out` file exists, empty). -/
theorem compile_error_output_empty (env : Env) (sel : Sel) (pos : Option (Nat × Nat)) (w : Bytes) :
    selected sel (finish env sel (.compileError pos w)) = some [] := by
  cases pos with
  | none => simp [finish, selected_deliver]
  | some p => obtain ⟨l, c⟩ := p; simp [finish, selected_deliver]

/-- `output()` and the library's `print` render null, boolean, integer, decimal and string values
identically (so `printVal`/`Fmt.fmt16g` are reused soundly). -/
theorem outputVal_eq_print (v : Val) (h : match v with | .null t => t.level = 0 | .bool _ | .int _ | .num _ | .str _ => True | _ => False) :
    printVal v = .ok (outputVal v) := by
  cases v with
  | null t => simp only at h; simp only [printVal, Val.type, h, outputVal]; simp; decide +kernel
  | bool b => cases b <;> decide +kernel
  | int i => simp [printVal, outputVal, Val.type, Ty.int]
  | num d => simp [printVal, outputVal, Val.type, Ty.num]
  | str s => simp [printVal, outputVal, Val.type, Ty.str]
  | _ => simp at h

/-- Values on which the command's rendering is the Spec's ("as `print` would"). -/
def printable : Val → Bool
  | .null t => t.level == 0
  | .bool _ | .int _ | .num _ | .str _ => true
  | _ => false

/-- **stdout_meets_spec_partial.** For a run that succeeded and returned nothing or a printable
value, the selected output is the one the Spec prescribes. -/
theorem stdout_meets_spec_partial (env : Env) (sel : Sel) (r : RunResult) (ret : Option Val)
    (hr : r.outcome = .ok ret) (hp : ∀ v, ret = some v → printable v = true) :
    selected sel (finish env sel (.ran r)) = Spec.Cli.selectedOutput Fmt.fmt16g r.st.output ret := by
  rw [(stdout_eq_library_output env sel r).1, hr]
  cases ret with
  | none => rfl
  | some v =>
    have := hp v rfl
    cases v <;> simp_all [printable, Spec.Cli.selectedOutput, Spec.Cli.returnedText, outputVal, str, Spec.Cli.str]

/-- The full statement is FALSE on the code as it is (known finding
`C19.returned_table_bytes_not_printed`): a returned bytes value, and a returned table, print nothing. -/
theorem returned_bytes_not_printed :
    outputVal (.raw [97, 98, 99]) = [] ∧ Spec.Cli.returnedText Fmt.fmt16g (.raw [97, 98, 99]) ≠ some [] ∧
    outputVal (.tab Ty.str.levelUp [] [.str [97]]) = [] ∧ Spec.Cli.returnedText Fmt.fmt16g (.tab Ty.str.levelUp [] [.str [97]]) ≠ some [] := by
  decide +kernel

example : printable (.str [104, 105]) = true ∧ outputVal (.str [104, 105]) = [104, 105] := by decide

/-! ### standard error -/

/-- **stderr_class.** Success: nothing on stderr. Compile error with a token: one line naming
`line:column` (the Spec's `hasPosition`). Runtime error: one `Error: …` line. -/
theorem stderr_class (env : Env) (sel : Sel) :
    (∀ lo, (finish env sel lo).exit = .code 0 → (finish env sel lo).stderr = []) ∧
    (∀ l c w, (finish env sel (.compileError (some (l, c)) w)).stderr = errLinePos l c w ∧
        Spec.Cli.hasPosition (errLinePos l c w) l c) ∧
    (∀ r c a, r.outcome = .err c a → (c == oofCode) = false →
        (finish env sel (.ran r)).stderr = errLine (env.what c a) ∧ (finish env sel (.ran r)).exit = .code 1) := by
  refine ⟨?_, ?_, ?_⟩
  · intro lo h
    have hs := (exit_zero_iff_success env sel lo).1 h
    cases lo with
    | compileError pos w => simp [succeeded] at hs
    | ran r =>
      obtain ⟨oc, rst⟩ := r
      unfold succeeded at hs
      unfold finish
      cases oc with
      | ok v => cases v <;> cases sel <;> simp [deliver]
      | err c a => simp at hs
      | haz hh => simp at hs
      | unmodelled => simp at hs
  · intro l c w
    constructor
    · cases sel <;> simp [finish, deliver]
    · exact ⟨str "Error (", str "): " ++ w ++ [10], by simp [errLinePos, natStr]⟩
  · intro r c a hr hc
    obtain ⟨oc, rst⟩ := r
    simp only at hr
    subst hr
    unfold finish
    cases sel <;> simp [hc, deliver]

/-! ### expression mode -/

/-- **expr_mode_contract.** `bloc -e w1 … wn` (no `-i`): the text parsed is the words, each
followed by a blank, then `;`; the value of that expression is written on STDOUT as `output()`
renders it (`--out` is not consulted, there is no `$ARG`); status 0 ⇔ it parsed and evaluated
without error; otherwise one `Error: …` line (no position) on stderr and nothing on stdout. -/
theorem expr_mode_contract (env : Env) (argv : List Bytes) (stdin : Bytes) (o : Options) (words : List Bytes)
    (h : modeOf argv = .expr o words) :
    run env argv stdin = runExprMode env words ∧
    (∀ e, env.parseExpr (exprText words) = .ok e → ∀ v s, eval [] 0 env.fuel e {} = (.ok v, s) →
        (run env argv stdin).exit = .code 0 ∧ (run env argv stdin).stdout = outputVal v ∧
        (run env argv stdin).stderr = [] ∧ (run env argv stdin).outFile = none) ∧
    (∀ w, env.parseExpr (exprText words) = .perr w →
        (run env argv stdin).exit = .code 1 ∧ (run env argv stdin).stdout = [] ∧ (run env argv stdin).stderr = errLine w) ∧
    (∀ e, env.parseExpr (exprText words) = .ok e → ∀ c a s, eval [] 0 env.fuel e {} = (.err c a, s) → (c == oofCode) = false →
        (run env argv stdin).exit = .code 1 ∧ (run env argv stdin).stdout = [] ∧ (run env argv stdin).stderr = errLine (env.what c a)) := by
  have hrun : run env argv stdin = runExprMode env words := by unfold run; simp [h]
  refine ⟨hrun, ?_, ?_, ?_⟩
  · intro e he v s hv
    rw [hrun]; unfold runExprMode; simp [he, hv]
  · intro w hw
    rw [hrun]; unfold runExprMode; simp [hw]
  · intro e he c a s hv hc
    rw [hrun]; unfold runExprMode; simp [he, hv, hc]

example : exprText [str "1", str "+", str "2"] = str "1 + 2 ;" := by decide
example : modeOf [str "-e", str "1", str "+", str "2"] = .expr { doexp := true } [str "1", str "+", str "2"] := by decide
/-- `-e` without a word is interactive mode. -/
example : modeOf [str "-e"] = .interactive { doexp := true } [] := by decide

/-! ### interactive mode vs batch -/

def isFunc : Stmt → Bool
  | .funcS .. => true
  | _ => false

/-- All function declarations come first (what the generator produces, and what a program must
look like for the two modes to see the same function table at every call). -/
def declsFirst : List Stmt → Bool
  | [] => true
  | st :: rest => if isFunc st then declsFirst rest else rest.all (fun s => !isFunc s)

def items (prog : List (Stmt × Nat)) : List IItem := prog.map fun p => IItem.stmt p.1 p.2

def allNorm (rs : List StepRes) : Bool := rs.all fun r => match r.res with
  | some (.ok .norm) => true
  | _ => false

theorem collectFuncs_eq_foldl (prog : List Stmt) : collectFuncs prog = prog.foldl declStep [] := rfl

theorem declStep_nonfunc (fs : List Func) (st : Stmt) (h : isFunc st = false) : declStep fs st = fs := by
  cases st <;> simp_all [declStep, isFunc]

theorem foldl_declStep_nonfunc (rest : List Stmt) : ∀ fs, rest.all (fun s => !isFunc s) = true → rest.foldl declStep fs = fs := by
  induction rest with
  | nil => intro fs _; rfl
  | cons a r ih =>
    intro fs h
    simp only [List.all_cons, Bool.and_eq_true] at h
    have ha : isFunc a = false := by simpa using h.1
    simp only [List.foldl_cons, declStep_nonfunc fs a ha]
    exact ih fs h.2

/-- Executing a declaration does not look at the function table. -/
theorem exec_func_table_irrelevant (f1 f2 : List Func) (depth fuel : Nat) (st : Stmt) (s : St) (h : isFunc st = true) :
    exec f1 depth fuel st s = exec f2 depth fuel st s := by
  cases st <;> simp [isFunc] at h
  cases fuel with
  | zero => simp [exec]
  | succ k => simp [exec]

theorem execList_nil (fs : List Func) (d fuel : Nat) (s : St) (h : fuel ≠ 0) : execList fs d fuel [] s = (.ok .norm, s) := by
  cases fuel with
  | zero => exact absurd rfl h
  | succ k => simp [execList, pure]

theorem execList_cons (fs : List Func) (d k : Nat) (st : Stmt) (rest : List Stmt) (s : St) :
    execList fs d (k + 1) (st :: rest) s =
      match exec fs d k st s with
      | (.ok fl, s') => if fl == .norm then execList fs d k rest s' else (.ok fl, s')
      | (.err c a, s') => (.err c a, s')
      | (.haz h, s') => (.haz h, s')
      | (.unmodelled, s') => (.unmodelled, s') := by
  simp only [execList, bind]
  cases h : exec fs d k st s with
  | mk r s' =>
    cases r with
    | ok fl => cases fl <;> simp [pure]
    | err c a => simp
    | haz hh => simp
    | unmodelled => simp

/-- Core of the comparison: from the same state, with the table `F` the batch run uses, the
interactive loop (table grown declaration by declaration) whose every turn ends normally computes
the state `execList` computes. -/
theorem interLoop_eq_execList : ∀ (fuel : Nat) (prog : List (Stmt × Nat)) (fs : List Func) (s : St),
    declsFirst (prog.map (·.1)) = true →
    allNorm (interLoop fuel (items prog) fs s).1 = true → fuel ≠ 0 →
    execList ((prog.map (·.1)).foldl declStep fs) 0 fuel (prog.map (·.1)) s = (.ok .norm, (interLoop fuel (items prog) fs s).2.2) := by
  intro fuel
  induction fuel with
  | zero => intro prog fs s _ _ h; exact absurd rfl h
  | succ k ih =>
    intro prog fs s hd hn _
    cases prog with
    | nil => simp [items, interLoop, execList, pure]
    | cons p rest =>
      obtain ⟨st, n⟩ := p
      simp only [items, List.map_cons, interLoop] at hn ⊢
      -- the table used for this statement is the batch table, or the statement is a declaration
      have htab : exec (declStep fs st) 0 k st s = exec ((rest.map (·.1)).foldl declStep (declStep fs st)) 0 k st s := by
        by_cases hf : isFunc st = true
        · exact exec_func_table_irrelevant _ _ 0 k st s hf
        · have hf' : isFunc st = false := by simpa using hf
          simp only [List.map_cons, declsFirst, hf'] at hd
          simp at hd
          have : (rest.map (·.1)).all (fun s => !isFunc s) = true := by simpa using hd
          rw [foldl_declStep_nonfunc _ _ this]
      have hd' : declsFirst (rest.map (·.1)) = true := by
        simp only [List.map_cons, declsFirst] at hd
        by_cases hf : isFunc st = true
        · simpa [hf] using hd
        · have hf' : isFunc st = false := by simpa using hf
          simp only [hf'] at hd
          simp at hd
          have hall : (rest.map (·.1)).all (fun s => !isFunc s) = true := by simpa using hd
          -- a list without declarations trivially has its declarations first
          clear ih hn htab
          generalize rest.map (·.1) = l at hall ⊢
          cases l with
          | nil => rfl
          | cons a r =>
            simp only [List.all_cons, Bool.and_eq_true] at hall
            have : isFunc a = false := by simpa using hall.1
            simp [declsFirst, this, hall.2]
      rw [List.foldl_cons, execList_cons, ← htab]
      cases hr : exec (declStep fs st) 0 k st s with
      | mk r s' =>
        simp only [hr] at hn ⊢
        cases r with
        | ok fl =>
          cases fl with
          | norm =>
            simp only [stops] at hn ⊢
            simp only [Bool.false_eq_true, if_false] at hn ⊢
            simp only [allNorm, List.all_cons, Bool.true_and] at hn
            cases k with
            | zero => simp [exec, oof, failE] at hr
            | succ k2 =>
              have := ih rest (declStep fs st) s' hd' (by simpa [allNorm, items] using hn) (by omega)
              simpa [items] using this
          | brk => simp [stops, allNorm] at hn
          | cont => simp [stops, allNorm] at hn
          | ret => simp [stops, allNorm] at hn
        | err c a =>
          by_cases hc : (c == oofCode) = true
          · simp [stops, hc, allNorm] at hn
          · simp [stops, hc, allNorm] at hn
        | haz h => simp [stops, allNorm] at hn
        | unmodelled => simp [stops, allNorm] at hn

/-- **interactive_eq_batch_partial.** Feed a program whose function declarations come first to the
interactive loop, statement by statement. If every statement ends normally (no unhandled error, no
top-level `return`), then the batch run of the same program (`Parser::parse` + `Executable::run`)
succeeds without returning a value, and ends in the SAME state: same printed output, same variables. -/
theorem interactive_eq_batch_partial (fuel : Nat) (prog : List (Stmt × Nat)) (args : List Bytes)
    (hd : declsFirst (prog.map (·.1)) = true) (hf : fuel ≠ 0)
    (hn : allNorm (interLoop fuel (items prog) [] (interInit (prog.map (·.1)) args)).1 = true) :
    let batch := runProgram fuel (prog.map (·.1)) (initState args)
    let inter := interLoop fuel (items prog) [] (interInit (prog.map (·.1)) args)
    batch.st = inter.2.2 ∧ batch.st.output = inter.2.2.output ∧ batch.st.vars = inter.2.2.vars ∧
      (∃ v, batch.outcome = .ok v ∧ v = inter.2.2.returned) := by
  have h := interLoop_eq_execList fuel prog [] (interInit (prog.map (·.1)) args) hd hn hf
  rw [← collectFuncs_eq_foldl] at h
  have hb : runProgram fuel (prog.map (·.1)) (initState args) =
      { outcome := .ok (interLoop fuel (items prog) [] (interInit (prog.map (·.1)) args)).2.2.returned,
        st := (interLoop fuel (items prog) [] (interInit (prog.map (·.1)) args)).2.2 } := by
    show (match execList (collectFuncs (prog.map (·.1))) 0 fuel (prog.map (·.1)) (interInit (prog.map (·.1)) args) with
      | (.ok _, s) => ({ outcome := .ok s.returned, st := s } : RunResult)
      | (.err c a, s) => { outcome := .err c a, st := s }
      | (.haz h, s) => { outcome := .haz h, st := s }
      | (.unmodelled, s) => { outcome := .unmodelled, st := s }) = _
    rw [h]
  simp [hb]

/-- The hypotheses are satisfiable: a declaration, a loop, prints. -/
def demo : List (Stmt × Nat) :=
  [(.funcS "F" [] Ty.int [.returnS (some (.lit (.int 7)))] [], 1),
   (.letS "X" (.fcall "F" []), 1),
   (.forS "K" (.lit (.int 1)) (.lit (.int 2)) none .auto [.printS [.var "K", .var "X"]], 3)]

example : declsFirst (demo.map (·.1)) = true ∧
    allNorm (interLoop 50 (items demo) [] (interInit (demo.map (·.1)) [[97]])).1 = true ∧
    (interLoop 50 (items demo) [] (interInit (demo.map (·.1)) [[97]])).2.2.output = [49, 55, 10, 50, 55, 10] := by
  decide +kernel

/-! ### interactive = batch WITHOUT "declarations first": no redefinition, calls resolve where they stand -/

section ScopedSec
open BlocV.Lemmas.CliInterp

/-- Every function of the table has a body whose calls resolve in the table. -/
def closedTab (fs : List Func) : Bool := fs.all fun f => okL (resolves fs) f.body && okC (resolves fs) f.catches

/-- What the parser guarantees of a text it accepts, statement by statement (`fs` = the functions declared so
far): a declaration does not REdefine a signature; the calls of a statement, and of every function callable at
that point, name functions declared up to that point (a function may call itself). Declarations may be
interleaved with other statements in any order. -/
def scopedFrom : List Func → List Stmt → Bool
  | _, [] => true
  | fs, st :: rest =>
    (match st with
     | .funcS n ps _ _ _ => !(resolves fs n ps.length)
     | _ => true) &&
    okS (resolves (declStep fs st)) st && closedTab (declStep fs st) && scopedFrom (declStep fs st) rest

theorem getLast?_cons_ne {α} (a : α) (l : List α) (h : l ≠ []) : (a :: l).getLast? = l.getLast? := by
  cases l with
  | nil => exact absurd rfl h
  | cons b t => simp [List.getLast?_cons_cons]

theorem find_append_some {α} (l m : List α) (p : α → Bool) (h : (l.find? p).isSome = true) : (l ++ m).find? p = l.find? p := by
  rw [List.find?_append]
  cases hl : l.find? p with
  | none => simp [hl] at h
  | some x => rfl

theorem addFunc_new (fs : List Func) (g : Func) (h : resolves fs g.name g.params.length = false) : addFunc fs g = fs ++ [g] := by
  unfold addFunc
  have : fs.any (sameSig g) = false := by
    unfold resolves at h
    have hn : fs.find? (sigP g.name g.params.length) = none := by
      cases hf : fs.find? (sigP g.name g.params.length) with
      | none => rfl
      | some x => simp [hf] at h
    rw [List.find?_eq_none] at hn
    apply Bool.eq_false_iff.2
    intro hany
    obtain ⟨x, hx, hs⟩ := List.any_eq_true.1 hany
    have := hn x hx
    unfold sameSig at hs
    unfold sigP at this
    simp only [Bool.and_eq_true, beq_iff_eq] at hs this
    exact this ⟨hs.1.symm, hs.2.symm⟩
  simp [this]

/-- One declaration step leaves every look-up that succeeded before as it was. -/
theorem declStep_agree (fs : List Func) (st : Stmt)
    (hnew : (match st with | .funcS n ps _ _ _ => !(resolves fs n ps.length) | _ => true) = true)
    (name : String) (n : Nat) (hr : resolves fs name n = true) :
    (declStep fs st).find? (sigP name n) = fs.find? (sigP name n) := by
  cases st with
  | funcS fn ps rt b c =>
    simp only [Bool.not_eq_true'] at hnew
    unfold declStep
    simp only []
    rw [addFunc_new fs _ (by simpa using hnew)]
    exact find_append_some _ _ _ hr
  | _ => rfl

theorem scoped_agree : ∀ (rest : List Stmt) (fs : List Func), scopedFrom fs rest = true →
    ∀ name n, resolves fs name n = true → (rest.foldl declStep fs).find? (sigP name n) = fs.find? (sigP name n) := by
  intro rest
  induction rest with
  | nil => intro fs _ name n _; rfl
  | cons st rest ih =>
    intro fs h name n hr
    simp only [scopedFrom, Bool.and_eq_true] at h
    have h1 := declStep_agree fs st h.1.1.1 name n hr
    have hr1 : resolves (declStep fs st) name n = true := by unfold resolves at hr ⊢; rw [h1]; exact hr
    rw [List.foldl_cons, ih (declStep fs st) h.2 name n hr1, h1]

/-- The table after the declarations read so far is extended, not changed, by the declarations still to come. -/
theorem scoped_ext (fs : List Func) (rest : List Stmt) (hc : closedTab fs = true) (hs : scopedFrom fs rest = true) :
    Ext (resolves fs) fs (rest.foldl declStep fs) := by
  constructor
  · intro name n hr; exact scoped_agree rest fs hs name n hr
  · intro name n f _ hf
    have hm : f ∈ fs := List.mem_of_find?_eq_some hf
    unfold closedTab at hc
    have := List.all_eq_true.1 hc f hm
    simpa using this

/-- All turns but the last end normally; the last ends normally or with a top-level `return`. -/
def flowsOk : List StepRes → Bool
  | [] => true
  | r :: rest =>
    match rest with
    | [] => (match r.res with | some (.ok .norm) => true | some (.ok .ret) => true | _ => false)
    | _ :: _ => (match r.res with | some (.ok .norm) => true | _ => false) && flowsOk rest

theorem interLoop_nonempty (fuel : Nat) (st : Stmt) (n : Nat) (rest : List IItem) (fs : List Func) (s : St) :
    (interLoop fuel (.stmt st n :: rest) fs s).1 ≠ [] := by
  cases fuel with
  | zero => simp [interLoop]
  | succ k =>
    simp only [interLoop]
    split <;> simp

theorem interLoop_nil (fuel : Nat) (fs : List Func) (s : St) : interLoop fuel [] fs s = ([], fs, s) := by
  cases fuel <;> simp [interLoop]

/-- Core of the comparison, without "declarations first": with the table `F` of the whole text (batch), the
interactive loop — table grown declaration by declaration — computes what `execList` computes, provided no
signature is redefined and calls resolve where they stand (`scopedFrom`). A top-level `return` as LAST
statement is allowed: there batch stops with the value saved, the loop echoes the same value and clears it. -/
theorem interLoop_eq_execList_scoped : ∀ (fuel : Nat) (prog : List (Stmt × Nat)) (fs : List Func) (s : St),
    scopedFrom fs (prog.map (·.1)) = true →
    flowsOk (interLoop fuel (items prog) fs s).1 = true → fuel ≠ 0 →
    ∃ fl s', execList ((prog.map (·.1)).foldl declStep fs) 0 fuel (prog.map (·.1)) s = (.ok fl, s') ∧
      ((fl = .norm ∧ (interLoop fuel (items prog) fs s).2.2 = s') ∨
       (fl = .ret ∧ (interLoop fuel (items prog) fs s).2.2 = { s' with returned := none } ∧
        ((interLoop fuel (items prog) fs s).1.getLast?.bind (·.echo)) = s'.returned)) := by
  intro fuel
  induction fuel with
  | zero => intro prog fs s _ _ h; exact absurd rfl h
  | succ k ih =>
    intro prog fs s hd hn _
    cases prog with
    | nil => exact ⟨.norm, s, by simp [execList, pure], Or.inl ⟨rfl, by simp [items, interLoop]⟩⟩
    | cons p rest =>
      obtain ⟨st, n⟩ := p
      simp only [List.map_cons, scopedFrom, Bool.and_eq_true] at hd
      have htab : exec ((rest.map (·.1)).foldl declStep (declStep fs st)) 0 k st s = exec (declStep fs st) 0 k st s :=
        congrFun ((ext_all (scoped_ext (declStep fs st) (rest.map (·.1)) hd.1.2 hd.2) k).2.2.2.2.2.1 0 st hd.1.1.2) s
      simp only [items, List.map_cons, interLoop] at hn ⊢
      rw [List.foldl_cons, execList_cons, htab]
      cases hr : exec (declStep fs st) 0 k st s with
      | mk r s' =>
        simp only [hr] at hn ⊢
        cases r with
        | ok fl =>
          have hstop : stops (Res.ok fl : Res Flow) = false := rfl
          simp only [hstop, Bool.false_eq_true, if_false] at hn ⊢
          cases fl with
          | norm =>
            simp only [Bool.false_eq_true, if_false] at hn ⊢
            cases k with
            | zero => simp [exec, oof, failE] at hr
            | succ k2 =>
              have hn' : flowsOk (interLoop (k2 + 1) (items rest) (declStep fs st) s').1 = true := by
                unfold items
                cases hk : (interLoop (k2 + 1) (List.map (fun p => IItem.stmt p.1 p.2) rest) (declStep fs st) s').1 with
                | nil => rfl
                | cons a b => rw [hk] at hn; simpa [flowsOk] using hn
              obtain ⟨fl2, s2, h1, h2⟩ := ih rest (declStep fs st) s' hd.2 hn' (by omega)
              refine ⟨fl2, s2, by simpa using h1, ?_⟩
              rcases h2 with ⟨e1, e2⟩ | ⟨e1, e2, e3⟩
              · exact Or.inl ⟨e1, by simpa [items] using e2⟩
              · refine Or.inr ⟨e1, by simpa [items] using e2, ?_⟩
                have hne : (interLoop (k2 + 1) (items rest) (declStep fs st) s').1 ≠ [] := by
                  intro hnil; rw [hnil] at e3; subst e1
                  cases rest with
                  | nil => simp [execList, pure] at h1
                  | cons q qs => exact interLoop_nonempty _ _ _ _ _ _ hnil
                simp only [items] at hne e3
                rw [getLast?_cons_ne _ _ hne]
                exact e3
          | ret =>
            cases rest with
            | nil =>
              refine ⟨.ret, s', by simp, Or.inr ⟨rfl, ?_, ?_⟩⟩
              · simp [interLoop_nil]
              · simp [interLoop_nil]
            | cons q qs =>
              exfalso
              have hne := interLoop_nonempty k q.1 q.2 (List.map (fun p => IItem.stmt p.1 p.2) qs) (declStep fs st) { s' with returned := none }
              simp only [List.map_cons] at hn
              cases hk : (interLoop k (IItem.stmt q.1 q.2 :: List.map (fun p => IItem.stmt p.1 p.2) qs) (declStep fs st) { s' with returned := none }).1 with
              | nil => exact hne hk
              | cons a b => simp [hk, flowsOk] at hn
          | brk =>
            exfalso
            cases hk : (interLoop k (List.map (fun p => IItem.stmt p.1 p.2) rest) (declStep fs st) s').1 <;> simp [hk, flowsOk] at hn
          | cont =>
            exfalso
            cases hk : (interLoop k (List.map (fun p => IItem.stmt p.1 p.2) rest) (declStep fs st) s').1 <;> simp [hk, flowsOk] at hn
        | err c a =>
          exfalso
          by_cases hc : (c == oofCode) = true
          · simp [stops, hc, flowsOk] at hn
          · simp only [stops, hc] at hn
            cases hk : (interLoop k (List.map (fun p => IItem.stmt p.1 p.2) rest) (declStep fs st) s').1 <;> simp [hk, flowsOk] at hn
        | haz h => simp [stops, flowsOk] at hn
        | unmodelled => simp [stops, flowsOk] at hn


/-- **interactive_eq_batch_scoped_partial.** Feed a program to the interactive loop statement by statement —
function declarations ANYWHERE among the other statements. If no signature is redefined and every call names a
function declared before it (`scopedFrom`: what the parser enforces on an accepted text), every statement but
the last ends normally, and the last ends normally or is a top-level `return`, then the batch run of the same
program (`Parser::parse` + `Executable::run`) succeeds with the same printed output and the same variables;
and either nothing is returned in both (same state altogether), or batch returns exactly the value the
interactive loop echoes after its last statement (batch renders it with `output()`, the loop with `output_cli()`).
(Still `_partial` w.r.t. the property text: a `return` before the end, a redefinition, an unhandled error are
the recorded witnesses where the two modes differ.) -/
theorem interactive_eq_batch_scoped_partial (fuel : Nat) (prog : List (Stmt × Nat)) (args : List Bytes)
    (hs : scopedFrom [] (prog.map (·.1)) = true) (hf : fuel ≠ 0)
    (hn : flowsOk (interLoop fuel (items prog) [] (interInit (prog.map (·.1)) args)).1 = true) :
    let batch := runProgram fuel (prog.map (·.1)) (initState args)
    let inter := interLoop fuel (items prog) [] (interInit (prog.map (·.1)) args)
    batch.st.output = inter.2.2.output ∧ batch.st.vars = inter.2.2.vars ∧
    ((batch.st = inter.2.2 ∧ batch.outcome = .ok inter.2.2.returned) ∨
     (batch.outcome = .ok (inter.1.getLast?.bind (·.echo)) ∧ inter.2.2.returned = none)) := by
  obtain ⟨fl, s', h, hcase⟩ := interLoop_eq_execList_scoped fuel prog [] (interInit (prog.map (·.1)) args) hs hn hf
  rw [← collectFuncs_eq_foldl] at h
  have hb : runProgram fuel (prog.map (·.1)) (initState args) = { outcome := .ok s'.returned, st := s' } := by
    show (match execList (collectFuncs (prog.map (·.1))) 0 fuel (prog.map (·.1)) (interInit (prog.map (·.1)) args) with
      | (.ok _, s) => ({ outcome := .ok s.returned, st := s } : RunResult)
      | (.err c a, s) => { outcome := .err c a, st := s }
      | (.haz h, s) => { outcome := .haz h, st := s }
      | (.unmodelled, s) => { outcome := .unmodelled, st := s }) = _
    rw [h]
  simp only [hb]
  rcases hcase with ⟨_, e2⟩ | ⟨_, e2, e3⟩
  · rw [e2]; exact ⟨rfl, rfl, Or.inl ⟨rfl, rfl⟩⟩
  · rw [e2, e3]; exact ⟨rfl, rfl, Or.inr ⟨rfl, rfl⟩⟩

/-- Declarations interleaved with statements, a function calling an earlier one, a top-level `return` at the end:
outside `declsFirst`, inside `scopedFrom`; the loop echoes the value batch returns. -/
def demo2 : List (Stmt × Nat) :=
  [(.printS [.lit (.int 1)], 1),
   (.funcS "F" [] Ty.int [.returnS (some (.lit (.int 7)))] [], 1),
   (.printS [.fcall "F" []], 1),
   (.funcS "G" [("N", Ty.int)] Ty.int [.returnS (some (.bin .add (.var "N") (.fcall "F" [])))] [], 1),
   (.letS "X" (.fcall "G" [.lit (.int 1)]), 1),
   (.returnS (some (.var "X")), 1)]

example : declsFirst (demo2.map (·.1)) = false ∧ scopedFrom [] (demo2.map (·.1)) = true ∧
    flowsOk (interLoop 50 (items demo2) [] (interInit (demo2.map (·.1)) [])).1 = true ∧
    (interLoop 50 (items demo2) [] (interInit (demo2.map (·.1)) [])).2.2.output = [49, 10, 55, 10] ∧
    (((interLoop 50 (items demo2) [] (interInit (demo2.map (·.1)) [])).1.getLast?.bind (·.echo)).map outputCli) = some [56, 10] := by
  decide +kernel

/-- The redefinition witness is exactly what `scopedFrom` excludes. -/
example :
    let f (n : Int64) : Stmt := .funcS "F" [] Ty.int [.returnS (some (.lit (.int n)))] []
    scopedFrom [] [f 1, .printS [.fcall "F" []], f 2, .printS [.fcall "F" []]] = false ∧
    scopedFrom [] [f 1, .printS [.fcall "F" []]] = true ∧ scopedFrom [] [.printS [.fcall "F" []], f 1] = false := by
  decide +kernel

end ScopedSec

/-- The full statement is FALSE on the code as it is — three witnesses.
(1) known finding `C19.interactive_continues_after_return`: `return 1; print 2;` — batch prints
nothing and returns 1, the interactive loop echoes 1 and goes on to print 2. -/
theorem interactive_continues_after_return :
    let prog : List (Stmt × Nat) := [(.returnS (some (.lit (.int 1))), 1), (.printS [.lit (.int 2)], 1)]
    (runProgram 50 (prog.map (·.1)) (initState [])).st.output = [] ∧
    (interLoop 50 (items prog) [] (interInit (prog.map (·.1)) [])).2.2.output = [50, 10] := by
  decide +kernel

/-- (2) known finding `C19.interactive_function_redefinition`: a function declared twice — batch
calls the last definition everywhere (prints 2 2), interactive mode the one current at each call (1 2). -/
theorem interactive_function_redefinition :
    let f (n : Int64) : Stmt := .funcS "F" [] Ty.int [.returnS (some (.lit (.int n)))] []
    let prog : List (Stmt × Nat) := [(f 1, 1), (.printS [.fcall "F" []], 1), (f 2, 1), (.printS [.fcall "F" []], 1)]
    declsFirst (prog.map (·.1)) = false ∧
    (runProgram 50 (prog.map (·.1)) (initState [])).st.output = [50, 10, 50, 10] ∧
    (interLoop 50 (items prog) [] (interInit (prog.map (·.1)) [])).2.2.output = [49, 10, 50, 10] := by
  decide +kernel

/-- (3) by design of the loop (not a finding): after an unhandled error the batch run stops with
status 1, the interactive loop reports it and executes the next statement. -/
theorem interactive_continues_after_error :
    let prog : List (Stmt × Nat) := [(.raiseS "E1", 1), (.printS [.lit (.int 2)], 1)]
    (runProgram 50 (prog.map (·.1)) (initState [])).st.output = [] ∧
    (interLoop 50 (items prog) [] (interInit (prog.map (·.1)) [])).2.2.output = [50, 10] ∧
    (lastExit (interLoop 50 (items prog) [] (interInit (prog.map (·.1)) [])).1) = .code 0 := by
  decide +kernel

/-- Interactive mode: the exit status is 0 unless the process itself dies; a returned value is
echoed by `output_cli`, which is NOT `output()`: newline added, strings cut to 79 bytes, tables and
bytes shown. -/
theorem interactive_echo_differs :
    outputCli (.int 5) = outputVal (.int 5) ++ [10] ∧
    (outputCli (.str (List.replicate 100 120))).length = 80 ∧ (outputVal (.str (List.replicate 100 120))).length = 100 ∧
    outputCli (.tab Ty.str.levelUp [] [.str [97], .str [98]]) = str "[string][2]\n" := by
  decide +kernel

/-! ### the abstract `Env.compile` instantiated with the model's real front end (Model/Lex + Parse + Elab) -/

/-- The front end sees through the reader: it makes of the reader's output (`readText`, CRs dropped by
`ReadFile::read`) exactly what it makes of the raw file (its own `lineReader` drops CRs again — idempotent). -/
theorem fe_reader_transparent (file : Bytes) : Elab.frontEnd (readText file) = Elab.frontEnd file := by
  have h : Parse.tokensOf (readText file) = Parse.tokensOf file := by
    unfold Parse.tokensOf Lex.lineReader Lex.stripCr
    rw [readText_eq_dropCr]; unfold dropCr
    rw [List.filter_filter]; simp
  unfold Elab.frontEnd Parse.parseText
  rw [h]

/-- **stdout_eq_library_output / exit_zero_iff_success for the front-end instance.** `bloc FILE args` where the
front end turns the file's text into the program `prog`: the process exits 0 iff `runProgram prog` (started with
`$ARG = args`) ends without error, and the selected output is what that run printed, followed by the rendering of
the returned value. No parser parameter is left: text in, bytes and status out. -/
theorem fe_program_contract (base : Env) (sel : Sel) (file : Bytes) (args : List Bytes) (prog : List Stmt)
    (h : Elab.frontEnd file = .ok (.ok prog)) :
    let r := runProgram base.fuel prog (initState args)
    let P := finish (feEnv base) sel (library (feEnv base) (readText file) args)
    library (feEnv base) (readText file) args = .ran r ∧
    (P.exit = .code 0 ↔ ∃ v, r.outcome = .ok v) ∧
    selected sel P = some (match r.outcome with
      | .ok (some v) => r.st.output ++ outputVal v
      | _ => r.st.output) ∧
    (∀ path, sel = .file path → P.stdout = []) := by
  have hl : library (feEnv base) (readText file) args = .ran (runProgram base.fuel prog (initState args)) := by
    unfold library feEnv
    simp only [fe_reader_transparent, h]
  simp only [hl]
  refine ⟨trivial, ?_, (stdout_eq_library_output (feEnv base) sel _).1, (stdout_eq_library_output (feEnv base) sel _).2⟩
  rw [exit_zero_iff_success]
  unfold succeeded
  simp only []
  generalize (runProgram base.fuel prog (initState args)).outcome = oc
  cases oc <;> simp

/-- A text the parser model rejects (code `c`): exit status 1, nothing on the selected output, one `Error:` line. -/
theorem fe_compile_error (base : Env) (sel : Sel) (file : Bytes) (args : List Bytes) (c : Nat)
    (h : Elab.frontEnd file = .error c) :
    let P := finish (feEnv base) sel (library (feEnv base) (readText file) args)
    P.exit = .code 1 ∧ selected sel P = some [] ∧ P.stderr = errLine (base.what c []) := by
  have hl : library (feEnv base) (readText file) args = .compileError none (base.what c []) := by
    unfold library feEnv
    simp only [fe_reader_transparent, h]
  simp only [hl]
  refine ⟨by simp [finish, deliver_exit], compile_error_output_empty _ sel none _, ?_⟩
  cases sel <;> simp [finish, deliver]

/-- The hypothesis is satisfiable: the TEXT `print 1+2;\r\nreturn "x";` through reader, scanner, parser, elaboration. -/
example : (match Elab.frontEnd (str "print 1+2;\r\nreturn \"x\";\n") with | .ok (.ok _) => true | _ => false) = true ∧
    (finish (feEnv demoEnv) .stdout (library (feEnv demoEnv) (readText (str "print 1+2;\r\nreturn \"x\";\n")) [])).stdout = str "3\nx" := by
  decide +kernel

end BlocV.C19
