/-
  C19 — the `bloc` command reports outcome, output and arguments faithfully.
  Property theorems only. Model: Model/Cli.lean (apps/main.cpp, main_options.cpp, cli_parser.cpp,
  read_file.cpp); Spec: Spec/Cli.lean. The parser and the message texts are fields of `Env`: every
  theorem holds for every `Env`.
-/
import BlocV.Model.Cli
import BlocV.Spec.Cli

namespace BlocV.C19
open BlocV BlocV.Cli

/-! ### the argument vector -/

/-- `getCmd` splits the command line at the FIRST word that is not option-shaped (does not start
with '-', or is exactly "-"): everything before is an accepted option, the program vector is the
untouched rest — whatever it contains (words starting with '-', `--out=…`, empty words). -/
theorem getCmd_split (argv : List Bytes) : ∀ (o o' : Options) (prog : List Bytes),
    getCmd o argv = .ok o' prog →
    ∃ pre, argv = pre ++ prog ∧ pre.all optionShaped = true ∧ (prog = [] ∨ ∃ f r, prog = f :: r ∧ optionShaped f = false) := by
  induction argv with
  | nil =>
    intro o o' prog h
    simp [getCmd] at h
    exact ⟨[], by simp [h.2]⟩
  | cons a rest ih =>
    intro o o' prog h
    unfold getCmd at h
    by_cases ha : optionShaped a = true
    · simp only [ha, if_true] at h
      cases hap : applyOption o a with
      | none => simp [hap] at h
      | some o1 =>
        simp only [hap] at h
        obtain ⟨pre, h1, h2, h3⟩ := ih o1 o' prog h
        exact ⟨a :: pre, by simp [h1], by simp [ha, h2], h3⟩
    · have ha' : optionShaped a = false := by simpa using ha
      simp only [ha'] at h
      simp at h
      exact ⟨[], by simp [h.2], by simp, Or.inr ⟨a, rest, h.2.symm, ha'⟩⟩

/-- **arg_table_faithful.** In program mode the command line is `options ++ file :: args` with
`file` the first non-option word, and the program runs in a context whose only variable is `$ARG` =
the table of strings `args`, in order (the Spec's table), for EVERY argv. -/
theorem arg_table_faithful (env : Env) (argv : List Bytes) (o : Options) (file : Bytes) (args : List Bytes)
    (h : modeOf argv = .program o file args) :
    (∃ pre, argv = pre ++ file :: args ∧ pre.all optionShaped = true ∧ optionShaped file = false) ∧
    (initState args).vars = [("$ARG", Spec.Cli.argTable args)] ∧
    (∀ text, library env text args = match env.compile text with
        | .perr pos w => .compileError pos w
        | .ok prog => .ran (runProgram env.fuel prog (initState args))) := by
  refine ⟨?_, rfl, fun _ => rfl⟩
  unfold modeOf at h
  cases hg : getCmd {} argv with
  | bad a => simp [hg] at h
  | ok o1 prog =>
    simp only [hg] at h
    cases prog with
    | nil => simp at h
    | cons f r =>
      simp only at h
      by_cases hc : o1.docli = true
      · simp [hc] at h
      · by_cases he : o1.doexp = true
        · simp [hc, he] at h
        · simp [hc, he] at h
          obtain ⟨pre, h1, h2, h3⟩ := getCmd_split argv {} o1 (f :: r) hg
          obtain ⟨_, hf, hr⟩ := h
          subst hf; subst hr
          refine ⟨pre, h1, h2, ?_⟩
          rcases h3 with h3 | ⟨f', r', e, hf'⟩
          · cases h3
          · cases e; exact hf'

example : modeOf [str "--out=o", str "p.bloc", str "-x", str "", str "a b"] =
    .program { fileSout := str "o" } (str "p.bloc") [str "-x", str "", str "a b"] := by decide

/-- In interactive mode EVERY word after the options is an argument, the "program" word included. -/
example : modeOf [str "-i", str "p.bloc", str "a"] = .interactive { docli := true } [str "p.bloc", str "a"] := by decide

/-- Options are recognised by prefix: `-info` is `-i`, `--output=x` is `--out` without a value. -/
example : getCmd {} [str "-info", str "--output=x", str "-"] = .ok { docli := true } [str "-"] := by decide
example : getCmd {} [str "--out=a", str "--out=b", str "-q", str "f"] = .bad (str "-q") := by decide

/-! ### exit status -/

def succeeded : LibOutcome → Bool
  | .ran r => match r.outcome with
    | .ok _ => true
    | _ => false
  | _ => false

theorem deliver_exit (sel : Sel) (out err : Bytes) (ex : Exit) : (deliver sel out err ex).exit = ex := by
  cases sel <;> rfl

/-- **exit_zero_iff_success.** For every outcome of the library and every output selection: exit
status 0 ⇔ the program compiled and ran without an unhandled error. (Nothing else enters: a
returned value that `output()` cannot print still gives 0.) -/
theorem exit_zero_iff_success (env : Env) (sel : Sel) (lo : LibOutcome) :
    (finish env sel lo).exit = .code 0 ↔ succeeded lo = true := by
  cases lo with
  | compileError pos w =>
    cases pos with
    | none => simp [finish, deliver_exit, succeeded]
    | some p => obtain ⟨l, c⟩ := p; simp [finish, deliver_exit, succeeded]
  | ran r =>
    obtain ⟨oc, rst⟩ := r
    unfold finish succeeded
    cases oc with
    | ok v => cases v <;> simp [deliver_exit]
    | err c a =>
      by_cases hc : (c == oofCode) = true
      · simp [hc, deliver_exit]
      · simp [hc, deliver_exit]
    | haz h => simp [deliver_exit]
    | unmodelled => simp [deliver_exit]

/-- The exit status is the Spec's, whenever the process ends by itself (no hazard, not cut off). -/
theorem exit_status_spec (env : Env) (sel : Sel) (lo : LibOutcome) (n : Nat)
    (h : (finish env sel lo).exit = .code n) :
    n = Spec.Cli.exitStatus (match lo with | .ran _ => true | _ => false) (succeeded lo) := by
  cases lo with
  | compileError pos w =>
    cases pos with
    | none => simp [finish, deliver_exit] at h; simp [Spec.Cli.exitStatus, h]
    | some p => obtain ⟨l, c⟩ := p; simp [finish, deliver_exit] at h; simp [Spec.Cli.exitStatus, h]
  | ran r =>
    obtain ⟨oc, rst⟩ := r
    unfold finish at h
    unfold succeeded Spec.Cli.exitStatus
    cases oc with
    | ok v => cases v <;> simp [deliver_exit] at h <;> simp [h]
    | err c a =>
      by_cases hc : (c == oofCode) = true
      · simp [hc, deliver_exit] at h
      · simp [hc, deliver_exit] at h; simp [h]
    | haz hh => simp [deliver_exit] at h
    | unmodelled => simp [deliver_exit] at h

/-- The same at the level of `main`, for every argv in program mode: status 0 ⇔ the output file (if
any) opens, the program text is available, it compiles, and the run ends without error. -/
theorem exit_zero_iff_success_main (env : Env) (argv : List Bytes) (stdin : Bytes) (o : Options) (file : Bytes) (args : List Bytes)
    (h : modeOf argv = .program o file args) :
    (run env argv stdin).exit = .code 0 ↔
      ((o.fileSout.isEmpty = true ∨ env.canWrite o.fileSout = true) ∧
       ∃ text, (if file == [45] then some stdin else env.readFile file) = some text ∧
         succeeded (library env (dropCr text) args) = true) := by
  unfold run
  simp only [h]
  unfold runProgramMode selOf
  by_cases he : o.fileSout.isEmpty = true
  · cases hs : (if file == [45] then some stdin else env.readFile file) with
    | none => simp [he]
    | some text => simp [he, exit_zero_iff_success]
  · have he' : o.fileSout.isEmpty = false := by simpa using he
    by_cases hw : env.canWrite o.fileSout = true
    · cases hs : (if file == [45] then some stdin else env.readFile file) with
      | none => simp [he', hw]
      | some text => simp [he', hw, exit_zero_iff_success]
    · have hw' : env.canWrite o.fileSout = false := by simpa using hw
      simp [he', hw']

def demoEnv : Env :=
  { compile := (fun _ => .ok []), parseExpr := (fun _ => .perr []), parseInteractive := (fun _ => []), readFile := (fun _ => none),
    canWrite := (fun _ => true), what := (fun _ _ => []) }

example : (finish demoEnv .stdout (.ran (runProgram 10 [.returnS (some (.lit (.int 5)))] {}))).exit = .code 0 ∧
    (finish demoEnv .stdout (.ran (runProgram 10 [.printS [.lit (.int 4)], .returnS (some (.lit (.int 5)))] {}))).stdout = [52, 10, 53] := by
  decide +kernel

/-! ### the selected output -/

/-- What ended up on the selected output: stdout, or the content of the `--out` file. -/
def selected (sel : Sel) (p : Proc) : Option Bytes :=
  match sel with
  | .stdout => some p.stdout
  | .file path => match p.outFile with
    | some (q, c) => if q == path then some c else none
    | none => none

theorem selected_deliver (sel : Sel) (out err : Bytes) (ex : Exit) : selected sel (deliver sel out err ex) = some out := by
  cases sel <;> simp [selected, deliver]

/-- **stdout_eq_library_output.** For every library run and every selection, the selected output
is EXACTLY the library's printed output, followed — when the run returned a value — by `outputVal`
of it; after a runtime error, the output printed before the error, nothing more. With `--out` nothing
of it goes to stdout. -/
theorem stdout_eq_library_output (env : Env) (sel : Sel) (r : RunResult) :
    selected sel (finish env sel (.ran r)) = some (match r.outcome with
      | .ok (some v) => r.st.output ++ outputVal v
      | _ => r.st.output) ∧
    (∀ path, sel = .file path → (finish env sel (.ran r)).stdout = []) := by
  obtain ⟨oc, rst⟩ := r
  constructor
  · unfold finish
    cases oc with
    | ok v => cases v <;> simp [selected_deliver]
    | err c a => by_cases hc : (c == oofCode) = true <;> simp [hc, selected_deliver]
    | haz h => simp [selected_deliver]
    | unmodelled => simp [selected_deliver]
  · intro path hp
    subst hp
    unfold finish
    cases oc with
    | ok v => cases v <;> simp [deliver]
    | err c a => by_cases hc : (c == oofCode) = true <;> simp [hc, deliver]
    | haz h => simp [deliver]
    | unmodelled => simp [deliver]

/-- A compile error leaves the selected output empty (the `--out` file exists, empty). -/
theorem compile_error_output_empty (env : Env) (sel : Sel) (pos : Option (Nat × Nat)) (w : Bytes) :
    selected sel (finish env sel (.compileError pos w)) = some [] := by
  cases pos with
  | none => simp [finish, selected_deliver]
  | some p => obtain ⟨l, c⟩ := p; simp [finish, selected_deliver]

/-- `output()` and the library's `print` render null, boolean, integer, decimal and string values
identically (so `printVal`/`Fmt.fmt16g` are reused soundly). -/
theorem outputVal_eq_print (v : Val) (h : match v with | .null t => t.level = 0 | .bool _ | .int _ | .num _ | .str _ => True | _ => False) :
    printVal v = .ok (outputVal v) := by
  cases v with
  | null t => simp only at h; simp only [printVal, Val.type, h, outputVal]; simp; decide +kernel
  | bool b => cases b <;> decide +kernel
  | int i => simp [printVal, outputVal, Val.type, Ty.int]
  | num d => simp [printVal, outputVal, Val.type, Ty.num]
  | str s => simp [printVal, outputVal, Val.type, Ty.str]
  | _ => simp at h

/-- Values on which the command's rendering is the Spec's ("as `print` would"). -/
def printable : Val → Bool
  | .null t => t.level == 0
  | .bool _ | .int _ | .num _ | .str _ => true
  | _ => false

/-- **stdout_meets_spec_partial.** For a run that succeeded and returned nothing or a printable
value, the selected output is the one the Spec prescribes. -/
theorem stdout_meets_spec_partial (env : Env) (sel : Sel) (r : RunResult) (ret : Option Val)
    (hr : r.outcome = .ok ret) (hp : ∀ v, ret = some v → printable v = true) :
    selected sel (finish env sel (.ran r)) = Spec.Cli.selectedOutput Fmt.fmt16g r.st.output ret := by
  rw [(stdout_eq_library_output env sel r).1, hr]
  cases ret with
  | none => rfl
  | some v =>
    have := hp v rfl
    cases v <;> simp_all [printable, Spec.Cli.selectedOutput, Spec.Cli.returnedText, outputVal, str, Spec.Cli.str]

/-- The full statement is FALSE on the code as it is (known finding
`C19.returned_table_bytes_not_printed`): a returned bytes value, and a returned table, print nothing. -/
theorem returned_bytes_not_printed :
    outputVal (.raw [97, 98, 99]) = [] ∧ Spec.Cli.returnedText Fmt.fmt16g (.raw [97, 98, 99]) ≠ some [] ∧
    outputVal (.tab Ty.str.levelUp [] [.str [97]]) = [] ∧ Spec.Cli.returnedText Fmt.fmt16g (.tab Ty.str.levelUp [] [.str [97]]) ≠ some [] := by
  decide +kernel

example : printable (.str [104, 105]) = true ∧ outputVal (.str [104, 105]) = [104, 105] := by decide

/-! ### standard error -/

/-- **stderr_class.** Success: nothing on stderr. Compile error with a token: one line naming
`line:column` (the Spec's `hasPosition`). Runtime error: one `Error: …` line. -/
theorem stderr_class (env : Env) (sel : Sel) :
    (∀ lo, (finish env sel lo).exit = .code 0 → (finish env sel lo).stderr = []) ∧
    (∀ l c w, (finish env sel (.compileError (some (l, c)) w)).stderr = errLinePos l c w ∧
        Spec.Cli.hasPosition (errLinePos l c w) l c) ∧
    (∀ r c a, r.outcome = .err c a → (c == oofCode) = false →
        (finish env sel (.ran r)).stderr = errLine (env.what c a) ∧ (finish env sel (.ran r)).exit = .code 1) := by
  refine ⟨?_, ?_, ?_⟩
  · intro lo h
    have hs := (exit_zero_iff_success env sel lo).1 h
    cases lo with
    | compileError pos w => simp [succeeded] at hs
    | ran r =>
      obtain ⟨oc, rst⟩ := r
      unfold succeeded at hs
      unfold finish
      cases oc with
      | ok v => cases v <;> cases sel <;> simp [deliver]
      | err c a => simp at hs
      | haz hh => simp at hs
      | unmodelled => simp at hs
  · intro l c w
    constructor
    · cases sel <;> simp [finish, deliver]
    · exact ⟨str "Error (", str "): " ++ w ++ [10], by simp [errLinePos, natStr]⟩
  · intro r c a hr hc
    obtain ⟨oc, rst⟩ := r
    simp only at hr
    subst hr
    unfold finish
    cases sel <;> simp [hc, deliver]

/-! ### expression mode -/

/-- **expr_mode_contract.** `bloc -e w1 … wn` (no `-i`): the text parsed is the words, each
followed by a blank, then `;`; the value of that expression is written on STDOUT as `output()`
renders it (`--out` is not consulted, there is no `$ARG`); status 0 ⇔ it parsed and evaluated
without error; otherwise one `Error: …` line (no position) on stderr and nothing on stdout. -/
theorem expr_mode_contract (env : Env) (argv : List Bytes) (stdin : Bytes) (o : Options) (words : List Bytes)
    (h : modeOf argv = .expr o words) :
    run env argv stdin = runExprMode env words ∧
    (∀ e, env.parseExpr (exprText words) = .ok e → ∀ v s, eval [] 0 env.fuel e {} = (.ok v, s) →
        (run env argv stdin).exit = .code 0 ∧ (run env argv stdin).stdout = outputVal v ∧
        (run env argv stdin).stderr = [] ∧ (run env argv stdin).outFile = none) ∧
    (∀ w, env.parseExpr (exprText words) = .perr w →
        (run env argv stdin).exit = .code 1 ∧ (run env argv stdin).stdout = [] ∧ (run env argv stdin).stderr = errLine w) ∧
    (∀ e, env.parseExpr (exprText words) = .ok e → ∀ c a s, eval [] 0 env.fuel e {} = (.err c a, s) → (c == oofCode) = false →
        (run env argv stdin).exit = .code 1 ∧ (run env argv stdin).stdout = [] ∧ (run env argv stdin).stderr = errLine (env.what c a)) := by
  have hrun : run env argv stdin = runExprMode env words := by unfold run; simp [h]
  refine ⟨hrun, ?_, ?_, ?_⟩
  · intro e he v s hv
    rw [hrun]; unfold runExprMode; simp [he, hv]
  · intro w hw
    rw [hrun]; unfold runExprMode; simp [hw]
  · intro e he c a s hv hc
    rw [hrun]; unfold runExprMode; simp [he, hv, hc]

example : exprText [str "1", str "+", str "2"] = str "1 + 2 ;" := by decide
example : modeOf [str "-e", str "1", str "+", str "2"] = .expr { doexp := true } [str "1", str "+", str "2"] := by decide
/-- `-e` without a word is interactive mode. -/
example : modeOf [str "-e"] = .interactive { doexp := true } [] := by decide

/-! ### interactive mode vs batch -/

def isFunc : Stmt → Bool
  | .funcS .. => true
  | _ => false

/-- All function declarations come first (what the generator produces, and what a program must
look like for the two modes to see the same function table at every call). -/
def declsFirst : List Stmt → Bool
  | [] => true
  | st :: rest => if isFunc st then declsFirst rest else rest.all (fun s => !isFunc s)

def items (prog : List (Stmt × Nat)) : List IItem := prog.map fun p => IItem.stmt p.1 p.2

def allNorm (rs : List StepRes) : Bool := rs.all fun r => match r.res with
  | some (.ok .norm) => true
  | _ => false

theorem collectFuncs_eq_foldl (prog : List Stmt) : collectFuncs prog = prog.foldl declStep [] := rfl

theorem declStep_nonfunc (fs : List Func) (st : Stmt) (h : isFunc st = false) : declStep fs st = fs := by
  cases st <;> simp_all [declStep, isFunc]

theorem foldl_declStep_nonfunc (rest : List Stmt) : ∀ fs, rest.all (fun s => !isFunc s) = true → rest.foldl declStep fs = fs := by
  induction rest with
  | nil => intro fs _; rfl
  | cons a r ih =>
    intro fs h
    simp only [List.all_cons, Bool.and_eq_true] at h
    have ha : isFunc a = false := by simpa using h.1
    simp only [List.foldl_cons, declStep_nonfunc fs a ha]
    exact ih fs h.2

/-- Executing a declaration does not look at the function table. -/
theorem exec_func_table_irrelevant (f1 f2 : List Func) (depth fuel : Nat) (st : Stmt) (s : St) (h : isFunc st = true) :
    exec f1 depth fuel st s = exec f2 depth fuel st s := by
  cases st <;> simp [isFunc] at h
  cases fuel with
  | zero => simp [exec]
  | succ k => simp [exec]

theorem execList_nil (fs : List Func) (d fuel : Nat) (s : St) (h : fuel ≠ 0) : execList fs d fuel [] s = (.ok .norm, s) := by
  cases fuel with
  | zero => exact absurd rfl h
  | succ k => simp [execList, pure]

theorem execList_cons (fs : List Func) (d k : Nat) (st : Stmt) (rest : List Stmt) (s : St) :
    execList fs d (k + 1) (st :: rest) s =
      match exec fs d k st s with
      | (.ok fl, s') => if fl == .norm then execList fs d k rest s' else (.ok fl, s')
      | (.err c a, s') => (.err c a, s')
      | (.haz h, s') => (.haz h, s')
      | (.unmodelled, s') => (.unmodelled, s') := by
  simp only [execList, bind]
  cases h : exec fs d k st s with
  | mk r s' =>
    cases r with
    | ok fl => cases fl <;> simp [pure]
    | err c a => simp
    | haz hh => simp
    | unmodelled => simp

/-- Core of the comparison: from the same state, with the table `F` the batch run uses, the
interactive loop (table grown declaration by declaration) whose every turn ends normally computes
the state `execList` computes. -/
theorem interLoop_eq_execList : ∀ (fuel : Nat) (prog : List (Stmt × Nat)) (fs : List Func) (s : St),
    declsFirst (prog.map (·.1)) = true →
    allNorm (interLoop fuel (items prog) fs s).1 = true → fuel ≠ 0 →
    execList ((prog.map (·.1)).foldl declStep fs) 0 fuel (prog.map (·.1)) s = (.ok .norm, (interLoop fuel (items prog) fs s).2.2) := by
  intro fuel
  induction fuel with
  | zero => intro prog fs s _ _ h; exact absurd rfl h
  | succ k ih =>
    intro prog fs s hd hn _
    cases prog with
    | nil => simp [items, interLoop, execList, pure]
    | cons p rest =>
      obtain ⟨st, n⟩ := p
      simp only [items, List.map_cons, interLoop] at hn ⊢
      -- the table used for this statement is the batch table, or the statement is a declaration
      have htab : exec (declStep fs st) 0 k st s = exec ((rest.map (·.1)).foldl declStep (declStep fs st)) 0 k st s := by
        by_cases hf : isFunc st = true
        · exact exec_func_table_irrelevant _ _ 0 k st s hf
        · have hf' : isFunc st = false := by simpa using hf
          simp only [List.map_cons, declsFirst, hf'] at hd
          simp at hd
          have : (rest.map (·.1)).all (fun s => !isFunc s) = true := by simpa using hd
          rw [foldl_declStep_nonfunc _ _ this]
      have hd' : declsFirst (rest.map (·.1)) = true := by
        simp only [List.map_cons, declsFirst] at hd
        by_cases hf : isFunc st = true
        · simpa [hf] using hd
        · have hf' : isFunc st = false := by simpa using hf
          simp only [hf'] at hd
          simp at hd
          have hall : (rest.map (·.1)).all (fun s => !isFunc s) = true := by simpa using hd
          -- a list without declarations trivially has its declarations first
          clear ih hn htab
          generalize rest.map (·.1) = l at hall ⊢
          cases l with
          | nil => rfl
          | cons a r =>
            simp only [List.all_cons, Bool.and_eq_true] at hall
            have : isFunc a = false := by simpa using hall.1
            simp [declsFirst, this, hall.2]
      rw [List.foldl_cons, execList_cons, ← htab]
      cases hr : exec (declStep fs st) 0 k st s with
      | mk r s' =>
        simp only [hr] at hn ⊢
        cases r with
        | ok fl =>
          cases fl with
          | norm =>
            simp only [stops] at hn ⊢
            simp only [Bool.false_eq_true, if_false] at hn ⊢
            simp only [allNorm, List.all_cons, Bool.true_and] at hn
            cases k with
            | zero => simp [exec, oof, failE] at hr
            | succ k2 =>
              have := ih rest (declStep fs st) s' hd' (by simpa [allNorm, items] using hn) (by omega)
              simpa [items] using this
          | brk => simp [stops, allNorm] at hn
          | cont => simp [stops, allNorm] at hn
          | ret => simp [stops, allNorm] at hn
        | err c a =>
          by_cases hc : (c == oofCode) = true
          · simp [stops, hc, allNorm] at hn
          · simp [stops, hc, allNorm] at hn
        | haz h => simp [stops, allNorm] at hn
        | unmodelled => simp [stops, allNorm] at hn

/-- **interactive_eq_batch_partial.** Feed a program whose function declarations come first to the
interactive loop, statement by statement. If every statement ends normally (no unhandled error, no
top-level `return`), then the batch run of the same program (`Parser::parse` + `Executable::run`)
succeeds without returning a value, and ends in the SAME state: same printed output, same variables. -/
theorem interactive_eq_batch_partial (fuel : Nat) (prog : List (Stmt × Nat)) (args : List Bytes)
    (hd : declsFirst (prog.map (·.1)) = true) (hf : fuel ≠ 0)
    (hn : allNorm (interLoop fuel (items prog) [] (interInit (prog.map (·.1)) args)).1 = true) :
    let batch := runProgram fuel (prog.map (·.1)) (initState args)
    let inter := interLoop fuel (items prog) [] (interInit (prog.map (·.1)) args)
    batch.st = inter.2.2 ∧ batch.st.output = inter.2.2.output ∧ batch.st.vars = inter.2.2.vars ∧
      (∃ v, batch.outcome = .ok v ∧ v = inter.2.2.returned) := by
  have h := interLoop_eq_execList fuel prog [] (interInit (prog.map (·.1)) args) hd hn hf
  rw [← collectFuncs_eq_foldl] at h
  have hb : runProgram fuel (prog.map (·.1)) (initState args) =
      { outcome := .ok (interLoop fuel (items prog) [] (interInit (prog.map (·.1)) args)).2.2.returned,
        st := (interLoop fuel (items prog) [] (interInit (prog.map (·.1)) args)).2.2 } := by
    show (match execList (collectFuncs (prog.map (·.1))) 0 fuel (prog.map (·.1)) (interInit (prog.map (·.1)) args) with
      | (.ok _, s) => ({ outcome := .ok s.returned, st := s } : RunResult)
      | (.err c a, s) => { outcome := .err c a, st := s }
      | (.haz h, s) => { outcome := .haz h, st := s }
      | (.unmodelled, s) => { outcome := .unmodelled, st := s }) = _
    rw [h]
  simp [hb]

/-- The hypotheses are satisfiable: a declaration, a loop, prints. -/
def demo : List (Stmt × Nat) :=
  [(.funcS "F" [] Ty.int [.returnS (some (.lit (.int 7)))] [], 1),
   (.letS "X" (.fcall "F" []), 1),
   (.forS "K" (.lit (.int 1)) (.lit (.int 2)) none .auto [.printS [.var "K", .var "X"]], 3)]

example : declsFirst (demo.map (·.1)) = true ∧
    allNorm (interLoop 50 (items demo) [] (interInit (demo.map (·.1)) [[97]])).1 = true ∧
    (interLoop 50 (items demo) [] (interInit (demo.map (·.1)) [[97]])).2.2.output = [49, 55, 10, 50, 55, 10] := by
  decide +kernel

/-- The full statement is FALSE on the code as it is — three witnesses.
(1) known finding `C19.interactive_continues_after_return`: `return 1; print 2;` — batch prints
nothing and returns 1, the interactive loop echoes 1 and goes on to print 2. -/
theorem interactive_continues_after_return :
    let prog : List (Stmt × Nat) := [(.returnS (some (.lit (.int 1))), 1), (.printS [.lit (.int 2)], 1)]
    (runProgram 50 (prog.map (·.1)) (initState [])).st.output = [] ∧
    (interLoop 50 (items prog) [] (interInit (prog.map (·.1)) [])).2.2.output = [50, 10] := by
  decide +kernel

/-- (2) known finding `C19.interactive_function_redefinition`: a function declared twice — batch
calls the last definition everywhere (prints 2 2), interactive mode the one current at each call (1 2). -/
theorem interactive_function_redefinition :
    let f (n : Int64) : Stmt := .funcS "F" [] Ty.int [.returnS (some (.lit (.int n)))] []
    let prog : List (Stmt × Nat) := [(f 1, 1), (.printS [.fcall "F" []], 1), (f 2, 1), (.printS [.fcall "F" []], 1)]
    declsFirst (prog.map (·.1)) = false ∧
    (runProgram 50 (prog.map (·.1)) (initState [])).st.output = [50, 10, 50, 10] ∧
    (interLoop 50 (items prog) [] (interInit (prog.map (·.1)) [])).2.2.output = [49, 10, 50, 10] := by
  decide +kernel

/-- (3) by design of the loop (not a finding): after an unhandled error the batch run stops with
status 1, the interactive loop reports it and executes the next statement. -/
theorem interactive_continues_after_error :
    let prog : List (Stmt × Nat) := [(.raiseS "E1", 1), (.printS [.lit (.int 2)], 1)]
    (runProgram 50 (prog.map (·.1)) (initState [])).st.output = [] ∧
    (interLoop 50 (items prog) [] (interInit (prog.map (·.1)) [])).2.2.output = [50, 10] ∧
    (lastExit (interLoop 50 (items prog) [] (interInit (prog.map (·.1)) [])).1) = .code 0 := by
  decide +kernel

/-- Interactive mode: the exit status is 0 unless the process itself dies; a returned value is
echoed by `output_cli`, which is NOT `output()`: newline added, strings cut to 79 bytes, tables and
bytes shown. -/
theorem interactive_echo_differs :
    outputCli (.int 5) = outputVal (.int 5) ++ [10] ∧
    (outputCli (.str (List.replicate 100 120))).length = 80 ∧ (outputVal (.str (List.replicate 100 120))).length = 100 ∧
    outputCli (.tab Ty.str.levelUp [] [.str [97], .str [98]]) = str "[string][2]\n" := by
  decide +kernel

end BlocV.C19
