/-
  C03 — integer and decimal arithmetic is total and follows the manual for all operands.

  Property theorems only (helper lemmas: Proofs/Lemmas/Int64.lean). Each theorem relates the model
  (`BlocV.Num.*`, the transcription of blocc/operator/op_*.cpp and builtin_int.cpp) to the spec
  (`BlocV.Spec.*`, mathematical integers) for ALL operands. `x.toInt` is the mathematical value of an
  Int64. Every theorem is followed by an `example` showing its statement is not vacuous.
-/
import BlocV.Proofs.Lemmas.Int64
import BlocV.Proofs.Lemmas.Float
import BlocV.Model.Typing
import BlocV.Model.Builtins

namespace BlocV.C03
open BlocV BlocV.Lemmas

/-! ### + − * unary− : exact result reduced modulo 2^64, for all operands -/

/-- `a + b` (op_add.cpp, computed in uint64_t and converted back): the exact sum reduced modulo 2^64 into [−2^63, 2^63), for all operands. -/
theorem add_exact (a b : Int64) : (Num.iadd a b).toInt = Spec.add a.toInt b.toInt := by
  simp [Num.iadd, Spec.add, Spec.wrap, Int64.toInt_add]

/-- `a - b` (op_sub.cpp): the exact difference reduced modulo 2^64, for all operands. -/
theorem sub_exact (a b : Int64) : (Num.isub a b).toInt = Spec.sub a.toInt b.toInt := by
  simp [Num.isub, Spec.sub, Spec.wrap, Int64.toInt_sub]

/-- `a * b` (op_mul.cpp): the exact product reduced modulo 2^64, for all operands. -/
theorem mul_exact (a b : Int64) : (Num.imul a b).toInt = Spec.mul a.toInt b.toInt := by
  simp [Num.imul, Spec.mul, Spec.wrap, Int64.toInt_mul]

/-- Unary minus (op_neg.cpp, `0 - a` in uint64_t): the exact negation reduced modulo 2^64 (so `-MIN = MIN`). -/
theorem neg_exact (a : Int64) : (Num.ineg a).toInt = Spec.neg a.toInt := by
  simp [Num.ineg, Spec.neg, Spec.wrap]

example : (Num.iadd 9223372036854775807 1).toInt = -9223372036854775808 := by decide
example : (Num.imul (-9223372036854775808) (-1)).toInt = -9223372036854775808 := by decide

/-! ### / and % : truncate toward zero, DIVIDE_BY_ZERO on a zero divisor, defined for every other pair -/

/-- What the spec's result means for the model's outcome type. -/
def ofIRes : Spec.IRes → Res Int
  | .val z => .ok z
  | .divideByZero => .err Gen.EXC_RT_DIVIDE_BY_ZERO
  | .outOfRange => .err Gen.EXC_RT_OUT_OF_RANGE

def mapInt : Res Int64 → Res Int
  | .ok r => .ok r.toInt
  | .err c a => .err c a
  | .haz h => .haz h
  | .unmodelled => .unmodelled

/-- `a / b` (op_div.cpp): DIVIDE_BY_ZERO when `b = 0`, otherwise the quotient truncated toward zero (reduced modulo 2^64, which only matters for `MIN / -1 = MIN`), for all operands. -/
theorem div_spec (a b : Int64) : mapInt (Num.idiv a b) = ofIRes (Spec.div a.toInt b.toInt) := by
  unfold Num.idiv Spec.div
  by_cases hb : b = 0
  · subst hb; simp [mapInt, ofIRes]
  · have hb' : b.toInt ≠ 0 := by
      intro h; apply hb; apply Int64.toInt_inj.mp; rw [h]; rfl
    simp only [beq_iff_eq, hb, if_false, hb']
    by_cases h1 : b = -1
    · subst h1
      have : (-1 : Int64).toInt = -1 := by decide
      simp only [if_true, mapInt, ofIRes, this]
      congr 1
      rw [Int64.toInt_sub]
      simp [Spec.wrap]
    · simp only [h1, if_false, mapInt, ofIRes]
      congr 1
      rw [Int64.toInt_div]; rfl

/-- `a % b` (op_mod.cpp): DIVIDE_BY_ZERO when `b = 0`, otherwise the remainder of the truncating division (sign of the dividend; `MIN % -1 = 0`), for all operands. -/
theorem mod_spec (a b : Int64) : mapInt (Num.imod a b) = ofIRes (Spec.mod a.toInt b.toInt) := by
  unfold Num.imod Spec.mod
  by_cases hb : b = 0
  · subst hb; simp [mapInt, ofIRes]
  · have hb' : b.toInt ≠ 0 := by
      intro h; apply hb; apply Int64.toInt_inj.mp; rw [h]; rfl
    simp only [beq_iff_eq, hb, if_false, hb']
    have hw : ∀ (x y : Int64), Spec.wrap (x.toInt.tmod y.toInt) = x.toInt.tmod y.toInt := by
      intro x y
      rw [← Int64.toInt_mod]
      unfold Spec.wrap
      have := Int64.le_toInt (x % y); have := Int64.toInt_lt (x % y)
      rw [Int.bmod_eq_of_le] <;> omega
    by_cases h1 : b = -1
    · subst h1
      have : (-1 : Int64).toInt = -1 := by decide
      simp only [if_true, mapInt, ofIRes, this]
      congr 1
      simp [Spec.wrap]
    · simp only [h1, if_false, mapInt, ofIRes]
      congr 1
      rw [hw, Int64.toInt_mod]

/-- Totality: `/` and `%` never reach a C-level hazard. -/
theorem div_mod_no_hazard (a b : Int64) : (Num.idiv a b).isHazard = false ∧ (Num.imod a b).isHazard = false := by
  unfold Num.idiv Num.imod
  constructor
  · split
    · rfl
    · split <;> rfl
  · split
    · rfl
    · split <;> rfl

example : mapInt (Num.idiv (-9223372036854775808) (-1)) = .ok (-9223372036854775808) := by decide
example : mapInt (Num.imod (-7) 2) = .ok (-1) := by decide
example : Num.idiv 1 0 = .err Gen.EXC_RT_DIVIDE_BY_ZERO := by decide

/-! ### << >> : zero fill, negative displacement reverses, |displacement| ≥ 64 gives 0 -/

/-- `a << n` (op_pop.cpp) for every displacement: zero fill; a negative `n` shifts right by `-n`; `|n| ≥ 64` gives 0 — the reference manual's rule, on the 64-bit pattern. -/
theorem shl_spec (a n : Int64) : (Num.ishl a n).toInt = Spec.shl a.toInt n.toInt := by
  unfold Num.ishl Spec.shl
  have c1 : (n ≥ 64) ↔ n.toInt ≥ 64 := ge_iff n 64
  have c2 : (n ≤ -64) ↔ n.toInt ≤ -64 := le_iff n (-64)
  have c3 : (n ≥ 0) ↔ n.toInt ≥ 0 := ge_iff n 0
  simp only [c1, c2, c3]
  split
  · rfl
  · split
    · rename_i h0
      rw [toInt_toInt64, UInt64.toNat_shiftLeft, pattern_toInt, toNat_toUInt64_of_nonneg n h0]
      have : n.toInt.toNat % 64 = n.toInt.toNat := by omega
      rw [this, Nat.shiftLeft_eq]
    · rw [toInt_toInt64, UInt64.toNat_shiftRight, pattern_toInt]
      have hneg : (0 - n).toInt = -n.toInt := toInt_zero_sub n (by omega)
      have h1 : 0 ≤ (0 - n).toInt := by omega
      rw [toNat_toUInt64_of_nonneg _ h1, hneg]
      have : (-n.toInt).toNat % 64 = (-n.toInt).toNat := by omega
      rw [this, Nat.shiftRight_eq_div_pow]

/-- `a >> n` (op_pus.cpp) for every displacement: logical (zero-fill) right shift; a negative `n` shifts left by `-n`; `|n| ≥ 64` gives 0. -/
theorem shr_spec (a n : Int64) : (Num.ishr a n).toInt = Spec.shr a.toInt n.toInt := by
  unfold Num.ishr Spec.shr
  have c1 : (n ≥ 64) ↔ n.toInt ≥ 64 := ge_iff n 64
  have c2 : (n ≤ -64) ↔ n.toInt ≤ -64 := le_iff n (-64)
  have c3 : (n ≥ 0) ↔ n.toInt ≥ 0 := ge_iff n 0
  simp only [c1, c2, c3]
  split
  · rfl
  · split
    · rename_i h0
      rw [toInt_toInt64, UInt64.toNat_shiftRight, pattern_toInt, toNat_toUInt64_of_nonneg n h0]
      have : n.toInt.toNat % 64 = n.toInt.toNat := by omega
      rw [this, Nat.shiftRight_eq_div_pow]
    · rw [toInt_toInt64, UInt64.toNat_shiftLeft, pattern_toInt]
      have hneg : (0 - n).toInt = -n.toInt := toInt_zero_sub n (by omega)
      have h1 : 0 ≤ (0 - n).toInt := by omega
      rw [toNat_toUInt64_of_nonneg _ h1, hneg]
      have : (-n.toInt).toNat % 64 = (-n.toInt).toNat := by omega
      rw [this, Nat.shiftLeft_eq]

example : (Num.ishl 1 64).toInt = 0 ∧ (Num.ishr (-1) 1).toInt = 9223372036854775807
    ∧ (Num.ishl 1 (-1)).toInt = 0 ∧ (Num.ishl 4 (-1)).toInt = 2 := by decide

/-! ### ** : exact power modulo 2^64 for every base and every non-negative exponent -/

/-- `a ** n` for every base and every exponent `n ≥ 0` (op_exp.cpp, square-and-multiply in uint64_t): the exact power `a^n` reduced modulo 2^64. -/
theorem pow_exact (a n : Int64) (hn : 0 ≤ n.toInt) :
    mapInt (Num.ipow a n) = .ok (Spec.pow a.toInt n.toInt.toNat) := by
  unfold Num.ipow
  have hlt : ¬ (n < 0) := by
    rw [Int64.lt_iff_toInt_lt]; show ¬ n.toInt < 0; omega
  simp only [hlt, if_false, mapInt]
  congr 1
  rw [toInt_toInt64, powLoop_spec 64 1 a.toUInt64 n.toUInt64 (by have := n.toUInt64.toNat_lt; omega)]
  rw [toNat_toUInt64_of_nonneg n hn]
  unfold Spec.pow Spec.wrap
  have hpat : (a.toUInt64.toNat : Int) = a.toInt % 2 ^ 64 := by
    rw [← pattern_toInt]; unfold Spec.pattern
    apply Int.toNat_of_nonneg
    apply Int.emod_nonneg; decide
  have h2 : ((2:Int) ^ 64) = ((2 ^ 64 : Nat) : Int) := by norm_cast
  simp only [UInt64.toNat_one, Nat.one_mul]
  rw [Int.natCast_emod, Int.natCast_pow, hpat]
  rw [show ((2 ^ 64 : Nat) : Int) = (2:Int) ^ 64 from h2.symm]
  rw [pow_emod, h2, Int.emod_bmod]

/-- Totality for every exponent: no C-level hazard (a negative exponent with base 0 raises DIVIDE_BY_ZERO). -/
theorem pow_no_hazard (a n : Int64) : (Num.ipow a n).isHazard = false := by
  unfold Num.ipow
  split
  · split
    · rfl
    · split
      · rfl
      · split <;> rfl
  · rfl

example : mapInt (Num.ipow 3 39) = .ok 4052555153018976267 := by decide
example : (0 : Int) ≤ (39 : Int64).toInt := by decide

/-! ### & | ^ ~ act on all 64 bits -/

/-- `a & b` (op_and.cpp) acts on all 64 bits of the two patterns. -/
theorem and_bitwise (a b : Int64) : (Num.iand a b).toInt = Spec.band a.toInt b.toInt := by
  unfold Num.iand Spec.band
  rw [pattern_toInt, pattern_toInt, ← UInt64.toNat_and, ← Int64.toUInt64_and]
  have := toInt_toInt64 (a &&& b).toUInt64
  simpa using this

/-- `a | b` (op_ior.cpp) acts on all 64 bits. -/
theorem or_bitwise (a b : Int64) : (Num.ior a b).toInt = Spec.bor a.toInt b.toInt := by
  unfold Num.ior Spec.bor
  rw [pattern_toInt, pattern_toInt, ← UInt64.toNat_or, ← Int64.toUInt64_or]
  have := toInt_toInt64 (a ||| b).toUInt64
  simpa using this

/-- `a ^ b` (op_xor.cpp) acts on all 64 bits. -/
theorem xor_bitwise (a b : Int64) : (Num.ixor a b).toInt = Spec.bxor a.toInt b.toInt := by
  unfold Num.ixor Spec.bxor
  rw [pattern_toInt, pattern_toInt, ← UInt64.toNat_xor, ← Int64.toUInt64_xor]
  have := toInt_toInt64 (a ^^^ b).toUInt64
  simpa using this

/-- `~a` (op_not.cpp, `~*a1.integer()`): the complement of all 64 bits of the pattern. -/
theorem not_bitwise (a : Int64) : (Num.inot a).toInt = Spec.bnot a.toInt := by
  unfold Num.inot Spec.bnot
  rw [pattern_toInt]
  have := toInt_toInt64 (~~~a).toUInt64
  rw [Int64.toUInt64_not, UInt64.toNat_not] at this
  simpa using this

example : (Num.iand (-1) 255).toInt = 255 ∧ (Num.ixor (-1) 1).toInt = -2 := by decide
example : (Num.inot 0).toInt = -1 ∧ (Num.inot (-9223372036854775808)).toInt = 9223372036854775807 := by decide

/-! ### `/` `%` : the two clauses of the statement spelled out (corollaries of `div_spec`, `mod_spec`) -/

/-- A zero divisor raises the catchable DIVIDE_BY_ZERO, for every dividend (op_div.cpp, op_mod.cpp). -/
theorem div_by_zero (a : Int64) :
    Num.idiv a 0 = .err Gen.EXC_RT_DIVIDE_BY_ZERO ∧ Num.imod a 0 = .err Gen.EXC_RT_DIVIDE_BY_ZERO := ⟨rfl, rfl⟩

/-- Every other pair is defined: a value is returned (never an error, never a C-level hazard), also
for `MIN / -1` and `MIN % -1`, whose C expressions would be undefined. -/
theorem div_mod_defined (a b : Int64) (hb : b ≠ 0) :
    (∃ q, Num.idiv a b = .ok q ∧ q.toInt = Spec.wrap (Int.tdiv a.toInt b.toInt)) ∧
    (∃ r, Num.imod a b = .ok r ∧ r.toInt = Spec.wrap (Int.tmod a.toInt b.toInt)) := by
  have hb' : b.toInt ≠ 0 := by
    intro h; apply hb; apply Int64.toInt_inj.mp; rw [h]; rfl
  have hd := div_spec a b
  have hm := mod_spec a b
  unfold Spec.div at hd; unfold Spec.mod at hm
  rw [if_neg hb'] at hd hm
  constructor
  · cases h : Num.idiv a b with
    | ok q => rw [h] at hd; exact ⟨q, rfl, Res.ok.inj hd⟩
    | err c x => rw [h] at hd; cases hd
    | haz x => rw [h] at hd; cases hd
    | unmodelled => rw [h] at hd; cases hd
  · cases h : Num.imod a b with
    | ok q => rw [h] at hm; exact ⟨q, rfl, Res.ok.inj hm⟩
    | err c x => rw [h] at hm; cases hm
    | haz x => rw [h] at hm; cases hm
    | unmodelled => rw [h] at hm; cases hm

example : (-9223372036854775808 : Int64) ≠ 0 ∧ (-1 : Int64) ≠ 0 := by decide
example : mapInt (Num.imod (-9223372036854775808) (-1)) = .ok 0 := by decide

/-! ### The operators as the interpreter dispatches them (`evalBin`/`evalUn`, Model/Ops.lean) -/

/-- The `Num` function each integer operator of the statement is, on two integer values. -/
def intOp : BinOp → Option (Int64 → Int64 → Res Int64)
  | .add => some fun a b => .ok (Num.iadd a b)
  | .sub => some fun a b => .ok (Num.isub a b)
  | .mul => some fun a b => .ok (Num.imul a b)
  | .div => some Num.idiv
  | .mod => some Num.imod
  | .exp => some Num.ipow
  | .and => some fun a b => .ok (Num.iand a b)
  | .ior => some fun a b => .ok (Num.ior a b)
  | .xor => some fun a b => .ok (Num.ixor a b)
  | .pop => some fun a b => .ok (Num.ishl a b)
  | .pus => some fun a b => .ok (Num.ishr a b)
  | _ => none

/-- On two integer values `+ - * / % ** & | ^ << >>` of the interpreter ARE the `Num` functions the
theorems above speak about (so those theorems are about what `evalBin`, the function the driver
executes against the C++, returns), and the result is an integer. -/
theorem evalBin_int (op : BinOp) (f : Int64 → Int64 → Res Int64) (h : intOp op = some f) (a b : Int64)
    (same : Bool) : evalBin op (.int a) (.int b) same = intRes (f a b) := by
  cases op <;> simp only [intOp, Option.some.injEq, reduceCtorEq] at h <;> subst h <;>
    first | rfl | exact bind_intRes _

/-- **Totality of the integer operators**: for all operands each of `+ - * / % ** & | ^ << >>` returns an
integer, except that DIVIDE_BY_ZERO is raised by `/` and `%` on a zero divisor and by `0 ** n` with `n < 0`;
no other error, no C-level hazard (overflow, out-of-range shift, MIN / -1), nothing unmodelled. -/
theorem int_ops_total (op : BinOp) (f : Int64 → Int64 → Res Int64) (h : intOp op = some f) (a b : Int64) :
    (∃ r, f a b = .ok r) ∨
    (f a b = .err Gen.EXC_RT_DIVIDE_BY_ZERO ∧ ((b = 0 ∧ (op = .div ∨ op = .mod)) ∨ (op = .exp ∧ a = 0 ∧ b < 0))) := by
  cases op <;> simp only [intOp, Option.some.injEq, reduceCtorEq] at h <;> subst h
  all_goals first
    | exact Or.inl ⟨_, rfl⟩
    | skip
  · unfold Num.idiv
    split
    · rename_i hb; exact Or.inr ⟨rfl, Or.inl ⟨by simpa using hb, Or.inl rfl⟩⟩
    · split <;> exact Or.inl ⟨_, rfl⟩
  · unfold Num.ipow
    split
    · rename_i hn
      split
      · rename_i ha; exact Or.inr ⟨rfl, Or.inr ⟨rfl, by simpa using ha, hn⟩⟩
      · split
        · exact Or.inl ⟨_, rfl⟩
        · split <;> exact Or.inl ⟨_, rfl⟩
    · exact Or.inl ⟨_, rfl⟩
  · unfold Num.imod
    split
    · rename_i hb; exact Or.inr ⟨rfl, Or.inl ⟨by simpa using hb, Or.inr rfl⟩⟩
    · split <;> exact Or.inl ⟨_, rfl⟩

/-- The integer operators on two operands of type integer — integers or typed nulls — yield type integer
(a value or a null), for ALL such values. -/
theorem integer_is_integer (op : BinOp) (f : Int64 → Int64 → Res Int64) (h : intOp op = some f)
    (a1 a2 v : Val) (same : Bool) (h1 : a1.type.major = .int) (h2 : a2.type.major = .int)
    (he : evalBin op a1 a2 same = .ok v) : v.type = Ty.int := by
  cases op <;> simp only [intOp, reduceCtorEq] at h <;>
    simp only [evalBin, opSub, opMul, opDiv, opExp, opMod] at he <;> first
    | exact arith_int _ _ _ _ _ _ _ h1 h2 he
    | exact bitwise_int _ _ _ _ he
    | skip
  unfold opAdd at he
  simp only at he
  split at he
  · simp [inv] at he
  · split at he
    · exfalso; simp_all
    · exfalso; simp_all
    · exfalso; simp_all
    · exact arith_int _ _ _ _ _ _ _ h1 h2 he

/-- Unary minus and `~` on an integer value. -/
theorem evalUn_int (a : Int64) :
    evalUn .neg (.int a) = .ok (.int (Num.ineg a)) ∧ evalUn .not (.int a) = .ok (.int (Num.inot a)) ∧
    evalUn .pos (.int a) = .ok (.int a) := ⟨rfl, rfl, rfl⟩

example : evalBin .exp (.int 3) (.int 39) = .ok (.int 4052555153018976267) := by
  rw [evalBin_int .exp Num.ipow rfl, show Num.ipow 3 39 = .ok 4052555153018976267 by decide]; rfl
example : evalBin .div (.int 1) (.int 0) = .err Gen.EXC_RT_DIVIDE_BY_ZERO := rfl

/-! ### An operation with a decimal operand is carried out in double precision and yields a decimal -/

/-- The arithmetic operators of the statement. -/
def isArith : BinOp → Bool
  | .add | .sub | .mul | .div | .exp | .mod => true
  | _ => false

/-- The double-precision operation each arithmetic operator applies. `Num.fadd x y = bits (f x + f y)`
etc. where `f = Float.ofBits` and `+` is Lean's `Float` addition, i.e. the C `double` operator (IEEE-754
binary64): the IEEE arithmetic itself is executed, tied bit-exactly to the C++ by the correspondence
run, not reasoned about. `/` and `%` test the divisor for ±0 first. -/
def fop : BinOp → Num.F64 → Num.F64 → Res Num.F64
  | .add => fun x y => .ok (Num.fadd x y)
  | .sub => fun x y => .ok (Num.fsub x y)
  | .mul => fun x y => .ok (Num.fmul x y)
  | .div => fdivChecked
  | .exp => fun x y => .ok (Num.fpow x y)
  | .mod => fmodChecked
  | _ => fun _ _ => .unmodelled

/-- The conversion `(double)i` applied to an integer operand of a mixed pair. -/
def toDouble (i : Int64) : Num.F64 := Num.bits i.toFloat

/-- decimal ∘ decimal: the double operation on the two payloads, result a decimal (op_*.cpp, NUMERIC×NUMERIC). -/
theorem decimal_decimal (op : BinOp) (h : isArith op = true) (x y : Num.F64) (same : Bool) :
    evalBin op (.num x) (.num y) same = numRes (fop op x y) := by
  cases op <;> first | exact absurd h (by decide) | rfl | exact bind_numRes _

/-- decimal ∘ integer: the integer is converted to double, then as above; result a decimal. -/
theorem decimal_integer (op : BinOp) (h : isArith op = true) (x : Num.F64) (y : Int64) (same : Bool) :
    evalBin op (.num x) (.int y) same = numRes (fop op x (toDouble y)) := by
  cases op <;> first | exact absurd h (by decide) | rfl | exact bind_numRes _

/-- integer ∘ decimal. -/
theorem integer_decimal (op : BinOp) (h : isArith op = true) (x : Int64) (y : Num.F64) (same : Bool) :
    evalBin op (.int x) (.num y) same = numRes (fop op (toDouble x) y) := by
  cases op <;> first | exact absurd h (by decide) | rfl | exact bind_numRes _

/-- Totality of the decimal operations: a decimal is returned except for `/` and `%` with a zero
divisor (±0.0), which raise DIVIDE_BY_ZERO; never another error, never a hazard. -/
theorem fop_total (op : BinOp) (h : isArith op = true) (x y : Num.F64) :
    fop op x y =
      if (op = .div ∨ op = .mod) ∧ Num.isZero y = true then .err Gen.EXC_RT_DIVIDE_BY_ZERO
      else .ok (match op with
        | .add => Num.fadd x y | .sub => Num.fsub x y | .mul => Num.fmul x y | .div => Num.fdiv x y
        | .exp => Num.fpow x y | _ => Num.fmod x y) := by
  cases op <;> first
    | exact absurd h (by decide)
    | rfl
    | (simp only [fop, fdivChecked, fmodChecked, true_or, or_true, true_and])

/-- Unary minus and plus of a decimal are decimals. -/
theorem evalUn_decimal (x : Num.F64) :
    evalUn .neg (.num x) = .ok (.num (Num.fneg x)) ∧ evalUn .pos (.num x) = .ok (.num x) := ⟨rfl, rfl⟩

/-- **An operation with a decimal operand yields a decimal**, at full generality: for EVERY pair of
values (nulls, typed nulls, strings, tables, tuples, … included) of which one has type decimal, whatever
`+ - * / % **` returns — a number or a null — has type decimal (level 0). (When the other operand is
not numeric nothing is returned: the operator raises.) -/
theorem mixed_is_decimal (op : BinOp) (h : isArith op = true) (a1 a2 v : Val) (same : Bool)
    (hd : a1.type.major = .num ∨ a2.type.major = .num) (he : evalBin op a1 a2 same = .ok v) :
    v.type.major = .num ∧ v.type.level = 0 := by
  cases op <;> first
    | exact absurd h (by decide)
    | (simp only [evalBin, opSub, opMul, opDiv, opExp, opMod] at he; exact arith_decimal _ _ _ _ _ _ _ hd he)
    | skip
  -- `+` has the string cells in front of the arithmetic ones
  unfold evalBin opAdd at he
  simp only at he
  split at he
  · simp [inv] at he
  · split at he
    · exfalso; simp_all
    · exfalso; simp_all
    · exfalso; simp_all
    · exact arith_decimal _ _ _ _ _ _ _ hd he

/-- The parser's static type agrees: a decimal operand with an integer or decimal one types the node decimal. -/
theorem typeBin_decimal (op : BinOp) (h : isArith op = true) (t1 t2 : Ty)
    (h1 : t1.major = .num ∨ t1.major = .int) (h2 : t2.major = .num ∨ t2.major = .int)
    (hd : t1.major = .num ∨ t2.major = .num) : typeBin op t1 t2 = Ty.num := by
  cases op <;> first
    | exact absurd h (by decide)
    | (rcases h1 with h1 | h1 <;> rcases h2 with h2 | h2 <;> simp_all [typeBin])

example : evalBin .add (.int 1) (.num 0x3ff8000000000000) = .ok (.num (Num.fadd (toDouble 1) 0x3ff8000000000000)) := rfl
example : evalBin .div (.num 0x3ff0000000000000) (.num 0x8000000000000000) = .err Gen.EXC_RT_DIVIDE_BY_ZERO := by
  rw [decimal_decimal .div rfl, fop_total .div rfl, show Num.isZero 0x8000000000000000 = true by decide]; rfl
example : evalBin .mul (.null Ty.none) (.num 0) = .ok (.null Ty.num) ∧ (Val.num 0).type.major = .num := ⟨rfl, rfl⟩

/-! ### int(decimal): succeeds exactly when the value lies in the integer range -/

/-- **`int(d)` for ALL 2^64 bit patterns** (builtin_int.cpp NUMERIC → Model/Num.lean `intOfDecimal`,
which tests sign / exponent / mantissa fields of the pattern). Against the independent specification
Spec/Float.lean — the exact value of the double `b` is `scaled b / 2^1074` —: the conversion succeeds
exactly when `b` is a number (not NaN, not ±infinity) whose value `v` satisfies −2^63 ≤ v < 2^63, and it
then returns `v` truncated toward zero, exactly; in every other case it raises OUT_OF_RANGE. It never
reaches the C-level undefined conversion (`Hazard.floatToInt`). -/
theorem int_of_decimal_spec (b : UInt64) :
    mapInt (Num.intOfDecimal b) = ofIRes (Spec.F64.intOf b.toNat) := by
  unfold Num.intOfDecimal Spec.F64.intOf
  by_cases hfin : Num.expo b = 2047
  · have e1 : decide (Num.expo b < 1086) = false := by simp [hfin]
    have e2 : (b == 0xc3e0000000000000) = false := by
      rw [eq_minTwo63_iff, ← expo_eq, hfin]; simp
    have hspec : ¬ (Spec.F64.isFinite b.toNat ∧ Spec.F64.inIntRange b.toNat) := by
      intro h; exact h.1 (by rw [← expo_eq]; exact hfin)
    rw [if_neg hspec]
    simp only [e1, e2]
    cases Num.sign b <;> cases Num.isNaN b <;> rfl
  · have hn : Num.isNaN b = false := by simp [Num.isNaN, hfin]
    have hf : Spec.F64.isFinite b.toNat := by unfold Spec.F64.isFinite; rw [← expo_eq]; exact hfin
    have hc : ((!Num.sign b || decide (Num.expo b < 1086) || b == 0xc3e0000000000000) &&
          (Num.sign b || decide (Num.expo b < 1086))) = decide (Spec.F64.inIntRange b.toNat) := by
      rw [eq_minTwo63_iff, Bool.decide_and, ← sign_eq, range_bool, sign_eq, ← Bool.decide_and, ← Bool.decide_or,
        expo_eq]
      exact (decide_eq_decide.mpr (inIntRange_iff b.toNat)).symm
    simp only [hn, Bool.not_false, Bool.true_and, hc, truncInt_eq b hfin]
    by_cases hr : Spec.F64.inIntRange b.toNat
    · have hb := trunc_bounds b.toNat hr
      simp only [hr, decide_true, Bool.not_true, Bool.false_eq_true, if_false, hf, and_self, if_true, mapInt, ofIRes]
      rw [Int64.toInt_ofInt_of_le hb.1 hb.2]
    · simp [hr, mapInt, ofIRes]

/-- The specification itself on the boundary patterns (kernel evaluation of Spec/Float.lean): 1.0 is one
unit·2^1074, the smallest subnormal is one unit; 2.5 ↦ 2; 2^63 is out of range, −2^63 is in range; +inf is rejected. -/
example :
    Spec.F64.scaled 0x3ff0000000000000 = Spec.F64.unit ∧ Spec.F64.scaled 1 = 1 ∧
    Spec.F64.trunc 0x4004000000000000 = 2 ∧ Spec.F64.trunc 0xc004000000000000 = -2 ∧
    Spec.F64.intOf 0x43e0000000000000 = .outOfRange ∧
    Spec.F64.intOf 0xc3e0000000000000 = .val (-9223372036854775808) ∧
    Spec.F64.intOf 0x7ff0000000000000 = .outOfRange := by decide +kernel

/-- The same statement in the form of Spec/Arith.lean (`Spec.intOfDecimal`: the *truncated* value lies in
the range): the two formulations coincide on doubles (`Lemmas.intOf_eq_trunc_form`). -/
theorem int_of_decimal_spec_trunc (b : UInt64) :
    mapInt (Num.intOfDecimal b) = ofIRes (Spec.intOfDecimal (Spec.F64.truncOpt b.toNat)) := by
  rw [int_of_decimal_spec, intOf_eq_trunc_form]

/-- Success case spelled out. -/
theorem int_of_decimal_ok (b : UInt64) (h : Spec.F64.isFinite b.toNat ∧ Spec.F64.inIntRange b.toNat) :
    ∃ r, Num.intOfDecimal b = .ok r ∧ r.toInt = Spec.F64.trunc b.toNat := by
  have hs := int_of_decimal_spec b
  unfold Spec.F64.intOf at hs
  rw [if_pos h] at hs
  cases hr : Num.intOfDecimal b with
  | ok r => rw [hr] at hs; exact ⟨r, rfl, Res.ok.inj hs⟩
  | err c x => rw [hr] at hs; cases hs
  | haz x => rw [hr] at hs; cases hs
  | unmodelled => rw [hr] at hs; cases hs

/-- Failure case spelled out: NaN, ±infinity and every value outside [−2^63, 2^63) raise OUT_OF_RANGE. -/
theorem int_of_decimal_out_of_range (b : UInt64)
    (h : ¬ (Spec.F64.isFinite b.toNat ∧ Spec.F64.inIntRange b.toNat)) :
    Num.intOfDecimal b = .err Gen.EXC_RT_OUT_OF_RANGE := by
  have hs := int_of_decimal_spec b
  unfold Spec.F64.intOf at hs
  rw [if_neg h] at hs
  cases hr : Num.intOfDecimal b with
  | ok r => rw [hr] at hs; cases hs
  | err c x =>
    rw [hr] at hs
    simp only [mapInt, ofIRes] at hs
    injection hs with h1 h2
    rw [h1, h2]
  | haz x => rw [hr] at hs; cases hs
  | unmodelled => rw [hr] at hs; cases hs

/-- The built-in `int(x)` applied to a decimal argument (builtin_int.cpp, case NUMERIC — Model/Builtins.lean
`biInt`, the function the driver runs) IS this conversion: an integer value on success, the error unchanged
otherwise. With `int_of_decimal_ok` / `int_of_decimal_out_of_range`: `int(d)` succeeds exactly when the value
of `d` lies in the integer range and raises OUT_OF_RANGE otherwise. -/
theorem builtin_int_decimal (d : UInt64) :
    biInt (m := Res) [pure (Val.num d)] = intRes (Num.intOfDecimal d) := by
  show (Num.intOfDecimal d >>= fun i => pure (Val.int i)) = _
  exact bind_intRes _

/-- `Value::toInteger`, the range-checked conversion the built-ins and members use for decimal
positions and counts (Model/Builtins.lean `castToInt`), is the same function. -/
theorem castToInt_eq (b : UInt64) : castToInt b = Num.intOfDecimal b := by
  by_cases h : Spec.F64.isFinite b.toNat ∧ Spec.F64.inIntRange b.toNat
  · obtain ⟨r, hr, hv⟩ := int_of_decimal_ok b h
    have hfin : Num.expo b ≠ 2047 := by rw [expo_eq]; exact h.1
    have hb := trunc_bounds b.toNat h.2
    rw [hr]
    unfold castToInt
    rw [truncInt_eq b hfin]
    simp only [hb, and_self, if_true]
    congr 1
    apply Int64.toInt_inj.mp
    rw [Int64.toInt_ofInt_of_le hb.1 hb.2, hv]
  · rw [int_of_decimal_out_of_range b h]
    unfold castToInt
    by_cases hfin : Num.expo b = 2047
    · have : Num.truncInt b = none := by simp [Num.truncInt, hfin]
      rw [this]
    · have hf : Spec.F64.isFinite b.toNat := by unfold Spec.F64.isFinite; rw [← expo_eq]; exact hfin
      have hr : ¬ Spec.F64.inIntRange b.toNat := fun x => h ⟨hf, x⟩
      rw [truncInt_eq b hfin]
      simp only [trunc_out b.toNat hr, if_false]

/-- Non-vacuity on the boundary patterns: 2^63 is out of range, −2^63 and the largest double below 2^63
are in range, 2.5 and −2.5 truncate toward zero, NaN / ±inf are rejected. -/
example :
    Num.intOfDecimal 0x43e0000000000000 = .err Gen.EXC_RT_OUT_OF_RANGE ∧
    mapInt (Num.intOfDecimal 0xc3e0000000000000) = .ok (-9223372036854775808) ∧
    mapInt (Num.intOfDecimal 0x43dfffffffffffff) = .ok 9223372036854774784 ∧
    mapInt (Num.intOfDecimal 0x4004000000000000) = .ok 2 ∧
    mapInt (Num.intOfDecimal 0xc004000000000000) = .ok (-2) ∧
    Num.intOfDecimal 0x7ff8000000000000 = .err Gen.EXC_RT_OUT_OF_RANGE ∧
    Num.intOfDecimal 0xfff0000000000000 = .err Gen.EXC_RT_OUT_OF_RANGE := by decide

end BlocV.C03
