/-
  C03 — integer and decimal arithmetic is total and follows the manual for all operands.

  Property theorems only (helper lemmas: Proofs/Lemmas/Int64.lean). Each theorem relates the model
  (`BlocV.Num.*`, the transcription of blocc/operator/op_*.cpp and builtin_int.cpp) to the spec
  (`BlocV.Spec.*`, mathematical integers) for ALL operands. `x.toInt` is the mathematical value of an
  Int64. Every theorem is followed by an `example` showing its statement is not vacuous.
-/
import BlocV.Proofs.Lemmas.Int64

namespace BlocV.C03
open BlocV BlocV.Lemmas

/-! ### + − * unary− : exact result reduced modulo 2^64, for all operands -/

theorem add_exact (a b : Int64) : (Num.iadd a b).toInt = Spec.add a.toInt b.toInt := by
  simp [Num.iadd, Spec.add, Spec.wrap, Int64.toInt_add]

theorem sub_exact (a b : Int64) : (Num.isub a b).toInt = Spec.sub a.toInt b.toInt := by
  simp [Num.isub, Spec.sub, Spec.wrap, Int64.toInt_sub]

theorem mul_exact (a b : Int64) : (Num.imul a b).toInt = Spec.mul a.toInt b.toInt := by
  simp [Num.imul, Spec.mul, Spec.wrap, Int64.toInt_mul]

theorem neg_exact (a : Int64) : (Num.ineg a).toInt = Spec.neg a.toInt := by
  simp [Num.ineg, Spec.neg, Spec.wrap]

example : (Num.iadd 9223372036854775807 1).toInt = -9223372036854775808 := by decide
example : (Num.imul (-9223372036854775808) (-1)).toInt = -9223372036854775808 := by decide

/-! ### / and % : truncate toward zero, DIVIDE_BY_ZERO on a zero divisor, defined for every other pair -/

/-- What the spec's result means for the model's outcome type. -/
def ofIRes : Spec.IRes → Res Int
  | .val z => .ok z
  | .divideByZero => .err Gen.EXC_RT_DIVIDE_BY_ZERO
  | .outOfRange => .err Gen.EXC_RT_OUT_OF_RANGE

def mapInt : Res Int64 → Res Int
  | .ok r => .ok r.toInt
  | .err c a => .err c a
  | .haz h => .haz h
  | .unmodelled => .unmodelled

theorem div_spec (a b : Int64) : mapInt (Num.idiv a b) = ofIRes (Spec.div a.toInt b.toInt) := by
  unfold Num.idiv Spec.div
  by_cases hb : b = 0
  · subst hb; simp [mapInt, ofIRes]
  · have hb' : b.toInt ≠ 0 := by
      intro h; apply hb; apply Int64.toInt_inj.mp; rw [h]; rfl
    simp only [beq_iff_eq, hb, if_false, hb']
    by_cases h1 : b = -1
    · subst h1
      have : (-1 : Int64).toInt = -1 := by decide
      simp only [if_true, mapInt, ofIRes, this]
      congr 1
      rw [Int64.toInt_sub]
      simp [Spec.wrap]
    · simp only [h1, if_false, mapInt, ofIRes]
      congr 1
      rw [Int64.toInt_div]; rfl

theorem mod_spec (a b : Int64) : mapInt (Num.imod a b) = ofIRes (Spec.mod a.toInt b.toInt) := by
  unfold Num.imod Spec.mod
  by_cases hb : b = 0
  · subst hb; simp [mapInt, ofIRes]
  · have hb' : b.toInt ≠ 0 := by
      intro h; apply hb; apply Int64.toInt_inj.mp; rw [h]; rfl
    simp only [beq_iff_eq, hb, if_false, hb']
    have hw : ∀ (x y : Int64), Spec.wrap (x.toInt.tmod y.toInt) = x.toInt.tmod y.toInt := by
      intro x y
      rw [← Int64.toInt_mod]
      unfold Spec.wrap
      have := Int64.le_toInt (x % y); have := Int64.toInt_lt (x % y)
      rw [Int.bmod_eq_of_le] <;> omega
    by_cases h1 : b = -1
    · subst h1
      have : (-1 : Int64).toInt = -1 := by decide
      simp only [if_true, mapInt, ofIRes, this]
      congr 1
      simp [Spec.wrap]
    · simp only [h1, if_false, mapInt, ofIRes]
      congr 1
      rw [hw, Int64.toInt_mod]

/-- Totality: `/` and `%` never reach a C-level hazard. -/
theorem div_mod_no_hazard (a b : Int64) : (Num.idiv a b).isHazard = false ∧ (Num.imod a b).isHazard = false := by
  unfold Num.idiv Num.imod
  constructor
  · split
    · rfl
    · split <;> rfl
  · split
    · rfl
    · split <;> rfl

example : mapInt (Num.idiv (-9223372036854775808) (-1)) = .ok (-9223372036854775808) := by decide
example : mapInt (Num.imod (-7) 2) = .ok (-1) := by decide
example : Num.idiv 1 0 = .err Gen.EXC_RT_DIVIDE_BY_ZERO := by decide

/-! ### << >> : zero fill, negative displacement reverses, |displacement| ≥ 64 gives 0 -/

theorem shl_spec (a n : Int64) : (Num.ishl a n).toInt = Spec.shl a.toInt n.toInt := by
  unfold Num.ishl Spec.shl
  have c1 : (n ≥ 64) ↔ n.toInt ≥ 64 := ge_iff n 64
  have c2 : (n ≤ -64) ↔ n.toInt ≤ -64 := le_iff n (-64)
  have c3 : (n ≥ 0) ↔ n.toInt ≥ 0 := ge_iff n 0
  simp only [c1, c2, c3]
  split
  · rfl
  · split
    · rename_i h0
      rw [toInt_toInt64, UInt64.toNat_shiftLeft, pattern_toInt, toNat_toUInt64_of_nonneg n h0]
      have : n.toInt.toNat % 64 = n.toInt.toNat := by omega
      rw [this, Nat.shiftLeft_eq]
    · rw [toInt_toInt64, UInt64.toNat_shiftRight, pattern_toInt]
      have hneg : (0 - n).toInt = -n.toInt := toInt_zero_sub n (by omega)
      have h1 : 0 ≤ (0 - n).toInt := by omega
      rw [toNat_toUInt64_of_nonneg _ h1, hneg]
      have : (-n.toInt).toNat % 64 = (-n.toInt).toNat := by omega
      rw [this, Nat.shiftRight_eq_div_pow]

theorem shr_spec (a n : Int64) : (Num.ishr a n).toInt = Spec.shr a.toInt n.toInt := by
  unfold Num.ishr Spec.shr
  have c1 : (n ≥ 64) ↔ n.toInt ≥ 64 := ge_iff n 64
  have c2 : (n ≤ -64) ↔ n.toInt ≤ -64 := le_iff n (-64)
  have c3 : (n ≥ 0) ↔ n.toInt ≥ 0 := ge_iff n 0
  simp only [c1, c2, c3]
  split
  · rfl
  · split
    · rename_i h0
      rw [toInt_toInt64, UInt64.toNat_shiftRight, pattern_toInt, toNat_toUInt64_of_nonneg n h0]
      have : n.toInt.toNat % 64 = n.toInt.toNat := by omega
      rw [this, Nat.shiftRight_eq_div_pow]
    · rw [toInt_toInt64, UInt64.toNat_shiftLeft, pattern_toInt]
      have hneg : (0 - n).toInt = -n.toInt := toInt_zero_sub n (by omega)
      have h1 : 0 ≤ (0 - n).toInt := by omega
      rw [toNat_toUInt64_of_nonneg _ h1, hneg]
      have : (-n.toInt).toNat % 64 = (-n.toInt).toNat := by omega
      rw [this, Nat.shiftLeft_eq]

example : (Num.ishl 1 64).toInt = 0 ∧ (Num.ishr (-1) 1).toInt = 9223372036854775807
    ∧ (Num.ishl 1 (-1)).toInt = 0 ∧ (Num.ishl 4 (-1)).toInt = 2 := by decide

/-! ### ** : exact power modulo 2^64 for every base and every non-negative exponent -/

theorem pow_exact (a n : Int64) (hn : 0 ≤ n.toInt) :
    mapInt (Num.ipow a n) = .ok (Spec.pow a.toInt n.toInt.toNat) := by
  unfold Num.ipow
  have hlt : ¬ (n < 0) := by
    rw [Int64.lt_iff_toInt_lt]; show ¬ n.toInt < 0; omega
  simp only [hlt, if_false, mapInt]
  congr 1
  rw [toInt_toInt64, powLoop_spec 64 1 a.toUInt64 n.toUInt64 (by have := n.toUInt64.toNat_lt; omega)]
  rw [toNat_toUInt64_of_nonneg n hn]
  unfold Spec.pow Spec.wrap
  have hpat : (a.toUInt64.toNat : Int) = a.toInt % 2 ^ 64 := by
    rw [← pattern_toInt]; unfold Spec.pattern
    apply Int.toNat_of_nonneg
    apply Int.emod_nonneg; decide
  have h2 : ((2:Int) ^ 64) = ((2 ^ 64 : Nat) : Int) := by norm_cast
  simp only [UInt64.toNat_one, Nat.one_mul]
  rw [Int.natCast_emod, Int.natCast_pow, hpat]
  rw [show ((2 ^ 64 : Nat) : Int) = (2:Int) ^ 64 from h2.symm]
  rw [pow_emod, h2, Int.emod_bmod]

/-- Totality for every exponent: no C-level hazard (a negative exponent with base 0 raises DIVIDE_BY_ZERO). -/
theorem pow_no_hazard (a n : Int64) : (Num.ipow a n).isHazard = false := by
  unfold Num.ipow
  split
  · split
    · rfl
    · split
      · rfl
      · split <;> rfl
  · rfl

example : mapInt (Num.ipow 3 39) = .ok 4052555153018976267 := by decide
example : (0 : Int) ≤ (39 : Int64).toInt := by decide

/-! ### & | ^ ~ act on all 64 bits -/

theorem and_bitwise (a b : Int64) : (Num.iand a b).toInt = Spec.band a.toInt b.toInt := by
  unfold Num.iand Spec.band
  rw [pattern_toInt, pattern_toInt, ← UInt64.toNat_and, ← Int64.toUInt64_and]
  have := toInt_toInt64 (a &&& b).toUInt64
  simpa using this

theorem or_bitwise (a b : Int64) : (Num.ior a b).toInt = Spec.bor a.toInt b.toInt := by
  unfold Num.ior Spec.bor
  rw [pattern_toInt, pattern_toInt, ← UInt64.toNat_or, ← Int64.toUInt64_or]
  have := toInt_toInt64 (a ||| b).toUInt64
  simpa using this

theorem xor_bitwise (a b : Int64) : (Num.ixor a b).toInt = Spec.bxor a.toInt b.toInt := by
  unfold Num.ixor Spec.bxor
  rw [pattern_toInt, pattern_toInt, ← UInt64.toNat_xor, ← Int64.toUInt64_xor]
  have := toInt_toInt64 (a ^^^ b).toUInt64
  simpa using this

example : (Num.iand (-1) 255).toInt = 255 ∧ (Num.ixor (-1) 1).toInt = -2 := by decide

end BlocV.C03
