/-
  C02 — the type fixed at compile time is the type produced at run time.
  Property theorems only (operators; the built-in table and the statement-level consequences are
  tied by the correspondence).
-/
import BlocV.Model.Typing

namespace BlocV.C02
open BlocV

theorem boolRes_type (r : Res Bool) (v : Val) (h : boolRes r = .ok v) : v.type = Ty.bool := by
  cases r <;> simp [boolRes] at h
  subst h; rfl

/-- Relational operators: statically boolean, and every value they produce — for ALL operands,
null or not, of any type — is a boolean or a boolean-typed null. -/
theorem rel_type_sound (op : BinOp) (hop : op = .eq ∨ op = .ne ∨ op = .lt ∨ op = .le ∨ op = .gt ∨ op = .ge)
    (a b v : Val) (same : Bool) (h : evalBin op a b same = .ok v) :
    v.type = typeBin op a.type b.type := by
  have hty : typeBin op a.type b.type = Ty.bool := by
    rcases hop with rfl | rfl | rfl | rfl | rfl | rfl <;> rfl
  rw [hty]
  rcases hop with rfl | rfl | rfl | rfl | rfl | rfl <;>
    simp only [evalBin, opEq, opNe, opLt, opLe, opGt, opGe, ordered] at h <;>
    (split at h
     · cases h; rfl
     · exact boolRes_type _ _ h)

/-- `+x` and `-x` keep the operand's type, whatever it is (`type()` returns `arg1->type(ctx)`). -/
theorem pos_type_sound (a v : Val) (h : evalUn .pos a = .ok v) : v.type = typeUn .pos a.type := by
  unfold evalUn at h
  split at h
  · exact absurd h (by simp [inv])
  · split at h
    all_goals first
      | (rename_i heq _; exact absurd heq (by decide))
      | (rename_i heq; exact absurd heq (by decide))
      | (cases h; rfl)
      | (exact absurd h (by simp [inv]))

end BlocV.C02
