/-
  C02 — the type fixed at compile time is the type produced at run time.

  Property theorems about the operator nodes (the built-in table and the statement-level consequences are tied by
  the correspondence). Model: `typeBin`/`typeUn`/`acceptBin`/`acceptUn` of Model/Typing.lean (the `type()` methods of
  blocc/operator/op_*.cpp and the `assertType` calls of parse_expression.cpp) against `evalBin`/`evalUn` of
  Model/Ops.lean (the `value()` methods). Helper lemmas: Proofs/Lemmas/OpsCases.lean.

  Every theorem quantifies over ALL operand values. Where the property is false for the code (and hence the model),
  the exact region is a decidable predicate (`binTypeGap`, `acceptGap`, `acceptGapUn`), the theorem is `…_partial`,
  the negation is proved at concrete witnesses (`…_fails`) and, for the type rule, everywhere in the region
  (`bin_type_gap_exact`).
-/
import BlocV.Proofs.Lemmas.OpsCases
import BlocV.Proofs.Lemmas.BuiltinCases
import BlocV.Proofs.Lemmas.Typing
import BlocV.Proofs.Lemmas.TypeSound
import BlocV.Model.Stepwise
import BlocV.Proofs.Lemmas.SafetyFlags
import BlocV.KF.C02

namespace BlocV.C02
open BlocV Num

theorem boolRes_type (r : Res Bool) (v : Val) (h : boolRes r = .ok v) : v.type = Ty.bool := by
  cases r <;> simp [boolRes] at h
  subst h; rfl

/-- Relational operators: statically boolean, and every value they produce — for ALL operands,
null or not, of any type — is a boolean or a boolean-typed null. -/
theorem rel_type_sound (op : BinOp) (hop : op = .eq ∨ op = .ne ∨ op = .lt ∨ op = .le ∨ op = .gt ∨ op = .ge)
    (a b v : Val) (same : Bool) (h : evalBin op a b same = .ok v) :
    v.type = typeBin op a.type b.type := by
  have hty : typeBin op a.type b.type = Ty.bool := by
    rcases hop with rfl | rfl | rfl | rfl | rfl | rfl <;> rfl
  rw [hty]
  rcases hop with rfl | rfl | rfl | rfl | rfl | rfl <;>
    simp only [evalBin, opEq, opNe, opLt, opLe, opGt, opGe, ordered] at h <;>
    (split at h
     · cases h; rfl
     · exact boolRes_type _ _ h)

/-- `+x` and `-x` keep the operand's type, whatever it is (`type()` returns `arg1->type(ctx)`). -/
theorem pos_type_sound (a v : Val) (h : evalUn .pos a = .ok v) : v.type = typeUn .pos a.type :=
  evalUn_negpos_type .pos (Or.inr rfl) a v h

/-! ### binary operators: the static type rule against the run-time type, for ALL operands

`s1 s2` are the operand types the parser knows: the operand's own type or the opaque type (`Ty.defined` false),
as for a variable of unknown type or a call of an untyped function. `typeBin` is `OpXXXExpression::type()`. -/

/-- The region in which the static rule of `- * / ** %` is contradicted at run time (blocc/operator/op_sub.cpp …
`type()` against `value()`), in terms of the operands' static majors `s1 s2` and run-time majors `t1 t2`:
* the value is an integer (both operands integer, or an integer and an untyped null) while the parser, not seeing
  two integer operands, has typed the node decimal;
* `null % null` is an untyped null under static type decimal;
* the value is a complex null (`null - c`) while no operand is statically complex.
Outside `- * / ** %` the region is empty. -/
def binTypeGap (op : BinOp) (s1 s2 t1 t2 : Ty) : Bool := binTypeGapM op s1.major s2.major t1.major t2.major

/-- Whatever an operator returns has level 0 and exactly the major the static rule announced, whenever the static
type is defined and the operands are outside `binTypeGap`; inside `binTypeGap` the major is always a different one.
For ALL operand values (no well-formedness needed), every operator, every static knowledge of the operands. -/
theorem bin_kind_sound_static (op : BinOp) (s1 s2 : Ty) (a b v : Val) (same : Bool)
    (hs1 : s1.major = a.type.major ∨ s1.major = .none) (hs2 : s2.major = b.type.major ∨ s2.major = .none)
    (h : evalBin op a b same = .ok v) (hd : (typeBin op s1 s2).defined = true) :
    v.type.level = (typeBin op s1 s2).level ∧
    (if binTypeGap op s1 s2 a.type b.type = true then v.type.major ≠ (typeBin op s1 s2).major
     else v.type.major = (typeBin op s1 s2).major) := by
  obtain ⟨hl, hm, hc⟩ := evalBin_ok_kind op a b same v h
  obtain ⟨o1, e1⟩ := static_major_cases s1 a.type.major hs1
  obtain ⟨o2, e2⟩ := static_major_cases s2 b.type.major hs2
  have et := typeBin_static op s1 s2 o1 o2 _ _ e1 e2
  have := typeTable_spec op a.type.major b.type.major o1 o2 hc (et ▸ hd)
  refine ⟨by rw [hl, (typeBin_plain op s1 s2).2.1], ?_⟩
  unfold binTypeGap
  rw [e1, e2, et, hm]
  split
  · rename_i hg; rw [if_pos hg] at this; exact fun h => this h.symm
  · rename_i hg; rw [if_neg hg] at this; exact this.symm

/-- Results of operators on well-formed operands are well-formed. -/
theorem evalBin_ok_wf (op : BinOp) (a b v : Val) (same : Bool) (ha : a.wf = true) (hb : b.wf = true)
    (h : evalBin op a b same = .ok v) : v.wf = true :=
  (evalBin_prov op a b same v h).wf ha hb

/-- **Static type = run-time type, binary operators** (all 20), outside the recorded gap: if the node's static type
is defined, every value the node evaluates to has exactly that type (major, minor and level). `Val.wf` is the
representation invariant of `bloc::Value` (only object/tuple types carry a minor; a table value has a table type). -/
theorem bin_type_sound_static_partial (op : BinOp) (s1 s2 : Ty) (a b v : Val) (same : Bool)
    (ha : a.wf = true) (hb : b.wf = true)
    (hs1 : s1.major = a.type.major ∨ s1.major = .none) (hs2 : s2.major = b.type.major ∨ s2.major = .none)
    (h : evalBin op a b same = .ok v) (hd : (typeBin op s1 s2).defined = true)
    (hg : binTypeGap op s1 s2 a.type b.type = false) : v.type = typeBin op s1 s2 := by
  obtain ⟨hl, hm⟩ := bin_kind_sound_static op s1 s2 a b v same hs1 hs2 h hd
  rw [hg] at hm
  simp only [Bool.false_eq_true, ↓reduceIte] at hm
  have hw := evalBin_ok_wf op a b v same ha hb h
  obtain ⟨p1, p2, p3, p4⟩ := typeBin_plain op s1 s2
  have hmin : v.type.minor = 0 := by
    unfold Val.wf Ty.minorOk at hw
    simp only [Bool.and_eq_true, Bool.or_eq_true, beq_iff_eq] at hw
    rcases hw.2 with (h' | h') | h'
    · exact absurd (hm ▸ h') p3
    · exact absurd (hm ▸ h') p4
    · exact h'
  cases hv : v.type with
  | mk ma mi le =>
    cases ht : typeBin op s1 s2 with
    | mk ma' mi' le' =>
      rw [hv] at hl hm hmin
      rw [ht] at hl hm p1
      simp only at hl hm hmin p1
      subst hl hm hmin p1
      rfl

/-- The instance asked for in the property text: the parser knows both operand types exactly. -/
theorem bin_type_sound_partial (op : BinOp) (a b v : Val) (same : Bool) (ha : a.wf = true) (hb : b.wf = true)
    (h : evalBin op a b same = .ok v) (hd : (typeBin op a.type b.type).defined = true)
    (hg : binTypeGap op a.type b.type a.type b.type = false) : v.type = typeBin op a.type b.type :=
  bin_type_sound_static_partial op a.type b.type a b v same ha hb (Or.inl rfl) (Or.inl rfl) h hd hg

/-- For `+`, the bitwise operators and shifts, the relational and the logical operators (15 of the 20) the gap is
empty: the full statement holds, also when operand types are opaque to the parser. -/
theorem bin_type_sound (op : BinOp) (hop : op ≠ .sub ∧ op ≠ .mul ∧ op ≠ .div ∧ op ≠ .exp ∧ op ≠ .mod)
    (s1 s2 : Ty) (a b v : Val) (same : Bool) (ha : a.wf = true) (hb : b.wf = true)
    (hs1 : s1.major = a.type.major ∨ s1.major = .none) (hs2 : s2.major = b.type.major ∨ s2.major = .none)
    (h : evalBin op a b same = .ok v) (hd : (typeBin op s1 s2).defined = true) : v.type = typeBin op s1 s2 := by
  apply bin_type_sound_static_partial op s1 s2 a b v same ha hb hs1 hs2 h hd
  obtain ⟨h1, h2, h3, h4, h5⟩ := hop
  cases op <;> first | rfl | contradiction

example : evalBin .add (.null Ty.none) (.num 0x4004000000000000) = .ok (.null Ty.num) ∧
    typeBin .add Ty.none Ty.num = Ty.num ∧ (typeBin .add Ty.none Ty.num).defined = true := ⟨rfl, rfl, rfl⟩
example : evalBin .add (.str [97]) (.null Ty.str) = .ok (.str [97]) ∧ typeBin .add Ty.str Ty.str = Ty.str := ⟨rfl, rfl⟩
example : evalBin .bior (.null Ty.bool) (.bool false) = .ok (.null Ty.bool) := rfl
example : (Val.null Ty.none).wf = true ∧ (Val.str [97]).wf = true ∧ (Val.tup [Ty.int] [.int 1]).wf = true := ⟨rfl, rfl, rfl⟩
example : binTypeGap .sub Ty.int Ty.int Ty.int Ty.int = false ∧ binTypeGap .sub Ty.num Ty.none Ty.num Ty.none = false := ⟨rfl, rfl⟩

/-- **The full statement is false for `- * / ** %`** (model and C++ alike; witnesses run on the pinned build, see
NOTES-p0102): `null - 1` has static type decimal and evaluates to an integer null; `null % null` has static type
decimal and evaluates to an untyped null; with an opaque first operand holding 5, `x - 3` has static type decimal
and evaluates to the integer 2. -/
theorem bin_type_sound_fails :
    (evalBin .sub (.null Ty.none) (.int 1) = .ok (.null Ty.int) ∧ typeBin .sub Ty.none Ty.int = Ty.num ∧
      (typeBin .sub Ty.none Ty.int).defined = true) ∧
    (evalBin .mod (.null Ty.none) (.null Ty.none) = .ok (.null Ty.none) ∧ typeBin .mod Ty.none Ty.none = Ty.num) ∧
    (evalBin .sub (.int 5) (.int 3) = .ok (.int 2) ∧ typeBin .sub Ty.none Ty.int = Ty.num) :=
  ⟨⟨rfl, rfl, rfl⟩, ⟨rfl, rfl⟩, ⟨rfl, rfl⟩⟩

/-- The gap is exact: inside it EVERY value the operator returns contradicts the static type. -/
theorem bin_type_gap_exact (op : BinOp) (s1 s2 : Ty) (a b v : Val) (same : Bool)
    (hs1 : s1.major = a.type.major ∨ s1.major = .none) (hs2 : s2.major = b.type.major ∨ s2.major = .none)
    (h : evalBin op a b same = .ok v) (hd : (typeBin op s1 s2).defined = true)
    (hg : binTypeGap op s1 s2 a.type b.type = true) : v.type ≠ typeBin op s1 s2 := by
  have := (bin_kind_sound_static op s1 s2 a b v same hs1 hs2 h hd).2
  rw [if_pos hg] at this
  exact fun e => this (by rw [e])

example : binTypeGap .sub Ty.none Ty.int Ty.none Ty.int = true ∧ binTypeGap .mod Ty.none Ty.none Ty.none Ty.none = true ∧
    binTypeGap .sub Ty.none Ty.int Ty.int Ty.int = true := ⟨rfl, rfl, rfl⟩

/-! ### unary operators -/

/-- **Static type = run-time type, unary operators**: `-x`, `+x` return exactly the operand's type (for every operand,
no hypothesis); `~x` is an integer, `not x` a boolean. -/
theorem un_type_sound (op : UnOp) (a v : Val) (ha : a.wf = true) (h : evalUn op a = .ok v) :
    v.type = typeUn op a.type := by
  by_cases hop : op = .neg ∨ op = .pos
  · rcases hop with rfl | rfl
    · exact evalUn_negpos_type .neg (Or.inl rfl) a v h
    · exact evalUn_negpos_type .pos (Or.inr rfl) a v h
  · obtain ⟨hl, hm⟩ := evalUn_ok_kind op a v h
    have hw : v.wf = true := by
      rcases evalUn_prov op a v h with rfl | hf
      · exact ha
      · exact fresh_wf hf
    have hmin : v.type.minor = 0 := by
      unfold Val.wf Ty.minorOk at hw
      simp only [Bool.and_eq_true, Bool.or_eq_true, beq_iff_eq] at hw
      rcases hw.2 with (h' | h') | h'
      · rw [hm] at h'; cases op <;> simp_all [typeUn, Ty.int, Ty.bool]
      · rw [hm] at h'; cases op <;> simp_all [typeUn, Ty.int, Ty.bool]
      · exact h'
    cases hv : v.type with
    | mk ma mi le =>
      rw [hv] at hl hm hmin
      simp only at hl hm hmin
      subst hl hm hmin
      cases op <;> simp_all [typeUn, Ty.int, Ty.bool]

/-- Without the invariant: level and major, for every operand value whatsoever. -/
theorem un_kind_sound (op : UnOp) (a v : Val) (h : evalUn op a = .ok v) :
    v.type.level = 0 ∧ v.type.major = (typeUn op a.type).major := evalUn_ok_kind op a v h

example : evalUn .not (.null Ty.none) = .ok (.null Ty.int) ∧ typeUn .not Ty.none = Ty.int := ⟨rfl, rfl⟩
example : evalUn .neg (.null Ty.num) = .ok (.null Ty.num) := rfl


/-! ### static acceptance and run-time type errors -/

/-- The run-time errors that are type errors: "invalid expression" raised by an operator's `value()` for a cell it
has no case for, and the typed accessors' "not an integer / decimal / boolean / string / bytes". -/
def typeErrCodes : List Nat :=
  [Gen.EXC_RT_INV_EXPRESSION, Gen.EXC_RT_NOT_NUMERIC, Gen.EXC_RT_NOT_INTEGER, Gen.EXC_RT_NOT_BOOLEAN,
   Gen.EXC_RT_NOT_LITERAL, Gen.EXC_RT_NOT_TABCHAR]

/-- Operand types the parser accepts (`acceptBin`) although the operator's `value()` has no case for them:
* `+` accepts any two operands of equal type — booleans, bytes, tuples, objects, tables — and has cases only for
  numbers, strings and untyped nulls at level 0;
* `%` accepts a complex operand (`typeChecking(…, NUMERIC)`) and has no complex case;
* `< <= > >=` accept tables of equal type and number-with-complex, and read the operands through the integer /
  decimal / string accessors. -/
def acceptGap (op : BinOp) (t1 t2 : Ty) : Bool :=
  match op with
  | .add => !(t1.level == 0 && t2.level == 0 && addCell t1.major t2.major)
  | .mod => t1.major == .imag || t2.major == .imag
  | .lt | .le | .gt | .ge => !(t1.level == 0 && t2.level == 0 && (t2.major == .none || ordCell t1.major t2.major))
  | _ => false

/-- **Static acceptance means no run-time TYPE error** (outside `acceptGap`): when the parser accepts the operand
types and the values have exactly those types, the only BLOC error a binary operator can raise is DIVIDE_BY_ZERO.
For all 20 operators and ALL well-formed operand values. -/
theorem accept_implies_no_type_error_partial (op : BinOp) (a b : Val) (same : Bool)
    (ha : a.tabOk = true) (hb : b.tabOk = true) (hpa : a.type.noOpaqueTable = true) (hpb : b.type.noOpaqueTable = true)
    (hacc : acceptBin op a.type b.type = true) (hg : acceptGap op a.type b.type = false) :
    ∀ c x, evalBin op a b same = .err c x → c = Gen.EXC_RT_DIVIDE_BY_ZERO := by
  have num2 : ∀ {t1 t2 : Ty}, (typeChecking t2 Ty.num && typeChecking t1 Ty.num) = true → t1.noOpaqueTable = true →
      t2.noOpaqueTable = true → (t1.level = 0 ∧ (t1.major = .none ∨ t1.major = .int ∨ t1.major = .num ∨ t1.major = .imag)) ∧
      (t2.level = 0 ∧ (t2.major = .none ∨ t2.major = .int ∨ t2.major = .num ∨ t2.major = .imag)) := by
    intro t1 t2 h p1 p2
    simp only [Bool.and_eq_true] at h
    exact ⟨typeChecking_num h.2 p1, typeChecking_num h.1 p2⟩
  have imagT : ∀ {t : Ty}, (t.major = .none ∨ t.major = .int ∨ t.major = .num ∨ t.major = .imag) →
      (t.major = .none ∨ t.major = .int ∨ t.major = .num ∨ (true = true ∧ t.major = .imag)) := by
    intro t h; rcases h with h | h | h | h <;> simp [h]
  have int2 : ∀ {t1 t2 : Ty}, (typeUniform t2 Ty.int && typeUniform t1 Ty.int) = true → t1.noOpaqueTable = true →
      t2.noOpaqueTable = true → (t1.level = 0 ∧ (t1.major = .none ∨ t1.major = .int)) ∧ (t2.level = 0 ∧ (t2.major = .none ∨ t2.major = .int)) := by
    intro t1 t2 h p1 p2
    simp only [Bool.and_eq_true] at h
    exact ⟨typeUniform_int h.2 p1, typeUniform_int h.1 p2⟩
  have bool2 : ∀ {t1 t2 : Ty}, (typeChecking t2 Ty.bool && typeChecking t1 Ty.bool) = true → t1.noOpaqueTable = true →
      t2.noOpaqueTable = true → (t1.level = 0 ∧ (t1.major = .none ∨ t1.major = .bool)) ∧ (t2.level = 0 ∧ (t2.major = .none ∨ t2.major = .bool)) := by
    intro t1 t2 h p1 p2
    simp only [Bool.and_eq_true] at h
    exact ⟨typeChecking_bool h.2 p1, typeChecking_bool h.1 p2⟩
  have ord : ∀ ci cf cs, acceptGap .lt a.type b.type = false → Res.errP isDbz (ordered ci cf cs a b) := by
    intro ci cf cs hg
    obtain ⟨l1, l2, hc⟩ := ordGap_false hg
    refine ordered_errP isDbz ci cf cs a b ha hb l1 l2 (fun n1 n2 => ?_)
    rcases hc with hc | hc
    · exact absurd hc (nonnull_major_ne_none hb hpb n2)
    · exact hc
  show Res.errP isDbz (evalBin op a b same)
  cases op
  case add =>
    simp only [acceptGap, Bool.not_eq_eq_eq_not, Bool.not_false, Bool.and_eq_true, beq_iff_eq] at hg
    exact opAdd_errP isDbz a b ha hb hg.1.1 hg.1.2 hg.2
  case sub =>
    obtain ⟨⟨l1, m1⟩, ⟨l2, m2⟩⟩ := num2 hacc hpa hpb
    exact arith_errP isDbz Ty.num (fun x y => .ok (isub x y)) (fun x y => .ok (fsub x y)) true a b
      (fun _ _ => errP_ok) (fun _ _ => errP_ok) ha hb l1 l2 (imagT m1) (imagT m2)
  case mul =>
    obtain ⟨⟨l1, m1⟩, ⟨l2, m2⟩⟩ := num2 hacc hpa hpb
    exact arith_errP isDbz Ty.num (fun x y => .ok (imul x y)) (fun x y => .ok (fmul x y)) true a b
      (fun _ _ => errP_ok) (fun _ _ => errP_ok) ha hb l1 l2 (imagT m1) (imagT m2)
  case div =>
    obtain ⟨⟨l1, m1⟩, ⟨l2, m2⟩⟩ := num2 hacc hpa hpb
    exact arith_errP isDbz Ty.num idiv fdivChecked true a b idiv_errP fdivChecked_errP ha hb l1 l2 (imagT m1) (imagT m2)
  case exp =>
    obtain ⟨⟨l1, m1⟩, ⟨l2, m2⟩⟩ := num2 hacc hpa hpb
    exact arith_errP isDbz Ty.num ipow (fun x y => .ok (fpow x y)) true a b ipow_errP (fun _ _ => errP_ok) ha hb l1 l2
      (imagT m1) (imagT m2)
  case mod =>
    obtain ⟨⟨l1, m1⟩, ⟨l2, m2⟩⟩ := num2 hacc hpa hpb
    simp only [acceptGap, Bool.or_eq_false_iff, beq_eq_false_iff_ne, ne_eq] at hg
    refine arith_errP isDbz Ty.none imod fmodChecked false a b imod_errP fmodChecked_errP ha hb l1 l2 ?_ ?_
    · rcases m1 with h | h | h | h <;> simp [h]; exact hg.1 h
    · rcases m2 with h | h | h | h <;> simp [h]; exact hg.2 h
  case and => obtain ⟨⟨l1, m1⟩, ⟨l2, m2⟩⟩ := int2 hacc hpa hpb; exact bitwise_errP isDbz _ a b ha hb l1 l2 m1 m2
  case ior => obtain ⟨⟨l1, m1⟩, ⟨l2, m2⟩⟩ := int2 hacc hpa hpb; exact bitwise_errP isDbz _ a b ha hb l1 l2 m1 m2
  case xor => obtain ⟨⟨l1, m1⟩, ⟨l2, m2⟩⟩ := int2 hacc hpa hpb; exact bitwise_errP isDbz _ a b ha hb l1 l2 m1 m2
  case pop => obtain ⟨⟨l1, m1⟩, ⟨l2, m2⟩⟩ := int2 hacc hpa hpb; exact bitwise_errP isDbz _ a b ha hb l1 l2 m1 m2
  case pus => obtain ⟨⟨l1, m1⟩, ⟨l2, m2⟩⟩ := int2 hacc hpa hpb; exact bitwise_errP isDbz _ a b ha hb l1 l2 m1 m2
  case eq =>
    intro c x hv
    rcases opEq_total same a b with ⟨w, h, _⟩ | h <;> simp only [evalBin, h] at hv <;> cases hv
  case ne =>
    intro c x hv
    rcases opNe_total same a b with ⟨w, h, _⟩ | h <;> simp only [evalBin, h] at hv <;> cases hv
  case lt => exact ord _ _ _ hg
  case le => exact ord _ _ _ hg
  case gt => exact ord _ _ _ hg
  case ge => exact ord _ _ _ hg
  case band =>
    obtain ⟨⟨l1, m1⟩, ⟨l2, m2⟩⟩ := bool2 hacc hpa hpb
    exact opBand_errP isDbz a (fun _ => .ok b) l1 m1 errP_ok (okP_ok ⟨l2, m2⟩)
  case bior =>
    obtain ⟨⟨l1, m1⟩, ⟨l2, m2⟩⟩ := bool2 hacc hpa hpb
    exact opBior_errP isDbz a (fun _ => .ok b) l1 m1 errP_ok (okP_ok ⟨l2, m2⟩)
  case bxor =>
    obtain ⟨⟨l1, m1⟩, ⟨l2, m2⟩⟩ := bool2 hacc hpa hpb
    exact opBxor_errP isDbz a b l1 l2 m1 m2

/-- In particular none of the type-error codes. -/
theorem accept_implies_no_type_error_codes (op : BinOp) (a b : Val) (same : Bool)
    (ha : a.tabOk = true) (hb : b.tabOk = true) (hpa : a.type.noOpaqueTable = true) (hpb : b.type.noOpaqueTable = true)
    (hacc : acceptBin op a.type b.type = true) (hg : acceptGap op a.type b.type = false) (c : Nat) (x : Bytes)
    (h : evalBin op a b same = .err c x) : c ∉ typeErrCodes := by
  rw [accept_implies_no_type_error_partial op a b same ha hb hpa hpb hacc hg c x h]
  decide

example : acceptBin .div Ty.int Ty.num = true ∧ acceptGap .div Ty.int Ty.num = false ∧
    evalBin .div (.int 1) (.num 0) = .err Gen.EXC_RT_DIVIDE_BY_ZERO := ⟨rfl, rfl, rfl⟩
example : acceptBin .lt Ty.str Ty.none = true ∧ acceptGap .lt Ty.str Ty.none = false := ⟨rfl, rfl⟩

/-- **The full statement is false** (model and C++ alike; each witness run on the pinned build, see NOTES-p0102):
the parser accepts `true + false`, `t < t` for two integer tables, `5 % ii` and `5 < ii`, and each raises a type
error at run time (INV_EXPRESSION, NOT_INTEGER, INV_EXPRESSION, NOT_INTEGER). -/
theorem accept_implies_no_type_error_fails :
    (acceptBin .add Ty.bool Ty.bool = true ∧ evalBin .add (.bool true) (.bool false) = .err Gen.EXC_RT_INV_EXPRESSION) ∧
    (acceptBin .lt { major := .int, level := 1 } { major := .int, level := 1 } = true ∧
      evalBin .lt (.tab { major := .int, level := 1 } [] [.int 1]) (.tab { major := .int, level := 1 } [] [.int 1])
        = .err Gen.EXC_RT_NOT_INTEGER) ∧
    (acceptBin .mod Ty.int Ty.imag = true ∧ evalBin .mod (.int 5) (.imag 0 0x3ff0000000000000) = .err Gen.EXC_RT_INV_EXPRESSION) ∧
    (acceptBin .lt Ty.int Ty.imag = true ∧ evalBin .lt (.int 5) (.imag 0 0x3ff0000000000000) = .err Gen.EXC_RT_NOT_INTEGER) :=
  ⟨⟨rfl, rfl⟩, ⟨rfl, rfl⟩, ⟨rfl, rfl⟩, ⟨rfl, rfl⟩⟩

/-- `~x` is accepted for a decimal or complex operand (`assertType(…, NUMERIC)`), op_not.cpp has integer cases only. -/
def acceptGapUn (op : UnOp) (t : Ty) : Bool :=
  match op with
  | .not => t.major == .num || t.major == .imag
  | _ => false

/-- Unary operators: statically accepted operand types (outside `acceptGapUn`) raise NO run-time error at all. -/
theorem accept_un_implies_no_error_partial (op : UnOp) (a : Val) (hp : a.type.noOpaqueTable = true)
    (hacc : acceptUn op a.type = true) (hg : acceptGapUn op a.type = false) :
    ∀ c x, evalUn op a ≠ .err c x := by
  have key : Res.errP (fun _ => False) (evalUn op a) := by
    cases op
    case bnot =>
      obtain ⟨l, m⟩ := typeChecking_bool hacc hp
      exact evalUn_errP _ .bnot a l (by rcases m with h | h <;> simp [unCell, h])
    case neg =>
      obtain ⟨l, m⟩ := typeChecking_num hacc hp
      exact evalUn_errP _ .neg a l (by rcases m with h | h | h | h <;> simp [unCell, h])
    case pos =>
      obtain ⟨l, m⟩ := typeChecking_num hacc hp
      exact evalUn_errP _ .pos a l (by rcases m with h | h | h | h <;> simp [unCell, h])
    case not =>
      obtain ⟨l, m⟩ := typeChecking_num hacc hp
      simp only [acceptGapUn, Bool.or_eq_false_iff, beq_eq_false_iff_ne, ne_eq] at hg
      exact evalUn_errP _ .not a l (by rcases m with h | h | h | h <;> simp_all [unCell])
  exact fun c x h => key c x h

theorem accept_un_implies_no_error_fails :
    acceptUn .not Ty.num = true ∧ evalUn .not (.num 0x4004000000000000) = .err Gen.EXC_RT_INV_EXPRESSION := ⟨rfl, rfl⟩

example : acceptUn .neg Ty.num = true ∧ acceptGapUn .neg Ty.num = false ∧ Ty.num.noOpaqueTable = true := ⟨rfl, rfl, rfl⟩


/-! ### built-in functions with a constant static type -/

/-- The built-ins covered by `builtin_type_sound_partial` (string / bytes / conversion family of
blocc/builtin/builtin_*.cpp whose header declares a constant result type). -/
def typedBuiltins : List String :=
  ["trim", "ltrim", "rtrim", "upper", "lower", "strlen", "chr", "str", "int", "hash", "strpos", "replace", "raw",
   "lsubstr", "rsubstr", "b64enc"]

/-- **Static type = run-time type, built-ins**: for each of the 16 built-ins of `typedBuiltins`, ANY number of
arguments, each any computation whose value (if any) is a well-formed level-0 value: whatever the built-in returns has
exactly the type its header announces (`Gen.builtinTypes`, extracted from the C++). -/
theorem builtin_type_sound_partial (fmt : F64 → Bytes) (name : String) (args : List (Res Val)) (r : Res Val) (v : Val) (t : Ty)
    (hn : name ∈ typedBuiltins) (h : ArgsTy args) (hr : evalBuiltin (m := Res) fmt name args = some r) (hv : r = .ok v)
    (ht : builtinStaticTy name = some t) : v.type = t := by
  simp only [typedBuiltins, List.mem_cons, List.mem_nil_iff, or_false] at hn
  rcases hn with rfl | rfl | rfl | rfl | rfl | rfl | rfl | rfl | rfl | rfl | rfl | rfl | rfl | rfl | rfl | rfl
  all_goals
    simp only [evalBuiltin, Option.some.injEq] at hr
    subst hr
  · have e : builtinStaticTy "trim" = some Ty.str := by decide
    rw [e] at ht; cases ht; exact strMap_type _ args h v hv
  · have e : builtinStaticTy "ltrim" = some Ty.str := by decide
    rw [e] at ht; cases ht; exact strMap_type _ args h v hv
  · have e : builtinStaticTy "rtrim" = some Ty.str := by decide
    rw [e] at ht; cases ht; exact strMap_type _ args h v hv
  · have e : builtinStaticTy "upper" = some Ty.str := by decide
    rw [e] at ht; cases ht; exact strMap_type _ args h v hv
  · have e : builtinStaticTy "lower" = some Ty.str := by decide
    rw [e] at ht; cases ht; exact strMap_type _ args h v hv
  · have e : builtinStaticTy "strlen" = some Ty.int := by decide
    rw [e] at ht; cases ht; exact biStrlen_type args h v hv
  · have e : builtinStaticTy "chr" = some Ty.str := by decide
    rw [e] at ht; cases ht; exact biChr_type args h v hv
  · have e : builtinStaticTy "str" = some Ty.str := by decide
    rw [e] at ht; cases ht; exact biStr_type fmt args h v hv
  · have e : builtinStaticTy "int" = some Ty.int := by decide
    rw [e] at ht; cases ht; exact biInt_type args h v hv
  · have e : builtinStaticTy "hash" = some Ty.int := by decide
    rw [e] at ht; cases ht; exact biHash_type args h v hv
  · have e : builtinStaticTy "strpos" = some Ty.int := by decide
    rw [e] at ht; cases ht; exact biStrpos_type args h v hv
  · have e : builtinStaticTy "replace" = some Ty.str := by decide
    rw [e] at ht; cases ht; exact biReplace_type args h v hv
  · have e : builtinStaticTy "raw" = some Ty.raw := by decide
    rw [e] at ht; cases ht; exact biRaw_type args h v hv
  · have e : builtinStaticTy "lsubstr" = some Ty.str := by decide
    rw [e] at ht; cases ht; exact lrSubstr_type _ args h v hv
  · have e : builtinStaticTy "rsubstr" = some Ty.str := by decide
    rw [e] at ht; cases ht; exact lrSubstr_type _ args h v hv
  · have e : builtinStaticTy "b64enc" = some Ty.str := by decide
    rw [e] at ht; cases ht; exact b64enc_type args h v hv

example : evalBuiltin (m := Res) (fun _ => []) "strlen" [.ok (.str [97, 98])] = some (.ok (.int 2)) ∧
    builtinStaticTy "strlen" = some Ty.int ∧ ArgsTy [.ok (.str [97, 98])] := by
  refine ⟨rfl, by decide, ?_⟩
  intro t ht v hv
  simp only [List.mem_cons, List.mem_nil_iff, or_false] at ht
  subst ht; cases hv; exact ⟨rfl, rfl⟩

/-- **False for `b64dec`** (known finding C02.static_vs_runtime.bity.b64dec): the header says bytes, a null argument
yields a null string. And false without the level-0 hypothesis: `lsubstr` of a table of strings with a null count
returns the table (known finding …bity.lsubstr). -/
theorem builtin_type_sound_fails :
    (evalBuiltin (m := Res) (fun _ => []) "b64dec" [.ok (.null Ty.str)] = some (.ok (.null Ty.str)) ∧
      builtinStaticTy "b64dec" = some Ty.raw) ∧
    (evalBuiltin (m := Res) (fun _ => []) "lsubstr" [.ok (.tab tabStrTy [] [.str [97]]), .ok (.null Ty.int)]
        = some (.ok (.tab tabStrTy [] [.str [97]])) ∧ builtinStaticTy "lsubstr" = some Ty.str) :=
  ⟨⟨rfl, by decide⟩, ⟨rfl, by decide⟩⟩


/-! ## Program level (task C02FE)

### The front end: the model runs the text the library runs

`Elab.elabProgram` (Model/Elab.lean) translates the parser model's trees into interpreter programs; the driver command
`src` runs a source text through Lex → Parse → Elab → Safety → `runProgram`, and the check compares that run with the
library's run of the same bytes and with the model's run of the generator's S-expression (vlib/fe.py). The theorems below
tie the two renderings inside Lean as far as Proofs/C12.lean goes: expressions of the operator core, assignments, DO
statements, and whole programs made of those. As in C12 they speak about the TOKENS of the unparsed text (`toksExpr`,
`toksProg`); that the bytes scan to those tokens is evaluated (example below, and `lex=1` of the C12 check). -/

open BlocV.Parse BlocV.Unparse BlocV.Roundtrip BlocV.Elab BlocV.C02L BlocV.C12L in
/-- The front end forgets parentheses: a tree and the tree read back from its text (`norm`) are the same interpreter
expression — for ALL node kinds (calls, members, items included). -/
theorem elab_forgets_parens (e : PExpr) : elabExpr (norm e) = elabExpr e := elab_norm e

open BlocV.Parse BlocV.Unparse BlocV.Roundtrip BlocV.Elab BlocV.C02L BlocV.C12L in
/-- **Expressions: text → parse → elab = elab.** For every well-formed tree in the parser's image (ALL node kinds since C12's
`expr_roundtrip` dropped its `core` hypothesis), parsing
the tokens of its unparsed text gives a tree with the same elaboration (hence the same value, output, errors and
variables in every state, for every fuel: it IS the same `Expr`). -/
theorem src_roundtrip_expr (e : PExpr) (hwf : wf e = true)
    (t : Tok) (ts : List Tok) (hstop : Stops 9 t) (hvar : endsVar e = true → t.code ≠ cLP)
    (f : Nat) (hf : 16 * esize e + 13 ≤ f) :
    ∃ e', pExpr f (toksExpr e ++ t :: ts) = .ok (e', t :: ts) ∧ elabExpr e' = elabExpr e :=
  ⟨norm e, C12.expr_roundtrip e hwf t ts hstop hvar f hf, elab_norm e⟩

open BlocV.Parse BlocV.Unparse BlocV.Roundtrip BlocV.Elab BlocV.C02L BlocV.C12L in
/-- **Programs: `elabProgram (parse (tokens (unparseProgram p)))` = `elabProgram p`** for every program `p` made of
assignments `NAME = e;` and DO statements `do e;` whose expressions are in the domain of C12's round trip (`SStmt.ok`),
of ANY length, for every sufficient parser fuel. -/
theorem src_roundtrip_program_partial (ss : List SStmt) (hok : ∀ s ∈ ss, s.ok = true) (f : Nat) (hf : need ss ≤ f) :
    ∃ p', pProgram f (toksProg ss) = .ok p' ∧ elabProgram p' = elabProgram (ss.map SStmt.toP) :=
  ⟨_, pProgram_simple ss hok f hf, elabProgram_normS ss⟩
/- Full statement (not proved): the same for every `p : List PStmt` the parser can build (IF / WHILE / FOR / FORALL /
BEGIN / FUNCTION / RETURN / PRINT / RAISE, calls, members, items). Missing: statement-level round-trip lemmas for the block
statements in Proofs/C12.lean (it has them for LET, chained LET and DO only) and `expr_roundtrip` beyond the operator core.
It is FALSE on C12's recorded regions (wrapped integer literals, 17-digit decimals, fused print items); the
correspondence covers the generator's whole language instead: model(text) = model(S-expression) on every program. -/

open BlocV.Parse BlocV.Unparse BlocV.Roundtrip BlocV.Elab BlocV.C02L BlocV.C12L in
/-- …so the program read back RUNS identically: same outcome, output and final variables, from every initial state. -/
theorem src_roundtrip_runs (ss : List SStmt) (hok : ∀ s ∈ ss, s.ok = true) (f : Nat) (hf : need ss ≤ f)
    (fuel : Nat) (init : St) :
    ∃ p', pProgram f (toksProg ss) = .ok p' ∧
      (elabProgram p').map (fun prog => (runProgram fuel prog init).outcome) =
        (elabProgram (ss.map SStmt.toP)).map (fun prog => (runProgram fuel prog init).outcome) ∧
      (elabProgram p').map (fun prog => (runProgram fuel prog init).st.output) =
        (elabProgram (ss.map SStmt.toP)).map (fun prog => (runProgram fuel prog init).st.output) ∧
      (elabProgram p').map (fun prog => (runProgram fuel prog init).st.vars) =
        (elabProgram (ss.map SStmt.toP)).map (fun prog => (runProgram fuel prog init).st.vars) := by
  obtain ⟨p', h1, h2⟩ := src_roundtrip_program_partial ss hok f hf
  exact ⟨p', h1, by rw [h2], by rw [h2], by rw [h2]⟩

/-- `A = 1 + B * 2; do -A power 2; B = (A < 3) and not true;` — in the domain, not a fixed point of `norm` -/
def exProg : List C02L.SStmt :=
  [.letS (Parse.bytesOf "A") (.bin .add false (.int 1) (.bin .mul false (.var (Parse.bytesOf "B")) (.int 2))),
   .doS C12.exDoNeg,
   .letS (Parse.bytesOf "B") (.bin .band false (.bin .lt true (.var (Parse.bytesOf "A")) (.int 3)) (.un .bnot false (.kw (Parse.bytesOf "true"))))]

example : (∀ s ∈ exProg, s.ok = true) ∧ C02L.need exProg ≤ 200 := by decide +kernel
/-- the BYTES `Executable::unparse` writes for it scan (lexer model) to the tokens the theorem speaks about -/
example : Parse.tokensOf (Unparse.unparseProgram (exProg.map C02L.SStmt.toP)) = C02L.toksProg exProg := by decide +kernel
example : (Elab.elabProgram (exProg.map C02L.SStmt.toP)).toOption.isSome = true := by decide +kernel

/-! ### `$`-qualified variables and loop iterators keep their kind (Model/Safety.lean)

`Safety.checkList` is the parser's walk over a statement list: every `registerSymbol` in text order under
`Symbol::check_safety`, with the iterator of each FOR / FORALL protected while its body is compiled (`prot`). -/

open BlocV.Safety BlocV.C02L in
/-- **A protected symbol keeps its kind through everything the parser accepts.** For every statement list (any nesting of
IF / WHILE / FOR / FORALL / BEGIN, any expressions, calls of any functions `funcs`), every symbol table `t`, every set
`prot` of iterators protected from outside: if the walk accepts the list, then each symbol that is `$`-named or in `prot`
and known before is still known after, and its type is of the same kind — at level 0 the SAME MAJOR; a table is still a
table. `_partial`: the full statement (same major at every level) is false for tables, see `safety_table_major_fails`. -/
theorem safety_preserves_major_partial (funcs : List Func) (fuel : Nat) (prot : List String) (t t' : SymTab) (ss : List Stmt)
    (h : checkList funcs fuel prot t ss = .ok t') (m : String) (hs : isSafe prot m = true) (cur : Ty)
    (hc : curOf t m = some cur) : ∃ cur', curOf t' m = some cur' ∧ sameKind cur cur' = true :=
  foldE_keeps _ (fun a s b => checkStmt_keeps funcs fuel prot a b s) ss t t' h m hs cur hc

open BlocV.Safety BlocV.C02L in
/-- The reading of the property text: a `$` variable / iterator of a non-table type keeps exactly its major type (and
stays a non-table) for as long as the constraint is active. -/
theorem safety_preserves_major (funcs : List Func) (fuel : Nat) (prot : List String) (t t' : SymTab) (ss : List Stmt)
    (h : checkList funcs fuel prot t ss = .ok t') (m : String) (hs : isSafe prot m = true) (cur : Ty)
    (hc : curOf t m = some cur) (h0 : cur.level = 0) :
    ∃ cur', curOf t' m = some cur' ∧ cur'.major = cur.major ∧ cur'.level = 0 := by
  obtain ⟨cur', e, k⟩ := safety_preserves_major_partial funcs fuel prot t t' ss h m hs cur hc
  refine ⟨cur', e, ?_⟩
  unfold sameKind at k
  simp only [Bool.or_eq_true, Bool.and_eq_true, beq_iff_eq, decide_eq_true_eq] at k
  rcases k with ⟨⟨_, l2⟩, hm⟩ | ⟨l1, _⟩
  · exact ⟨hm.symm, l2⟩
  · omega

open BlocV.Safety BlocV.C02L in
/-- The iterator of a loop is protected inside the body whatever its name: a FOR statement is accepted only if its whole
body keeps the iterator an integer (level 0, major integer). -/
theorem for_iterator_keeps_integer (funcs : List Func) (fuel : Nat) (prot : List String) (t1 t' : SymTab)
    (v : String) (body : List Stmt) (hv : curOf t1 v = some Ty.int)
    (h : checkList funcs fuel (v :: prot) t1 body = .ok t') :
    ∃ cur', curOf t' v = some cur' ∧ cur'.major = .int ∧ cur'.level = 0 := by
  have hs : isSafe (v :: prot) v = true := by simp [isSafe]
  exact safety_preserves_major funcs fuel (v :: prot) t1 t' body h v hs Ty.int hv rfl

open BlocV.Safety BlocV.C02L in
/-- Run time (`Context::storeVariable`): whatever is stored into a constrained symbol, the symbol's type afterwards is of the
same kind as before — for ALL symbol types, stored values and new values. -/
theorem store_preserves_major (sym cur new sym' : Ty) (h : storeCheck sym true cur new = .ok sym') :
    sameKind sym sym' = true := by
  unfold storeCheck at h
  split at h
  · cases h; exact sameKind_refl _
  · split at h
    · cases h
    · rename_i hko
      cases h
      apply checkSafety_sameKind
      intro hk
      simp [hk] at hko

open BlocV.Safety in
example : storeCheck Ty.int true Ty.int Ty.str = .err Gen.EXC_RT_TYPE_MISMATCH_S ∧
    storeCheck Ty.int true Ty.int (Ty.int) = .ok Ty.int ∧ storeCheck Ty.int false Ty.int Ty.str = .ok Ty.str := by decide

open BlocV.Safety in
/-- hypotheses satisfiable, non-trivially: `$Q = 1; for K in 1 to 2 loop $Q = 2; K = 3; end loop;` is accepted and `$Q`, `K` stay
integers; `$Q = 1; $Q = "s";` and `for K in 1 to 2 loop K = 2.5; end loop;` are refused with TYPE_MISMATCH. -/
example :
    (checkList [] 10 [] [] [.letS "$Q" (.lit (.int 1)),
        .forS "K" (.lit (.int 1)) (.lit (.int 2)) none .auto [.letS "$Q" (.lit (.int 2)), .letS "K" (.lit (.int 3))]]).toOption.map
      (fun t => (curOf t "$Q", curOf t "K")) = some (some Ty.int, some Ty.int) ∧
    checkProgram [.letS "$Q" (.lit (.int 1)), .letS "$Q" (.lit (.str [115]))] = some Gen.EXC_PARSE_TYPE_MISMATCH_S ∧
    checkProgram [.forS "K" (.lit (.int 1)) (.lit (.int 2)) none .auto [.letS "K" (.lit (.num 0x4004000000000000))]]
      = some Gen.EXC_PARSE_TYPE_MISMATCH_S ∧
    checkProgram [.forS "K" (.lit (.int 1)) (.lit (.int 2)) none .auto [.nop], .letS "K" (.lit (.str [115]))] = none := by
  decide +kernel

open BlocV.Safety in
/-- **The full statement — a constrained symbol keeps its MAJOR type — is false for tables** (model and C++ alike;
finding C02.safety_table_major_changes, witness run on the pinned build): `Symbol::check_safety` lets a protected table
become any other table, so `$T = tab(2, 1); $T = tab(1, "a");` is accepted and `$T` goes from a table of integers to a
table of strings. -/
theorem safety_table_major_fails :
    checkSafety { major := .int, level := 1 } { major := .str, level := 1 } = .upg ∧
    sameKind { major := .int, level := 1 } { major := .str, level := 1 } = true ∧
    checkProgram [.letS "$T" (.call "tab" [.lit (.int 2), .lit (.int 1)]),
                  .letS "$T" (.call "tab" [.lit (.int 1), .lit (.str [97])])] = none ∧
    (checkList [] 10 [] [] [.letS "$T" (.call "tab" [.lit (.int 2), .lit (.int 1)])]).toOption.bind (curOf · "$T")
      = some { major := .int, level := 1 } ∧
    (checkList [] 10 [] [] [.letS "$T" (.call "tab" [.lit (.int 2), .lit (.int 1)]),
                            .letS "$T" (.call "tab" [.lit (.int 1), .lit (.str [97])])]).toOption.bind (curOf · "$T")
      = some { major := .str, level := 1 } := by
  decide +kernel


/-! ### Expressions: the static type of the whole tree is the type of every value it evaluates to

`typeOfExpr` (Model/Interp.lean) is `Expression::type()` in parsing mode over the symbol table `tab`; `eval` is
`Expression::value()`. Fragment (`C02T.opFrag`): literals, variables, the 4 unary and all 20 binary operators, lazy `and` /
`or` included, nested to any depth. Excluded, exactly: evaluations that pass through the recorded gap region of `- * / ** %`
at a node they really evaluate (`C02T.gapHit`, the run-time trace of `binTypeGap`; inside it the node's value contradicts
its static type, `bin_type_gap_exact`). -/

theorem defined_or_none (t : Ty) : t.defined = true ∨ t.major = .none := by
  unfold Ty.defined
  by_cases h : t.major = .none
  · exact Or.inr h
  · exact Or.inl (by simpa using h)

open BlocV.C02T BlocV.Lemmas in
/-- **Static type = run-time type, whole expressions.** For every expression of the fragment, every symbol table, every store
that agrees with it (`StoreOk`), every evaluation fuel and typing depth: if the evaluation yields a value without passing
through `binTypeGap`, and the parser's type of the expression is defined (non-opaque), the value has EXACTLY that type
(major, minor, level). By induction over the evaluation; the node steps are `un_type_sound` and
`bin_type_sound_static_partial`.
`_partial`: the full statement (all of `Expr`) leaves out built-in calls (16 have the node theorem
`builtin_type_sound_partial`; missing is the transfer of the monad-generic built-in bodies from `Res` to `EvalM`), members, and
functor calls (FALSE there: the declared return type is not enforced). Inside `gapHit` it is false:
`expr_type_sound_fails`. -/
theorem expr_type_sound_partial (funcs : List Func) (tab : List (String × Ty)) (depth : Nat) :
    ∀ (fuel : Nat) (e : Expr) (tf : Nat) (s s' : St) (v : Val), opFrag e = true → litsWf e = true → StoreOk tab s →
      gapHit funcs tab depth fuel tf e s = false → eval funcs depth fuel e s = (.ok v, s') →
      (typeOfExpr funcs tab tf e).defined = true → v.type = typeOfExpr funcs tab tf e
  | 0, e, tf, s, s', v, _, _, _, _, h, _ => by rw [eval_zero] at h; cases h
  | fuel + 1, e, 0, s, s', v, _, _, _, _, _, hd => by simp [typeOfExpr, Ty.defined, Ty.none] at hd
  | fuel + 1, e, tf + 1, s, s', v, hfr, hl, hs, hg, h, hd => by
    have ih := expr_type_sound_partial funcs tab depth fuel
    have pure_ := eval_frag_pure funcs depth tab fuel
    cases e
    case lit v0 =>
      rw [eval_lit] at h; cases h
      simp [typeOfExpr]
    case var n =>
      rw [eval_var] at h
      have hr : readVar s n = .ok (lookupVar s.vars n) := by simp [readVar, hs.noIter]
      rw [hr] at h; cases h
      simp only [typeOfExpr] at hd ⊢
      cases hf : (tab.find? (·.1 == n)).map (·.2) with
      | none => rw [hf] at hd; simp [Ty.defined, Ty.none] at hd
      | some t => rw [hf] at hd; exact hs.typed n t hf hd
    case un op a =>
      rw [eval_un] at h
      obtain ⟨va, s1, ha, hk⟩ := andThen_ok h
      simp only [opFrag] at hfr
      simp only [litsWf] at hl
      obtain ⟨rfl, hwa⟩ := pure_ a s s1 va hfr hl hs ha
      simp only [Prod.mk.injEq] at hk
      obtain ⟨hv, _⟩ := hk
      simp only [gapHit] at hg
      have hnode := un_type_sound op va v hwa hv
      simp only [typeOfExpr] at hd ⊢
      rw [hnode]
      cases op
      case neg => simp only [typeUn] at hd ⊢; exact ih a tf _ _ va hfr hl hs hg ha hd
      case pos => simp only [typeUn] at hd ⊢; exact ih a tf _ _ va hfr hl hs hg ha hd
      case not => rfl
      case bnot => rfl
    case bin op a b =>
      simp only [opFrag, Bool.and_eq_true] at hfr
      simp only [litsWf, Bool.and_eq_true] at hl
      simp only [typeOfExpr] at hd ⊢
      -- what the induction gives for an operand that was evaluated
      have operand : ∀ (x : Expr) (vx : Val), opFrag x = true → litsWf x = true → gapHit funcs tab depth fuel tf x s = false →
          eval funcs depth fuel x s = (.ok vx, s) →
          (typeOfExpr funcs tab tf x).major = vx.type.major ∨ (typeOfExpr funcs tab tf x).major = .none := by
        intro x vx h1 h2 h3 h4
        rcases defined_or_none (typeOfExpr funcs tab tf x) with hdx | hn
        · exact Or.inl (by rw [ih x tf s s vx h1 h2 hs h3 h4 hdx])
        · exact Or.inr hn
      by_cases hb : op = .band
      · subst hb
        rw [eval_band] at h
        obtain ⟨va, s1, ha, hk⟩ := andThen_ok h
        obtain ⟨rfl, hwa⟩ := pure_ a s s1 va hfr.1 hl.1 hs ha
        simp only [gapHit, okVal, ha, Bool.or_eq_false_iff] at hg
        have hs1 := operand a va hfr.1 hl.1 hg.1 ha
        by_cases hforced : forcedBand va = true
        · rw [if_pos hforced] at hk
          obtain ⟨vb, s2, hb, hk2⟩ := andThen_ok hk
          obtain ⟨rfl, hwb⟩ := pure_ b s1 s2 vb hfr.2 hl.2 hs hb
          simp only [Prod.mk.injEq] at hk2
          have hg2 := hg.2
          simp [hforced, okVal, hb] at hg2
          have hs2 := operand b vb hfr.2 hl.2 hg2.1 hb
          exact bin_type_sound .band (by decide) _ _ va vb v false hwa hwb hs1 hs2 hk2.1 hd
        · rw [if_neg hforced] at hk
          simp only [Prod.mk.injEq] at hk
          have := bin_type_sound .band (by decide) (typeOfExpr funcs tab tf a) Ty.none va (.null Ty.none) v false hwa rfl hs1
            (Or.inr rfl) hk.1 rfl
          rw [this]; rfl
      · by_cases ho : op = .bior
        · subst ho
          rw [eval_bior] at h
          obtain ⟨va, s1, ha, hk⟩ := andThen_ok h
          obtain ⟨rfl, hwa⟩ := pure_ a s s1 va hfr.1 hl.1 hs ha
          simp only [gapHit, okVal, ha, Bool.or_eq_false_iff] at hg
          have hs1 := operand a va hfr.1 hl.1 hg.1 ha
          by_cases hforced : forcedBior va = true
          · rw [if_pos hforced] at hk
            obtain ⟨vb, s2, hb', hk2⟩ := andThen_ok hk
            obtain ⟨rfl, hwb⟩ := pure_ b s1 s2 vb hfr.2 hl.2 hs hb'
            simp only [Prod.mk.injEq] at hk2
            have hg2 := hg.2
            simp [hforced, okVal, hb'] at hg2
            have hs2 := operand b vb hfr.2 hl.2 hg2.1 hb'
            exact bin_type_sound .bior (by decide) _ _ va vb v false hwa hwb hs1 hs2 hk2.1 hd
          · rw [if_neg hforced] at hk
            simp only [Prod.mk.injEq] at hk
            have := bin_type_sound .bior (by decide) (typeOfExpr funcs tab tf a) Ty.none va (.null Ty.none) v false hwa rfl hs1
              (Or.inr rfl) hk.1 rfl
            rw [this]; rfl
        · rw [eval_bin funcs depth fuel op hb ho] at h
          obtain ⟨va, s1, ha, hk⟩ := andThen_ok h
          obtain ⟨rfl, hwa⟩ := pure_ a s s1 va hfr.1 hl.1 hs ha
          obtain ⟨vb, s2, hb', hk2⟩ := andThen_ok hk
          obtain ⟨rfl, hwb⟩ := pure_ b s1 s2 vb hfr.2 hl.2 hs hb'
          simp only [Prod.mk.injEq] at hk2
          have hnb : (op == BinOp.band) = false := by simpa using hb
          have hno : (op == BinOp.bior) = false := by simpa using ho
          simp only [gapHit, okVal, ha, hb', hnb, hno, Bool.false_and, Bool.or_self, Bool.false_eq_true, if_false,
            Bool.or_eq_false_iff] at hg
          have hs1 := operand a va hfr.1 hl.1 hg.1 ha
          have hs2 := operand b vb hfr.2 hl.2 hg.2.1 hb'
          exact bin_type_sound_static_partial op _ _ va vb v _ hwa hwb hs1 hs2 hk2.1 hd hg.2.2
    all_goals simp [opFrag] at hfr

def exTsTab : List (String × Ty) := [("X", Ty.int), ("B", Ty.bool)]
def exTsSt : St := { vars := [("X", .int 5), ("B", .null Ty.bool)] }
/-- `(X + 2) * 3 < 10 and not B` -/
def exTsExpr : Expr :=
  .bin .band (.bin .lt (.bin .mul (.bin .add (.var "X") (.lit (.int 2))) (.lit (.int 3))) (.lit (.int 10))) (.un .bnot (.var "B"))

open BlocV.C02T in
/-- hypotheses satisfiable, non-trivially: X an integer, B a boolean null; the value is the boolean `false` -/
example : opFrag exTsExpr = true ∧ litsWf exTsExpr = true ∧ gapHit [] exTsTab 0 20 20 exTsExpr exTsSt = false ∧
    typeOfExpr [] exTsTab 20 exTsExpr = Ty.bool ∧ (okVal (eval [] 0 20 exTsExpr exTsSt)).map (fun v => (v == Val.bool false, v.type)) = some (true, Ty.bool) := by
  decide +kernel

def exGapTab : List (String × Ty) := [("X", Ty.none)]
def exGapSt : St := { vars := [("X", .int 5)] }
def exGapExpr : Expr := .bin .sub (.var "X") (.lit (.int 3))

open BlocV.C02T in
/-- **Inside the excluded region the statement is false** (the recorded gap, at expression-tree level): with `X` opaque to the
parser and holding the integer 5, `X - 3` has the defined static type decimal and evaluates to the integer 2; `gapHit` is
exactly what flags it. -/
theorem expr_type_sound_fails :
    opFrag exGapExpr = true ∧ litsWf exGapExpr = true ∧ gapHit [] exGapTab 0 5 5 exGapExpr exGapSt = true ∧
      typeOfExpr [] exGapTab 5 exGapExpr = Ty.num ∧ (okVal (eval [] 0 5 exGapExpr exGapSt)).map (fun v => (v == Val.int 2, v.type)) = some (true, Ty.int) := by
  decide +kernel


/-! ### One unit vs one statement at a time (Model/Stepwise.lean)

`Stepwise.runBatch` compiles the whole text against the symbol table the parser derives from the TEXT and runs it;
`Stepwise.runStepwise` compiles each top-level statement against the table of the CURRENT values, runs it, and goes on. Both
are executed against the library on every generated program (`src` / `srcstep` vs probe ops `prog` / `step`). -/

open BlocV.C02T BlocV.Stepwise in
/-- The static type of an operator-fragment expression depends only on the table entries of the variables it reads. -/
theorem typeOf_stable (funcs : List Func) (t1 t2 : List (String × Ty)) : ∀ (f : Nat) (e : Expr), opFrag e = true →
    (∀ n ∈ varsOf e, t1.find? (·.1 == n) = t2.find? (·.1 == n)) → typeOfExpr funcs t1 f e = typeOfExpr funcs t2 f e
  | 0, e, _, _ => by simp [typeOfExpr]
  | f + 1, e, hfr, h => by
    have ih := typeOf_stable funcs t1 t2 f
    cases e
    case lit v => simp [typeOfExpr]
    case var n => simp only [typeOfExpr]; rw [h n (by simp [varsOf])]
    case un op a =>
      simp only [opFrag] at hfr
      simp only [typeOfExpr]; rw [ih a hfr (fun n hn => h n (by simpa [varsOf] using hn))]
    case bin op a b =>
      simp only [opFrag, Bool.and_eq_true] at hfr
      simp only [typeOfExpr]
      rw [ih a hfr.1 (fun n hn => h n (by simp [varsOf, hn])), ih b hfr.2 (fun n hn => h n (by simp [varsOf, hn]))]
    all_goals simp [opFrag] at hfr

open BlocV.C02T BlocV.Stepwise in
/-- **One unit and statement-at-a-time compile an expression alike wherever they see the same symbols.** For every expression
of the operator fragment and any two symbol tables — `t1` the one `Parser::parse` has built from the text so far, `t2` the one
of the current values — that agree on the variables the expression reads: same static type, same verdict (accepted, or the same
ParseError). Hence a statement can be accepted as one unit and refused statement by statement (or vice versa) only if it reads
a symbol whose static type differs from the type of the value it holds — with the type-soundness theorems above: a symbol that
is OPAQUE to the parser (function declared `return undefined`, untyped parameter, `null`) or lies in a recorded gap region.
`_partial`: the full statement "`runBatch` ends without error ⇒ `runStepwise` gives the same output, without error" is FALSE
(`stepwise_eq_batch_fails`); for programs outside that region, not proved is the execution half — that the typed-null slots
`runProgram` creates up front for symbols of LATER statements (`mainDecls`) are never read before their statement is compiled
(a frame property of the whole mutual interpreter). The correspondence runs both runners against the library instead. -/
theorem stepwise_eq_batch_partial (funcs : List Func) (t1 t2 : List (String × Ty)) : ∀ (f : Nat) (e : Expr), opFrag e = true →
    (∀ n ∈ varsOf e, t1.find? (·.1 == n) = t2.find? (·.1 == n)) →
    typeOfExpr funcs t1 100 e = typeOfExpr funcs t2 100 e ∧ acceptExpr funcs t1 f e = acceptExpr funcs t2 f e
  | 0, e, hfr, h => ⟨typeOf_stable funcs t1 t2 100 e hfr h, by simp [acceptExpr]⟩
  | f + 1, e, hfr, h => by
    refine ⟨typeOf_stable funcs t1 t2 100 e hfr h, ?_⟩
    have ih := stepwise_eq_batch_partial funcs t1 t2 f
    cases e
    case lit v => simp [acceptExpr]
    case var n => simp only [acceptExpr]; rw [h n (by simp [varsOf])]
    case un op a =>
      simp only [opFrag] at hfr
      have ha := ih a hfr (fun n hn => h n (by simpa [varsOf] using hn))
      simp only [acceptExpr]; rw [ha.1, ha.2]
    case bin op a b =>
      simp only [opFrag, Bool.and_eq_true] at hfr
      have ha := ih a hfr.1 (fun n hn => h n (by simp [varsOf, hn]))
      have hb := ih b hfr.2 (fun n hn => h n (by simp [varsOf, hn]))
      simp only [acceptExpr]; rw [ha.1, ha.2, hb.1, hb.2]
    all_goals simp [opFrag] at hfr

/-- `function f() return undefined is begin return 1; end; x = f(); if false then y = x + "a"; end if; print 7;` -/
def exDeadProg : List Stmt :=
  [.funcS "F" [] Ty.none [.returnS (some (.lit (.int 1)))] [],
   .letS "X" (.fcall "F" []),
   .ifS [(some (.lit (.bool false)), [.letS "Y" (.bin .add (.var "X") (.lit (.str [97])))])],
   .printS [.lit (.int 7)]]

open BlocV.Stepwise in
/-- **The full statement is false** (model and C++ alike; witness run on the pinned build through `prog` and `step`, finding
C02.stepwise_dead_branch_typed_from_value): as one unit the program compiles (`X` is opaque: `X + "a"` is accepted) and runs
without error, printing 7; statement by statement `X` holds the integer 1 when the IF statement is compiled, and the dead
branch `Y = X + "a"` is a TYPE_MISMATCH. The two symbol tables differ exactly on the variable the expression reads. -/
theorem stepwise_eq_batch_fails :
    (runBatch 50 exDeadProg).outcome.ranOk = true ∧ (runBatch 50 exDeadProg).st.output = [55, 10] ∧
    (runStepwise 50 exDeadProg).outcome.perrCode = some Gen.EXC_PARSE_TYPE_MISMATCH_S ∧
    (runStepwise 50 exDeadProg).st.output = [] ∧
    typeOfExpr (collectFuncs exDeadProg) [("X", Ty.none)] 100 (.bin .add (.var "X") (.lit (.str [97]))) = Ty.none ∧
    acceptExpr (collectFuncs exDeadProg) [("X", Ty.none)] 10 (.bin .add (.var "X") (.lit (.str [97]))) = none ∧
    acceptExpr (collectFuncs exDeadProg) [("X", Ty.int)] 10 (.bin .add (.var "X") (.lit (.str [97]))) = some Gen.EXC_PARSE_TYPE_MISMATCH_S := by
  decide +kernel

open BlocV.C02T BlocV.Stepwise in
/-- hypotheses of `stepwise_eq_batch_partial` satisfiable: the tables differ elsewhere (`Z`), agree on what `X + 1 < Y` reads -/
example : opFrag (.bin .lt (.bin .add (.var "X") (.lit (.int 1))) (.var "Y")) = true ∧
    (∀ n ∈ varsOf (.bin .lt (.bin .add (.var "X") (.lit (.int 1))) (.var "Y")),
      [("X", Ty.int), ("Y", Ty.num), ("Z", Ty.none)].find? (·.1 == n) = [("X", Ty.int), ("Y", Ty.num), ("Z", Ty.str)].find? (·.1 == n)) := by
  decide +kernel

/-! ### C02R3 — the safety flag at run time: loops over a constrained variable, every exit route

  Model/Safety.lean (second half): the `_safety` bit of every symbol and the control stack of running loops, driven by loop
  events (`Ev`). Tie: driver word `sflag`, family `safety-loops` of vlib/props/c02.py (every probe's verdict and the dump's
  safety bit after every unit, through `prog`, the C API and the statement-at-a-time path). -/

open BlocV.Safety in
/-- **The flag is restored on every exit route.** Take any piece of a run that starts with `s` (any flags, any running loops)
and performs any loop events — entering FOR / FORALL / WHILE loops, over any variables, nested however, each closed by its
normal end, a `break`, a travelling `return` (`unstack`) or by a runtime error (`error d`) — without popping frames older
than itself. Then (i) unwinding to the depth it started at (what `Context::onRuntimeError` does, and what the loops have
done themselves when they all ended) gives back exactly the flags and the stack it started with; (ii) in particular, when
the piece has closed its loops, the state is the starting state. -/
theorem safety_restored_after_loop (s : FlagSt) (evs : List Ev) (h : depthOk s.ctl.length s evs = true) :
    unwindTo s.ctl.length (run s evs).flags (run s evs).ctl = s ∧
    ((run s evs).ctl.length = s.ctl.length → run s evs = s) :=
  ⟨restored_by_unwinding s evs h, restored_when_closed s evs h⟩

-- outer loop over $K, inner loop over $K left by an error that unwinds the inner frame only (depth 1), then the outer ends:
-- back to the unit's starting state; and the seeded change's state (inner frame remembering `false`) is NOT what `step` builds
open BlocV.Safety in
example : depthOk 0 unitStart [.enterFor "$K", .enterFor "$K", .error 1, .unstack] = true ∧
    (run unitStart [.enterFor "$K", .enterFor "$K", .error 1, .unstack]).ctl = [] ∧
    (run unitStart [.enterFor "$K", .enterFor "$K", .error 1, .unstack]).flags "$K" = true ∧
    (run unitStart [.enterFor "I", .enterFor "I", .unstack]).flags "I" = true ∧
    (run unitStart [.enterFor "I", .enterFor "I", .unstack, .unstack]).flags "I" = false := by decide

open BlocV.Safety in
/-- **The constraint of a `$` variable survives every loop over it**: between units (`unitStart`: every symbol carries the
flag its name gives it, no loop runs) and from there after ANY sequence of loop events — loops over the `$` variable itself,
nested, left by any route, errors unwinding to any depth, even ill-bracketed sequences — the flag of a `$`-qualified
variable is set, at every point. So `Context::storeVariable` (`storeCheck … true …`) and `registerSymbol` (`regS`) refuse a
value of another kind at every point of every later unit (`store_preserves_major`, `safety_preserves_major`). -/
theorem dollar_constraint_survives_loops (v : String) (hv : isDollar v = true) (evs : List Ev) :
    (run unitStart evs).flags v = true :=
  (held_run v unitStart evs ⟨hv, fun c hc => by cases hc⟩).1

open BlocV.Safety in
example : isDollar "$K" = true ∧ isDollar "K" = false ∧
    (run unitStart [.enterFor "$K", .unstack, .unstack, .error 0, .enterForall "$K"]).flags "$K" = true := by decide

open BlocV.Safety in
/-- After every complete unit (all its loops closed, by themselves or by the error handler) every symbol carries exactly the
flag its name gives it: the bit the harness dumps after each unit. -/
theorem safety_after_unit (evs : List Ev) :
    ((run unitStart evs).ctl = [] → run unitStart evs = unitStart) ∧ run unitStart (evs ++ [Ev.error 0]) = unitStart := by
  have hd : depthOk unitStart.ctl.length unitStart evs = true := depthOk_zero unitStart evs
  refine ⟨fun hc => restored_when_closed unitStart evs hd (by rw [hc]; rfl), ?_⟩
  rw [run_append]
  exact restored_by_unwinding unitStart evs hd

open BlocV.Safety in
example : run unitStart ([.enterFor "$K", .enterWhile, .enterFor "I"] ++ [Ev.error 0]) = unitStart :=
  (safety_after_unit _).2

/-! ### C02R3 — the known-finding region C02.static_vs_runtime.op.* is exactly `binTypeGap` -/

/-- The region predicate the driver names a case with (`KF.c02OpGap`, lean/BlocV/KF/C02.lean) is the gap of
`bin_kind_sound_static` / `bin_type_gap_exact`. -/
theorem kf_op_region_eq_gap (op : BinOp) (s1 s2 t1 t2 : Ty) : KF.c02OpGap op s1 s2 t1 t2 = binTypeGap op s1 s2 t1 t2 := by
  have ha : ∀ nn m1 m2, KF.c02ArithMajor nn m1 m2 = arithMajor nn m1 m2 := by
    intro nn m1 m2; cases m1 <;> cases m2 <;> rfl
  cases op <;> simp [KF.c02OpGap, binTypeGap, binTypeGapM, binMajor, ha]

/-- Outside the recorded region the compile-time type IS the run-time type — for every operator, every operand values, every
static knowledge of the operands (exact or opaque); inside it, it never is. So a static ≠ run-time disagreement the check
sees outside `KF.c02OpGap` is not the recorded defect: it is reported as a violation. -/
theorem static_eq_runtime_outside_kf_region (op : BinOp) (s1 s2 : Ty) (a b v : Val) (same : Bool)
    (hs1 : s1.major = a.type.major ∨ s1.major = .none) (hs2 : s2.major = b.type.major ∨ s2.major = .none)
    (h : evalBin op a b same = .ok v) (hd : (typeBin op s1 s2).defined = true) :
    (KF.c02OpGap op s1 s2 a.type b.type = false → v.type.level = (typeBin op s1 s2).level ∧ v.type.major = (typeBin op s1 s2).major) ∧
    (KF.c02OpGap op s1 s2 a.type b.type = true → v.type.major ≠ (typeBin op s1 s2).major) := by
  have := bin_kind_sound_static op s1 s2 a b v same hs1 hs2 h hd
  rw [kf_op_region_eq_gap]
  constructor
  · intro hg; rw [if_neg (by simp [hg])] at this; exact this
  · intro hg; rw [if_pos hg] at this; exact this.2

example : KF.c02OpGap .sub Ty.none Ty.int Ty.int Ty.int = true ∧ KF.c02OpGap .sub Ty.int Ty.int Ty.int Ty.int = false ∧
    KF.c02OpGap .mod Ty.none Ty.none Ty.none Ty.none = true ∧ KF.c02OpGap .add Ty.none Ty.int Ty.int Ty.int = false ∧
    KF.c02OpGap .mul Ty.num Ty.int Ty.num Ty.int = false := ⟨rfl, rfl, rfl, rfl, rfl⟩

/-! ### C02R4 — the known-finding regions C02.static_vs_runtime.bity.* are exact -/

/-- For the 16 built-ins of `builtin_type_sound_partial`, arguments of level 0 are outside every recorded region … -/
theorem kf_builtin_region_empty_on_level0 (name : String) (hn : name ∈ typedBuiltins) (sts : List Ty) (cls : List KF.ArgCls)
    (h0 : ∀ c ∈ cls, c.1.level = 0) : KF.c02BuiltinGap name sts cls = false := by
  simp only [typedBuiltins, List.mem_cons, List.mem_nil_iff, or_false] at hn
  rcases hn with rfl | rfl | rfl | rfl | rfl | rfl | rfl | rfl | rfl | rfl | rfl | rfl | rfl | rfl | rfl | rfl
  all_goals first
    | (simp [KF.c02BuiltinGap, KF.c02MathUnary, KF.c02StrTable]; done)
    | (cases cls with
       | nil => simp [KF.c02BuiltinGap, KF.c02MathUnary, KF.c02StrTable, KF.gapStrTable]
       | cons c r =>
         have := h0 c (List.mem_cons_self ..)
         obtain ⟨t, n⟩ := c
         simp only at this
         simp [KF.c02BuiltinGap, KF.c02MathUnary, KF.c02StrTable, KF.gapStrTable, this])

/-- … and there the compile-time type IS the run-time type (`builtin_type_sound_partial`): outside the regions named by the driver
(`KF.c02BuiltinGap`) a static ≠ run-time disagreement of these built-ins is not a recorded defect — the check reports it as a
violation. (The ten math built-ins of the regions — floating point, unmodelled values — have the region from their source only;
their tie is the `builtin1/2` families.) -/
theorem builtin_static_eq_runtime_outside_kf_region (fmt : F64 → Bytes) (name : String) (args : List (Res Val)) (r : Res Val)
    (v : Val) (t : Ty) (hn : name ∈ typedBuiltins) (h : ArgsTy args) (hr : evalBuiltin (m := Res) fmt name args = some r)
    (hv : r = .ok v) (ht : builtinStaticTy name = some t) (sts : List Ty) (cls : List KF.ArgCls) (h0 : ∀ c ∈ cls, c.1.level = 0) :
    KF.c02BuiltinGap name sts cls = false ∧ v.type = t :=
  ⟨kf_builtin_region_empty_on_level0 name hn sts cls h0, builtin_type_sound_partial fmt name args r v t hn h hr hv ht⟩

example : KF.c02BuiltinGap "ceil" [Ty.int] [(Ty.int, true)] = true ∧ KF.c02BuiltinGap "ceil" [Ty.int] [(Ty.int, false)] = false ∧
    KF.c02BuiltinGap "max" [Ty.none, Ty.int] [(Ty.int, false), (Ty.int, false)] = true ∧
    KF.c02BuiltinGap "max" [Ty.int, Ty.int] [(Ty.int, false), (Ty.int, false)] = false ∧
    KF.c02BuiltinGap "str" [Ty.none] [({ major := .str, level := 1 }, false)] = true ∧
    KF.c02BuiltinGap "b64dec" [Ty.str] [(Ty.str, true)] = true ∧ KF.c02BuiltinGap "strlen" [Ty.none] [(Ty.int, true)] = false := by
  decide

end BlocV.C02
