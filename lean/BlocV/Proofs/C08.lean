/-
  C08 — a function call depends only on its arguments, never on earlier calls.
  Property theorems only. Model: `callFunc` (Model/Interp.lean), transcription of
  FunctorExpression::value + FunctorManager::createEnv after the repair that resets recycled contexts.
-/
import BlocV.Model.Interp

namespace BlocV.C08
open BlocV

/-- The 256th nested call (the caller already runs at recursion depth 255) raises the recursion-limit
error: no argument is evaluated, no body runs, the caller's state is untouched. -/
theorem recursion_limit (funcs : List Func) (fuel : Nat) (name : String) (args : List Expr) (s : St) (f : Func)
    (hf : funcs.find? (fun f => f.name == name && f.params.length == args.length) = some f) :
    callFunc funcs Gen.RECURSION_LIMIT (fuel + 1) name args s = (.err Gen.EXC_RT_RECURSION_LIMIT, s) := by
  simp [callFunc, hf, failE]

example : Gen.RECURSION_LIMIT = 255 := rfl

/-- Callee isolation and history independence, in one statement: once the arguments are evaluated
(to `vals`, leaving the caller in state `s1`), the call is `finishCall s1 (body run from calleeInit f vals s1)`:
the callee starts from `calleeInit` — typed nulls for its own symbols plus the bound parameters, a
function of the function and the argument values alone, with no variable of the caller and nothing
left by an earlier call — and only the output stream and the work budget flow through the call. -/
theorem call_depends_on_arguments_only (funcs : List Func) (depth fuel : Nat) (name : String) (args : List Expr)
    (s s1 : St) (f : Func) (vals : List Val)
    (hf : funcs.find? (fun f => f.name == name && f.params.length == args.length) = some f)
    (hd : (depth == Gen.RECURSION_LIMIT) = false)
    (ha : evalArgs funcs depth fuel args s = (.ok vals, s1)) :
    callFunc funcs depth (fuel + 1) name args s =
      finishCall s1 (execBlock funcs (depth + 1) fuel f.body f.catches (calleeInit f vals s1)) := by
  simp [callFunc, hf, hd, bind, ha]

/-- The caller's variables and saved return value are not touched by a call, whatever the callee does. -/
theorem caller_untouched (caller : St) (r : Res Flow × St) :
    (finishCall caller r).2.vars = caller.vars ∧ (finishCall caller r).2.returned = caller.returned := by
  unfold finishCall
  cases r.1 <;> simp

/-- The callee's initial variables do not depend on the caller's variables (nor on any earlier call). -/
theorem callee_start_independent (f : Func) (vals : List Val) (c1 c2 : St) :
    (calleeInit f vals c1).vars = (calleeInit f vals c2).vars ∧ (calleeInit f vals c1).returned = none := by
  simp [calleeInit]

/-- A failed argument evaluation fails the call before any callee context is used. -/
theorem failing_argument_fails_call (funcs : List Func) (depth fuel : Nat) (name : String) (args : List Expr)
    (s s1 : St) (f : Func) (c : Nat) (a : Bytes)
    (hf : funcs.find? (fun f => f.name == name && f.params.length == args.length) = some f)
    (hd : (depth == Gen.RECURSION_LIMIT) = false)
    (ha : evalArgs funcs depth fuel args s = (.err c a, s1)) :
    callFunc funcs depth (fuel + 1) name args s = (.err c a, s1) := by
  simp [callFunc, hf, hd, bind, ha]

end BlocV.C08
