/-
  C08 — a function call depends only on its arguments, never on earlier calls.
  Property theorems only (helpers: Proofs/Lemmas/Interp.lean, Vars.lean). Model: `callFunc` / `evalArgs` /
  `calleeInit` / `finishCall` / `addFunc` (Model/Interp.lean), transcription of FunctorExpression::value +
  FunctorManager::createEnv / createOrReplace after the repair that resets recycled contexts.
  Clause table: notes/NOTES-p0608.md.
-/
import BlocV.Model.Interp
import BlocV.Proofs.Lemmas.Interp
import BlocV.Proofs.Lemmas.Vars
import BlocV.Proofs.C07

namespace BlocV.C08
open BlocV BlocV.Lemmas

/-- The 256th nested call (the caller already runs at recursion depth 255) raises the recursion-limit
error: no argument is evaluated, no body runs, the caller's state is untouched. -/
theorem recursion_limit (funcs : List Func) (fuel : Nat) (name : String) (args : List Expr) (s : St) (f : Func)
    (hf : funcs.find? (fun f => f.name == name && f.params.length == args.length) = some f) :
    callFunc funcs Gen.RECURSION_LIMIT (fuel + 1) name args s = (.err Gen.EXC_RT_RECURSION_LIMIT, s) := by
  simp [callFunc, hf, failE]

example : Gen.RECURSION_LIMIT = 255 := rfl

/-- Callee isolation and history independence, in one statement: once the arguments are evaluated
(to `vals`, leaving the caller in state `s1`), the call is `finishCall s1 (body run from calleeInit f vals s1)`:
the callee starts from `calleeInit` — typed nulls for its own symbols plus the bound parameters, a
function of the function and the argument values alone, with no variable of the caller and nothing
left by an earlier call — and only the output stream and the work budget flow through the call. -/
theorem call_depends_on_arguments_only (funcs : List Func) (depth fuel : Nat) (name : String) (args : List Expr)
    (s s1 : St) (f : Func) (vals : List Val)
    (hf : funcs.find? (fun f => f.name == name && f.params.length == args.length) = some f)
    (hd : (depth == Gen.RECURSION_LIMIT) = false)
    (ha : evalArgs funcs depth fuel args s = (.ok vals, s1)) :
    callFunc funcs depth (fuel + 1) name args s =
      finishCall s1 (execBlock funcs (depth + 1) fuel f.body f.catches (calleeInit f vals s1)) :=
  callFunc_unfold funcs depth fuel name args s s1 f vals hf hd ha

/-- The caller's variables, saved return value and error record are not touched by a call, whatever the callee does. -/
theorem caller_untouched (caller : St) (r : Res Flow × St) :
    (finishCall caller r).2.vars = caller.vars ∧ (finishCall caller r).2.returned = caller.returned ∧
    (finishCall caller r).2.lastErr = caller.lastErr := by
  unfold finishCall
  cases r.1 <;> simp

/-- The callee's initial variables do not depend on the caller's variables (nor on any earlier call). -/
theorem callee_start_independent (f : Func) (vals : List Val) (c1 c2 : St) :
    (calleeInit f vals c1).vars = (calleeInit f vals c2).vars ∧ (calleeInit f vals c1).returned = none ∧
    (calleeInit f vals c1).lastErr = LastErr.clear := by
  simp [calleeInit]

/-- A failed argument evaluation fails the call before any callee context is used. -/
theorem failing_argument_fails_call (funcs : List Func) (depth fuel : Nat) (name : String) (args : List Expr)
    (s s1 : St) (f : Func) (c : Nat) (a : Bytes)
    (hf : funcs.find? (fun f => f.name == name && f.params.length == args.length) = some f)
    (hd : (depth == Gen.RECURSION_LIMIT) = false)
    (ha : evalArgs funcs depth fuel args s = (.err c a, s1)) :
    callFunc funcs depth (fuel + 1) name args s = (.err c a, s1) :=
  callFunc_arg_error funcs depth fuel name args s s1 f c a hf hd ha

/-- The callee's start state is a function of the function, the argument values, and the caller's output stream and work
budget — of nothing else of the caller (no variable, no saved return value, no running loop, no error record) and of no earlier call
(its error record is clear: `createEnv` resets it in a recycled context, repo e310d98). -/
theorem calleeInit_congr (f : Func) (vals : List Val) (c1 c2 : St) (ho : c1.out = c2.out) (hb : c1.budget = c2.budget) :
    calleeInit f vals c1 = calleeInit f vals c2 := by
  simp [calleeInit, ho, hb]

/-- Literal arguments evaluate to their values and leave the state alone (fuel above their number). -/
theorem evalArgs_lits (funcs : List Func) (depth : Nat) : ∀ (vals : List Val) (fuel : Nat) (s : St), vals.length < fuel →
    evalArgs funcs depth fuel (vals.map Expr.lit) s = (.ok vals, s) := by
  intro vals
  induction vals with
  | nil => intro fuel s h; cases fuel with
    | zero => omega
    | succ k => simp only [List.map_nil, evalArgs, pure_app]
  | cons v vs ih =>
    intro fuel s h
    cases fuel with
    | zero => omega
    | succ k =>
      cases k with
      | zero => simp at h
      | succ k' =>
        have := ih (k' + 1) s (by simp at h; omega)
        simp only [List.map_cons, evalArgs, bind_app, eval_lit, this, pure_app]

/-- **The callee cannot read the caller's variables; the result depends on the caller only through output and budget — never on
earlier calls.** Full `callFunc`, argument evaluation included: two calls of the same function name from two ARBITRARY caller states
(different variables, different loops running, different saved return values, different error records, any earlier calls — failed
ones included — behind them) whose argument expressions evaluate to the same values, with the same printed output and remaining
budget, have the same outcome (value, or error, or hazard), print the same, and use the same budget. (With the error record of
recycled contexts this was false before repo e310d98: finding C08.error_record_survives_in_cached_context, fixed; regression
witness `history_witness_fixed`.) -/
theorem call_independent_of_caller (funcs : List Func) (depth fuel : Nat) (name : String) (args args' : List Expr)
    (c c1 c' c1' : St) (f : Func) (vals : List Val)
    (hf : funcs.find? (fun f => f.name == name && f.params.length == args.length) = some f)
    (hlen : args'.length = args.length) (hd : (depth == Gen.RECURSION_LIMIT) = false)
    (ha : evalArgs funcs depth fuel args c = (.ok vals, c1))
    (ha' : evalArgs funcs depth fuel args' c' = (.ok vals, c1'))
    (ho : c1.out = c1'.out) (hb : c1.budget = c1'.budget) :
    (callFunc funcs depth (fuel + 1) name args c).1 = (callFunc funcs depth (fuel + 1) name args' c').1 ∧
    (callFunc funcs depth (fuel + 1) name args c).2.out = (callFunc funcs depth (fuel + 1) name args' c').2.out ∧
    (callFunc funcs depth (fuel + 1) name args c).2.budget = (callFunc funcs depth (fuel + 1) name args' c').2.budget := by
  have hf' : funcs.find? (fun f => f.name == name && f.params.length == args'.length) = some f := by rw [hlen]; exact hf
  have hd' := hd
  rw [callFunc_unfold funcs depth fuel name args c c1 f vals hf hd' ha,
      callFunc_unfold funcs depth fuel name args' c' c1' f vals hf' hd' ha',
      calleeInit_congr f vals c1 c1' ho hb]
  generalize execBlock funcs (depth + 1) fuel f.body f.catches (calleeInit f vals c1') = r
  unfold finishCall
  cases r.1 <;> exact ⟨rfl, rfl, rfl⟩

/-- **A call is a function of its argument values**: called with the same argument values (here: literals) from two arbitrary
caller states that agree on printed output and remaining budget, a function returns the same, prints the same and costs the same —
whatever the callers' variables are and whatever was called before (`funcs` is immutable, and every call builds its context afresh
with `calleeInit`, error record included: the repaired `createEnv`). -/
theorem call_determined_by_argument_values (funcs : List Func) (depth fuel : Nat) (name : String) (vals : List Val)
    (c c' : St) (f : Func)
    (hf : funcs.find? (fun f => f.name == name && f.params.length == vals.length) = some f)
    (hd : (depth == Gen.RECURSION_LIMIT) = false) (hfuel : vals.length < fuel)
    (ho : c.out = c'.out) (hb : c.budget = c'.budget) :
    (callFunc funcs depth (fuel + 1) name (vals.map Expr.lit) c).1 = (callFunc funcs depth (fuel + 1) name (vals.map Expr.lit) c').1 ∧
    (callFunc funcs depth (fuel + 1) name (vals.map Expr.lit) c).2.out = (callFunc funcs depth (fuel + 1) name (vals.map Expr.lit) c').2.out ∧
    (callFunc funcs depth (fuel + 1) name (vals.map Expr.lit) c).2.budget = (callFunc funcs depth (fuel + 1) name (vals.map Expr.lit) c').2.budget :=
  call_independent_of_caller funcs depth fuel name _ _ c c c' c' f vals (by simpa using hf) rfl hd
    (evalArgs_lits funcs depth vals fuel c hfuel) (evalArgs_lits funcs depth vals fuel c' hfuel) ho hb

/-- **History independence**: whatever two statement lists `h1`, `h2` (any calls of any functions, failing ones included) ran before —
from any states, with any outcomes —, the same call with the same argument values made afterwards gives the same result, provided
the two runs left the same printed output and budget (the two process-wide parts of the state). No hypothesis on cached contexts. -/
theorem call_independent_of_history (funcs : List Func) (depth fuel k : Nat) (name : String) (vals : List Val) (h1 h2 : List Stmt)
    (c0 c0' : St) (f : Func)
    (hf : funcs.find? (fun f => f.name == name && f.params.length == vals.length) = some f)
    (hd : (depth == Gen.RECURSION_LIMIT) = false) (hfuel : vals.length < fuel)
    (ho : (execList funcs depth k h1 c0).2.out = (execList funcs depth k h2 c0').2.out)
    (hb : (execList funcs depth k h1 c0).2.budget = (execList funcs depth k h2 c0').2.budget) :
    (callFunc funcs depth (fuel + 1) name (vals.map Expr.lit) (execList funcs depth k h1 c0).2).1 =
      (callFunc funcs depth (fuel + 1) name (vals.map Expr.lit) (execList funcs depth k h2 c0').2).1 :=
  (call_determined_by_argument_values funcs depth fuel name vals _ _ f hf hd hfuel ho hb).1

/-- **The callee cannot modify the caller's variables**: after ANY call (any function, any arguments, any outcome incl. errors) the
caller's variables, saved return value, running loops and own error record are exactly what the argument evaluation left; if the
arguments are literals, exactly what they were before the call. -/
theorem callee_cannot_modify_caller (funcs : List Func) (depth fuel : Nat) (name : String) (vals : List Val) (c : St)
    (hfuel : vals.length < fuel) :
    (callFunc funcs depth (fuel + 1) name (vals.map Expr.lit) c).2.vars = c.vars ∧
    (callFunc funcs depth (fuel + 1) name (vals.map Expr.lit) c).2.returned = c.returned ∧
    (callFunc funcs depth (fuel + 1) name (vals.map Expr.lit) c).2.iters = c.iters ∧
    (callFunc funcs depth (fuel + 1) name (vals.map Expr.lit) c).2.lastErr = c.lastErr := by
  cases hfind : funcs.find? (fun f => f.name == name && f.params.length == (vals.map Expr.lit).length) with
  | none => simp only [callFunc, hfind]; exact ⟨rfl, rfl, rfl, rfl⟩
  | some f =>
    by_cases hd : (depth == Gen.RECURSION_LIMIT) = true
    · have hd2 : depth = Gen.RECURSION_LIMIT := by simpa using hd
      rw [hd2, recursion_limit funcs fuel name _ c f hfind]; exact ⟨rfl, rfl, rfl, rfl⟩
    · have hd' : (depth == Gen.RECURSION_LIMIT) = false := by simpa using hd
      rw [callFunc_unfold funcs depth fuel name _ c c f vals hfind hd' (evalArgs_lits funcs depth vals fuel _ hfuel)]
      generalize execBlock funcs (depth + 1) fuel _ _ _ = r
      unfold finishCall
      cases r.1 <;> exact ⟨rfl, rfl, rfl, rfl⟩

/-- **Overloads are selected by name and argument count**: the function a call runs has the called name and as many parameters as
the call has arguments (`FunctorManager::findDeclaration`); it is the first such entry of the function table. -/
theorem overload_by_arity (funcs : List Func) (name : String) (args : List Expr) (f : Func)
    (hf : funcs.find? (fun f => f.name == name && f.params.length == args.length) = some f) :
    f.name = name ∧ f.params.length = args.length ∧ f ∈ funcs := by
  have h1 := List.find?_some hf
  have h2 := List.mem_of_find?_eq_some hf
  simp only [Bool.and_eq_true, beq_iff_eq] at h1
  exact ⟨h1.1, h1.2, h2⟩

/-- Two declarations of one name with different parameter counts coexist (`addFunc` replaces only same name + same arity). -/
theorem overloads_coexist (fs : List Func) (f g : Func) (hg : g ∈ fs) (hne : sameSig f g = false) : g ∈ addFunc fs f := by
  unfold addFunc
  split
  · simp only [List.mem_map]
    exact ⟨g, hg, by simp [hne]⟩
  · simp [hg]


/-- **Local variables start every call unset**: in the context a call starts in, every symbol that is not a parameter holds a
null (the typed null of its declaration, `createChildRuntime`; an untyped null when the function never declares it) — whatever
the caller holds under the same name and whatever any earlier call of the same function left behind. -/
theorem locals_start_unset (f : Func) (vals : List Val) (caller : St) (n : String) (hn : n ∉ f.params.map (·.1)) :
    lookupVar (calleeInit f vals caller).vars n = lookupVar (f.decls.map fun (p : String × Ty) => (p.1, Val.null p.2)) n ∧
    (lookupVar (calleeInit f vals caller).vars n).isNull = true := by
  have hn' : n ∉ (((f.params.map (·.1)).zip vals).map (·.1)) := by
    intro h
    apply hn
    simp only [List.mem_map] at h ⊢
    obtain ⟨⟨a, b⟩, hab, rfl⟩ := h
    have := (List.of_mem_zip hab).1
    simp only [List.mem_map] at this
    exact this
  have e : lookupVar (calleeInit f vals caller).vars n = lookupVar (f.decls.map fun (p : String × Ty) => (p.1, Val.null p.2)) n := by
    unfold calleeInit
    exact lookup_bind_other _ n hn' _
  exact ⟨e, by rw [e]; exact lookup_nulls_isNull f.decls n⟩

/-- **Arguments are received by copy** (single parameter shown; values are immutable in the model, so a copy is the value itself):
the parameter holds the argument value in the callee; whatever the callee then does to it, the caller's variables are untouched
(`caller_untouched`, `callee_cannot_modify_caller`). -/
theorem argument_bound_by_value (f : Func) (p : String) (t : Ty) (v : Val) (caller : St) (hp : f.params = [(p, t)]) :
    lookupVar (calleeInit f [v] caller).vars p = v := by
  unfold calleeInit
  rw [hp]
  simp only [List.map_cons, List.map_nil, List.zip_cons_cons, List.zip_nil_right, List.foldl_cons, List.foldl_nil]
  exact lookup_setVar _ _ _


/-- Argument evaluation yields one value per argument. -/
theorem evalArgs_length (funcs : List Func) (depth : Nat) : ∀ (fuel : Nat) (args : List Expr) (s s1 : St) (vals : List Val),
    evalArgs funcs depth fuel args s = (.ok vals, s1) → vals.length = args.length := by
  intro fuel
  induction fuel with
  | zero => intro args s s1 vals h; simp [evalArgs, oof, failE] at h
  | succ k ih =>
    intro args s s1 vals h
    cases args with
    | nil => simp only [evalArgs, pure_app] at h; cases h; rfl
    | cons a as =>
      simp only [evalArgs, bind_app] at h
      cases h1 : eval funcs depth k a s with
      | mk r1 s2 =>
        rw [h1] at h
        cases r1 with
        | ok v =>
          simp only [] at h
          cases h2 : evalArgs funcs depth k as s2 with
          | mk r2 s3 =>
            rw [h2] at h
            cases r2 with
            | ok vs =>
              simp only [pure_app] at h
              cases h
              simp only [List.length_cons, ih as s2 _ vs h2]
            | err c x => simp at h
            | haz x => simp at h
            | unmodelled => simp at h
        | err c x => simp at h
        | haz x => simp at h
        | unmodelled => simp at h

/-- **Arguments are received by copy, n parameters**: with distinct parameter names (what the parser enforces) and one value per
parameter (what `callFunc` guarantees: `evalArgs_length` + the arity test of `findDeclaration`; asserted in `createEnv`), the i-th
parameter holds the i-th argument value when the callee starts — for every i, every number of parameters, every caller. -/
theorem argument_bound_by_value_all (f : Func) (vals : List Val) (caller : St)
    (hnd : (f.params.map (·.1)).Nodup) (hlen : vals.length = f.params.length) (i : Nat) (hi : i < f.params.length) :
    lookupVar (calleeInit f vals caller).vars (f.params[i]).1 = vals[i]'(by omega) := by
  have hz : ((f.params.map (·.1)).zip vals).map (·.1) = f.params.map (·.1) :=
    List.map_fst_zip (by simp [hlen])
  have hmem : ((f.params[i]).1, vals[i]'(by omega)) ∈ (f.params.map (·.1)).zip vals := by
    have hi' : i < ((f.params.map (·.1)).zip vals).length := by simp [hlen]; omega
    have := List.getElem_mem hi'
    simpa [List.getElem_zip] using this
  unfold calleeInit
  exact lookup_bind_mem _ (by rw [hz]; exact hnd) _ _ hmem

/-- two parameters, distinct names: the hypotheses of `argument_bound_by_value_all` are satisfiable and the conclusion is about both -/
example : (let f : Func := { name := "f", params := [("a", Ty.int), ("b", Ty.str)], ret := Ty.int, body := [], catches := [] }
    (lookupVar (calleeInit f [.int 4, .str [120]] {}).vars "a" == .int 4,
     lookupVar (calleeInit f [.int 4, .str [120]] {}).vars "b" == .str [120])) = (true, true) := by decide +kernel

/-- `function g(n) begin if n == 0 then return 0; end if; return g(n-1); end` -/
def gFunc : Func :=
  { name := "g", params := [("n", Ty.int)], ret := Ty.int,
    body := [.ifS [(some (.bin .eq (.var "n") (.lit (.int 0))), [.returnS (some (.lit (.int 0)))])],
             .returnS (some (.fcall "g" [.bin .sub (.var "n") (.lit (.int 1))]))],
    catches := [], decls := [("n", Ty.int)] }

/-- **255 nested calls run, the 256th raises RECURSION_LIMIT** (evaluated on the model, from the program level = depth 0):
`g(254)` makes 255 nested calls and returns 0; `g(255)` attempts a 256th and fails with the recursion-limit error — a BLOC
runtime error, not a crash, and the caller's state is an ordinary state afterwards. -/
theorem recursion_limit_exact :
    (match (eval [gFunc] 0 2000 (.fcall "g" [.lit (.int 254)]) {}).1 with | .ok (.int i) => i == 0 | _ => false) = true ∧
    (match (eval [gFunc] 0 2000 (.fcall "g" [.lit (.int 255)]) {}).1 with
      | .err c a => c == Gen.EXC_RT_RECURSION_LIMIT && a == [] | _ => false) = true := by
  constructor <;> decide +kernel


/-- **Any direct recursion without end stops with RECURSION_LIMIT at depth exactly `Gen.RECURSION_LIMIT`** (symbolic: every function name,
every function table, every exception clause list of the function — the recursion-limit error is not catchable —, every caller state, every
depth `d` the first call is made at): `function f() begin return f(); end` called at depth `d` makes `n = RECURSION_LIMIT - d` nested calls —
exactly `n` `return` statements are executed (budget) — and the call attempted at depth `RECURSION_LIMIT` raises the error, which every level
passes on unchanged. Fuel `5·n + 1` suffices (five model functions per level), more does not change the result. -/
theorem direct_recursion_stops_at_limit (funcs : List Func) (name : String) (f : Func)
    (hf : funcs.find? (fun g => g.name == name && g.params.length == 0) = some f)
    (hbody : f.body = [.returnS (some (.fcall name []))]) :
    ∀ (n d : Nat), d + n = Gen.RECURSION_LIMIT → ∀ (h : Nat) (s : St), n ≤ s.budget →
      (callFunc funcs d (5 * n + 1 + h) name [] s).1 = .err Gen.EXC_RT_RECURSION_LIMIT [] ∧
      (callFunc funcs d (5 * n + 1 + h) name [] s).2.budget = s.budget - n := by
  intro n
  induction n with
  | zero =>
    intro d hd h s _
    have : d = Gen.RECURSION_LIMIT := by omega
    subst this
    have e : 5 * 0 + 1 + h = h + 1 := by omega
    rw [e]
    have : callFunc funcs Gen.RECURSION_LIMIT (h + 1) name [] s = (.err Gen.EXC_RT_RECURSION_LIMIT, s) := by
      simp [callFunc, hf, failE]
    rw [this]; exact ⟨rfl, by simp⟩
  | succ n ih =>
    intro d hd h s hb
    have hdl : (d == Gen.RECURSION_LIMIT) = false := by
      have : d ≠ Gen.RECURSION_LIMIT := by omega
      simpa using this
    have e : 5 * (n + 1) + 1 + h = (5 * n + 1 + h) + 4 + 1 := by omega
    rw [e]
    have hf' : funcs.find? (fun g => g.name == name && g.params.length == ([] : List Expr).length) = some f := hf
    rw [callFunc_unfold funcs d _ name [] s s f [] hf' hdl (evalArgs_nil funcs d _ _)]
    have hbud : ((calleeInit f [] s).budget == 0) = false := by
      have : (calleeInit f [] s).budget = s.budget := rfl
      rw [this]; have : s.budget ≠ 0 := by omega
      simpa using this
    obtain ⟨ih1, ih2⟩ := ih (d + 1) (by omega) h
      { (calleeInit f [] s) with budget := s.budget - 1 } (by show n ≤ s.budget - 1; omega)
    generalize hr : callFunc funcs (d + 1) (5 * n + 1 + h) name []
      { (calleeInit f [] s) with budget := s.budget - 1 } = r at ih1 ih2
    obtain ⟨r1, r2⟩ := r
    simp only at ih1 ih2
    subst ih1
    have hcm : f.catches.find? (fun cl => catchMatches cl.1 Gen.EXC_RT_RECURSION_LIMIT []) = none := by
      rw [List.find?_eq_none]
      intro cl _
      rw [BlocV.C07.uncatchable_reaches_host cl.1 _ [] (by decide) (by decide) (by decide)]
      simp
    have hblock : execBlock funcs (d + 1) (5 * n + 1 + h + 4) f.body f.catches (calleeInit f [] s) =
        (.err Gen.EXC_RT_RECURSION_LIMIT [], r2) := by
      have hx : exec funcs (d + 1) (5 * n + 1 + h + 2) (.returnS (some (.fcall name []))) (calleeInit f [] s) =
          (.err Gen.EXC_RT_RECURSION_LIMIT [], r2) := by
        have hr' : callFunc funcs (d + 1) (5 * n + 1 + h) name []
            { (calleeInit f [] s) with budget := (calleeInit f [] s).budget - 1 } = (.err Gen.EXC_RT_RECURSION_LIMIT [], r2) := hr
        simp only [exec, hbud, Bool.false_eq_true, if_false, bind_app, eval, hr']
      have hl : execList funcs (d + 1) (5 * n + 1 + h + 3) [.returnS (some (.fcall name []))] (calleeInit f [] s) =
          (.err Gen.EXC_RT_RECURSION_LIMIT [], r2) := by
        simp only [execList, bind_app, hx]
      have hoof : (Gen.EXC_RT_RECURSION_LIMIT == oofCode) = false := by decide
      simp only [execBlock, hbody, hl, hoof, Bool.false_eq_true, if_false, hcm]
    rw [hblock]
    refine ⟨rfl, ?_⟩
    show r2.budget = s.budget - (n + 1)
    rw [ih2]
    show s.budget - 1 - n = s.budget - (n + 1)
    omega

/-- the hypotheses are satisfiable: `function r() begin return r(); end` called from the program level (d = 0, n = 255) -/
example : (callFunc [{ name := "r", params := [], ret := Ty.int, body := [.returnS (some (.fcall "r" []))], catches := [("OTHERS", [.nop])] }] 0 (5 * 255 + 1 + 0) "r" [] {}).1 =
    .err Gen.EXC_RT_RECURSION_LIMIT [] :=
  (direct_recursion_stops_at_limit _ "r" _ (by with_unfolding_all rfl) rfl 255 0 (by decide) 0 {} (by decide)).1

/-- **Runaway recursion through ANY cycle of functions stops with RECURSION_LIMIT at depth exactly `Gen.RECURSION_LIMIT`** — direct
recursion (`S = [f]`), mutual recursion (`S = [p, q]`, p calls q calls p) and every longer cycle: `S` is a set of function names, each
bound in the table to a function whose body is `return <some name of S>();`. For every function table, every exception clause lists
(the error is not catchable), every depth `d` the chain is entered at (= every number of frames a wrapper put below it), every caller
state `s` (= every history: nothing of `s` but the budget is read): a call of any member of `S` at depth `d` runs exactly
`n = RECURSION_LIMIT - d` body statements — one `return` per level, the budget counts them — and ends with the recursion-limit error:
the call attempted at depth `RECURSION_LIMIT` raises it before any argument or body statement of a deeper level runs. -/
theorem runaway_cycle_stops_at_limit (funcs : List Func) (S : List String)
    (hS : ∀ nm ∈ S, ∃ f nxt, funcs.find? (fun g => g.name == nm && g.params.length == 0) = some f ∧ nxt ∈ S ∧
      f.body = [.returnS (some (.fcall nxt []))]) :
    ∀ (n d : Nat), d + n = Gen.RECURSION_LIMIT → ∀ nm ∈ S, ∀ (h : Nat) (s : St), n ≤ s.budget →
      (callFunc funcs d (5 * n + 1 + h) nm [] s).1 = .err Gen.EXC_RT_RECURSION_LIMIT [] ∧
      (callFunc funcs d (5 * n + 1 + h) nm [] s).2.budget = s.budget - n := by
  intro n
  induction n with
  | zero =>
    intro d hd nm hnm h s _
    obtain ⟨f, nxt, hf, _, _⟩ := hS nm hnm
    have : d = Gen.RECURSION_LIMIT := by omega
    subst this
    have e : 5 * 0 + 1 + h = h + 1 := by omega
    rw [e]
    have : callFunc funcs Gen.RECURSION_LIMIT (h + 1) nm [] s = (.err Gen.EXC_RT_RECURSION_LIMIT, s) := by
      simp [callFunc, hf, failE]
    rw [this]; exact ⟨rfl, by simp⟩
  | succ n ih =>
    intro d hd nm hnm h s hb
    obtain ⟨f, nxt, hf, hnxt, hbody⟩ := hS nm hnm
    have hdl : (d == Gen.RECURSION_LIMIT) = false := by
      have : d ≠ Gen.RECURSION_LIMIT := by omega
      simpa using this
    have e : 5 * (n + 1) + 1 + h = (5 * n + 1 + h) + 4 + 1 := by omega
    rw [e]
    have hf' : funcs.find? (fun g => g.name == nm && g.params.length == ([] : List Expr).length) = some f := hf
    rw [callFunc_unfold funcs d _ nm [] s s f [] hf' hdl (evalArgs_nil funcs d _ _)]
    have hbud : ((calleeInit f [] s).budget == 0) = false := by
      have : (calleeInit f [] s).budget = s.budget := rfl
      rw [this]; have : s.budget ≠ 0 := by omega
      simpa using this
    obtain ⟨ih1, ih2⟩ := ih (d + 1) (by omega) nxt hnxt h
      { (calleeInit f [] s) with budget := s.budget - 1 } (by show n ≤ s.budget - 1; omega)
    generalize hr : callFunc funcs (d + 1) (5 * n + 1 + h) nxt []
      { (calleeInit f [] s) with budget := s.budget - 1 } = r at ih1 ih2
    obtain ⟨r1, r2⟩ := r
    simp only at ih1 ih2
    subst ih1
    have hcm : f.catches.find? (fun cl => catchMatches cl.1 Gen.EXC_RT_RECURSION_LIMIT []) = none := by
      rw [List.find?_eq_none]
      intro cl _
      rw [BlocV.C07.uncatchable_reaches_host cl.1 _ [] (by decide) (by decide) (by decide)]
      simp
    have hblock : execBlock funcs (d + 1) (5 * n + 1 + h + 4) f.body f.catches (calleeInit f [] s) =
        (.err Gen.EXC_RT_RECURSION_LIMIT [], r2) := by
      have hx : exec funcs (d + 1) (5 * n + 1 + h + 2) (.returnS (some (.fcall nxt []))) (calleeInit f [] s) =
          (.err Gen.EXC_RT_RECURSION_LIMIT [], r2) := by
        have hr' : callFunc funcs (d + 1) (5 * n + 1 + h) nxt []
            { (calleeInit f [] s) with budget := (calleeInit f [] s).budget - 1 } = (.err Gen.EXC_RT_RECURSION_LIMIT [], r2) := hr
        simp only [exec, hbud, Bool.false_eq_true, if_false, bind_app, eval, hr']
      have hl : execList funcs (d + 1) (5 * n + 1 + h + 3) [.returnS (some (.fcall nxt []))] (calleeInit f [] s) =
          (.err Gen.EXC_RT_RECURSION_LIMIT [], r2) := by
        simp only [execList, bind_app, hx]
      have hoof : (Gen.EXC_RT_RECURSION_LIMIT == oofCode) = false := by decide
      simp only [execBlock, hbody, hl, hoof, Bool.false_eq_true, if_false, hcm]
    rw [hblock]
    refine ⟨rfl, ?_⟩
    show r2.budget = s.budget - (n + 1)
    rw [ih2]
    show s.budget - 1 - n = s.budget - (n + 1)
    omega

/-- **The recursion limit holds after every history.** Whatever statements `hist` ran before at the program level (any calls of any
functions of the table, finished recursions of any depth, calls that failed — at the limit or otherwise —, from any state `c0`, with
any fuel `k`), in the state they leave:
* a call attempted by a caller that runs at depth `RECURSION_LIMIT` returns the recursion-limit error at once: no argument is
  evaluated, no body statement runs, the state (output, budget, variables) is exactly the caller's;
* a runaway recursion through any cycle `S` (direct, mutual, longer) entered at any depth `d` runs exactly `RECURSION_LIMIT - d`
  levels, then fails with that error — the same `RECURSION_LIMIT - d` as from a fresh state (`runaway_cycle_stops_at_limit` does not
  read the history). The model has no per-function cache of contexts: after e310d98 a recycled context is indistinguishable from a
  new one, and the depth travels with the CALLER (`createEnv`: `r = caller.recursion()`), which is what the family
  `reclimit-after-cache` of the check ties to the library. -/
theorem recursion_limit_any_history (funcs : List Func) (k : Nat) (hist : List Stmt) (c0 : St) :
    (∀ (fuel : Nat) (name : String) (args : List Expr) (f : Func),
      funcs.find? (fun f => f.name == name && f.params.length == args.length) = some f →
      callFunc funcs Gen.RECURSION_LIMIT (fuel + 1) name args (execList funcs 0 k hist c0).2 =
        (.err Gen.EXC_RT_RECURSION_LIMIT, (execList funcs 0 k hist c0).2)) ∧
    (∀ (S : List String),
      (∀ nm ∈ S, ∃ f nxt, funcs.find? (fun g => g.name == nm && g.params.length == 0) = some f ∧ nxt ∈ S ∧
        f.body = [.returnS (some (.fcall nxt []))]) →
      ∀ (n d : Nat), d + n = Gen.RECURSION_LIMIT → ∀ nm ∈ S, ∀ (h : Nat), n ≤ (execList funcs 0 k hist c0).2.budget →
        (callFunc funcs d (5 * n + 1 + h) nm [] (execList funcs 0 k hist c0).2).1 = .err Gen.EXC_RT_RECURSION_LIMIT [] ∧
        (callFunc funcs d (5 * n + 1 + h) nm [] (execList funcs 0 k hist c0).2).2.budget =
          (execList funcs 0 k hist c0).2.budget - n) :=
  ⟨fun fuel name args f hf => recursion_limit funcs fuel name args _ f hf,
   fun S hS n d hd nm hnm h hb => runaway_cycle_stops_at_limit funcs S hS n d hd nm hnm h _ hb⟩

/-- the hypotheses are satisfiable — mutual recursion `function p() begin return q(); end  function q() begin return p(); end`,
entered at depth 200 (a wrapper put 200 frames below it) after a history that itself ran into the limit: 55 levels, then the error -/
example :
    let p : Func := { name := "p", params := [], ret := Ty.int, body := [.returnS (some (.fcall "q" []))], catches := [("OTHERS", [.nop])] }
    let q : Func := { name := "q", params := [], ret := Ty.int, body := [.returnS (some (.fcall "p" []))], catches := [] }
    let hist : List Stmt := [.beginS [.doS (.fcall "p" [])] [("OTHERS", [.nop])]]
    (callFunc [p, q] 200 (5 * 55 + 1 + 0) "q" [] (execList [p, q] 0 3000 hist {}).2).1 = .err Gen.EXC_RT_RECURSION_LIMIT [] := by
  intro p q hist
  refine ((recursion_limit_any_history [p, q] 3000 hist {}).2 ["p", "q"] ?_ 55 200 (by decide) "q" (by simp) 0 ?_).1
  · intro nm hnm
    simp only [List.mem_cons, List.mem_nil_iff, or_false] at hnm
    rcases hnm with rfl | rfl
    · exact ⟨p, "q", by with_unfolding_all rfl, by simp, rfl⟩
    · exact ⟨q, "p", by with_unfolding_all rfl, by simp, rfl⟩
  · decide +kernel

/-- `function f(b) begin if b then x = 1; end if; return x; end` — the witness of the stale-local defect of the pinned build -/
def fStale : Func :=
  { name := "f", params := [("b", Ty.bool)], ret := Ty.int,
    body := [.ifS [(some (.var "b"), [.letS "x" (.lit (.int 1))])], .returnS (some (.var "x"))],
    catches := [], decls := [("b", Ty.bool), ("x", Ty.int)] }

/-- history independence on the witness: `print f(true); print f(false); print f(false);` prints 1, null, null — the local `x`
assigned by the first call is unset again in the later ones, and the caller's own `x` is neither read nor changed -/
example : (let r := execList [fStale] 0 40 [.letS "x" (.lit (.int 7)), .printS [.fcall "f" [.lit (.bool true)]], .printS [.fcall "f" [.lit (.bool false)]],
      .printS [.fcall "f" [.lit (.bool false)]], .printS [.var "x"]] {}
    (r.1, r.2.out)) = (.ok .norm, [[10], [55], [10], [110, 117, 108, 108], [10], [110, 117, 108, 108], [10], [49]]) := by decide +kernel

/-- `function f(b:boolean) return string is begin if b then begin raise E1; exception when E1 then raise E2; end; end if; return error@1; end`
— the witness of finding C08.error_record_survives_in_cached_context -/
def fErr : Func :=
  { name := "f", params := [("b", Ty.bool)], ret := Ty.str,
    body := [.ifS [(some (.var "b"), [.beginS [.raiseS "E1"] [("E1", [.raiseS "E2"])]])], .returnS (some (.item .errorE 1))],
    catches := [], decls := [("b", Ty.bool)] }

/-- **Regression witness of finding C08.error_record_survives_in_cached_context (fixed in e310d98)**:
`print f(false); begin do f(true); exception when E2 then nop; end; print f(false);` prints two empty lines: the second `f(false)` —
whose recycled context went through a failing `when E1` clause in the earlier call — starts with a clear record like the first. -/
theorem history_witness_fixed :
    (execList [fErr] 0 40 [.printS [.fcall "f" [.lit (.bool false)]],
        .beginS [.doS (.fcall "f" [.lit (.bool true)])] [("E2", [.nop])],
        .printS [.fcall "f" [.lit (.bool false)]]] {}).2.out = [[10], [], [10], []] := by decide +kernel

/-- overloads by argument count: `h(a)` and `h(a, b)` coexist and the call picks by arity -/
example : (let h1 : Func := { name := "h", params := [("a", Ty.int)], ret := Ty.int, body := [.returnS (some (.lit (.int 1)))], catches := [] }
    let h2 : Func := { name := "h", params := [("a", Ty.int), ("b", Ty.int)], ret := Ty.int, body := [.returnS (some (.lit (.int 2)))], catches := [] }
    let r := execList (addFunc (addFunc [] h1) h2) 0 40 [.printS [.fcall "h" [.lit (.int 0), .lit (.int 0)]], .printS [.fcall "h" [.lit (.int 0)]]] {}
    (r.1, r.2.out)) = (.ok .norm, [[10], [49], [10], [50]]) := by decide +kernel

/-- the hypotheses of `call_determined_by_argument_values` are satisfiable: two callers with different variables and own error records -/
example : (callFunc [fStale] 0 20 "f" [.lit (.bool true)] { vars := [("x", .int 5)] }).1 =
    (callFunc [fStale] 0 20 "f" [.lit (.bool true)] { vars := [("b", .str [1]), ("q", .int 9)], returned := some (.int 3), lastErr := (23, []) }).1 :=
  (call_determined_by_argument_values [fStale] 0 19 "f" [.bool true] { vars := [("x", .int 5)] }
    { vars := [("b", .str [1]), ("q", .int 9)], returned := some (.int 3), lastErr := (23, []) } fStale (by with_unfolding_all rfl) (by decide) (by decide) rfl rfl).1

end BlocV.C08
