/-
  C15 — the C API honours its ownership and result contract for every call sequence.
  Property theorems only. Model: `BlocV.CApi` (Model/CApi.lean), the handle state machine of
  blocc/bloc_capi.h transcribed from bloc_capi.cpp / context.cpp / value.h.

  What is proved here is about the model; the tie to the library is the correspondence run of
  `./check C15` (every call's result, out-parameters, re-read pointers and error record compared
  token by token under ASan/UBSan/LSan). Memory reclamation is not modelled: no theorem speaks
  about leaks.
-/
import BlocV.Model.CApi
import BlocV.Proofs.Lemmas.CApi

namespace BlocV.C15
open BlocV BlocV.CApi

/-! ## accessor_contract -/

/-- A typed accessor reports failure (with its `NOT_…` code) exactly when the type does not match. -/
theorem accessor_fails_iff (k : Acc) (v : Val) :
    accessor k v = .fail k.failCode ↔ k.matches v.type = false := by
  unfold accessor
  cases hm : k.matches v.type <;> simp

/-- The only failure code an accessor can report is its own. -/
theorem accessor_fail_code (k : Acc) (v : Val) (code : Nat) (h : accessor k v = .fail code) : code = k.failCode := by
  unfold accessor at h
  split at h
  · cases h; rfl
  · cases h

example : accessor .i (.str [104, 105]) = .fail Gen.EXC_RT_NOT_INTEGER := by decide

/-- `accessor_contract`, the full statement, for all eight accessors and every value: a typed accessor
succeeds iff the type of the value matches, and when it succeeds the data pointer is NULL iff the value is
null. (Until `bloc_literal` / `bloc_tabchar` were repaired this held only outside the two cells
`bloc_literal(null string)` / `bloc_tabchar(null bytes)`: theorem `accessor_contract_partial`, findings
C15.literal_accessor_null_deref, C15.tabchar_accessor_null_deref, both fixed.) -/
theorem accessor_contract (k : Acc) (v : Val) :
    ((∃ dn, accessor k v = .ok dn) ↔ k.matches v.type = true) ∧
    (∀ dn, accessor k v = .ok dn → dn = v.isNull) := by
  unfold accessor
  cases hm : k.matches v.type <;> simp

example : Acc.l.matches (Val.str [104, 105]).type = true := by decide
example : accessor .l (.str [104, 105]) = .ok false := by decide
example : accessor .n (.null Ty.num) = .ok true := by decide
example : accessor .t (.tab { major := .int, level := 1 } [] [.int 5]) = .ok false := by decide

/-- The documented result on a null value of the right type — `bloc_true` with a NULL data pointer — for every
accessor, `bloc_literal` and `bloc_tabchar` included (was: `accessor_contract_fails_on_null_literal`, the proved
negation, when those two dereferenced the null pointer). -/
theorem accessor_contract_holds_on_null (k : Acc) (v : Val) (hm : k.matches v.type = true) (hn : v.isNull = true) :
    accessor k v = .ok true := by
  simp [accessor, hm, hn]

example : accessor .l (.null Ty.str) = .ok true := by decide
example : accessor .x (.null Ty.raw) = .ok true := by decide
example : Acc.l.matches (Val.null Ty.str).type = true ∧ (Val.null Ty.str).isNull = true := by decide

/-- Every value of a matching type is accepted (the positive form of the former negation witness). -/
theorem accessor_succeeds_on_matching_type :
    ∀ (k : Acc) (v : Val), k.matches v.type = true → ∃ dn, accessor k v = .ok dn := by
  intro k v hm
  exact ⟨v.isNull, by simp [accessor, hm]⟩

example : ∃ dn, accessor .x (.null Ty.raw) = .ok dn := ⟨true, by decide⟩

/-- No value is accepted by two different accessors: "succeed exactly on the matching type". -/
theorem accessor_unique (k1 k2 : Acc) (ty : Ty) (h1 : k1.matches ty = true) (h2 : k2.matches ty = true) : k1 = k2 := by
  rcases ty with ⟨m, mi, l⟩
  cases k1 <;> cases k2 <;> cases m <;> simp_all [Acc.matches]

example : Acc.i.matches Ty.int = true ∧ Acc.n.matches Ty.int = false := by decide

/-! ## error_record_contract -/

def isParse : Op → Bool
  | .eparse .. => true
  | .xparse .. => true
  | _ => false


/-- `error_record_contract`, failure half: whenever a call reports failure by raising an error (NULL /
`bloc_false` from register, store, a typed accessor, parse, evaluate, run), the process-wide record holds exactly
that error's code and a non-empty message — for every state and every call. -/
theorem error_record_contract (s : State) (o : Op) (code : Nat) (h : (step s o).2.fail = some code) :
    (step s o).1.err = { code := code, msg := true } := by
  cases o <;> simp only [step] at h ⊢
  all_goals first
    | (simp only [opCnew, opCclone, opCfree, opCpurge, opCpwm, opFind, opLoad, opCreate, opVfree, opVdump, opEfree, opEtype,
        opXfree, opDrop, opStop, opOut, Out.pre, Out.of] at h ⊢; (repeat' split at h) <;> simp_all; done)
    | (simp only [opReg, opStore, opAssign, opAcc, opItem, opEparse, opEval, opXparse, opExec, opExec2, runIn, killBoxItems, killCtxItems, killExprVals, Out.pre, Out.of] at h ⊢; (repeat' split at h) <;> simp_all; done)
    | skip
  · simp only [opReg, Out.pre, Out.of] at h ⊢
    (repeat' split at h) <;> simp_all
    split
    · omega
    · rfl

/-- Calls other than the two parse calls never touch the error record unless they fail. -/
theorem success_keeps_record (s : State) (o : Op) (hp : isParse o = false) (h : (step s o).2.fail = none) :
    (step s o).1.err = s.err := by
  cases o <;> simp only [step] at h ⊢
  case eparse => simp [isParse] at hp
  case xparse => simp [isParse] at hp
  all_goals first
    | (simp only [opCnew, opCclone, opCfree, opCpurge, opCpwm, opFind, opLoad, opCreate, opVfree, opVdump, opEfree, opEtype,
        opXfree, opDrop, opStop, opOut, Out.pre, Out.of] at h ⊢; (repeat' split) <;> simp_all; done)
    | (simp only [opReg, opStore, opAssign, opAcc, opItem, opEval, opExec, opExec2, runIn, killBoxItems, killCtxItems, Out.pre, Out.of] at h ⊢; (repeat' split at h) <;> simp_all; done)
    | skip
  all_goals (
    simp only [opReg, opVfree, opEfree, opExec2, runIn, killBoxItems, killExprVals, Out.pre, Out.of] at h ⊢
    (repeat' split at h) <;> simp_all
    )
  all_goals ((repeat' split) <;> simp_all <;> (try omega))


/-- A parse call that succeeds clears the record (`bloc_error_raz`), whatever it held. -/
theorem parse_success_resets_record (s : State) (c k : Nat) :
    (∀ e, (step s (.eparse c k (.good e))).2.res = Res1.unit → (step s (.eparse c k (.good e))).1.err = {}) ∧
    (∀ p pos, (step s (.xparse c k (.good p) pos)).2.res = Res1.unit → (step s (.xparse c k (.good p) pos)).1.err = {}) := by
  constructor
  · intro e h
    simp only [step, opEparse, Out.pre] at h ⊢
    (repeat' split at h) <;> simp_all
  · intro p pos h
    simp only [step, opXparse, Out.pre] at h ⊢
    (repeat' split at h) <;> simp_all

/-- The documented reading "failure ⇒ `bloc_errno()` ≠ 0" is false on the pinned tree: a text that ends inside
a statement is rejected with code `EXC_PARSE_EOF` = 0 (known finding C15.parse_eof_errno_zero). -/
theorem failed_parse_may_leave_errno_zero :
    ∃ (s : State) (o : Op), (step s o).2.fail = some 0 ∧ (step s o).1.err.code = 0 := by
  refine ⟨(step State.init (.cnew 0)).1, .xparse 0 0 (.bad 2) true, ?_, ?_⟩ <;> decide

/-! ## library_pointer_stable -/

/-- Every epoch in use is older than the clock (holds initially, kept by every call). -/
def WF (s : State) : Prop := ∀ (c : Nat) (x : Ctx), s.ctxs[c]? = some x → x.epoch < s.clock

theorem WF_init : WF State.init := by
  intro c x h
  simp only [State.init] at h
  have : x = ({} : Ctx) := by
    rw [List.getElem?_replicate] at h
    split at h <;> simp_all
  subst this
  decide

theorem WF_step (s s1 : State) (out : Out) (o : Op) (hr : step s o = (s1, out)) (hw : WF s) : WF s1 := by
  intro c x1 h1
  obtain ⟨x, h0⟩ := step_ctx_exists s s1 out o c x1 hr h1
  have hx := hw c x h0
  rcases step_ctx s s1 out o c x x1 hr h0 h1 with ⟨he, hc⟩ | ⟨he, _, hc, _⟩ <;> omega

theorem WF_runSeq : ∀ (ops : List Op) (s : State), WF s → WF (runSeq s ops).1
  | [], _, h => h
  | o :: os, s, h => by
    simp only [runSeq]
    exact WF_runSeq os (step s o).1 (WF_step s _ _ o rfl h)

/-- The host itself does not write into context `c` (no store into it, no assign through a loaded pointer of it)
anywhere in the sequence. -/
def quiet (c : Nat) : State → List Op → Bool
  | _, [] => true
  | s, o :: os => !hostWrite o s c && quiet c (step s o).1 os

theorem runSeq_ctx_exists (c : Nat) : ∀ (ops : List Op) (s : State) (x' : Ctx),
    (runSeq s ops).1.ctxs[c]? = some x' → ∃ x, s.ctxs[c]? = some x
  | [], _, x', h => ⟨x', h⟩
  | o :: os, s, x', h => by
    simp only [runSeq] at h
    obtain ⟨x1, h1⟩ := runSeq_ctx_exists c os (step s o).1 x' h
    exact step_ctx_exists s _ _ o c x1 rfl h1

/-- Epochs never decrease. -/
theorem epoch_mono (c : Nat) : ∀ (ops : List Op) (s : State) (x x' : Ctx), WF s →
    s.ctxs[c]? = some x → (runSeq s ops).1.ctxs[c]? = some x' → x.epoch ≤ x'.epoch
  | [], _, x, x', _, h0, h1 => by
    simp only [runSeq] at h1; rw [h0] at h1; cases h1; exact Nat.le_refl _
  | o :: os, s, x, x', hw, h0, h1 => by
    simp only [runSeq] at h1
    obtain ⟨x1, hx1⟩ := runSeq_ctx_exists c os (step s o).1 x' h1
    have ih := epoch_mono c os (step s o).1 x1 x' (WF_step s _ _ o rfl hw) hx1 h1
    have hx := hw c x h0
    rcases step_ctx s _ _ o c x x1 rfl h0 hx1 with ⟨he, _⟩ | ⟨he, _⟩ <;> omega

/-- `library_pointer_stable`, the invariant over ALL call sequences. Take any well-formed state `s` (every state
reachable from the initial one is), any context slot `c`, and ANY sequence of calls `ops` — creating, cloning,
freeing, purging contexts, parsing valid and invalid texts, running, failing, on this or any other context. If
after the sequence slot `c` is at the SAME epoch as before — i.e. none of parse / run / evaluate / register /
purge / free happened in it — and the host itself did not store or assign into that context (`quiet`), then the
context is exactly as live as it was and EVERY variable slot holds exactly the value it held: a pointer handed
out by `bloc_ctx_load_variable` (or by evaluating a variable) denotes the same unmodified cell. -/
theorem library_pointer_stable (c : Nat) : ∀ (ops : List Op) (s : State) (x x' : Ctx), WF s →
    s.ctxs[c]? = some x → (runSeq s ops).1.ctxs[c]? = some x' → x'.epoch = x.epoch → quiet c s ops = true →
    x'.vals = x.vals ∧ x'.live = x.live
  | [], _, x, x', _, h0, h1, _, _ => by
    simp only [runSeq] at h1; rw [h0] at h1; cases h1; exact ⟨rfl, rfl⟩
  | o :: os, s, x, x', hw, h0, h1, he, hq => by
    simp only [runSeq] at h1
    simp only [quiet, Bool.and_eq_true, Bool.not_eq_true'] at hq
    obtain ⟨x1, hx1⟩ := runSeq_ctx_exists c os (step s o).1 x' h1
    have hw1 := WF_step s _ _ o rfl hw
    have hm := epoch_mono c os (step s o).1 x1 x' hw1 hx1 h1
    have hx := hw c x h0
    rcases step_ctx s _ _ o c x x1 rfl h0 hx1 with ⟨he1, _⟩ | ⟨he1, hl, _, hv⟩
    · omega
    · have ih := library_pointer_stable c os (step s o).1 x1 x' hw1 hx1 h1 (by omega) hq.2
      exact ⟨by rw [ih.1, hv hq.1], by rw [ih.2, hl]⟩

/-- The same for what the host holds: a library-owned reference to variable slot `id` of context `c` that is live
before and after the sequence reads the same value. -/
theorem loaded_pointer_reads_same (c id : Nat) (ops : List Op) (s : State) (r : VRef) (hw : WF s)
    (hroot : r.root = .slot c id) (hctx : r.ctx = c) (hk : r.kind ≠ .boxItem)
    (h0 : refLive s r = true) (h1 : refLive (runSeq s ops).1 r = true) (hq : quiet c s ops = true) :
    readRef (runSeq s ops).1 r = readRef s r := by
  have live : ∀ (t : State), refLive t r = true → ∃ x, t.ctxs[c]? = some x ∧ x.live = true ∧ x.epoch = r.epoch := by
    intro t ht
    unfold refLive at ht
    split at ht
    · rename_i hkk; exact absurd hkk hk
    · split at ht
      · rename_i x hg
        rw [hctx, getCtx_eq_some] at hg
        exact ⟨x, hg.1, hg.2, by simpa using ht⟩
      · cases ht
  obtain ⟨x, hx, hxl, hxe⟩ := live s h0
  obtain ⟨x', hx', hxl', hxe'⟩ := live _ h1
  have hs := library_pointer_stable c ops s x x' hw hx hx' (by omega) hq
  have g0 : getCtx s c = some x := (getCtx_eq_some s c x).2 ⟨hx, hxl⟩
  have g1 : getCtx (runSeq s ops).1 c = some x' := (getCtx_eq_some _ c x').2 ⟨hx', hxl'⟩
  simp only [readRef, hroot, readRoot, g0, g1, hs.1]

/-- Non-vacuity: a load, then calls that are none of parse/run/evaluate/register/purge in that context (here: creating
values, a failing accessor, another context created, parsed in and freed), then the pointer still reads 42. -/
example :
    let ops : List Op := [.cnew 0, .reg 0 0 "I1" .int 0, .vint 0 42, .store 0 0 0 true, .load 0 0 1,
                          .vlit 2 none, .acc 2 .i, .cnew 1, .xparse 1 0 (.bad 0) true, .cfree 1, .drop 0 3, .vdump 1]
    ((runSeq State.init ops).2.getLast?.map (·.res)).isSome = true := by decide

/-! ## api_script_agree -/

/-- api → script: a value stored through `bloc_ctx_store_variable` into the symbol found under `name` is what a
script reads when it evaluates that name (whatever the function table, depth and state of the rest; no `forall` running in that context, where the
name could be an iterator). -/
theorem api_script_agree_store (x x' : Ctx) (name : String) (id : Nat) (b : Val)
    (hf : findSym x name = some id) (hs : storeInto x id b = .ok x') (hv : id < x.vals.length) (hsy : id < x.syms.length)
    (funcs : List Func) (depth fuel : Nat) (st : St) (hst : st.vars = ctxVars x') (hit : st.iters = []) :
    eval funcs depth (fuel + 1) (.var name) st = (.ok b, st) := by
  rw [eval_var _ _ _ _ _ hit, hst]
  unfold ctxVars
  unfold findSym at hf
  have hs1 : x.syms[id]? = some x.syms[id] := by simp [hsy]
  have hv1 : x.vals[id]? = some x.vals[id] := by simp [hv]
  unfold storeInto at hs
  rw [hs1, hv1] at hs
  simp only at hs
  split at hs
  · cases hs
    rw [lookup_ctxVars x.syms (x.vals.set id b) name id b hf (by simp [hv])]
  · split at hs
    · cases hs
    · cases hs
      rw [lookup_ctxVars _ (x.vals.set id b) name id b (by rw [names_set _ _ _ _ hs1]; exact hf) (by simp [hv])]

/-- script → api: after a run that left the interpreter's variables `vars`, every slot of the context holds exactly
the value the script's variable of that name has — which is what `bloc_ctx_load_variable` hands out. -/
theorem api_script_agree_load (x : Ctx) (vars : List (String × Val)) (id : Nat) (sy : Sym)
    (h : (writeBack x vars).syms[id]? = some sy) : (writeBack x vars).vals[id]? = some (lookupVar vars sy.name) := by
  simp only [writeBack] at h ⊢
  simp only [List.getElem?_map, List.getElem?_zip_eq_some, Option.map_eq_some_iff] at h ⊢
  obtain ⟨⟨sy0, old, new⟩, ⟨h1, h2, h3⟩, h4⟩ := h
  refine ⟨sy0, h1, ?_⟩
  split at h4 <;> (subst h4; rfl)

example : findSym { syms := [{ name := "I1", ty := Ty.int, safety := false }], vals := [.null Ty.int] } "I1" = some 0 := by decide

/-! ## context_reusable_after_error -/

/-- `context_reusable_after_error`, rejected text: after `bloc_parse_executable` rejects a catalogued text the context
is live, in the same generation (every symbol, expression and executable handle stays valid), with the same functions,
returned value and stop condition; every variable keeps its value (the symbols the parser registered before failing are
appended behind them); the executable slot stays free and no handle table of the host changed. Only the epoch moved. -/
theorem context_reusable_after_parse_error (s : State) (c xi k : Nat) (pos : Bool) (x : Ctx) (bt : BadText)
    (hx : getCtx s c = some x) (hslot : s.execs[xi]? = some none) (hb : badProgs[k]? = some bt) :
    ∃ x', getCtx (step s (.xparse c xi (.bad k) pos)).1 c = some x' ∧
      x'.gen = x.gen ∧ x'.funcs = x.funcs ∧ x'.returned = x.returned ∧ x'.stop = x.stop ∧
      (∀ (i : Nat) (v : Val), x.vals[i]? = some v → x'.vals[i]? = some v) ∧
      (step s (.xparse c xi (.bad k) pos)).1.execs = s.execs ∧ (step s (.xparse c xi (.bad k) pos)).1.syms = s.syms ∧
      (step s (.xparse c xi (.bad k) pos)).1.exprs = s.exprs ∧
      (step s (.xparse c xi (.bad k) pos)).2.fail = some bt.code := by
  have hf := addSyms_fields bt.newSyms x
  have hc := (getCtx_eq_some s c x).1 hx
  have hlt : c < s.ctxs.length := by
    rcases Nat.lt_or_ge c s.ctxs.length with h | h
    · exact h
    · rw [List.getElem?_eq_none h] at hc; exact absurd hc.1 (by simp)
  simp only [step, opXparse, hx, hslot, hb]
  refine ⟨{ restoreBacked (addSyms x bt.newSyms) with epoch := s.clock }, ?_, ?_⟩
  · rw [getCtx_eq_some]
    simp [setErr, bump, hlt, restoreBacked, hf.1, hc.2]
  · simp [setErr, bump, restoreBacked, hf.2.1, hf.2.2.1, hf.2.2.2.1, hf.2.2.2.2.1]
    exact hf.2.2.2.2.2.2

example : (badProgs[0]?).map (·.code) = some Gen.EXC_PARSE_UNEXPECTED_LEX_S := by decide

/-- `context_reusable_after_error`, failed run: when `bloc_execute` / `bloc_execute2` reports a runtime error the
context is live, in the same generation, NOT stopped, with the same functions; no handle table of the host changed, so
every executable (this one included), expression and symbol of the context can be used again at once. -/
theorem context_reusable_after_runtime_error (s : State) (c : Nat) (x : Ctx) (prog : List Stmt) (code : Nat)
    (hx : getCtx s c = some x) (hf : (runIn s c x prog).2.fail = some code) :
    ∃ x', getCtx (runIn s c x prog).1 c = some x' ∧ x'.gen = x.gen ∧ x'.stop = false ∧ x'.funcs = x.funcs ∧
      (runIn s c x prog).1.execs = s.execs ∧ (runIn s c x prog).1.syms = s.syms ∧ (runIn s c x prog).1.exprs = s.exprs := by
  have hc := (getCtx_eq_some s c x).1 hx
  have hlt : c < s.ctxs.length := by
    rcases Nat.lt_or_ge c s.ctxs.length with h | h
    · exact h
    · rw [List.getElem?_eq_none h] at hc; exact absurd hc.1 (by simp)
  generalize hE : execList x.funcs 0 fuel prog { vars := ctxVars x, returned := x.returned, out := [], budget := 300000 } = res
  obtain ⟨r, st⟩ := res
  have wb := addSyms_fields (st.vars.map fun (n, v) => (n, v.type)) x
  simp only [runIn, hE] at hf ⊢
  split at hf
  · simp at hf
  · rename_i hstop
    simp only [hstop]
    cases r with
    | ok fl => simp at hf
    | haz h => simp at hf
    | unmodelled => simp at hf
    | err cd arg =>
      simp only at hf ⊢
      split at hf
      · simp at hf
      · rename_i hoof
        simp only [hoof, Bool.false_eq_true, ↓reduceIte]
        refine ⟨{ (writeBack x st.vars) with returned := st.returned, epoch := s.clock }, ?_, ?_⟩
        · rw [getCtx_eq_some]
          simp only [ctxs_setErr, ctxs_appendSink, ctxs_bump]
          refine ⟨by simp [hlt], ?_⟩
          simp [writeBack, wb.1, hc.2]
        · simp [writeBack, wb.2.1, wb.2.2.1, wb.2.2.2.1, setErr, bump]
          refine ⟨by simpa using hstop, ?_, ?_, ?_⟩ <;> (unfold appendSink; split <;> rfl)

end BlocV.C15
