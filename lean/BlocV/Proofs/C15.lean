/-
  C15 — the C API honours its ownership and result contract for every call sequence.
  Property theorems only. Model: `BlocV.CApi` (Model/CApi.lean), the handle state machine of
  blocc/bloc_capi.h transcribed from bloc_capi.cpp / context.cpp / value.h.

  What is proved here is about the model; the tie to the library is the correspondence run of
  `./check C15` (every call's result, out-parameters, re-read pointers and error record compared
  token by token under ASan/UBSan/LSan). Memory reclamation is not modelled: no theorem speaks
  about leaks.
-/
import BlocV.Model.CApi
import BlocV.Proofs.Lemmas.CApi
import BlocV.Proofs.Lemmas.CApiSeq
import BlocV.Gen.Keywords

namespace BlocV.C15
open BlocV BlocV.CApi

/-! ## accessor_contract -/

/-- A typed accessor reports failure (with its `NOT_…` code) exactly when the type does not match. -/
theorem accessor_fails_iff (k : Acc) (v : Val) :
    accessor k v = .fail k.failCode ↔ k.matches v.type = false := by
  unfold accessor
  cases hm : k.matches v.type <;> simp

/-- The only failure code an accessor can report is its own. -/
theorem accessor_fail_code (k : Acc) (v : Val) (code : Nat) (h : accessor k v = .fail code) : code = k.failCode := by
  unfold accessor at h
  split at h
  · cases h; rfl
  · cases h

example : accessor .i (.str [104, 105]) = .fail Gen.EXC_RT_NOT_INTEGER := by decide

/-- `accessor_contract`, the full statement, for all eight accessors and every value: a typed accessor
succeeds iff the type of the value matches, and when it succeeds the data pointer is NULL iff the value is
null. (Until `bloc_literal` / `bloc_tabchar` were repaired this held only outside the two cells
`bloc_literal(null string)` / `bloc_tabchar(null bytes)`: theorem `accessor_contract_partial`, findings
C15.literal_accessor_null_deref, C15.tabchar_accessor_null_deref, both fixed.) -/
theorem accessor_contract (k : Acc) (v : Val) :
    ((∃ dn, accessor k v = .ok dn) ↔ k.matches v.type = true) ∧
    (∀ dn, accessor k v = .ok dn → dn = v.isNull) := by
  unfold accessor
  cases hm : k.matches v.type <;> simp

example : Acc.l.matches (Val.str [104, 105]).type = true := by decide
example : accessor .l (.str [104, 105]) = .ok false := by decide
example : accessor .n (.null Ty.num) = .ok true := by decide
example : accessor .t (.tab { major := .int, level := 1 } [] [.int 5]) = .ok false := by decide

/-- The documented result on a null value of the right type — `bloc_true` with a NULL data pointer — for every
accessor, `bloc_literal` and `bloc_tabchar` included (was: `accessor_contract_fails_on_null_literal`, the proved
negation, when those two dereferenced the null pointer). -/
theorem accessor_contract_holds_on_null (k : Acc) (v : Val) (hm : k.matches v.type = true) (hn : v.isNull = true) :
    accessor k v = .ok true := by
  simp [accessor, hm, hn]

example : accessor .l (.null Ty.str) = .ok true := by decide
example : accessor .x (.null Ty.raw) = .ok true := by decide
example : Acc.l.matches (Val.null Ty.str).type = true ∧ (Val.null Ty.str).isNull = true := by decide

/-- Every value of a matching type is accepted (the positive form of the former negation witness). -/
theorem accessor_succeeds_on_matching_type :
    ∀ (k : Acc) (v : Val), k.matches v.type = true → ∃ dn, accessor k v = .ok dn := by
  intro k v hm
  exact ⟨v.isNull, by simp [accessor, hm]⟩

example : ∃ dn, accessor .x (.null Ty.raw) = .ok dn := ⟨true, by decide⟩

/-- No value is accepted by two different accessors: "succeed exactly on the matching type". -/
theorem accessor_unique (k1 k2 : Acc) (ty : Ty) (h1 : k1.matches ty = true) (h2 : k2.matches ty = true) : k1 = k2 := by
  rcases ty with ⟨m, mi, l⟩
  cases k1 <;> cases k2 <;> cases m <;> simp_all [Acc.matches]

example : Acc.i.matches Ty.int = true ∧ Acc.n.matches Ty.int = false := by decide

/-! ## error_record_contract -/

def isParse : Op → Bool
  | .eparse .. => true
  | .xparse .. => true
  | _ => false


/-- `error_record_contract`, failure half: whenever a call reports failure by raising an error (NULL /
`bloc_false` from register, store, a typed accessor, parse, evaluate, run), the process-wide record holds exactly
that error's code and a non-empty message — for every state and every call. -/
theorem error_record_contract (s : State) (o : Op) (code : Nat) (h : (step s o).2.fail = some code) :
    (step s o).1.err = { code := code, msg := true } := by
  cases o <;> simp only [step] at h ⊢
  all_goals first
    | (simp only [opCnew, opCclone, opCfree, opCpurge, opCpwm, opFind, opLoad, opCreate, opVfree, opVdump, opEfree, opEtype,
        opXfree, opDrop, opStop, opOut, Out.pre, Out.of] at h ⊢; (repeat' split at h) <;> simp_all; done)
    | (simp only [opReg, opStore, opAssign, opAcc, opItem, opEparse, opEval, opXparse, opExec, opExec2, runIn, killBoxItems, killCtxItems, killExprVals, Out.pre, Out.of] at h ⊢; (repeat' split at h) <;> simp_all; done)
    | skip
  · simp only [opReg, Out.pre, Out.of] at h ⊢
    (repeat' split at h) <;> simp_all
    split
    · omega
    · rfl

/-- Calls other than the two parse calls never touch the error record unless they fail. -/
theorem success_keeps_record (s : State) (o : Op) (hp : isParse o = false) (h : (step s o).2.fail = none) :
    (step s o).1.err = s.err := by
  cases o <;> simp only [step] at h ⊢
  case eparse => simp [isParse] at hp
  case xparse => simp [isParse] at hp
  all_goals first
    | (simp only [opCnew, opCclone, opCfree, opCpurge, opCpwm, opFind, opLoad, opCreate, opVfree, opVdump, opEfree, opEtype,
        opXfree, opDrop, opStop, opOut, Out.pre, Out.of] at h ⊢; (repeat' split) <;> simp_all; done)
    | (simp only [opReg, opStore, opAssign, opAcc, opItem, opEval, opExec, opExec2, runIn, killBoxItems, killCtxItems, Out.pre, Out.of] at h ⊢; (repeat' split at h) <;> simp_all; done)
    | skip
  all_goals (
    simp only [opReg, opVfree, opEfree, opExec2, runIn, killBoxItems, killExprVals, Out.pre, Out.of] at h ⊢
    (repeat' split at h) <;> simp_all
    )
  all_goals ((repeat' split) <;> simp_all <;> (try omega))


/-- A parse call that succeeds clears the record (`bloc_error_raz`), whatever it held. -/
theorem parse_success_resets_record (s : State) (c k : Nat) :
    (∀ e, (step s (.eparse c k (.good e))).2.res = Res1.unit → (step s (.eparse c k (.good e))).1.err = {}) ∧
    (∀ p pos, (step s (.xparse c k (.good p) pos)).2.res = Res1.unit → (step s (.xparse c k (.good p) pos)).1.err = {}) := by
  constructor
  · intro e h
    simp only [step, opEparse, Out.pre] at h ⊢
    (repeat' split at h) <;> simp_all
  · intro p pos h
    simp only [step, opXparse, Out.pre] at h ⊢
    (repeat' split at h) <;> simp_all

/-- The documented reading "failure ⇒ `bloc_errno()` ≠ 0" is false on the pinned tree: a text that ends inside
a statement is rejected with code `EXC_PARSE_EOF` = 0 (known finding C15.parse_eof_errno_zero). -/
theorem failed_parse_may_leave_errno_zero :
    ∃ (s : State) (o : Op), (step s o).2.fail = some 0 ∧ (step s o).1.err.code = 0 := by
  refine ⟨(step State.init (.cnew 0)).1, .xparse 0 0 (.bad 2) true, ?_, ?_⟩ <;> decide

/-! ## library_pointer_stable -/

/-- Every epoch in use is older than the clock (holds initially, kept by every call). -/
def WF (s : State) : Prop := ∀ (c : Nat) (x : Ctx), s.ctxs[c]? = some x → x.epoch < s.clock

theorem WF_init : WF State.init := by
  intro c x h
  simp only [State.init] at h
  have : x = ({} : Ctx) := by
    rw [List.getElem?_replicate] at h
    split at h <;> simp_all
  subst this
  decide

theorem WF_step (s s1 : State) (out : Out) (o : Op) (hr : step s o = (s1, out)) (hw : WF s) : WF s1 := by
  intro c x1 h1
  obtain ⟨x, h0⟩ := step_ctx_exists s s1 out o c x1 hr h1
  have hx := hw c x h0
  rcases step_ctx s s1 out o c x x1 hr h0 h1 with ⟨he, hc⟩ | ⟨he, _, hc, _⟩ <;> omega

theorem WF_runSeq : ∀ (ops : List Op) (s : State), WF s → WF (runSeq s ops).1
  | [], _, h => h
  | o :: os, s, h => by
    simp only [runSeq]
    exact WF_runSeq os (step s o).1 (WF_step s _ _ o rfl h)

/-- The host itself does not write into context `c` (no store into it, no assign through a loaded pointer of it)
anywhere in the sequence. -/
def quiet (c : Nat) : State → List Op → Bool
  | _, [] => true
  | s, o :: os => !hostWrite o s c && quiet c (step s o).1 os

theorem runSeq_ctx_exists (c : Nat) : ∀ (ops : List Op) (s : State) (x' : Ctx),
    (runSeq s ops).1.ctxs[c]? = some x' → ∃ x, s.ctxs[c]? = some x
  | [], _, x', h => ⟨x', h⟩
  | o :: os, s, x', h => by
    simp only [runSeq] at h
    obtain ⟨x1, h1⟩ := runSeq_ctx_exists c os (step s o).1 x' h
    exact step_ctx_exists s _ _ o c x1 rfl h1

/-- Epochs never decrease. -/
theorem epoch_mono (c : Nat) : ∀ (ops : List Op) (s : State) (x x' : Ctx), WF s →
    s.ctxs[c]? = some x → (runSeq s ops).1.ctxs[c]? = some x' → x.epoch ≤ x'.epoch
  | [], _, x, x', _, h0, h1 => by
    simp only [runSeq] at h1; rw [h0] at h1; cases h1; exact Nat.le_refl _
  | o :: os, s, x, x', hw, h0, h1 => by
    simp only [runSeq] at h1
    obtain ⟨x1, hx1⟩ := runSeq_ctx_exists c os (step s o).1 x' h1
    have ih := epoch_mono c os (step s o).1 x1 x' (WF_step s _ _ o rfl hw) hx1 h1
    have hx := hw c x h0
    rcases step_ctx s _ _ o c x x1 rfl h0 hx1 with ⟨he, _⟩ | ⟨he, _⟩ <;> omega

/-- `library_pointer_stable`, the invariant over ALL call sequences. Take any well-formed state `s` (every state
reachable from the initial one is), any context slot `c`, and ANY sequence of calls `ops` — creating, cloning,
freeing, purging contexts, parsing valid and invalid texts, running, failing, on this or any other context. If
after the sequence slot `c` is at the SAME epoch as before — i.e. none of parse / run / evaluate / register /
purge / free happened in it — and the host itself did not store or assign into that context (`quiet`), then the
context is exactly as live as it was and EVERY variable slot holds exactly the value it held: a pointer handed
out by `bloc_ctx_load_variable` (or by evaluating a variable) denotes the same unmodified cell. -/
theorem library_pointer_stable (c : Nat) : ∀ (ops : List Op) (s : State) (x x' : Ctx), WF s →
    s.ctxs[c]? = some x → (runSeq s ops).1.ctxs[c]? = some x' → x'.epoch = x.epoch → quiet c s ops = true →
    x'.vals = x.vals ∧ x'.live = x.live
  | [], _, x, x', _, h0, h1, _, _ => by
    simp only [runSeq] at h1; rw [h0] at h1; cases h1; exact ⟨rfl, rfl⟩
  | o :: os, s, x, x', hw, h0, h1, he, hq => by
    simp only [runSeq] at h1
    simp only [quiet, Bool.and_eq_true, Bool.not_eq_true'] at hq
    obtain ⟨x1, hx1⟩ := runSeq_ctx_exists c os (step s o).1 x' h1
    have hw1 := WF_step s _ _ o rfl hw
    have hm := epoch_mono c os (step s o).1 x1 x' hw1 hx1 h1
    have hx := hw c x h0
    rcases step_ctx s _ _ o c x x1 rfl h0 hx1 with ⟨he1, _⟩ | ⟨he1, hl, _, hv⟩
    · omega
    · have ih := library_pointer_stable c os (step s o).1 x1 x' hw1 hx1 h1 (by omega) hq.2
      exact ⟨by rw [ih.1, hv hq.1], by rw [ih.2, hl]⟩

/-- The same for what the host holds: a library-owned reference to variable slot `id` of context `c` that is live
before and after the sequence reads the same value. -/
theorem loaded_pointer_reads_same (c id : Nat) (ops : List Op) (s : State) (r : VRef) (hw : WF s)
    (hroot : r.root = .slot c id) (hctx : r.ctx = c) (hk : r.kind ≠ .boxItem)
    (h0 : refLive s r = true) (h1 : refLive (runSeq s ops).1 r = true) (hq : quiet c s ops = true) :
    readRef (runSeq s ops).1 r = readRef s r := by
  have live : ∀ (t : State), refLive t r = true → ∃ x, t.ctxs[c]? = some x ∧ x.live = true ∧ x.epoch = r.epoch := by
    intro t ht
    unfold refLive at ht
    split at ht
    · rename_i hkk; exact absurd hkk hk
    · split at ht
      · rename_i x hg
        rw [hctx, getCtx_eq_some] at hg
        exact ⟨x, hg.1, hg.2, by simpa using ht⟩
      · cases ht
  obtain ⟨x, hx, hxl, hxe⟩ := live s h0
  obtain ⟨x', hx', hxl', hxe'⟩ := live _ h1
  have hs := library_pointer_stable c ops s x x' hw hx hx' (by omega) hq
  have g0 : getCtx s c = some x := (getCtx_eq_some s c x).2 ⟨hx, hxl⟩
  have g1 : getCtx (runSeq s ops).1 c = some x' := (getCtx_eq_some _ c x').2 ⟨hx', hxl'⟩
  simp only [readRef, hroot, readRoot, g0, g1, hs.1]

/-- Non-vacuity: a load, then calls that are none of parse/run/evaluate/register/purge in that context (here: creating
values, a failing accessor, another context created, parsed in and freed), then the pointer still reads 42. -/
example :
    let ops : List Op := [.cnew 0, .reg 0 0 "I1" .int 0, .vint 0 42, .store 0 0 0 true, .load 0 0 1,
                          .vlit 2 none, .acc 2 .i, .cnew 1, .xparse 1 0 (.bad 0) true, .cfree 1, .drop 0 3, .vdump 1]
    ((runSeq State.init ops).2.getLast?.map (·.res)).isSome = true := by decide

/-! ## api_script_agree -/

/-- api → script: a value stored through `bloc_ctx_store_variable` into the symbol found under `name` is what a
script reads when it evaluates that name (whatever the function table, depth and state of the rest; no `forall` running in that context, where the
name could be an iterator). -/
theorem api_script_agree_store (x x' : Ctx) (name : String) (id : Nat) (b : Val)
    (hf : findSym x name = some id) (hs : storeInto x id b = .ok x') (hv : id < x.vals.length) (hsy : id < x.syms.length)
    (funcs : List Func) (depth fuel : Nat) (st : St) (hst : st.vars = ctxVars x') (hit : st.iters = []) :
    eval funcs depth (fuel + 1) (.var name) st = (.ok b, st) := by
  rw [eval_var _ _ _ _ _ hit, hst]
  unfold ctxVars
  unfold findSym at hf
  have hs1 : x.syms[id]? = some x.syms[id] := by simp [hsy]
  have hv1 : x.vals[id]? = some x.vals[id] := by simp [hv]
  unfold storeInto at hs
  rw [hs1, hv1] at hs
  simp only at hs
  split at hs
  · cases hs
    rw [lookup_ctxVars x.syms (x.vals.set id b) name id b hf (by simp [hv])]
  · split at hs
    · cases hs
    · cases hs
      rw [lookup_ctxVars _ (x.vals.set id b) name id b (by rw [names_set _ _ _ _ hs1]; exact hf) (by simp [hv])]

/-- script → api: after a run that left the interpreter's variables `vars`, every slot of the context holds exactly
the value the script's variable of that name has — which is what `bloc_ctx_load_variable` hands out. -/
theorem api_script_agree_load (x : Ctx) (vars : List (String × Val)) (id : Nat) (sy : Sym)
    (h : (writeBack x vars).syms[id]? = some sy) : (writeBack x vars).vals[id]? = some (lookupVar vars sy.name) := by
  simp only [writeBack] at h ⊢
  simp only [List.getElem?_map, List.getElem?_zip_eq_some, Option.map_eq_some_iff] at h ⊢
  obtain ⟨⟨sy0, old, new⟩, ⟨h1, h2, h3⟩, h4⟩ := h
  refine ⟨sy0, h1, ?_⟩
  split at h4 <;> (subst h4; rfl)

example : findSym { syms := [{ name := "I1", ty := Ty.int, safety := false }], vals := [.null Ty.int] } "I1" = some 0 := by decide

/-! ## context_reusable_after_error -/

/-- `context_reusable_after_error`, rejected text: after `bloc_parse_executable` rejects a catalogued text the context
is live, in the same generation (every symbol, expression and executable handle stays valid), with the same functions,
returned value and stop condition; every variable keeps its value (the symbols the parser registered before failing are
appended behind them); the executable slot stays free and no handle table of the host changed. Only the epoch moved. -/
theorem context_reusable_after_parse_error (s : State) (c xi k : Nat) (pos : Bool) (x : Ctx) (bt : BadText)
    (hx : getCtx s c = some x) (hslot : s.execs[xi]? = some none) (hb : badProgs[k]? = some bt) :
    ∃ x', getCtx (step s (.xparse c xi (.bad k) pos)).1 c = some x' ∧
      x'.gen = x.gen ∧ x'.funcs = x.funcs ∧ x'.returned = x.returned ∧ x'.stop = x.stop ∧
      (∀ (i : Nat) (v : Val), x.vals[i]? = some v → x'.vals[i]? = some v) ∧
      (step s (.xparse c xi (.bad k) pos)).1.execs = s.execs ∧ (step s (.xparse c xi (.bad k) pos)).1.syms = s.syms ∧
      (step s (.xparse c xi (.bad k) pos)).1.exprs = s.exprs ∧
      (step s (.xparse c xi (.bad k) pos)).2.fail = some bt.code := by
  have hf := addSyms_fields bt.newSyms x
  have hc := (getCtx_eq_some s c x).1 hx
  have hlt : c < s.ctxs.length := by
    rcases Nat.lt_or_ge c s.ctxs.length with h | h
    · exact h
    · rw [List.getElem?_eq_none h] at hc; exact absurd hc.1 (by simp)
  simp only [step, opXparse, hx, hslot, hb]
  refine ⟨{ restoreBacked (addSyms x bt.newSyms) with epoch := s.clock }, ?_, ?_⟩
  · rw [getCtx_eq_some]
    simp [setErr, bump, hlt, restoreBacked, hf.1, hc.2]
  · simp [setErr, bump, restoreBacked, hf.2.1, hf.2.2.1, hf.2.2.2.1, hf.2.2.2.2.1]
    exact hf.2.2.2.2.2.2

example : (badProgs[0]?).map (·.code) = some Gen.EXC_PARSE_UNEXPECTED_LEX_S := by decide

/-- `context_reusable_after_error`, failed run: when `bloc_execute` / `bloc_execute2` reports a runtime error the
context is live, in the same generation, NOT stopped, with the same functions; no handle table of the host changed, so
every executable (this one included), expression and symbol of the context can be used again at once. -/
theorem context_reusable_after_runtime_error (s : State) (c : Nat) (x : Ctx) (prog : List Stmt) (code : Nat)
    (hx : getCtx s c = some x) (hf : (runIn s c x prog).2.fail = some code) :
    ∃ x', getCtx (runIn s c x prog).1 c = some x' ∧ x'.gen = x.gen ∧ x'.stop = false ∧ x'.funcs = x.funcs ∧
      (runIn s c x prog).1.execs = s.execs ∧ (runIn s c x prog).1.syms = s.syms ∧ (runIn s c x prog).1.exprs = s.exprs := by
  have hc := (getCtx_eq_some s c x).1 hx
  have hlt : c < s.ctxs.length := by
    rcases Nat.lt_or_ge c s.ctxs.length with h | h
    · exact h
    · rw [List.getElem?_eq_none h] at hc; exact absurd hc.1 (by simp)
  generalize hE : execList x.funcs 0 fuel prog { vars := ctxVars x, returned := x.returned, out := [], budget := 300000 } = res
  obtain ⟨r, st⟩ := res
  have wb := addSyms_fields (st.vars.map fun (n, v) => (n, v.type)) x
  simp only [runIn, hE] at hf ⊢
  split at hf
  · simp at hf
  · rename_i hstop
    simp only [hstop]
    cases r with
    | ok fl => simp at hf
    | haz h => simp at hf
    | unmodelled => simp at hf
    | err cd arg =>
      simp only at hf ⊢
      split at hf
      · simp at hf
      · rename_i hoof
        simp only [hoof, Bool.false_eq_true, ↓reduceIte]
        refine ⟨{ (writeBack x st.vars) with returned := st.returned, epoch := s.clock }, ?_, ?_⟩
        · rw [getCtx_eq_some]
          simp only [ctxs_setErr, ctxs_appendSink, ctxs_bump]
          refine ⟨by simp [hlt], ?_⟩
          simp [writeBack, wb.1, hc.2]
        · simp [writeBack, wb.2.1, wb.2.2.1, wb.2.2.2.1, setErr, bump]
          refine ⟨by simpa using hstop, ?_, ?_, ?_⟩ <;> (unfold appendSink; split <;> rfl)

/-! ## C15R3 — operator texts generated from the typing model; rejected parses over all sequences -/

/-- The operands of the generated operator texts have the static types they are meant to have: `typeOfExpr` (the
parser's `exp->type(ctx)`) of each operand AST, in a context where the three reserved variables are declared, is the
operand's nominal type — for all 5 forms × 3 types. -/
theorem atom_static_type (f : OForm) (t : OTy) : atomTy f t = t.ty := by
  cases f <;> cases t <;> decide


example : atomTy .memb .bool = Ty.bool ∧ atomTy .call .int = Ty.int ∧ atomTy .paren .str = Ty.str := by decide

/-- the spellings cover every non-empty entry of `Operator::OPVALS` (generated table `Gen.opvals`) except the member
operator `.` — a test over that table, by evaluation -/
example : ((Gen.opvals).filter fun w => w != "" && w != ".").all
    (fun w => (binSpellings.map (·.1)).contains w || (unSpellings.map (·.1)).contains w) = true := by decide

/-- `typed_rejection_iff` (`bloc_parse_expression`): the i-th generated operator text, parsed in ANY state in which the
context is live, the expression slot free and the variables the text reads are registered, is rejected — NULL,
`bloc_errno() = EXC_PARSE_TYPE_MISMATCH_S` — if and only if the typing model (`Typing.acceptBin` / `acceptUn`; `acceptMatch`
for `matches`) rejects the static types of its operands; and it parses iff the typing model accepts them. -/
theorem typed_rejection_iff (s : State) (c e i : Nat) (x : Ctx) (oc : OpCase) (t : ExprText)
    (hx : getCtx s c = some x) (hslot : s.exprs[e]? = some none)
    (hi : opCases[i]? = some oc) (ht : opExprText i = some t) (hs : oc.symsOk x) :
    ((step s (.eparse c e t)).2.fail = some Gen.EXC_PARSE_TYPE_MISMATCH_S ∧ (step s (.eparse c e t)).2.res = Res1.null
        ↔ oc.accepted = false) ∧
    ((step s (.eparse c e t)).2.fail = none ∧ (step s (.eparse c e t)).2.res = Res1.unit ↔ oc.accepted = true) := by
  unfold opExprText at ht
  rw [hi] at ht
  simp only at ht
  by_cases hr : oc.rejected = true
  · have ha : oc.accepted = false := by simpa [OpCase.rejected] using hr
    simp only [hr, ↓reduceIte, Option.some.injEq] at ht
    subst ht
    simp [step, opEparse, hx, hslot, opBad_expr_lookup i oc hi hr, codeIn_of_symsOk oc x hs, ha]
  · have ha : oc.accepted = true := by simpa [OpCase.rejected] using hr
    simp only [hr, Bool.false_eq_true, ↓reduceIte, Option.map_eq_some_iff] at ht
    obtain ⟨ex, _, rfl⟩ := ht
    simp [step, opEparse, hx, hslot, ha]


/-- the same through `bloc_parse_executable`, with the position the call writes to `*pos`: the last character of the
text layout (`OpCase.errPos`): the first token of the right operand when the left operand alone is ill-typed — its check
throws before the right operand is parsed —, else the `;` that follows the right operand (`endPos`) -/
theorem typed_rejection_iff_prog (s : State) (c xi i : Nat) (pos : Bool) (x : Ctx) (oc : OpCase) (t : ProgText)
    (hx : getCtx s c = some x) (hslot : s.execs[xi]? = some none)
    (hi : opCases[i]? = some oc) (ht : opProgText i = some t) :
    ((step s (.xparse c xi t pos)).2.fail = some Gen.EXC_PARSE_TYPE_MISMATCH_S ∧
      (step s (.xparse c xi t pos)).2.res = (if pos then Res1.nullAt oc.errPos.1 oc.errPos.2 else Res1.null)
        ↔ oc.accepted = false) ∧
    ((step s (.xparse c xi t pos)).2.fail = none ∧ (step s (.xparse c xi t pos)).2.res = Res1.unit ↔ oc.accepted = true) := by
  unfold opProgText at ht
  rw [hi] at ht
  simp only at ht
  by_cases hr : oc.rejected = true
  · have ha : oc.accepted = false := by simpa [OpCase.rejected] using hr
    simp only [hr, ↓reduceIte, Option.some.injEq] at ht
    subst ht
    simp [step, opXparse, hx, hslot, opBad_prog_lookup i oc hi hr, ha, OpCase.badProg]
  · have ha : oc.accepted = true := by simpa [OpCase.rejected] using hr
    simp only [hr, Bool.false_eq_true, ↓reduceIte, Option.map_eq_some_iff] at ht
    obtain ⟨ex, _, rfl⟩ := ht
    simp [step, opXparse, hx, hslot, ha]

-- non-vacuity: case 1 is `1 + "a"` (rejected), case 0 is `1 + 1` (accepted); the hypotheses hold in a fresh context
example : (opCases[1]?).map (fun oc => (oc.body, oc.accepted)) = some ("1 + \"a\"", false) := by decide
example : (opCases[0]?).map (fun oc => (oc.body, oc.accepted)) = some ("1 + 1", true) := by decide
example : (opCases[1]?).map (fun oc => oc.vars) = some [] := by decide
example : (opCases.length, (opCases.filter OpCase.rejected).length) = (1200, 880) := by decide +kernel
example : ((step (step State.init (.cnew 0)).1 (.eparse 0 0 (.bad (opBadIndex handBadExprs.length 1)))).2.fail) =
    some Gen.EXC_PARSE_TYPE_MISMATCH_S := by decide +kernel
-- a `var` form text before its variables exist: an undefined symbol, not a type mismatch (hypothesis `symsOk` matters)
example : (opCases[10]?).map (fun oc => (oc.body, oc.accepted, oc.vars)) = some ("v_i9 + v_s9", false, [("V_I9", Ty.int), ("V_S9", Ty.str)]) := by decide
example : ((step (step State.init (.cnew 0)).1 (.eparse 0 0 (.bad (opBadIndex handBadExprs.length 10)))).2.fail) =
    some Gen.EXC_PARSE_UNDEFINED_SYMBOL_S := by decide +kernel
-- the column rule on a catalog text whose position was observed: `q9 = 1 - "abc";` is reported at 1:15
example : endPos "q9 = 1 - \"abc\";" = (1, 15) := by decide
-- … and `q9 = "abc" - 1;` at 1:14, the `1`: the left operand is checked before the right one is parsed
example : posBack "q9 = \"abc\" - 1;" 1 = (1, 14) := by decide
example : (opCases[228]?).map (fun oc => (oc.body, oc.leftBad, oc.rightBad, oc.errPos)) = some ("\"a\" ** 1", true, false, (1, 13)) := by decide +kernel

/-- `rejected_parse_contract`, one call of `bloc_parse_expression`: for EVERY state and EVERY text of the catalog (hand-written
or generated) with its code `code` in that context — the call returns NULL, reports `code`, the error record is exactly
`code`; no handle is created (all five handle tables of the host are what they were: in particular every caller-owned value
is untouched); context `c` got the fresh epoch and is otherwise unchanged; every OTHER context is unchanged. -/
theorem rejected_parse_contract_expr (s : State) (c e k : Nat) (x : Ctx) (bt : BadText) (code : Nat)
    (hx : getCtx s c = some x) (hslot : s.exprs[e]? = some none) (hb : badExprs[k]? = some bt) (hc : bt.codeIn x = some code) :
    (step s (.eparse c e (.bad k))).2.res = Res1.null ∧
    (step s (.eparse c e (.bad k))).2.fail = some code ∧
    (step s (.eparse c e (.bad k))).1.err = { code := code, msg := true } ∧
    (step s (.eparse c e (.bad k))).1.exprs = s.exprs ∧ (step s (.eparse c e (.bad k))).1.execs = s.execs ∧
    (step s (.eparse c e (.bad k))).1.syms = s.syms ∧ (step s (.eparse c e (.bad k))).1.vals = s.vals ∧
    (step s (.eparse c e (.bad k))).1.sinks = s.sinks ∧
    (step s (.eparse c e (.bad k))).1.ctxs = s.ctxs.set c { x with epoch := s.clock } ∧
    (step s (.eparse c e (.bad k))).1.clock = s.clock + 1 := by
  simp [step, opEparse, hx, hslot, hb, hc, setErr, razErr, bump]


/-- `rejected_parse_contract`, one call of `bloc_parse_executable`: the same, with `*pos`; the context additionally keeps the
symbols the parser registered before it failed (appended) and gets upgraded symbol types back (`parsingEnd`). -/
theorem rejected_parse_contract_prog (s : State) (c xi k : Nat) (pos : Bool) (x : Ctx) (bt : BadText)
    (hx : getCtx s c = some x) (hslot : s.execs[xi]? = some none) (hb : badProgs[k]? = some bt) :
    (step s (.xparse c xi (.bad k) pos)).2.res = (if pos then Res1.nullAt bt.line bt.col else Res1.null) ∧
    (step s (.xparse c xi (.bad k) pos)).2.fail = some bt.code ∧
    (step s (.xparse c xi (.bad k) pos)).1.err = { code := bt.code, msg := true } ∧
    (step s (.xparse c xi (.bad k) pos)).1.exprs = s.exprs ∧ (step s (.xparse c xi (.bad k) pos)).1.execs = s.execs ∧
    (step s (.xparse c xi (.bad k) pos)).1.syms = s.syms ∧ (step s (.xparse c xi (.bad k) pos)).1.vals = s.vals ∧
    (step s (.xparse c xi (.bad k) pos)).1.sinks = s.sinks ∧
    (step s (.xparse c xi (.bad k) pos)).1.ctxs = s.ctxs.set c { restoreBacked (addSyms x bt.newSyms) with epoch := s.clock } ∧
    (step s (.xparse c xi (.bad k) pos)).1.clock = s.clock + 1 := by
  simp [step, opXparse, hx, hslot, hb, setErr, bump]


example : (badExprs[0]?).map (·.codeIn {}) = some (some Gen.EXC_PARSE_UNEXPECTED_LEX_S) := by decide

/-- … "bumps the context's epoch: library-owned pointers of that context die": after ANY call that installs the fresh epoch
in context `c` (the two theorems above say a rejected parse does) every library-owned pointer of `c` that was live is dead. -/
theorem library_pointers_die (s s' : State) (c : Nat) (x x' : Ctx) (r : VRef) (hw : ∀ (d : Nat) (y : Ctx), s.ctxs[d]? = some y → y.epoch < s.clock)
    (hx : getCtx s c = some x) (hs' : s'.ctxs = s.ctxs.set c { x' with epoch := s.clock })
    (hk : r.kind ≠ .boxItem) (hc : r.ctx = c) (hl : refLive s r = true) : refLive s' r = false := by
  have hlt := ctx_lt_of_getCtx hx
  have hxe : x.epoch < s.clock := hw c x ((getCtx_eq_some s c x).1 hx).1
  unfold refLive at hl ⊢
  split
  · rename_i hkk; exact absurd hkk hk
  · split at hl
    · rename_i hkk; exact absurd hkk hk
    · rw [hc, hx] at hl
      simp only [beq_iff_eq] at hl
      rw [hc]
      unfold getCtx
      rw [hs']
      simp only [List.getElem?_set_self hlt]
      split
      · rename_i y hy
        split at hy
        · simp only [Option.some.injEq] at hy
          subst hy
          simp only [beq_eq_false_iff_ne, ne_eq]
          omega
        · cases hy
      · rfl


/-- `rejected_parse_contract` over ALL sequences of rejected parse calls — any texts of the catalogs, through either entry
point, in any contexts, in any order, from ANY state: no handle is created, nothing the caller owns changes, every context
keeps its liveness, generation, functions, returned value, stop condition and every variable its value. -/
theorem rejected_parses_touch_nothing : ∀ (ops : List Op) (s : State), (∀ o ∈ ops, isBadParse o = true) →
    Untouched s (runSeq s ops).1
  | [], s, _ => Untouched.refl s
  | o :: os, s, h => by
    simp only [runSeq]
    exact (step_badParse_untouched s o (h o (by simp))).trans
      (rejected_parses_touch_nothing os (step s o).1 (fun o' ho' => h o' (by simp [ho'])))


/-- `usable_after_reject`: after any such sequence a context that was live accepts every text it accepted before — every
good expression and every good program parses (into any slot that was free), and the handles of the context stay valid
(same generation, handle tables unchanged). -/
theorem usable_after_reject (ops : List Op) (s : State) (c : Nat) (x : Ctx) (hall : ∀ o ∈ ops, isBadParse o = true)
    (hx : getCtx s c = some x) :
    (∃ x', getCtx (runSeq s ops).1 c = some x' ∧ x'.gen = x.gen) ∧
    (∀ (e : Nat) (ex : Expr), s.exprs[e]? = some none →
      (step (runSeq s ops).1 (.eparse c e (.good ex))).2.res = Res1.unit ∧ (step (runSeq s ops).1 (.eparse c e (.good ex))).2.fail = none) ∧
    (∀ (xi : Nat) (p : List Stmt) (pos : Bool), s.execs[xi]? = some none →
      (step (runSeq s ops).1 (.xparse c xi (.good p) pos)).2.res = Res1.unit ∧ (step (runSeq s ops).1 (.xparse c xi (.good p) pos)).2.fail = none) := by
  obtain ⟨h1, h2, _, _, _, h6⟩ := rejected_parses_touch_nothing ops s hall
  have hxc := (getCtx_eq_some s c x).1 hx
  obtain ⟨x', hx', hk⟩ := h6 c x hxc.1
  have hg : getCtx (runSeq s ops).1 c = some x' := (getCtx_eq_some _ c x').2 ⟨hx', by rw [hk.1]; exact hxc.2⟩
  refine ⟨⟨x', hg, hk.2.1⟩, ?_, ?_⟩
  · intro e ex he
    simp [step, opEparse, hg, h1, he]
  · intro xi p pos he
    simp [step, opXparse, hg, h2, he]


-- non-vacuity: three rejected parses (a generated operator text, a hand-written text through each entry point) are such a sequence
example : ([Op.eparse 0 0 (.bad (opBadIndex handBadExprs.length 1)), .xparse 0 0 (.bad 4) true, .eparse 0 1 (.bad 0)].all isBadParse) = true := by decide

/-! ## C15R3 — two statements NOTES-C15 listed as not proved -/

/-- The accessor contract as a contract of the CALL, in every state: on a readable value the call succeeds iff the type
matches, hands out the data (NULL iff the value is null) and changes nothing; else it returns `bloc_false`, the record holds the
accessor's own code and nothing else changes. -/
theorem accessor_call_contract (s : State) (v : Nat) (k : Acc) (x : Val) (hr : readSlot s v = some x) :
    (k.matches x.type = true → (step s (.acc v k)).2.res = Res1.acc x.isNull x ∧ (step s (.acc v k)).2.fail = none ∧ (step s (.acc v k)).1 = s) ∧
    (k.matches x.type = false → (step s (.acc v k)).2.res = Res1.truth false ∧ (step s (.acc v k)).2.fail = some k.failCode ∧
      (step s (.acc v k)).1 = setErr s k.failCode) := by
  constructor <;> intro hm <;> simp [step, opAcc, hr, accessor, hm, Out.of]


/-- … and therefore at every position of every call sequence from every state. -/
theorem accessor_contract_along_sequences (ops : List Op) (s : State) (i v : Nat) (k : Acc) (x : Val)
    (hi : ops[i]? = some (.acc v k)) (hr : readSlot (runSeq s (ops.take i)).1 v = some x) :
    ∃ out, (runSeq s ops).2[i]? = some out ∧
      (k.matches x.type = true → out.res = Res1.acc x.isNull x ∧ out.fail = none) ∧
      (k.matches x.type = false → out.res = Res1.truth false ∧ out.fail = some k.failCode) := by
  refine ⟨_, runSeq_out ops s i _ hi, ?_, ?_⟩
  · intro hm; have := (accessor_call_contract _ v k x hr).1 hm; exact ⟨this.1, this.2.1⟩
  · intro hm; have := (accessor_call_contract _ v k x hr).2 hm; exact ⟨this.1, this.2.1⟩


example : (readSlot (runSeq State.init [.cnew 0, .vint 0 42]).1 0).map (·.type) = some Ty.int := by decide

/-- While the stop condition of a context is held (`bloc_break`, or a `return` that ran), `bloc_execute` runs NOTHING: it
returns `bloc_true`, does not touch the error record, and the only change of the whole state is the new epoch of the context. -/
theorem held_run_is_noop (s : State) (xi : Nat) (h : ExecH) (x : Ctx) (hu : execUsable s xi = some h)
    (hx : getCtx s h.ctx = some x) (hstop : x.stop = true) :
    (step s (.exec xi)).2.res = Res1.truth true ∧ (step s (.exec xi)).2.fail = none ∧ (step s (.exec xi)).1 = bump s h.ctx x := by
  simp [step, opExec, hu, hx, runIn, hstop]


/-- `bloc_break` / a `return` that ran HOLD: over ANY call sequence that contains none of `bloc_reset_stop`, `bloc_ctx_purge`,
`bloc_free_context` on context c — whatever else is called, on this or any other context, succeeding or failing — a live
context whose stop condition is held stays live with the condition held. -/
theorem stop_held_until_release (c : Nat) : ∀ (ops : List Op) (s : State) (x : Ctx),
    s.ctxs[c]? = some x → x.live = true → x.stop = true → (∀ o ∈ ops, releases c o = false) →
    ∃ x', (runSeq s ops).1.ctxs[c]? = some x' ∧ x'.live = true ∧ x'.stop = true
  | [], _, x, h0, hl, hs, _ => ⟨x, h0, hl, hs⟩
  | o :: os, s, x, h0, hl, hs, hall => by
    simp only [runSeq]
    have hlen := step_ctxs_length s (step s o).1 (step s o).2 o rfl
    have hc : c < (step s o).1.ctxs.length := by
      rw [hlen]
      rcases Nat.lt_or_ge c s.ctxs.length with h | h
      · exact h
      · rw [List.getElem?_eq_none h] at h0; cases h0
    have h1 : (step s o).1.ctxs[c]? = some (step s o).1.ctxs[c] := by simp [hc]
    have hk := step_stop_held s _ _ o c x _ rfl h0 h1 hl hs (hall o (by simp))
    exact stop_held_until_release c os (step s o).1 _ h1 hk.1 hk.2 (fun o' ho' => hall o' (by simp [ho']))


/-- … and so, after any such sequence, running an executable of that context still runs nothing. -/
theorem nothing_runs_while_held (c xi : Nat) (ops : List Op) (s : State) (x : Ctx) (h : ExecH)
    (h0 : s.ctxs[c]? = some x) (hl : x.live = true) (hs : x.stop = true) (hall : ∀ o ∈ ops, releases c o = false)
    (hu : execUsable (runSeq s ops).1 xi = some h) (hc : h.ctx = c) :
    ∃ x', getCtx (runSeq s ops).1 c = some x' ∧
      (step (runSeq s ops).1 (.exec xi)).2.res = Res1.truth true ∧ (step (runSeq s ops).1 (.exec xi)).2.fail = none ∧
      (step (runSeq s ops).1 (.exec xi)).1 = bump (runSeq s ops).1 c x' := by
  obtain ⟨x', hx', hl', hs'⟩ := stop_held_until_release c ops s x h0 hl hs hall
  have hg : getCtx (runSeq s ops).1 c = some x' := (getCtx_eq_some _ c x').2 ⟨hx', hl'⟩
  subst hc
  exact ⟨x', hg, held_run_is_noop _ xi h x' hu hg hs'⟩


-- non-vacuity: after `bloc_break` the stop is held in a live context; parsing and registering do not release it
example : (((runSeq State.init [.cnew 0, .brk 0, .reg 0 0 "I1" .int 0, .eparse 0 0 (.bad 0)]).1.ctxs[0]?).map fun x => (x.live, x.stop)) = some (true, true) := by decide
example : ([Op.reg 0 0 "I1" .int 0, .eparse 0 0 (.bad 0), .brk 0, .cpurge 1].all fun o => !releases 0 o) = true := by decide

/-- `purge` semantics for what was parsed / registered before it: after `bloc_ctx_purge(c)`, over ANY later call sequence
(any calls on any contexts: new parses, runs, frees, re-creation of the slot, further purges), every executable,
expression and symbol handle of `c` of an older generation (`gen < clock at the purge`: every handle that existed then,
since generations are clock values) stays unusable — `bloc_execute` / `bloc_execute2` / `bloc_evaluate_expression` /
`bloc_expression_type` / store / load with it violate the precondition (`pre`: the host must not make the call; the executable
still has to be freed). Handles created after the purge carry the new generation and are not concerned. -/
theorem purge_ends_handles_forever (s : State) (c : Nat) (x : Ctx) (ops : List Op) (hx : getCtx s c = some x) :
    (∀ (xi : Nat) (h : ExecH), (runSeq (step s (.cpurge c)).1 ops).1.execs[xi]? = some (some h) → h.ctx = c → h.gen < s.clock →
      execUsable (runSeq (step s (.cpurge c)).1 ops).1 xi = none ∧
      (step (runSeq (step s (.cpurge c)).1 ops).1 (.exec xi)).2.res = Res1.pre) ∧
    (∀ (e : Nat) (h : ExprH), (runSeq (step s (.cpurge c)).1 ops).1.exprs[e]? = some (some h) → h.ctx = c → h.gen < s.clock →
      exprUsable (runSeq (step s (.cpurge c)).1 ops).1 e c = none) ∧
    (∀ (sh : Nat) (h : SymH), (runSeq (step s (.cpurge c)).1 ops).1.syms[sh]? = some (some h) → h.ctx = c → h.gen < s.clock →
      symLive (runSeq (step s (.cpurge c)).1 ops).1 sh c = none) := by
  have hf := genFloor_runSeq c s.clock ops _ (genFloor_after_purge s c x hx)
  generalize (runSeq (step s (.cpurge c)).1 ops).1 = t at hf
  have key : ∀ (y : Ctx) (g : Nat), getCtx t c = some y → g < s.clock → (g == y.gen) = false := by
    intro y g hy hg
    have := (getCtx_eq_some t c y).1 hy
    have := hf.2 y this.1 this.2
    simp only [beq_eq_false_iff_ne, ne_eq]
    omega
  refine ⟨?_, ?_, ?_⟩
  · intro xi h hh hc hg
    have hu : execUsable t xi = none := by
      unfold execUsable
      rw [hh]
      simp only [hc]
      split
      · rename_i y hy
        simp [key y h.gen hy hg]
      · rfl
    exact ⟨hu, by simp [step, opExec, hu, Out.pre]⟩
  · intro e h hh hc hg
    unfold exprUsable
    rw [hh]
    split
    · rename_i h' y heq hy
      simp only [Option.some.injEq] at heq
      subst heq
      simp [key y h.gen hy hg]
    · rfl
  · intro sh h hh hc hg
    unfold symLive
    rw [hh]
    split
    · rename_i h' y heq hy
      simp only [Option.some.injEq] at heq
      subst heq
      simp [key y h.gen hy hg]
    · rfl

-- non-vacuity: an executable parsed before the purge sits in its slot afterwards, with a generation older than the purge
example :
    let s := (runSeq State.init [.cnew 0, .xparse 0 0 (.good [.nop]) true]).1
    ((s.execs[0]?).map fun h => h.map fun h => (h.ctx, decide (h.gen < s.clock))) = some (some (0, true)) ∧
    ((step (step s (.cpurge 0)).1 (.exec 0)).2.res matches Res1.pre) = true := by decide

/-! ## C15R3 — isolation of contexts under API calls (TASK section 3, the part the present model can state) -/

/-- `cross_context_isolation` for API calls, over ALL call sequences: whatever is called in OTHER contexts — parses, runs,
failing runs, stores, assigns through loaded pointers, purge, free, clones taken FROM `d` and everything done in those
clones — slot `d` of the context table is exactly what it was: same variables and values, symbols, functions, returned
value, stop condition, generation and EPOCH. -/
theorem cross_context_isolation (d : Nat) : ∀ (ops : List Op) (s : State), untargeted d s ops = true →
    (runSeq s ops).1.ctxs[d]? = s.ctxs[d]?
  | [], _, _ => rfl
  | o :: os, s, h => by
    simp only [untargeted, Bool.and_eq_true, Bool.not_eq_true'] at h
    simp only [runSeq]
    rw [cross_context_isolation d os (step s o).1 h.2, step_untargeted s o d h.1]

/-- … hence every library-owned pointer into `d` the host holds is exactly as live as before and reads the same value. -/
theorem cross_context_pointers (d : Nat) (ops : List Op) (s : State) (r : VRef) (id : Nat) (h : untargeted d s ops = true)
    (hroot : r.root = .slot d id) (hctx : r.ctx = d) :
    refLive (runSeq s ops).1 r = refLive s r ∧ readRef (runSeq s ops).1 r = readRef s r := by
  have hc := cross_context_isolation d ops s h
  have hg : getCtx (runSeq s ops).1 d = getCtx s d := by unfold getCtx; rw [hc]
  constructor
  · unfold refLive; rw [hctx, hg]
  · unfold readRef; rw [hroot]; unfold readRoot; simp only [hg]


-- non-vacuity: context 0 is cloned, the clone gets a new symbol, a store, a purge and is freed; a failing parse in a third context
example :
    let s := (runSeq State.init [.cnew 0, .reg 0 0 "I1" .int 0]).1
    untargeted 0 s [.cclone 0 1 2, .reg 1 1 "I2" .int 0, .vint 0 5, .store 1 1 0 true, .cpurge 1, .cfree 1, .cnew 2, .eparse 2 0 (.bad 0)] = true := by
  decide

/-! ## C15R4 — the invariant behind `purge_ends_handles_forever` -/

/-- The invariant `purge_ends_handles_forever` took as a hypothesis, proved for every reachable state: after ANY call
sequence from the initial state, the generation of every context and of every executable, expression and symbol handle the
host holds is below the clock (generations are clock values of the past). Induction over the op list; per call: `step_gen`
(contexts) and `step_execs` / `step_exprs` / `step_syms` (a handle after a call was there before or carries the generation
of a context) — case analyses over the 38 ops. -/
theorem handle_generations_below_clock (ops : List Op) : HandleWF (runSeq State.init ops).1 :=
  handleWF_runSeq ops State.init handleWF_init

/-- `purge_ends_handles_forever` without its hypothesis, for reachable states: take ANY call sequence `pre` from the initial
state, purge a live context `c`, then ANY call sequence `ops`: every executable, expression and symbol handle of `c` the host
held at the purge — as long as it still sits in its slot — is unusable in the final state; `bloc_execute` with such an
executable violates the precondition. -/
theorem purged_handles_dead_in_reachable_states (pre ops : List Op) (c : Nat) (x : Ctx)
    (hx : getCtx (runSeq State.init pre).1 c = some x) :
    (∀ (xi : Nat) (h : ExecH), (runSeq State.init pre).1.execs[xi]? = some (some h) → h.ctx = c →
      (runSeq (step (runSeq State.init pre).1 (.cpurge c)).1 ops).1.execs[xi]? = some (some h) →
      execUsable (runSeq (step (runSeq State.init pre).1 (.cpurge c)).1 ops).1 xi = none ∧
      (step (runSeq (step (runSeq State.init pre).1 (.cpurge c)).1 ops).1 (.exec xi)).2.res = Res1.pre) ∧
    (∀ (e : Nat) (h : ExprH), (runSeq State.init pre).1.exprs[e]? = some (some h) → h.ctx = c →
      (runSeq (step (runSeq State.init pre).1 (.cpurge c)).1 ops).1.exprs[e]? = some (some h) →
      exprUsable (runSeq (step (runSeq State.init pre).1 (.cpurge c)).1 ops).1 e c = none) ∧
    (∀ (sh : Nat) (h : SymH), (runSeq State.init pre).1.syms[sh]? = some (some h) → h.ctx = c →
      (runSeq (step (runSeq State.init pre).1 (.cpurge c)).1 ops).1.syms[sh]? = some (some h) →
      symLive (runSeq (step (runSeq State.init pre).1 (.cpurge c)).1 ops).1 sh c = none) := by
  obtain ⟨_, w2, w3, w4⟩ := handle_generations_below_clock pre
  obtain ⟨p1, p2, p3⟩ := purge_ends_handles_forever (runSeq State.init pre).1 c x ops hx
  exact ⟨fun xi h h0 hc ht => p1 xi h ht hc (w2 xi h h0), fun e h h0 hc ht => p2 e h ht hc (w3 e h h0),
    fun sh h h0 hc ht => p3 sh h ht hc (w4 sh h h0)⟩

-- non-vacuity: a reachable state with a live context holding an executable and a symbol handle
example :
    let s := (runSeq State.init [.cnew 0, .reg 0 0 "I1" .int 0, .xparse 0 0 (.good [.nop]) true]).1
    ((getCtx s 0).isSome, (s.execs[0]?).map (·.map (·.ctx)), (s.syms[0]?).map (·.map (·.ctx))) = (true, some (some 0), some (some 0)) := by
  decide

/-! ## C15R5 — values that travel between two contexts through `bloc_ctx_store_variable` -/

/-- `cross_context_isolation` for sequences that contain the extended calls (`rstore`: a store whose source is a library-owned
pointer): a copying store FROM context `d` does not work in `d`; a moving store (item pointer below a variable of `d`) does. -/
theorem cross_context_isolation_x (d : Nat) : ∀ (ops : List XOp) (s : State), untargetedX d s ops = true →
    (runSeqX s ops).1.ctxs[d]? = s.ctxs[d]?
  | [], _, _ => rfl
  | o :: os, s, h => by
    simp only [untargetedX, Bool.and_eq_true, Bool.not_eq_true'] at h
    simp only [runSeqX]
    rw [cross_context_isolation_x d os (stepX s o).1 h.2, stepX_untargeted s o d h.1]
/-- `bloc_ctx_store_variable` with a pointer to a VARIABLE'S OWN CELL (what `bloc_ctx_load_variable` hands out — of any context,
original or clone): the value is COPIED. The whole effect on the state: the target context gets the new slot value (same epoch),
and the item / evaluation pointers of the TARGET context end (its old payload is released). Nothing else: the source context,
the source pointer, every caller-owned value, every other handle and the error record are what they were. -/
theorem rstore_copy_contract (s : State) (c sh v : Nat) (x x' : Ctx) (id : Nat) (r : VRef) (b : Val)
    (hsl : symLive s sh c = some (x, id)) (hlive : liveSlot s v = some (.ref r)) (hk : (r.kind == VKind.eval) = false)
    (hb : readRef s r = some b) (hvc : refIsVarCell r = true) (hst : storeInto x id b = .ok x') :
    (opRstore s c sh v).2.res = Res1.truth true ∧ (opRstore s c sh v).2.fail = none ∧
    (opRstore s c sh v).1 = killCtxItems (setCtx s c x') c := by
  simp [opRstore, hsl, hlive, hk, hb, hvc, hst, aliasesTarget, Out.of]


/-- … with an ITEM pointer (an element of a table, an item of a tuple — below a variable of any context, or below a caller-owned
value): the value is MOVED. Target as above; the source cell keeps its type and becomes null, inside its container, and the item
pointers of the source's family end. (Storing an item of context A into B changes A's variable.) -/
theorem rstore_move_contract (s : State) (c sh v : Nat) (x x' : Ctx) (id : Nat) (r : VRef) (b : Val)
    (hsl : symLive s sh c = some (x, id)) (hlive : liveSlot s v = some (.ref r)) (hk : (r.kind == VKind.eval) = false)
    (hb : readRef s r = some b) (hvc : refIsVarCell r = false) (hal : aliasesTarget r c id = false) (hst : storeInto x id b = .ok x') :
    (opRstore s c sh v).2.res = Res1.truth true ∧ (opRstore s c sh v).2.fail = none ∧
    (opRstore s c sh v).1 = moveOut (killCtxItems (setCtx s c x') c) r b := by
  simp [opRstore, hsl, hlive, hk, hb, hvc, hst, hal, Out.of]


/-- Ownership after the copying store, handle by handle: symbol, expression and executable tables, error record and clock are
unchanged; the host's value table loses exactly the item / evaluation pointers of the target context (every box, every pointer
from `bloc_ctx_load_variable` — the source pointer included — and every pointer into another context stays); every context
keeps epoch, liveness and generation, so every pointer that stayed is exactly as live as it was. -/
theorem rstore_copy_ownership (s : State) (c sh v : Nat) (x x' : Ctx) (id : Nat) (r : VRef) (b : Val)
    (hsl : symLive s sh c = some (x, id)) (hlive : liveSlot s v = some (.ref r)) (hk : (r.kind == VKind.eval) = false)
    (hb : readRef s r = some b) (hvc : refIsVarCell r = true) (hst : storeInto x id b = .ok x') :
    (opRstore s c sh v).1.syms = s.syms ∧ (opRstore s c sh v).1.exprs = s.exprs ∧ (opRstore s c sh v).1.execs = s.execs ∧
    (opRstore s c sh v).1.err = s.err ∧ (opRstore s c sh v).1.clock = s.clock ∧
    (opRstore s c sh v).1.vals = (killCtxItems s c).vals ∧
    (opRstore s c sh v).1.ctxs = s.ctxs.set c x' ∧ x'.epoch = x.epoch ∧ x'.live = x.live := by
  rw [(rstore_copy_contract s c sh v x x' id r b hsl hlive hk hb hvc hst).2.2]
  have hkp := storeInto_keeps hst
  exact ⟨rfl, rfl, rfl, rfl, rfl, rfl, rfl, hkp.1, hkp.2⟩


/-- `cross_store_copies`: a value loaded from context `a` (pointer `r` to variable `ida` of `a`) is stored into variable `id` of
ANOTHER context `c` — any two contexts: unrelated, clone and original, original and clone. Then
(1) the store did not touch `a` at all (values, symbols, epoch: the source pointer stays valid and reads `b`);
(2) the target variable holds `b`;
(3) over ANY later call sequence (extended calls included) none of whose calls works in `a`, context `a` stays exactly as it was —
    whatever is done to `c`, to the stored value, to clones;
(4) and symmetrically for `c`: nothing done outside `c` changes what `c` holds. The two contexts share nothing: a copy. -/
theorem cross_store_copies (s : State) (c sh v a ida : Nat) (x x' : Ctx) (id : Nat) (r : VRef) (b old : Val) (sy : Sym)
    (hsl : symLive s sh c = some (x, id)) (hlive : liveSlot s v = some (.ref r)) (hk : (r.kind == VKind.eval) = false)
    (hb : readRef s r = some b) (hroot : r.root = .slot a ida) (hpath : r.path = []) (hac : (c == a) = false)
    (hsy : x.syms[id]? = some sy) (hold : x.vals[id]? = some old) (hst : storeInto x id b = .ok x') (ops : List XOp) :
    (opRstore s c sh v).1.ctxs[a]? = s.ctxs[a]? ∧
    readRef (opRstore s c sh v).1 r = some b ∧
    (∃ xb, (opRstore s c sh v).1.ctxs[c]? = some xb ∧ xb.vals[id]? = some b) ∧
    (untargetedX a (opRstore s c sh v).1 ops = true →
      (runSeqX (opRstore s c sh v).1 ops).1.ctxs[a]? = s.ctxs[a]?) ∧
    (untargetedX c (opRstore s c sh v).1 ops = true →
      (runSeqX (opRstore s c sh v).1 ops).1.ctxs[c]? = (opRstore s c sh v).1.ctxs[c]?) := by
  have hvc : refIsVarCell r = true := by simp [refIsVarCell, hroot, hpath]
  have hctr := (rstore_copy_contract s c sh v x x' id r b hsl hlive hk hb hvc hst).2.2
  have hgc := (getCtx_eq_some s c x).1 (symLive_some hsl)
  have hlt : c < s.ctxs.length := by
    rcases Nat.lt_or_ge c s.ctxs.length with h | h
    · exact h
    · rw [List.getElem?_eq_none h] at hgc; exact absurd hgc.1 (by simp)
  have ha : (opRstore s c sh v).1.ctxs[a]? = s.ctxs[a]? := by
    rw [hctr]; simp [killCtxItems, set_ne hac]
  refine ⟨ha, ?_, ?_, ?_, ?_⟩
  · have hg : getCtx (opRstore s c sh v).1 a = getCtx s a := by unfold getCtx; rw [ha]
    rw [← hb]
    unfold readRef
    rw [hroot]
    unfold readRoot
    simp only [hg]
  · refine ⟨x', ?_, storeInto_val hsy hold hst⟩
    rw [hctr]; simp [killCtxItems, hlt]
  · intro hu
    rw [cross_context_isolation_x a ops _ hu, ha]
  · intro hu
    exact cross_context_isolation_x c ops _ hu

-- non-vacuity: an integer variable of context 0 is loaded and stored into an untyped variable of context 1: the hypotheses of
-- `rstore_copy_contract` / `cross_store_copies` hold in that state and the call answers `bloc_true`
example :
    let s := (runSeqX State.init [.base (.cnew 0), .base (.reg 0 0 "A1" .int 0), .base (.vint 0 5), .base (.store 0 0 0 true),
                                  .base (.cnew 1), .base (.reg 1 1 "A2" .none 0), .base (.load 0 0 1)]).1
    ((symLive s 1 1).map (·.2), (liveSlot s 1).isSome, ((readSlot s 1).map (·.type)), (opRstore s 1 1 1).2.fail,
      ((opRstore s 1 1 1).1.ctxs[1]?).map (fun y => y.vals.map (·.type))) = (some 0, true, some Ty.int, none, some [Ty.int]) := by
  decide
-- the later sequence may do anything outside context 0 — here: overwrite the copy, purge and free context 1
example :
    let s := (runSeqX State.init [.base (.cnew 0), .base (.reg 0 0 "A1" .int 0), .base (.cnew 1), .base (.reg 1 1 "A2" .none 0), .base (.load 0 0 1)]).1
    untargetedX 0 s [.rstore 1 1 1, .base (.vint 2 9), .base (.store 1 1 2 true), .base (.cpurge 1), .base (.cfree 1)] = true := by
  decide

end BlocV.C15
