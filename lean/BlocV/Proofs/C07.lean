/-
  C07 — errors reach the nearest matching handler and leave no residue once handled.
  Property theorems only. Model: `execBlock`/`catchMatches` (Model/Interp.lean), transcription of
  BEGINStatement::doit/docatch, RAISEStatement::doit, RuntimeError::THROWABLES (generated table).
-/
import BlocV.Model.Interp

namespace BlocV.C07
open BlocV

/-- The catchable built-in errors are exactly OUT_OF_RANGE and DIVIDE_BY_ZERO (generated from
`RuntimeError::THROWABLES` on every run). -/
theorem catchable_set : Gen.throwables = [(Gen.EXC_RT_OUT_OF_RANGE, "OUT_OF_RANGE"), (Gen.EXC_RT_DIVIDE_BY_ZERO, "DIVIDE_BY_ZERO")] := by
  decide

/-- `when others` matches exactly the three kinds: a user-raised name, OUT_OF_RANGE, DIVIDE_BY_ZERO. -/
theorem others_matches_iff (code : Nat) (arg : Bytes) :
    catchMatches "OTHERS" code arg = true ↔
      (code = Gen.EXC_RT_USER_S ∨ code = Gen.EXC_RT_OUT_OF_RANGE ∨ code = Gen.EXC_RT_DIVIDE_BY_ZERO) := by
  have hft : findThrowable "OTHERS" = Gen.EXC_RT_USER_S := by decide
  unfold catchMatches isThrowable
  rw [hft, catchable_set]
  simp only [List.any_cons, List.any_nil, Bool.or_false]
  by_cases h1 : code = Gen.EXC_RT_USER_S
  · simp [h1]
  · by_cases h2 : code = Gen.EXC_RT_OUT_OF_RANGE
    · simp [h2]
    · by_cases h3 : code = Gen.EXC_RT_DIVIDE_BY_ZERO
      · simp [h3]
      · have e1 : (code == Gen.EXC_RT_USER_S) = false := by simpa using h1
        have e2 : (Gen.EXC_RT_OUT_OF_RANGE == code) = false := by simp; exact fun h => h2 h.symm
        have e3 : (Gen.EXC_RT_DIVIDE_BY_ZERO == code) = false := by simp; exact fun h => h3 h.symm
        have e4 : (Gen.EXC_RT_USER_S == code) = false := by simp; exact fun h => h1 h.symm
        simp [e1, e2, e3, e4, h1, h2, h3]

/-- A clause naming a built-in catchable error matches exactly that error. -/
theorem builtin_clause_matches :
    (∀ code arg, catchMatches "DIVIDE_BY_ZERO" code arg = true ↔ code = Gen.EXC_RT_DIVIDE_BY_ZERO) ∧
    (∀ code arg, catchMatches "OUT_OF_RANGE" code arg = true ↔ code = Gen.EXC_RT_OUT_OF_RANGE) := by
  constructor <;> intro code arg
  · have h : findThrowable "DIVIDE_BY_ZERO" = Gen.EXC_RT_DIVIDE_BY_ZERO := by decide
    unfold catchMatches; rw [h]
    have : ("DIVIDE_BY_ZERO" == "OTHERS") = false := by decide
    simp [this]
    constructor
    · intro ⟨a, _⟩; exact a.symm
    · intro a; subst a; exact ⟨rfl, Or.inl (by decide)⟩
  · have h : findThrowable "OUT_OF_RANGE" = Gen.EXC_RT_OUT_OF_RANGE := by decide
    unfold catchMatches; rw [h]
    have : ("OUT_OF_RANGE" == "OTHERS") = false := by decide
    simp [this]
    constructor
    · intro ⟨a, _⟩; exact a.symm
    · intro a; subst a; exact ⟨rfl, Or.inl (by decide)⟩

/-- Handler selection: when the body of a block raises error (c, a), the FIRST clause (in text order)
that matches runs, from the state the error left; its outcome — value, break/continue/return, or a
new error — is the outcome of the block. -/
theorem handler_selection (funcs : List Func) (depth fuel : Nat) (body : List Stmt) (catches : List (String × List Stmt))
    (s s' : St) (c : Nat) (a : Bytes) (n : String) (h : List Stmt)
    (hb : execList funcs depth fuel body s = (.err c a, s')) (hc : (c == oofCode) = false)
    (hm : catches.find? (fun cl => catchMatches cl.1 c a) = some (n, h)) :
    execBlock funcs depth (fuel + 1) body catches s = execList funcs depth fuel h s' := by
  simp [execBlock, hb, hc, hm]

/-- No matching clause: the error leaves the block unchanged, for the next enclosing block or the host. -/
theorem unmatched_propagates (funcs : List Func) (depth fuel : Nat) (body : List Stmt) (catches : List (String × List Stmt))
    (s s' : St) (c : Nat) (a : Bytes)
    (hb : execList funcs depth fuel body s = (.err c a, s')) (hc : (c == oofCode) = false)
    (hm : catches.find? (fun cl => catchMatches cl.1 c a) = none) :
    execBlock funcs depth (fuel + 1) body catches s = (.err c a, s') := by
  simp [execBlock, hb, hc, hm]

/-- A body that ends without error is not affected by the exception clauses. -/
theorem no_error_no_handler (funcs : List Func) (depth fuel : Nat) (body : List Stmt) (catches : List (String × List Stmt))
    (s s' : St) (fl : Flow) (hb : execList funcs depth fuel body s = (.ok fl, s')) :
    execBlock funcs depth (fuel + 1) body catches s = (.ok fl, s') := by
  simp [execBlock, hb]

/-- Errors other than the three catchable kinds are matched by no clause at all, whatever its name
is — they always reach the host. (`n` ranges over clause names that are not themselves the name of
an uncatchable code, i.e. every name the parser accepts: user names and the two built-in names.) -/
theorem uncatchable_reaches_host (n : String) (code : Nat) (arg : Bytes)
    (hu : code ≠ Gen.EXC_RT_USER_S) (h1 : code ≠ Gen.EXC_RT_OUT_OF_RANGE) (h2 : code ≠ Gen.EXC_RT_DIVIDE_BY_ZERO) :
    catchMatches n code arg = false := by
  unfold catchMatches
  have hthr : isThrowable code = false := by
    unfold isThrowable; rw [catchable_set]
    have e2 : (Gen.EXC_RT_OUT_OF_RANGE == code) = false := by simp; exact fun h => h1 h.symm
    have e3 : (Gen.EXC_RT_DIVIDE_BY_ZERO == code) = false := by simp; exact fun h => h2 h.symm
    simp [e2, e3]
  have e1 : (code == Gen.EXC_RT_USER_S) = false := by simpa using hu
  -- findThrowable n is USER_S, OUT_OF_RANGE or DIVIDE_BY_ZERO: never `code`
  have hft : findThrowable n = Gen.EXC_RT_USER_S ∨ findThrowable n = Gen.EXC_RT_OUT_OF_RANGE ∨ findThrowable n = Gen.EXC_RT_DIVIDE_BY_ZERO := by
    unfold findThrowable; rw [catchable_set]
    simp only [List.find?]
    cases h : ("OUT_OF_RANGE" == n)
    · cases h' : ("DIVIDE_BY_ZERO" == n) <;> simp
    · simp
  have hne : (findThrowable n == code) = false := by
    rcases hft with h | h | h <;> rw [h] <;> simp <;> intro e <;> simp_all
  simp [hthr, e1, hne]

example : catchMatches "E1" Gen.EXC_RT_USER_S (nameBytes "E1") = true := by decide
example : catchMatches "E1" Gen.EXC_RT_USER_S (nameBytes "E2") = false := by decide
example : catchMatches "OTHERS" Gen.EXC_RT_STRING_TO_NUM [] = false := by decide

end BlocV.C07
