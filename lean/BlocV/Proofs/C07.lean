/-
  C07 — errors reach the nearest matching handler and leave no residue once handled.
  Property theorems only (helpers: Proofs/Lemmas/Interp.lean). Model: `execBlock`/`catchMatches`/`exec`/`callFunc`
  (Model/Interp.lean), transcription of BEGINStatement::doit/docatch, RAISEStatement::doit,
  RuntimeError::THROWABLES (generated table), Context::onRuntimeError (loops of the interrupted region are
  unstacked: `forallExit`), FunctorExpression::value. Clause table: notes/NOTES-p0608.md.
  Not modelled at this level: `error@1/@2` (no expression node for it in Model/Interp.lean), the interactive runner.
-/
import BlocV.Model.Interp
import BlocV.Proofs.Lemmas.Interp

namespace BlocV.C07
open BlocV BlocV.Lemmas

/-- The catchable built-in errors are exactly OUT_OF_RANGE and DIVIDE_BY_ZERO (generated from
`RuntimeError::THROWABLES` on every run). -/
theorem catchable_set : Gen.throwables = [(Gen.EXC_RT_OUT_OF_RANGE, "OUT_OF_RANGE"), (Gen.EXC_RT_DIVIDE_BY_ZERO, "DIVIDE_BY_ZERO")] := by
  decide

/-- `when others` matches exactly the three kinds: a user-raised name, OUT_OF_RANGE, DIVIDE_BY_ZERO. -/
theorem others_matches_iff (code : Nat) (arg : Bytes) :
    catchMatches "OTHERS" code arg = true ↔
      (code = Gen.EXC_RT_USER_S ∨ code = Gen.EXC_RT_OUT_OF_RANGE ∨ code = Gen.EXC_RT_DIVIDE_BY_ZERO) := by
  have hft : findThrowable "OTHERS" = Gen.EXC_RT_USER_S := by decide
  unfold catchMatches isThrowable
  rw [hft, catchable_set]
  simp only [List.any_cons, List.any_nil, Bool.or_false]
  by_cases h1 : code = Gen.EXC_RT_USER_S
  · simp [h1]
  · by_cases h2 : code = Gen.EXC_RT_OUT_OF_RANGE
    · simp [h2]
    · by_cases h3 : code = Gen.EXC_RT_DIVIDE_BY_ZERO
      · simp [h3]
      · have e1 : (code == Gen.EXC_RT_USER_S) = false := by simpa using h1
        have e2 : (Gen.EXC_RT_OUT_OF_RANGE == code) = false := by simp; exact fun h => h2 h.symm
        have e3 : (Gen.EXC_RT_DIVIDE_BY_ZERO == code) = false := by simp; exact fun h => h3 h.symm
        have e4 : (Gen.EXC_RT_USER_S == code) = false := by simp; exact fun h => h1 h.symm
        simp [e1, e2, e3, e4, h1, h2, h3]

/-- A clause naming a built-in catchable error matches exactly that error. -/
theorem builtin_clause_matches :
    (∀ code arg, catchMatches "DIVIDE_BY_ZERO" code arg = true ↔ code = Gen.EXC_RT_DIVIDE_BY_ZERO) ∧
    (∀ code arg, catchMatches "OUT_OF_RANGE" code arg = true ↔ code = Gen.EXC_RT_OUT_OF_RANGE) := by
  constructor <;> intro code arg
  · have h : findThrowable "DIVIDE_BY_ZERO" = Gen.EXC_RT_DIVIDE_BY_ZERO := by decide
    unfold catchMatches; rw [h]
    have : ("DIVIDE_BY_ZERO" == "OTHERS") = false := by decide
    simp [this]
    constructor
    · intro ⟨a, _⟩; exact a.symm
    · intro a; subst a; exact ⟨rfl, Or.inl (by decide)⟩
  · have h : findThrowable "OUT_OF_RANGE" = Gen.EXC_RT_OUT_OF_RANGE := by decide
    unfold catchMatches; rw [h]
    have : ("OUT_OF_RANGE" == "OTHERS") = false := by decide
    simp [this]
    constructor
    · intro ⟨a, _⟩; exact a.symm
    · intro a; subst a; exact ⟨rfl, Or.inl (by decide)⟩

/-- Handler selection: when the body of a block raises error (c, a), the FIRST clause (in text order)
that matches runs, from the state the error left; its outcome — value, break/continue/return, or a
new error — is the outcome of the block. -/
theorem handler_selection (funcs : List Func) (depth fuel : Nat) (body : List Stmt) (catches : List (String × List Stmt))
    (s s' : St) (c : Nat) (a : Bytes) (n : String) (h : List Stmt)
    (hb : execList funcs depth fuel body s = (.err c a, s')) (hc : (c == oofCode) = false)
    (hm : catches.find? (fun cl => catchMatches cl.1 c a) = some (n, h)) :
    execBlock funcs depth (fuel + 1) body catches s = execList funcs depth fuel h s' := by
  simp [execBlock, hb, hc, hm]

/-- No matching clause: the error leaves the block unchanged, for the next enclosing block or the host. -/
theorem unmatched_propagates (funcs : List Func) (depth fuel : Nat) (body : List Stmt) (catches : List (String × List Stmt))
    (s s' : St) (c : Nat) (a : Bytes)
    (hb : execList funcs depth fuel body s = (.err c a, s')) (hc : (c == oofCode) = false)
    (hm : catches.find? (fun cl => catchMatches cl.1 c a) = none) :
    execBlock funcs depth (fuel + 1) body catches s = (.err c a, s') := by
  simp [execBlock, hb, hc, hm]

/-- A body that ends without error is not affected by the exception clauses. -/
theorem no_error_no_handler (funcs : List Func) (depth fuel : Nat) (body : List Stmt) (catches : List (String × List Stmt))
    (s s' : St) (fl : Flow) (hb : execList funcs depth fuel body s = (.ok fl, s')) :
    execBlock funcs depth (fuel + 1) body catches s = (.ok fl, s') := by
  simp [execBlock, hb]

/-- Errors other than the three catchable kinds are matched by no clause at all, whatever its name
is — they always reach the host. (`n` ranges over clause names that are not themselves the name of
an uncatchable code, i.e. every name the parser accepts: user names and the two built-in names.) -/
theorem uncatchable_reaches_host (n : String) (code : Nat) (arg : Bytes)
    (hu : code ≠ Gen.EXC_RT_USER_S) (h1 : code ≠ Gen.EXC_RT_OUT_OF_RANGE) (h2 : code ≠ Gen.EXC_RT_DIVIDE_BY_ZERO) :
    catchMatches n code arg = false := by
  unfold catchMatches
  have hthr : isThrowable code = false := by
    unfold isThrowable; rw [catchable_set]
    have e2 : (Gen.EXC_RT_OUT_OF_RANGE == code) = false := by simp; exact fun h => h1 h.symm
    have e3 : (Gen.EXC_RT_DIVIDE_BY_ZERO == code) = false := by simp; exact fun h => h2 h.symm
    simp [e2, e3]
  have e1 : (code == Gen.EXC_RT_USER_S) = false := by simpa using hu
  -- findThrowable n is USER_S, OUT_OF_RANGE or DIVIDE_BY_ZERO: never `code`
  have hft : findThrowable n = Gen.EXC_RT_USER_S ∨ findThrowable n = Gen.EXC_RT_OUT_OF_RANGE ∨ findThrowable n = Gen.EXC_RT_DIVIDE_BY_ZERO := by
    unfold findThrowable; rw [catchable_set]
    simp only [List.find?]
    cases h : ("OUT_OF_RANGE" == n)
    · cases h' : ("DIVIDE_BY_ZERO" == n) <;> simp
    · simp
  have hne : (findThrowable n == code) = false := by
    rcases hft with h | h | h <;> rw [h] <;> simp <;> intro e <;> simp_all
  simp [hthr, e1, hne]

example : catchMatches "E1" Gen.EXC_RT_USER_S (nameBytes "E1") = true := by decide
example : catchMatches "E1" Gen.EXC_RT_USER_S (nameBytes "E2") = false := by decide
example : catchMatches "OTHERS" Gen.EXC_RT_STRING_TO_NUM [] = false := by decide



/-- A `begin` statement is its block, run after one unit of the work budget is consumed. -/
theorem exec_begin (funcs : List Func) (depth fuel : Nat) (body : List Stmt) (catches : List (String × List Stmt)) (s : St)
    (hbud : s.budget ≠ 0) :
    exec funcs depth (fuel + 1) (.beginS body catches) s = execBlock funcs depth fuel body catches (tick s) := by
  have hbud' : (s.budget == 0) = false := by simpa using hbud
  simp only [exec, hbud', Bool.false_eq_true, if_false]
  rfl

/-- **Nearest enclosing handler, inner block without a matching clause**: an error raised in the body of an inner block
that has no matching `when` clause leaves that block unchanged and is handled by the FIRST matching clause of the next
enclosing block, from the state the error left; the statements after the inner block do not run. -/
theorem inner_unmatched_reaches_outer (funcs : List Func) (depth fuel : Nat) (ibody rest : List Stmt)
    (icatches ocatches : List (String × List Stmt)) (s s' : St) (c : Nat) (a : Bytes) (n : String) (h : List Stmt)
    (hbud : s.budget ≠ 0)
    (hb : execList funcs depth fuel ibody (tick s) = (.err c a, s')) (hc : (c == oofCode) = false)
    (hin : icatches.find? (fun cl => catchMatches cl.1 c a) = none)
    (hout : ocatches.find? (fun cl => catchMatches cl.1 c a) = some (n, h)) :
    execBlock funcs depth (fuel + 4) (.beginS ibody icatches :: rest) ocatches s = execList funcs depth (fuel + 3) h s' := by
  have h1 : execBlock funcs depth (fuel + 1) ibody icatches (tick s) = (.err c a, s') :=
    unmatched_propagates funcs depth fuel ibody icatches _ s' c a hb hc hin
  have h2 : exec funcs depth (fuel + 2) (.beginS ibody icatches) s = (.err c a, s') := by
    rw [exec_begin funcs depth (fuel + 1) ibody icatches s hbud, h1]
  have h3 : execList funcs depth (fuel + 3) (.beginS ibody icatches :: rest) s = (.err c a, s') := by
    simp only [execList, bind_app, h2]
  exact handler_selection funcs depth (fuel + 3) _ ocatches s s' c a n h h3 hc hout

/-- **Nearest enclosing handler, inner block with a matching clause**: the inner block's first matching clause runs;
the enclosing block only sees the outcome of that handler (a value, a Flow, or a new error raised by the handler). -/
theorem inner_matching_handles (funcs : List Func) (depth fuel : Nat) (ibody : List Stmt)
    (icatches : List (String × List Stmt)) (s s' : St) (c : Nat) (a : Bytes) (n : String) (h : List Stmt)
    (hbud : s.budget ≠ 0)
    (hb : execList funcs depth fuel ibody (tick s) = (.err c a, s')) (hc : (c == oofCode) = false)
    (hin : icatches.find? (fun cl => catchMatches cl.1 c a) = some (n, h)) :
    exec funcs depth (fuel + 2) (.beginS ibody icatches) s = execList funcs depth fuel h s' := by
  rw [exec_begin funcs depth (fuel + 1) ibody icatches s hbud]
  exact handler_selection funcs depth fuel ibody icatches _ s' c a n h hb hc hin

/-- **An error inside a called function reaches the caller's block**: when the callee's own block (body + its `exception`
clauses, which get the first chance) ends with error (c, a), the call expression fails with (c, a) in the caller — whose
variables are untouched, only output and budget are carried over —, the statement containing the call fails, and the first
matching clause of the caller's enclosing block runs. -/
theorem error_in_callee_reaches_callers_block (funcs : List Func) (depth fuel : Nat) (name : String) (args : List Expr)
    (rest : List Stmt) (catches : List (String × List Stmt)) (s s1 sc : St) (f : Func) (vals : List Val)
    (c : Nat) (a : Bytes) (n : String) (h : List Stmt) (hbud : s.budget ≠ 0)
    (hf : funcs.find? (fun f => f.name == name && f.params.length == args.length) = some f)
    (hd : (depth == Gen.RECURSION_LIMIT) = false)
    (ha : evalArgs funcs depth fuel args (tick s) = (.ok vals, s1))
    (hcallee : execBlock funcs (depth + 1) fuel f.body f.catches (calleeInit f vals s1) = (.err c a, sc))
    (hc : (c == oofCode) = false)
    (hm : catches.find? (fun cl => catchMatches cl.1 c a) = some (n, h)) :
    execBlock funcs depth (fuel + 5) (.doS (.fcall name args) :: rest) catches s =
      execList funcs depth (fuel + 4) h { s1 with out := sc.out, budget := sc.budget } := by
  have hbud' : (s.budget == 0) = false := by simpa using hbud
  have h1 : callFunc funcs depth (fuel + 1) name args (tick s) = (.err c a, { s1 with out := sc.out, budget := sc.budget }) := by
    rw [callFunc_unfold funcs depth fuel name args _ s1 f vals hf hd ha, hcallee]
    rfl
  have h2 : exec funcs depth (fuel + 3) (.doS (.fcall name args)) s = (.err c a, { s1 with out := sc.out, budget := sc.budget }) := by
    unfold tick at h1
    simp only [exec, hbud', Bool.false_eq_true, if_false, bind_app, eval, h1]
  have h3 : execList funcs depth (fuel + 4) (.doS (.fcall name args) :: rest) s = (.err c a, { s1 with out := sc.out, budget := sc.budget }) := by
    simp only [execList, bind_app, h2]
  exact handler_selection funcs depth (fuel + 4) _ catches s _ c a n h h3 hc hm

/-- **No residue: control stack.** Whatever a block does — ends normally, with break/continue/return, handles an error in a
`when` clause (also when that handler fails in turn), or lets an error through — the stack of running `forall` loops after the
block is entry by entry (iterator name, traversed variable, index, saved type, lock flag) the one before it: every loop entered
inside the interrupted region has been closed, no iterator constraint and no table lock is left behind. Holds for every fuel and
outcome, incl. hazards and out-of-fuel. (Model of `Context::onRuntimeError` + `unstackControl`; mutual induction
`Lemmas.sameIters_all`.) -/
theorem no_residue_control_stack (funcs : List Func) (depth fuel : Nat) (body : List Stmt) (catches : List (String × List Stmt)) (s : St) :
    (execBlock funcs depth fuel body catches s).2.iters.map iterKey = s.iters.map iterKey :=
  ((sameIters_all funcs fuel).2.2.2.1 depth body catches).h s

/-- The same for a whole program handed to `Executable::run` (handled, reported or no error at all): a run that starts with an
empty control stack ends with an empty control stack. -/
theorem no_residue_after_run (funcs : List Func) (depth fuel : Nat) (prog : List Stmt) (s : St) (h0 : s.iters = []) :
    (execList funcs depth fuel prog s).2.iters = [] := by
  have := ((sameIters_all funcs fuel).2.2.2.2.1 depth prog).h s
  unfold SameIters at this
  rw [h0] at this
  simpa using this

/-- **No residue: pending break / continue / return.** In the model a pending condition is not state at all: it is the `Flow`
value a statement returns (`St` has no flag field — only `returned`, the value saved by `return`, which is read only together
with a `ret` Flow). So after a handled error the only pending condition is the one the handler itself produced: the block's
Flow IS the handler's Flow, and the interrupted body's conditions are gone with its (error) result. -/
theorem handled_flow_is_handlers_flow (funcs : List Func) (depth fuel : Nat) (body : List Stmt) (catches : List (String × List Stmt))
    (s s' : St) (c : Nat) (a : Bytes) (n : String) (h : List Stmt)
    (hb : execList funcs depth fuel body s = (.err c a, s')) (hc : (c == oofCode) = false)
    (hm : catches.find? (fun cl => catchMatches cl.1 c a) = some (n, h)) :
    (execBlock funcs depth (fuel + 1) body catches s).1 = (execList funcs depth fuel h s').1 := by
  rw [handler_selection funcs depth fuel body catches s s' c a n h hb hc hm]

/-- **The same context runs further code**: when the handler ends normally, execution continues with the statement after the
block, from the handler's final state — an ordinary state (variables assigned before the error keep their values, output
printed so far stays), nothing else is remembered. -/
theorem continues_after_handled (funcs : List Func) (depth fuel : Nat) (body rest : List Stmt) (catches : List (String × List Stmt))
    (s s' s2 : St) (c : Nat) (a : Bytes) (n : String) (h : List Stmt) (hbud : s.budget ≠ 0)
    (hb : execList funcs depth fuel body (tick s) = (.err c a, s')) (hc : (c == oofCode) = false)
    (hm : catches.find? (fun cl => catchMatches cl.1 c a) = some (n, h))
    (hh : execList funcs depth fuel h s' = (.ok .norm, s2)) :
    execList funcs depth (fuel + 3) (.beginS body catches :: rest) s = execList funcs depth (fuel + 2) rest s2 := by
  have h1 := inner_matching_handles funcs depth fuel body catches s s' c a n h hbud hb hc hm
  rw [hh] at h1
  simp only [execList, bind_app, h1, beq_self_eq_true, if_true, evalM_ite_app]

/-- `raise NAME` for a user-defined name fails with the user code and the name as argument; for the two built-in throwable names
with their own code (RAISEStatement::doit). Nothing else changes (one unit of budget). -/
theorem raise_outcome (funcs : List Func) (depth fuel : Nat) (name : String) (s : St) (hbud : s.budget ≠ 0) :
    exec funcs depth (fuel + 1) (.raiseS name) s =
      if findThrowable name == Gen.EXC_RT_USER_S then (.err Gen.EXC_RT_USER_S (nameBytes name), tick s)
      else (.err (findThrowable name) [], tick s) := by
  have hbud' : (s.budget == 0) = false := by simpa using hbud
  simp only [exec, hbud', Bool.false_eq_true, if_false]
  split <;> simp_all [failE, tick]

/-- A user-raised name is matched by the clause of the same name (and by `others`, see `others_matches_iff`). -/
theorem user_raise_matches_same_name (n : String) (h : findThrowable n = Gen.EXC_RT_USER_S) :
    catchMatches n Gen.EXC_RT_USER_S (nameBytes n) = true := by
  unfold catchMatches; simp [h]

/-- … and by no clause with a different (user) name. -/
theorem user_raise_not_matched_by_other_name (n m : String) (hn : findThrowable n = Gen.EXC_RT_USER_S)
    (hne : nameBytes n ≠ nameBytes m) (ho : (n == "OTHERS") = false) :
    catchMatches n Gen.EXC_RT_USER_S (nameBytes m) = false := by
  unfold catchMatches; simp [hn, ho, hne]

/-- `begin begin raise E1; exception when E2 then print "inner"; end; print "skipped"; exception when E1 then print "outer"; end; print "after";`:
the inner block has no clause for E1, the outer one handles it; what follows runs normally. -/
example : (execList [] 0 20 [.beginS [.beginS [.raiseS "E1"] [("E2", [.printS [.lit (.str [105])]])], .printS [.lit (.str [115])]]
      [("E1", [.printS [.lit (.str [111])]])], .printS [.lit (.str [97])]] {}).2.out = [[10], [97], [10], [111]] := by decide +kernel

/-- an error raised inside nested loops inside a block: handled, loops closed (empty control stack), and the iterator name can be assigned again -/
example : (let r := execList [] 0 20 [.beginS [.forallS "e" (.var "t") .auto [.whileS (.lit (.bool true)) [.raiseS "X"]]] [("X", [.nop])],
      .letS "e" (.lit (.str [104]))] { vars := [("t", .tab { major := .int, level := 1 } [] [.int 1, .int 2])] }
    (r.1, r.2.iters.length, lookupVar r.2.vars "e" == .str [104])) = (.ok .norm, 0, true) := by decide +kernel

/-- a function that raises, called inside a block of the caller: the caller's clause runs, the caller's variable `x` is untouched -/
example : (let f : Func := { name := "f", params := [], ret := Ty.none, body := [.raiseS "BOOM"], catches := [] }
    let r := execList [f] 0 20 [.letS "x" (.lit (.int 1)), .beginS [.doS (.fcall "f" [])] [("BOOM", [.printS [.var "x"]])]] {}
    (r.1, r.2.out)) = (.ok .norm, [[10], [49]]) := by decide +kernel

/-- DIVIDE_BY_ZERO inside a function inside a loop, caught by `others` in the caller -/
example : (let f : Func := { name := "f", params := [("a", Ty.int)], ret := Ty.int, body := [.returnS (some (.bin .div (.lit (.int 1)) (.var "a")))], catches := [] }
    let r := execList [f] 0 30 [.beginS [.forS "i" (.lit (.int 1)) (.lit (.int 0)) none .auto [.doS (.fcall "f" [.var "i"])]] [("OTHERS", [.printS [.var "i"]])]] {}
    (r.1, r.2.out)) = (.ok .norm, [[10], [48]]) := by decide +kernel
end BlocV.C07
