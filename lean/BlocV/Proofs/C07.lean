/-
  C07 — errors reach the nearest matching handler and leave no residue once handled.
  Property theorems only (helpers: Proofs/Lemmas/Interp.lean). Model: `execBlock`/`catchMatches`/`exec`/`callFunc`
  (Model/Interp.lean), transcription of BEGINStatement::doit/docatch, RAISEStatement::doit,
  RuntimeError::THROWABLES (generated table), Context::onRuntimeError (loops of the interrupted region are
  unstacked: `forallExit`), FunctorExpression::value. Clause table: notes/NOTES-p0608.md.
  `error@1/@2/@3`: `Expr.errorE` / `Expr.item`, the context's record `St.lastErr` (set / cleared by `execBlock` = docatch),
  the cached function contexts `St.ctxCache`; theorems in the section "the error record" below. Clause table: notes/NOTES-INT.md.
-/
import BlocV.Model.Interp
import BlocV.Proofs.Lemmas.Interp
import BlocV.Proofs.Lemmas.ErrRec

namespace BlocV.C07
open BlocV BlocV.Lemmas

/-- The catchable built-in errors are exactly OUT_OF_RANGE and DIVIDE_BY_ZERO (generated from
`RuntimeError::THROWABLES` on every run). -/
theorem catchable_set : Gen.throwables = [(Gen.EXC_RT_OUT_OF_RANGE, "OUT_OF_RANGE"), (Gen.EXC_RT_DIVIDE_BY_ZERO, "DIVIDE_BY_ZERO")] := by
  decide

/-- `when others` matches exactly the three kinds: a user-raised name, OUT_OF_RANGE, DIVIDE_BY_ZERO. -/
theorem others_matches_iff (code : Nat) (arg : Bytes) :
    catchMatches "OTHERS" code arg = true ↔
      (code = Gen.EXC_RT_USER_S ∨ code = Gen.EXC_RT_OUT_OF_RANGE ∨ code = Gen.EXC_RT_DIVIDE_BY_ZERO) := by
  have hft : findThrowable "OTHERS" = Gen.EXC_RT_USER_S := by decide
  unfold catchMatches isThrowable
  rw [hft, catchable_set]
  simp only [List.any_cons, List.any_nil, Bool.or_false]
  by_cases h1 : code = Gen.EXC_RT_USER_S
  · simp [h1]
  · by_cases h2 : code = Gen.EXC_RT_OUT_OF_RANGE
    · simp [h2]
    · by_cases h3 : code = Gen.EXC_RT_DIVIDE_BY_ZERO
      · simp [h3]
      · have e1 : (code == Gen.EXC_RT_USER_S) = false := by simpa using h1
        have e2 : (Gen.EXC_RT_OUT_OF_RANGE == code) = false := by simp; exact fun h => h2 h.symm
        have e3 : (Gen.EXC_RT_DIVIDE_BY_ZERO == code) = false := by simp; exact fun h => h3 h.symm
        have e4 : (Gen.EXC_RT_USER_S == code) = false := by simp; exact fun h => h1 h.symm
        simp [e1, e2, e3, e4, h1, h2, h3]

/-- A clause naming a built-in catchable error matches exactly that error. -/
theorem builtin_clause_matches :
    (∀ code arg, catchMatches "DIVIDE_BY_ZERO" code arg = true ↔ code = Gen.EXC_RT_DIVIDE_BY_ZERO) ∧
    (∀ code arg, catchMatches "OUT_OF_RANGE" code arg = true ↔ code = Gen.EXC_RT_OUT_OF_RANGE) := by
  constructor <;> intro code arg
  · have h : findThrowable "DIVIDE_BY_ZERO" = Gen.EXC_RT_DIVIDE_BY_ZERO := by decide
    unfold catchMatches; rw [h]
    have : ("DIVIDE_BY_ZERO" == "OTHERS") = false := by decide
    simp [this]
    constructor
    · intro ⟨a, _⟩; exact a.symm
    · intro a; subst a; exact ⟨rfl, Or.inl (by decide)⟩
  · have h : findThrowable "OUT_OF_RANGE" = Gen.EXC_RT_OUT_OF_RANGE := by decide
    unfold catchMatches; rw [h]
    have : ("OUT_OF_RANGE" == "OTHERS") = false := by decide
    simp [this]
    constructor
    · intro ⟨a, _⟩; exact a.symm
    · intro a; subst a; exact ⟨rfl, Or.inl (by decide)⟩

/-- Handler selection: when the body of a block raises error (c, a), the FIRST clause (in text order)
that matches runs, from the state the error left with the error saved as the context's record (what `error` reads);
its outcome — value, break/continue/return, or a new error — is the outcome of the block; when the clause ends without error the
record is set back to what it was when the BLOCK was entered (`handlerExit s.lastErr`, repo 8256736). -/
theorem handler_selection (funcs : List Func) (depth fuel : Nat) (body : List Stmt) (catches : List (String × List Stmt))
    (s s' : St) (c : Nat) (a : Bytes) (n : String) (h : List Stmt)
    (hb : execList funcs depth fuel body s = (.err c a, s')) (hc : (c == oofCode) = false)
    (hm : catches.find? (fun cl => catchMatches cl.1 c a) = some (n, h)) :
    execBlock funcs depth (fuel + 1) body catches s = handlerExit s.lastErr (execList funcs depth fuel h { s' with lastErr := (c, a) }) := by
  simp [execBlock, hb, hc, hm]

/-- No matching clause: the error leaves the block unchanged, for the next enclosing block or the host. -/
theorem unmatched_propagates (funcs : List Func) (depth fuel : Nat) (body : List Stmt) (catches : List (String × List Stmt))
    (s s' : St) (c : Nat) (a : Bytes)
    (hb : execList funcs depth fuel body s = (.err c a, s')) (hc : (c == oofCode) = false)
    (hm : catches.find? (fun cl => catchMatches cl.1 c a) = none) :
    execBlock funcs depth (fuel + 1) body catches s = (.err c a, s') := by
  simp [execBlock, hb, hc, hm]

/-- A body that ends without error is not affected by the exception clauses. -/
theorem no_error_no_handler (funcs : List Func) (depth fuel : Nat) (body : List Stmt) (catches : List (String × List Stmt))
    (s s' : St) (fl : Flow) (hb : execList funcs depth fuel body s = (.ok fl, s')) :
    execBlock funcs depth (fuel + 1) body catches s = (.ok fl, s') := by
  simp [execBlock, hb]

/-- Errors other than the three catchable kinds are matched by no clause at all, whatever its name
is — they always reach the host. (`n` ranges over clause names that are not themselves the name of
an uncatchable code, i.e. every name the parser accepts: user names and the two built-in names.) -/
theorem uncatchable_reaches_host (n : String) (code : Nat) (arg : Bytes)
    (hu : code ≠ Gen.EXC_RT_USER_S) (h1 : code ≠ Gen.EXC_RT_OUT_OF_RANGE) (h2 : code ≠ Gen.EXC_RT_DIVIDE_BY_ZERO) :
    catchMatches n code arg = false := by
  unfold catchMatches
  have hthr : isThrowable code = false := by
    unfold isThrowable; rw [catchable_set]
    have e2 : (Gen.EXC_RT_OUT_OF_RANGE == code) = false := by simp; exact fun h => h1 h.symm
    have e3 : (Gen.EXC_RT_DIVIDE_BY_ZERO == code) = false := by simp; exact fun h => h2 h.symm
    simp [e2, e3]
  have e1 : (code == Gen.EXC_RT_USER_S) = false := by simpa using hu
  -- findThrowable n is USER_S, OUT_OF_RANGE or DIVIDE_BY_ZERO: never `code`
  have hft : findThrowable n = Gen.EXC_RT_USER_S ∨ findThrowable n = Gen.EXC_RT_OUT_OF_RANGE ∨ findThrowable n = Gen.EXC_RT_DIVIDE_BY_ZERO := by
    unfold findThrowable; rw [catchable_set]
    simp only [List.find?]
    cases h : ("OUT_OF_RANGE" == n)
    · cases h' : ("DIVIDE_BY_ZERO" == n) <;> simp
    · simp
  have hne : (findThrowable n == code) = false := by
    rcases hft with h | h | h <;> rw [h] <;> simp <;> intro e <;> simp_all
  simp [hthr, e1, hne]

example : catchMatches "E1" Gen.EXC_RT_USER_S (nameBytes "E1") = true := by decide
example : catchMatches "E1" Gen.EXC_RT_USER_S (nameBytes "E2") = false := by decide
example : catchMatches "OTHERS" Gen.EXC_RT_STRING_TO_NUM [] = false := by decide



/-- A `begin` statement is its block, run after one unit of the work budget is consumed. -/
theorem exec_begin (funcs : List Func) (depth fuel : Nat) (body : List Stmt) (catches : List (String × List Stmt)) (s : St)
    (hbud : s.budget ≠ 0) :
    exec funcs depth (fuel + 1) (.beginS body catches) s = execBlock funcs depth fuel body catches (tick s) := by
  have hbud' : (s.budget == 0) = false := by simpa using hbud
  simp only [exec, hbud', Bool.false_eq_true, if_false]
  rfl

/-- **Nearest enclosing handler, inner block without a matching clause**: an error raised in the body of an inner block
that has no matching `when` clause leaves that block unchanged and is handled by the FIRST matching clause of the next
enclosing block, from the state the error left; the statements after the inner block do not run. -/
theorem inner_unmatched_reaches_outer (funcs : List Func) (depth fuel : Nat) (ibody rest : List Stmt)
    (icatches ocatches : List (String × List Stmt)) (s s' : St) (c : Nat) (a : Bytes) (n : String) (h : List Stmt)
    (hbud : s.budget ≠ 0)
    (hb : execList funcs depth fuel ibody (tick s) = (.err c a, s')) (hc : (c == oofCode) = false)
    (hin : icatches.find? (fun cl => catchMatches cl.1 c a) = none)
    (hout : ocatches.find? (fun cl => catchMatches cl.1 c a) = some (n, h)) :
    execBlock funcs depth (fuel + 4) (.beginS ibody icatches :: rest) ocatches s =
      handlerExit s.lastErr (execList funcs depth (fuel + 3) h { s' with lastErr := (c, a) }) := by
  have h1 : execBlock funcs depth (fuel + 1) ibody icatches (tick s) = (.err c a, s') :=
    unmatched_propagates funcs depth fuel ibody icatches _ s' c a hb hc hin
  have h2 : exec funcs depth (fuel + 2) (.beginS ibody icatches) s = (.err c a, s') := by
    rw [exec_begin funcs depth (fuel + 1) ibody icatches s hbud, h1]
  have h3 : execList funcs depth (fuel + 3) (.beginS ibody icatches :: rest) s = (.err c a, s') := by
    simp only [execList, bind_app, h2]
  exact handler_selection funcs depth (fuel + 3) _ ocatches s s' c a n h h3 hc hout

/-- **Nearest enclosing handler, inner block with a matching clause**: the inner block's first matching clause runs;
the enclosing block only sees the outcome of that handler (a value, a Flow, or a new error raised by the handler). -/
theorem inner_matching_handles (funcs : List Func) (depth fuel : Nat) (ibody : List Stmt)
    (icatches : List (String × List Stmt)) (s s' : St) (c : Nat) (a : Bytes) (n : String) (h : List Stmt)
    (hbud : s.budget ≠ 0)
    (hb : execList funcs depth fuel ibody (tick s) = (.err c a, s')) (hc : (c == oofCode) = false)
    (hin : icatches.find? (fun cl => catchMatches cl.1 c a) = some (n, h)) :
    exec funcs depth (fuel + 2) (.beginS ibody icatches) s = handlerExit s.lastErr (execList funcs depth fuel h { s' with lastErr := (c, a) }) := by
  rw [exec_begin funcs depth (fuel + 1) ibody icatches s hbud]
  exact handler_selection funcs depth fuel ibody icatches _ s' c a n h hb hc hin

/-- **An error inside a called function reaches the caller's block**: when the callee's own block (body + its `exception`
clauses, which get the first chance) ends with error (c, a), the call expression fails with (c, a) in the caller — whose
variables are untouched, only output and budget are carried over —, the statement containing the call fails, and the first
matching clause of the caller's enclosing block runs. -/
theorem error_in_callee_reaches_callers_block (funcs : List Func) (depth fuel : Nat) (name : String) (args : List Expr)
    (rest : List Stmt) (catches : List (String × List Stmt)) (s s1 sc : St) (f : Func) (vals : List Val)
    (c : Nat) (a : Bytes) (n : String) (h : List Stmt) (hbud : s.budget ≠ 0)
    (hf : funcs.find? (fun f => f.name == name && f.params.length == args.length) = some f)
    (hd : (depth == Gen.RECURSION_LIMIT) = false)
    (ha : evalArgs funcs depth fuel args (tick s) = (.ok vals, s1))
    (hcallee : execBlock funcs (depth + 1) fuel f.body f.catches (calleeInit f vals s1) = (.err c a, sc))
    (hc : (c == oofCode) = false)
    (hm : catches.find? (fun cl => catchMatches cl.1 c a) = some (n, h)) :
    execBlock funcs depth (fuel + 5) (.doS (.fcall name args) :: rest) catches s =
      handlerExit s.lastErr (execList funcs depth (fuel + 4) h
        { s1 with out := sc.out, budget := sc.budget, lastErr := (c, a) }) := by
  have hbud' : (s.budget == 0) = false := by simpa using hbud
  have h1 : callFunc funcs depth (fuel + 1) name args (tick s) =
      (.err c a, { s1 with out := sc.out, budget := sc.budget }) := by
    rw [callFunc_unfold funcs depth fuel name args _ s1 f vals hf hd ha]
    show finishCall s1 (execBlock funcs (depth + 1) fuel f.body f.catches (calleeInit f vals s1)) = _
    rw [hcallee]
    rfl
  have h2 : exec funcs depth (fuel + 3) (.doS (.fcall name args)) s =
      (.err c a, { s1 with out := sc.out, budget := sc.budget }) := by
    unfold tick at h1
    simp only [exec, hbud', Bool.false_eq_true, if_false, bind_app, eval, h1]
  have h3 : execList funcs depth (fuel + 4) (.doS (.fcall name args) :: rest) s =
      (.err c a, { s1 with out := sc.out, budget := sc.budget }) := by
    simp only [execList, bind_app, h2]
  exact handler_selection funcs depth (fuel + 4) _ catches s _ c a n h h3 hc hm

/-- **No residue: control stack.** Whatever a block does — ends normally, with break/continue/return, handles an error in a
`when` clause (also when that handler fails in turn), or lets an error through — the stack of running `forall` loops after the
block is entry by entry (iterator name, traversed variable, index, saved type, lock flag) the one before it: every loop entered
inside the interrupted region has been closed, no iterator constraint and no table lock is left behind. Holds for every fuel and
outcome, incl. hazards and out-of-fuel. (Model of `Context::onRuntimeError` + `unstackControl`; mutual induction
`Lemmas.sameIters_all`.) -/
theorem no_residue_control_stack (funcs : List Func) (depth fuel : Nat) (body : List Stmt) (catches : List (String × List Stmt)) (s : St) :
    (execBlock funcs depth fuel body catches s).2.iters.map iterKey = s.iters.map iterKey :=
  ((sameIters_all funcs fuel).2.2.2.1 depth body catches).h s

/-- The same for a whole program handed to `Executable::run` (handled, reported or no error at all): a run that starts with an
empty control stack ends with an empty control stack. -/
theorem no_residue_after_run (funcs : List Func) (depth fuel : Nat) (prog : List Stmt) (s : St) (h0 : s.iters = []) :
    (execList funcs depth fuel prog s).2.iters = [] := by
  have := ((sameIters_all funcs fuel).2.2.2.2.1 depth prog).h s
  unfold SameIters at this
  rw [h0] at this
  simpa using this

/-- **No residue: pending break / continue / return.** In the model a pending condition is not state at all: it is the `Flow`
value a statement returns (`St` has no flag field — only `returned`, the value saved by `return`, which is read only together
with a `ret` Flow). So after a handled error the only pending condition is the one the handler itself produced: the block's
Flow IS the handler's Flow, and the interrupted body's conditions are gone with its (error) result. -/
theorem handled_flow_is_handlers_flow (funcs : List Func) (depth fuel : Nat) (body : List Stmt) (catches : List (String × List Stmt))
    (s s' : St) (c : Nat) (a : Bytes) (n : String) (h : List Stmt)
    (hb : execList funcs depth fuel body s = (.err c a, s')) (hc : (c == oofCode) = false)
    (hm : catches.find? (fun cl => catchMatches cl.1 c a) = some (n, h)) :
    (execBlock funcs depth (fuel + 1) body catches s).1 = (execList funcs depth fuel h { s' with lastErr := (c, a) }).1 := by
  rw [handler_selection funcs depth fuel body catches s s' c a n h hb hc hm, handlerExit_fst]

/-- **The same context runs further code**: when the handler ends normally, execution continues with the statement after the
block, from the handler's final state — an ordinary state (variables assigned before the error keep their values, output
printed so far stays), nothing else is remembered. -/
theorem continues_after_handled (funcs : List Func) (depth fuel : Nat) (body rest : List Stmt) (catches : List (String × List Stmt))
    (s s' s2 : St) (c : Nat) (a : Bytes) (n : String) (h : List Stmt) (hbud : s.budget ≠ 0)
    (hb : execList funcs depth fuel body (tick s) = (.err c a, s')) (hc : (c == oofCode) = false)
    (hm : catches.find? (fun cl => catchMatches cl.1 c a) = some (n, h))
    (hh : execList funcs depth fuel h { s' with lastErr := (c, a) } = (.ok .norm, s2)) :
    execList funcs depth (fuel + 3) (.beginS body catches :: rest) s =
      execList funcs depth (fuel + 2) rest { s2 with lastErr := s.lastErr } := by
  have h1 := inner_matching_handles funcs depth fuel body catches s s' c a n h hbud hb hc hm
  rw [hh, handlerExit_ok] at h1
  simp only [execList, bind_app, h1, beq_self_eq_true, if_true, evalM_ite_app]

/-- `raise NAME` for a user-defined name fails with the user code and the name as argument; for the two built-in throwable names
with their own code (RAISEStatement::doit). Nothing else changes (one unit of budget). -/
theorem raise_outcome (funcs : List Func) (depth fuel : Nat) (name : String) (s : St) (hbud : s.budget ≠ 0) :
    exec funcs depth (fuel + 1) (.raiseS name) s =
      if findThrowable name == Gen.EXC_RT_USER_S then (.err Gen.EXC_RT_USER_S (nameBytes name), tick s)
      else (.err (findThrowable name) [], tick s) := by
  have hbud' : (s.budget == 0) = false := by simpa using hbud
  simp only [exec, hbud', Bool.false_eq_true, if_false]
  split <;> simp_all [failE, tick]

/-- A user-raised name is matched by the clause of the same name (and by `others`, see `others_matches_iff`). -/
theorem user_raise_matches_same_name (n : String) (h : findThrowable n = Gen.EXC_RT_USER_S) :
    catchMatches n Gen.EXC_RT_USER_S (nameBytes n) = true := by
  unfold catchMatches; simp [h]

/-- … and by no clause with a different (user) name. -/
theorem user_raise_not_matched_by_other_name (n m : String) (hn : findThrowable n = Gen.EXC_RT_USER_S)
    (hne : nameBytes n ≠ nameBytes m) (ho : (n == "OTHERS") = false) :
    catchMatches n Gen.EXC_RT_USER_S (nameBytes m) = false := by
  unfold catchMatches; simp [hn, ho, hne]

/-! ## the error record: `error@1`, `error@2`, `error@3`

`error` (ERRORExpression::value) reads the context's `_last_error` = `St.lastErr`; `docatch` = `execBlock` sets it when a clause is
entered (`handler_selection`) and clears it when the clause ends without error (`handlerExit`). -/

/-- a message format without `%` is printed as it is, whatever the argument -/
theorem fmtS_plain : ∀ (fmt arg : Bytes), (∀ b ∈ fmt, b ≠ 37) → fmtS fmt arg = fmt
  | [], _, _ => by simp [fmtS]
  | [c], _, _ => by simp [fmtS]
  | c :: d :: rest, arg, h => by
    have hc : c ≠ 37 := h c (by simp)
    have hc' : (c == 37) = false := by simpa using hc
    rw [fmtS]
    simp only [hc', Bool.false_and, Bool.false_eq_true, if_false]
    rw [fmtS_plain (d :: rest) arg (fun b hb => h b (by simp [hb]))]

/-- **`error` of a user exception**: name and message are the raised name (its bytes up to the buffer size; a name is an
identifier: no NUL, and here at most 255 bytes — longer ones are cut by `what()`'s buffer), the code is EXC_RT_USER_S = 1. -/
theorem error_of_user_raise (a : Bytes) (h0 : ∀ b ∈ a, b ≠ 0) (hlen : a.length ≤ 255) :
    errorTuple (Gen.EXC_RT_USER_S, a) = .ok (.tup errDecl [.str a, .str a, .int 1]) := by
  have hfmt : Gen.rtMessages[Gen.EXC_RT_USER_S]? = some "%s" := by decide
  have hb : ("%s" : String).toUTF8.toList = [37, 115] := by decide +kernel
  have htw : ∀ (a : Bytes), (∀ b ∈ a, b ≠ 0) → a.takeWhile (· != 0) = a := by
    intro a
    induction a with
    | nil => intro _; rfl
    | cons x xs ih =>
      intro h0
      have hx : (x != 0) = true := by simpa using h0 x (by simp)
      simp only [List.takeWhile_cons, hx, if_true]
      rw [ih (fun b hb => h0 b (by simp [hb]))]
  have htw := htw a h0
  have hneq : (Gen.EXC_RT_USER_S == Gen.EXC_RT_NOERROR) = false := by decide
  unfold errorTuple errWhat
  simp only [hneq, Bool.false_eq_true, if_false, hfmt, hb, htw, fmtS, beq_self_eq_true, Bool.and_self, if_true, List.append_nil]
  rw [List.take_of_length_le (by simpa [Gen.WHAT_BUFFER] using hlen)]
  rfl

/-- **`error` of the two catchable built-in errors**: `@1` is the throwable's keyword, `@2` the message of the generated table,
`@3` the code — whatever argument the error carries. -/
theorem error_of_builtin_throwable (a : Bytes) :
    errorTuple (Gen.EXC_RT_DIVIDE_BY_ZERO, a) =
      .ok (.tup errDecl [.str "DIVIDE_BY_ZERO".toUTF8.toList, .str "Divide by zero.".toUTF8.toList, .int 23]) ∧
    errorTuple (Gen.EXC_RT_OUT_OF_RANGE, a) =
      .ok (.tup errDecl [.str "OUT_OF_RANGE".toUTF8.toList, .str "Out of range.".toUTF8.toList, .int 21]) := by
  have h1 : Gen.rtMessages[Gen.EXC_RT_DIVIDE_BY_ZERO]? = some "Divide by zero." := by decide
  have h2 : Gen.rtMessages[Gen.EXC_RT_OUT_OF_RANGE]? = some "Out of range." := by decide
  have n1 : (Gen.EXC_RT_DIVIDE_BY_ZERO == Gen.EXC_RT_NOERROR) = false := by decide
  have n2 : (Gen.EXC_RT_OUT_OF_RANGE == Gen.EXC_RT_NOERROR) = false := by decide
  have p1 : ∀ b ∈ ("Divide by zero." : String).toUTF8.toList, b ≠ 37 := by decide +kernel
  have p2 : ∀ b ∈ ("Out of range." : String).toUTF8.toList, b ≠ 37 := by decide +kernel
  have k1 : throwableKeyword Gen.EXC_RT_DIVIDE_BY_ZERO = "DIVIDE_BY_ZERO".toUTF8.toList := by decide +kernel
  have k2 : throwableKeyword Gen.EXC_RT_OUT_OF_RANGE = "OUT_OF_RANGE".toUTF8.toList := by decide +kernel
  have t1 : List.take (Gen.WHAT_BUFFER - 1) "Divide by zero.".toUTF8.toList = "Divide by zero.".toUTF8.toList := by decide +kernel
  have t2 : List.take (Gen.WHAT_BUFFER - 1) "Out of range.".toUTF8.toList = "Out of range.".toUTF8.toList := by decide +kernel
  have u1 : (Gen.EXC_RT_DIVIDE_BY_ZERO == Gen.EXC_RT_USER_S) = false := by decide
  have u2 : (Gen.EXC_RT_OUT_OF_RANGE == Gen.EXC_RT_USER_S) = false := by decide
  have i1 : Int64.ofNat Gen.EXC_RT_DIVIDE_BY_ZERO = 23 := by decide +kernel
  have i2 : Int64.ofNat Gen.EXC_RT_OUT_OF_RANGE = 21 := by decide +kernel
  constructor
  · unfold errorTuple errWhat
    simp only [n1, Bool.false_eq_true, if_false, h1, fmtS_plain _ _ p1, k1, t1, u1, i1]
  · unfold errorTuple errWhat
    simp only [n2, Bool.false_eq_true, if_false, h2, fmtS_plain _ _ p2, k2, t2, u2, i2]

/-- with no error recorded `error` is ("", "", 0) — what a program reads outside every handler, and (finding
C07.error_record_cleared_by_inner_handler) inside a handler after an inner block handled an error of its own -/
theorem error_of_clear_record : errorTuple LastErr.clear = .ok (.tup errDecl [.str [], .str [], .int 0]) := by rfl

/-- `error@N` for N = 1, 2, 3 is the N-th component of the record's tuple; the state is left alone. -/
theorem eval_error_item (funcs : List Func) (depth fuel : Nat) (s : St) (x1 x2 x3 : Val)
    (hx : errorTuple s.lastErr = .ok (.tup errDecl [x1, x2, x3])) :
    eval funcs depth (fuel + 2) (.item .errorE 1) s = (.ok x1, s) ∧
    eval funcs depth (fuel + 2) (.item .errorE 2) s = (.ok x2, s) ∧
    eval funcs depth (fuel + 2) (.item .errorE 3) s = (.ok x3, s) := by
  have e : eval funcs depth (fuel + 1) .errorE s = (.ok (.tup errDecl [x1, x2, x3]), s) := by rw [eval_error, hx]
  refine ⟨?_, ?_, ?_⟩ <;>
    simp [eval, itemAt, itemNo, liftR, bind, e, monadLift, MonadLift.monadLift, itemAtV, itemIndex, Val.isNull, errDecl, liftM]

/-- **In the first matching clause `error` describes the error that was raised**: the clause starts in the state the error left,
with that error as the record; there `error` evaluates to `errorTuple (c, a)` — for a user exception (name, name, 1), for
DIVIDE_BY_ZERO / OUT_OF_RANGE (keyword, message, code) by the three theorems above. -/
theorem handler_sees_its_error (funcs : List Func) (depth fuel k : Nat) (body : List Stmt) (catches : List (String × List Stmt))
    (s s' : St) (c : Nat) (a : Bytes) (n : String) (h : List Stmt)
    (hb : execList funcs depth fuel body s = (.err c a, s')) (hc : (c == oofCode) = false)
    (hm : catches.find? (fun cl => catchMatches cl.1 c a) = some (n, h)) :
    execBlock funcs depth (fuel + 1) body catches s = handlerExit s.lastErr (execList funcs depth fuel h { s' with lastErr := (c, a) }) ∧
    eval funcs depth (k + 1) .errorE { s' with lastErr := (c, a) } = (errorTuple (c, a), { s' with lastErr := (c, a) }) :=
  ⟨handler_selection funcs depth fuel body catches s s' c a n h hb hc hm, eval_error funcs depth k _⟩

/-- **An inner block that handles an error of its own RESTORES the record** (repo 72036d1 + 8256736): when its clause ends without
error the record is again what it was when the inner block was ENTERED — whatever the failing inner body and the clause did to it in
between (a clause of the body that failed leaves its own error behind: that is not what is restored) —, so an enclosing clause that is
still running reads ITS error again: `error@N` describes the clause's error before and after the inner block. -/
theorem inner_handled_error_restores_record (funcs : List Func) (depth fuel : Nat) (ibody : List Stmt)
    (icatches : List (String × List Stmt)) (s s' s2 : St) (c : Nat) (a : Bytes) (n : String) (h : List Stmt) (fl : Flow)
    (hbud : s.budget ≠ 0)
    (hb : execList funcs depth fuel ibody (tick s) = (.err c a, s')) (hc : (c == oofCode) = false)
    (hin : icatches.find? (fun cl => catchMatches cl.1 c a) = some (n, h))
    (hh : execList funcs depth fuel h { s' with lastErr := (c, a) } = (.ok fl, s2)) :
    exec funcs depth (fuel + 2) (.beginS ibody icatches) s = (.ok fl, { s2 with lastErr := s.lastErr }) ∧
    (exec funcs depth (fuel + 2) (.beginS ibody icatches) s).2.lastErr = s.lastErr := by
  have e : exec funcs depth (fuel + 2) (.beginS ibody icatches) s = (.ok fl, { s2 with lastErr := s.lastErr }) := by
    rw [inner_matching_handles funcs depth fuel ibody icatches s s' c a n h hbud hb hc hin, hh, handlerExit_ok]
  exact ⟨e, by rw [e]⟩

/-- **No clause entered ⇒ record unchanged** (every outcome): statements without exception clauses — loops, conditionals, blocks without
clauses, calls of functions WITH clauses of their own — leave the context's error record exactly as they found it, whether they end
normally, with break/continue/return, with an error, a hazard or out of fuel (`Lemmas.err_all`, fourth mutual induction). So does every
expression. -/
theorem record_kept_without_clauses (funcs : List Func) (depth fuel : Nat) (body : List Stmt) (s : St) (hb : noClauseL body = true) :
    (execList funcs depth fuel body s).2.lastErr = s.lastErr :=
  ((err_all funcs fuel).2.2.2.2.1 depth body hb).h s

theorem expression_keeps_record (funcs : List Func) (depth fuel : Nat) (e : Expr) (s : St) :
    (eval funcs depth fuel e s).2.lastErr = s.lastErr :=
  ((err_all funcs fuel).1 depth e).h s

/-- **Inside a clause `error@N` describes the clause's error before and after an inner block that handles an error of its own** — for
EVERY inner block (body and clauses arbitrary, clauses of the body that fail included): the record after the block is the record
before it. -/
theorem inner_block_keeps_enclosing_record (funcs : List Func) (depth fuel : Nat) (ibody : List Stmt)
    (icatches : List (String × List Stmt)) (s s' s2 : St) (c : Nat) (a : Bytes) (n : String) (h : List Stmt) (fl : Flow)
    (hbud : s.budget ≠ 0)
    (hb : execList funcs depth fuel ibody (tick s) = (.err c a, s')) (hc : (c == oofCode) = false)
    (hin : icatches.find? (fun cl => catchMatches cl.1 c a) = some (n, h))
    (hh : execList funcs depth fuel h { s' with lastErr := (c, a) } = (.ok fl, s2)) :
    (exec funcs depth (fuel + 2) (.beginS ibody icatches) s).2.lastErr = s.lastErr :=
  (inner_handled_error_restores_record funcs depth fuel ibody icatches s s' s2 c a n h fl hbud hb hc hin hh).2

/-- **FULL STATEMENT — code that ends without error leaves the error record alone**: for EVERY statement list (any nesting of blocks,
clauses that fail and are handled further out, loops, calls), every state and every fuel, when the run ends without error (normally or
with a pending break/continue/return) the record is what it was at the start. `Lemmas.ok_all`, fifth mutual induction. True since repo
8256736 (`outer` taken on entry of the block); before it the statement needed the proviso `flatL` (witness kept below as a regression
witness of finding C07.error_record_stale_after_failed_inner_clause). -/
theorem ok_run_keeps_record (funcs : List Func) (depth fuel : Nat) (body : List Stmt) (s s2 : St) (fl : Flow)
    (hrun : execList funcs depth fuel body s = (.ok fl, s2)) : s2.lastErr = s.lastErr :=
  ((ok_all funcs fuel).2.1 depth body).h s fl s2 hrun

/-- **Inside a clause `error@N` describes the clause's error at EVERY point** of its body, whatever inner blocks handled errors of
their own before that point, nested however deep inside their clauses, whether or not clauses of theirs failed. `pre` is any prefix of the
clause body that ended normally (or with a pending break/continue/return) from the state `st0` in which the clause started (record = the
clause's error (c, a), `handler_selection`): at that point `error` still evaluates to `errorTuple (c, a)`. -/
theorem error_describes_clause_error_at_every_point (funcs : List Func) (depth fuel k : Nat) (pre : List Stmt) (st0 s1 : St)
    (c : Nat) (a : Bytes) (fl : Flow) (h0 : st0.lastErr = (c, a))
    (hrun : execList funcs depth fuel pre st0 = (.ok fl, s1)) :
    eval funcs depth (k + 1) .errorE s1 = (errorTuple (c, a), s1) := by
  have hk : s1.lastErr = st0.lastErr := ok_run_keeps_record funcs depth fuel pre st0 s1 fl hrun
  rw [eval_error, hk, h0]

/-- hypotheses at work: the clause of E1 runs `begin raise E2; exception when E2 then begin raise E3; exception when E3 then nop; end; end;` (a block
whose clause holds another block) and then still reads E1 -/
example : (execList [] 0 40 [.beginS [.raiseS "E1"] [("E1", [.beginS [.raiseS "E2"] [("E2", [.beginS [.raiseS "E3"] [("E3", [.nop])]])],
      .printS [.item .errorE 1]])]] {}).2.out = [[10], [69, 49]] := by decide +kernel

/-- regression witness of finding C07.error_record_cleared_by_inner_handler (fixed in 72036d1): `begin raise E1; exception when E1 then
print error@1 error@3; begin raise E2; exception when E2 then nop; end; print error@1 error@3; end;` prints `E11` twice. -/
theorem outer_handler_keeps_its_error_witness :
    (execList [] 0 30 [.beginS [.raiseS "E1"] [("E1", [.printS [.item .errorE 1, .item .errorE 3],
        .beginS [.raiseS "E2"] [("E2", [.nop])], .printS [.item .errorE 1, .item .errorE 3]])]] {}).2.out =
      [[10], [49], [69, 49], [10], [49], [69, 49]] := by decide +kernel

/-- regression witness of finding C07.error_record_stale_after_failed_inner_clause (fixed in 8256736): inside the clause of E0 a block
whose body's inner clause (of E1) fails with E2 handles E2; afterwards the clause of E0 reads E0 again: `begin raise E0; exception when
E0 then print error@1; begin begin raise E1; exception when E1 then raise E2; end; exception when E2 then print error@1; end;
print error@1; end;` prints E0, E2, E0 (was: E0, E2, E1). -/
theorem record_restored_after_failed_inner_clause_witness :
    (execList [] 0 40 [.beginS [.raiseS "E0"] [("E0", [.printS [.item .errorE 1],
        .beginS [.beginS [.raiseS "E1"] [("E1", [.raiseS "E2"])]] [("E2", [.printS [.item .errorE 1]])],
        .printS [.item .errorE 1]])]] {}).2.out =
      [[10], [69, 48], [10], [69, 50], [10], [69, 48]] := by decide +kernel

/-- **A clause that fails leaves the record as it is** ("kept for debug"): nothing clears it until another clause of the same context
ends — so it is what `error` reads afterwards outside every handler (a later program in the same context; a later call that gets the
error is caught by an enclosing block restores the record of ITS entry: `ok_run_keeps_record`). -/
theorem failed_handler_keeps_record (funcs : List Func) (depth fuel : Nat) (body : List Stmt) (catches : List (String × List Stmt))
    (s s' s2 : St) (c c2 : Nat) (a a2 : Bytes) (n : String) (h : List Stmt)
    (hb : execList funcs depth fuel body s = (.err c a, s')) (hc : (c == oofCode) = false)
    (hm : catches.find? (fun cl => catchMatches cl.1 c a) = some (n, h))
    (hh : execList funcs depth fuel h { s' with lastErr := (c, a) } = (.err c2 a2, s2)) :
    execBlock funcs depth (fuel + 1) body catches s = (.err c2 a2, s2) := by
  rw [handler_selection funcs depth fuel body catches s s' c a n h hb hc hm, hh, handlerExit_err]

/-- hypotheses of `failed_handler_keeps_record` at work: `begin raise E1; exception when E1 then raise E2; end` ends with E2 and the record E1 -/
example : (let r := execList [] 0 20 [.beginS [.raiseS "E1"] [("E1", [.raiseS "E2"])]] {}
    (match r.1 with | .err c a => c == 1 && a == [69, 50] | _ => false, r.2.lastErr)) = (true, (1, [69, 49])) := by decide +kernel

/-- a user raise caught by its clause: `error@1`, `error@2` are the name, `error@3` is 1; DIVIDE_BY_ZERO caught by `others` -/
example : (execList [] 0 30 [.beginS [.raiseS "BOOM"] [("BOOM", [.printS [.item .errorE 1, .item .errorE 2, .item .errorE 3]])],
      .beginS [.doS (.bin .div (.lit (.int 1)) (.lit (.int 0)))] [("OTHERS", [.printS [.item .errorE 1, .item .errorE 3]])]] {}).2.out =
    [[10], [50, 51], "DIVIDE_BY_ZERO".toUTF8.toList, [10], [49], [66, 79, 79, 77], [66, 79, 79, 77]] := by decide +kernel

/-! ## output printed before an error stays; the `for`/`while` control entries; the interactive runner -/

/-- **Output only grows**: whatever a statement list does — ends normally, fails, handles errors, calls functions, runs out of
fuel — the output after it is the output before it plus what was printed since (`Lemmas.frame_all` for `OutGrows`). -/
theorem output_only_grows (funcs : List Func) (depth fuel : Nat) (prog : List Stmt) (s : St) :
    ∃ t : Bytes, (execList funcs depth fuel prog s).2.output = s.output ++ t :=
  output_prefix_of_outGrows _ _ (((frame_all outGrows_frame funcs fuel).2.2.2.2.1 depth prog).h s)

/-- **Output produced before an error is preserved**: when the body of a block fails, everything printed before the block and inside it
up to the failing operation is part of the output the handler starts with (and, by `output_only_grows` again, of the final output of
the block, handled or not). -/
theorem output_before_error_preserved (funcs : List Func) (depth fuel : Nat) (body : List Stmt) (catches : List (String × List Stmt))
    (s s' : St) (c : Nat) (a : Bytes) (hb : execList funcs depth fuel body s = (.err c a, s')) :
    (∃ t : Bytes, s'.output = s.output ++ t) ∧
    (∃ t : Bytes, (execBlock funcs depth (fuel + 1) body catches s).2.output = s'.output ++ t) := by
  constructor
  · have := output_only_grows funcs depth fuel body s
    rwa [hb] at this
  · have h1 : ∀ (x : St), OutGrows x (execBlock funcs depth (fuel + 1) body catches s).2 →
        ∃ t : Bytes, (execBlock funcs depth (fuel + 1) body catches s).2.output = x.output ++ t :=
      fun x h => output_prefix_of_outGrows _ _ h
    apply h1
    simp only [execBlock, hb]
    split
    · exact outGrows_frame.rel.refl _
    · split
      · rename_i handler hfind
        have h2 := ((frame_all outGrows_frame funcs fuel).2.2.2.2.1 depth handler).h { s' with lastErr := (c, a) }
        have h3 : OutGrows s' { s' with lastErr := (c, a) } := outGrows_frame.upd _ _ rfl rfl
        unfold handlerExit
        split
        · rename_i fl s2 heq2
          rw [heq2] at h2
          exact outGrows_frame.rel.trans h3 (outGrows_frame.rel.trans h2 (outGrows_frame.upd _ _ rfl rfl))
        · exact outGrows_frame.rel.trans h3 h2
      · exact outGrows_frame.rel.refl _

/-- `print "a"; begin print "b"; raise E; exception when others then print "c"; end` -/
example : (execList [] 0 20 [.printS [.lit (.str [97])], .beginS [.printS [.lit (.str [98])], .raiseS "E"] [("OTHERS", [.printS [.lit (.str [99])]])]] {}).2.output =
    [97, 10, 98, 10, 99, 10] := by decide +kernel

/-- **No residue, `for`/`while` entries, program runs**: a run through `Executable::run` (`execList`; also a block, a statement, a call)
never leaves or removes a `for`/`while` entry of the control stack — whatever the outcome. -/
theorem program_run_keeps_control_entries (funcs : List Func) (depth fuel : Nat) (prog : List Stmt) (s : St) :
    (execList funcs depth fuel prog s).2.ctl = s.ctl :=
  ((frame_all sameCtl_frame funcs fuel).2.2.2.2.1 depth prog).h s

/-- **One statement under the interactive runner** (apps/cli_parser.cpp after 3db7ed2: the runner's handler calls `onRuntimeError`):
it is the statement's ordinary execution; after a normal end the control entries are what they were, after ANY error there is none. -/
theorem interactive_statement_outcome (funcs : List Func) (fuel : Nat) (st : Stmt) (s : St) :
    (∀ fl s', exec funcs 0 fuel st s = (.ok fl, s') → stepTop funcs fuel st s = (.ok fl, s') ∧ s'.ctl = s.ctl) ∧
    (∀ c a s', exec funcs 0 fuel st s = (.err c a, s') → stepTop funcs fuel st s = (.err c a, { s' with ctl := [] })) := by
  have hk := ((frame_all sameCtl_frame funcs fuel).2.2.2.2.2.1 0 st).h s
  constructor
  · intro fl s' h
    rw [h] at hk
    exact ⟨by simp only [stepTop, purgeOnErr, h], hk⟩
  · intro c a s' h
    simp only [stepTop, purgeOnErr, h]

theorem stepTop_no_residue (funcs : List Func) (fuel : Nat) (st : Stmt) (s : St) (h0 : s.ctl = []) :
    (stepTop funcs fuel st s).2.ctl = [] := by
  have hk := ((frame_all sameCtl_frame funcs fuel).2.2.2.2.2.1 0 st).h s
  unfold SameCtl at hk
  unfold stepTop purgeOnErr
  split
  · rename_i a s' heq
    rw [heq] at hk
    exact hk.trans h0
  · rfl

/-- **No residue under the interactive runner** (the full statement; false before 3db7ed2 — finding
C07.interactive_runner_keeps_control_entry, fixed): whatever statements are typed one after the other, whatever their outcomes
(errors in loop headers, bodies, handlers, functions; `return` at the prompt), a session that starts with an empty control stack has
an empty control stack after every statement. -/
theorem interactive_runner_no_residue (funcs : List Func) (fuel : Nat) : ∀ (prog : List Stmt) (s : St), s.ctl = [] →
    (runInteractive funcs fuel prog s).2.ctl = []
  | [], s, h0 => h0
  | st :: rest, s, h0 => by
    have h1 := stepTop_no_residue funcs fuel st s h0
    unfold runInteractive
    cases hs : stepTop funcs fuel st s with
    | mk r s' =>
      rw [hs] at h1
      simp only []
      exact interactive_runner_no_residue funcs fuel rest { s' with returned := none } h1

/-- regression witness: `zero = 0; while (1 / zero) > 0 loop nop; end loop; print "alive";` at the prompt: DIVIDE_BY_ZERO is reported, the
session goes on, nothing is left on the control stack; a `return` at the prompt ends its statement and the session goes on -/
theorem interactive_runner_witness_fixed :
    (let r := runInteractive [] 30 [.letS "zero" (.lit (.int 0)),
        .whileS (.bin .gt (.bin .div (.lit (.int 1)) (.var "zero")) (.lit (.int 0))) [.nop], .returnS (some (.lit (.int 5))), .printS [.lit (.str [97])]] {}
     (r.1.map (fun x => match x with | .ok .ret => 1 | .ok _ => 0 | .err c _ => c | _ => 999), r.2.ctl, r.2.out, r.2.returned.isNone)) =
    ([0, 23, 1, 0], [], [[10], [97]], true) := by decide +kernel

/-- `begin begin raise E1; exception when E2 then print "inner"; end; print "skipped"; exception when E1 then print "outer"; end; print "after";`:
the inner block has no clause for E1, the outer one handles it; what follows runs normally. -/
example : (execList [] 0 20 [.beginS [.beginS [.raiseS "E1"] [("E2", [.printS [.lit (.str [105])]])], .printS [.lit (.str [115])]]
      [("E1", [.printS [.lit (.str [111])]])], .printS [.lit (.str [97])]] {}).2.out = [[10], [97], [10], [111]] := by decide +kernel

/-- an error raised inside nested loops inside a block: handled, loops closed (empty control stack), and the iterator name can be assigned again -/
example : (let r := execList [] 0 20 [.beginS [.forallS "e" (.var "t") .auto [.whileS (.lit (.bool true)) [.raiseS "X"]]] [("X", [.nop])],
      .letS "e" (.lit (.str [104]))] { vars := [("t", .tab { major := .int, level := 1 } [] [.int 1, .int 2])] }
    (r.1, r.2.iters.length, lookupVar r.2.vars "e" == .str [104])) = (.ok .norm, 0, true) := by decide +kernel

/-- a function that raises, called inside a block of the caller: the caller's clause runs, the caller's variable `x` is untouched -/
example : (let f : Func := { name := "f", params := [], ret := Ty.none, body := [.raiseS "BOOM"], catches := [] }
    let r := execList [f] 0 20 [.letS "x" (.lit (.int 1)), .beginS [.doS (.fcall "f" [])] [("BOOM", [.printS [.var "x"]])]] {}
    (r.1, r.2.out)) = (.ok .norm, [[10], [49]]) := by decide +kernel

/-- DIVIDE_BY_ZERO inside a function inside a loop, caught by `others` in the caller -/
example : (let f : Func := { name := "f", params := [("a", Ty.int)], ret := Ty.int, body := [.returnS (some (.bin .div (.lit (.int 1)) (.var "a")))], catches := [] }
    let r := execList [f] 0 30 [.beginS [.forS "i" (.lit (.int 1)) (.lit (.int 0)) none .auto [.doS (.fcall "f" [.var "i"])]] [("OTHERS", [.printS [.var "i"]])]] {}
    (r.1, r.2.out)) = (.ok .norm, [[10], [48]]) := by decide +kernel
end BlocV.C07
