/-
  C18 — csv, file, sqlite3, utf8 modules move data losslessly and tolerate any argument.
  This file: the csv and utf8 halves. Property theorems and their non-vacuity examples only
  (helper lemmas: Proofs/Lemmas/Csv.lean, Proofs/Lemmas/Utf8.lean).

  Model: BlocV/Model/Mod/Csv.lean (csvparser.cpp), BlocV/Model/Mod/Utf8.lean (utf8helper.cpp + the
  argument handling of plugin_utf8.cpp).  Spec: BlocV/Spec/Csv.lean, BlocV/Spec/Utf8.lean.
-/
import BlocV.Proofs.Lemmas.Csv
import BlocV.Model.Mod.CsvPlugin
import BlocV.Proofs.Lemmas.Utf8
import BlocV.Proofs.Lemmas.Utf8Ill
import BlocV.Proofs.Lemmas.Utf8Ops
import BlocV.Proofs.Lemmas.Utf8Case

namespace BlocV.C18
open BlocV.Mod.Csv
open BlocV.Spec.Csv (RowOk RoundTrip RoundTripLines splitAfterLF feedLines)

/-! ## csv -/

/-- The rows of the property (several fields, or one non-empty field) are among the rows the theorems
cover (every row but the single empty field; the empty row is covered too). -/
theorem rowOk_ne (row : Row) (h : RowOk row) : row ≠ [[]] := by
  rcases h with h | ⟨f, rfl, hf⟩
  · intro e; subst e; simp at h
  · intro e; simp at e; exact hf e

/-- **csv_roundtrip.** For every separator/encapsulator pair with `sep ≠ enc` — nothing else is needed:
either may be CR, LF, a space, NUL, a byte ≥ 0x80 — every row other than the single empty field, and
every field content, `deserialize (serialize row)` returns "record complete" and exactly the row, with
the error flag clear, whatever the parser's error members were before. -/
theorem csv_roundtrip (cfg : Cfg) (hne : cfg.sep ≠ cfg.enc) (row : Row) (hrow : row ≠ [[]]) (ps : PState) :
    deserialize cfg ps (serialize cfg row) = .done false row { ps with error := false } := by
  cases row with
  | nil => simp [serialize_nil, deserialize, deserializeChunk]
  | cons f fs =>
    rw [serialize_cons]
    have hs := ser_ne_nil cfg f fs hrow
    have hrun := (run_row cfg hne fs f []).1
    cases hl : serF cfg f ++ joinTail cfg fs with
    | nil => exact absurd hl hs
    | cons x xs =>
      rw [hl] at hrun
      simp only [deserialize, deserializeChunk, Bool.false_eq_true, if_false]
      have h1 := scan_eq_run cfg (x :: xs) { out := [], value := [], first := true, encap := false } rfl
      have h2 : toA { out := [], value := [], first := true, encap := false } = clean [] := rfl
      rw [h2] at h1
      rw [← h1] at hrun
      generalize scan cfg (x :: xs) { out := [], value := [], first := true, encap := false } = st at hrun
      unfold callOfA toA at hrun
      unfold finish
      by_cases he : st.error
      · simp [he] at hrun
      · simp [he] at hrun
        simp [he, hrun.1, hrun.2]

/-- The same as the property words it: a client that calls `deserialize` on the serialized record. -/
theorem csv_roundtrip_spec (cfg : Cfg) (hne : cfg.sep ≠ cfg.enc) (row : Row) (hrow : RowOk row) :
    RoundTrip (serialize cfg) (callFirst cfg) row := by
  unfold RoundTrip callFirst
  rw [csv_roundtrip cfg hne row (rowOk_ne row hrow)]
  rfl

/-- Hypotheses satisfiable on a non-trivial row: `a,"\n` / empty / two spaces, with `,` and `"`. -/
example : (⟨0x2c, 0x22⟩ : Cfg).sep ≠ (⟨0x2c, 0x22⟩ : Cfg).enc ∧
    RowOk [[0x61, 0x2c, 0x22, 0x0a], [], [0x20, 0x20]] ∧
    deserialize ⟨0x2c, 0x22⟩ {} (serialize ⟨0x2c, 0x22⟩ [[0x61, 0x2c, 0x22, 0x0a], [], [0x20, 0x20]])
      = .done false [[0x61, 0x2c, 0x22, 0x0a], [], [0x20, 0x20]] {} := by decide +kernel

/-- The side condition is necessary: with `sep = enc = ','` the row `a,b` does not come back
(the parser reports an error at position 2). -/
example : deserialize ⟨0x2c, 0x2c⟩ {} (serialize ⟨0x2c, 0x2c⟩ [[0x61], [0x62]])
    = .done false [] { error := true, errorPos := 2 } := by decide +kernel

/-- The excluded row: a single empty field serializes to the empty text, which deserializes to no field. -/
example : deserialize ⟨0x2c, 0x22⟩ {} (serialize ⟨0x2c, 0x22⟩ [[]]) = .done false [] {} := by decide +kernel

/-- **csv_linewise.** If moreover neither the separator nor the encapsulator is LF, the client loop
"`deserialize` the first line; while it returns true, `deserialize_next` the following line" over the
serialized record cut after every LF consumes all lines and ends with "record complete" and exactly the
row. -/
theorem csv_linewise (cfg : Cfg) (hne : cfg.sep ≠ cfg.enc) (hsep : cfg.sep ≠ LF) (henc : cfg.enc ≠ LF)
    (row : Row) (hrow : row ≠ [[]]) :
    RoundTripLines (serialize cfg) (callFirst cfg) (callNext cfg) row := by
  unfold RoundTripLines
  cases row with
  | nil => simp [serialize_nil, splitAfterLF, feedLines, callFirst_nil]
  | cons f fs =>
    rw [serialize_cons]
    have hs := ser_ne_nil cfg f fs hrow
    obtain ⟨hrun, hmon⟩ := run_row cfg hne fs f []
    cases hsp : splitAfterLF (serF cfg f ++ joinTail cfg fs) with
    | nil => exact absurd (splitAfterLF_eq_nil _ hsp) hs
    | cons l1 ls =>
      simp only [feedLines]
      rw [callFirst_eq cfg l1 (splitAfterLF_head_ne_nil _ l1 ls hsp)]
      rw [feed_lines cfg hne _ (clean []) (clean []) (R_refl _) (hmon henc hsep) l1 ls hsp, hrun]
      simp

example : RowOk [[0x61, 0x0a, 0x0a, 0x22], [0x0a], [0x62]] ∧
    feedLines (callFirst ⟨0x2c, 0x22⟩) (callNext ⟨0x2c, 0x22⟩)
      (splitAfterLF (serialize ⟨0x2c, 0x22⟩ [[0x61, 0x0a, 0x0a, 0x22], [0x0a], [0x62]]))
      = (some (false, [[0x61, 0x0a, 0x0a, 0x22], [0x0a], [0x62]]), []) ∧
    (splitAfterLF (serialize ⟨0x2c, 0x22⟩ [[0x61, 0x0a, 0x0a, 0x22], [0x0a], [0x62]])).length = 4 := by decide +kernel

/-- Necessary: separator LF — the first line `a\n` is already a complete record `["a", ""]`. -/
example : feedLines (callFirst ⟨0x0a, 0x22⟩) (callNext ⟨0x0a, 0x22⟩)
    (splitAfterLF (serialize ⟨0x0a, 0x22⟩ [[0x61], [0x62]])) = (some (false, [[0x61], []]), [[0x62]]) := by decide +kernel

/-- Necessary: encapsulator LF — the field `\n` is written as four LFs; the client sees a complete
record `[""]` after two of the four lines. -/
example : feedLines (callFirst ⟨0x2c, 0x0a⟩) (callNext ⟨0x2c, 0x0a⟩)
    (splitAfterLF (serialize ⟨0x2c, 0x0a⟩ [[0x0a]])) = (some (false, [[]]), [[0x0a], [0x0a]]) := by decide +kernel

/-- **csv_args_total**: `deserialize`, `deserialize_next` and `deserialize_chunk` with ANY parser state, ANY field
table (empty, after an error, after `deserialize("")`) and ANY line return a result: `back()` / `pop_back()` are never
applied to an empty vector. -/
theorem csv_args_total (cfg : Cfg) (ps : PState) (next : Bool) (out : Row) (line : List UInt8) :
    deserializeChunk cfg ps next out line ≠ .hazardEmptyBack
    ∧ deserialize cfg ps line ≠ .hazardEmptyBack ∧ deserializeNext cfg ps out line ≠ .hazardEmptyBack := by
  have key : ∀ (ps : PState) (next : Bool) (out : Row), deserializeChunk cfg ps next out line ≠ .hazardEmptyBack := by
    intro ps next out
    unfold deserializeChunk
    cases line with
    | nil => simp
    | cons x xs =>
      simp only []
      split
      · rename_i h
        cases hq : out.getLast? with
        | none => exact absurd (List.getLast?_eq_none_iff.mp hq) h.2
        | some v => simp only [finish]; split <;> simp
      · simp only [finish]; split <;> simp
  exact ⟨key ps next out, key _ false [], key ps true out⟩

/-- **csv_next_empty_table**: `deserialize_next` on an EMPTY field table (fresh table, after a parse error, after
`deserialize("")`) treats a non-empty line as the start of a record: the same fields and the same "needs more" flag
as `deserialize_chunk(false, …)` — i.e. as `deserialize`, except that `m_error` is not reset. -/
theorem csv_next_empty_table (cfg : Cfg) (ps : PState) (line : List UInt8) (hl : line ≠ []) :
    deserializeNext cfg ps [] line = deserializeChunk cfg ps false [] line
    ∧ deserializeNext cfg { ps with error := false } [] line = deserialize cfg ps line := by
  cases line with
  | nil => exact absurd rfl hl
  | cons x xs => simp [deserializeNext, deserialize, deserializeChunk]

/-- the former hazard witnesses: `deserialize_next("a")` on the empty table gives the field `a`; after the parse
error of `a"` (table cleared) the next line `a` starts a record -/
example : deserializeNext ⟨0x2c, 0x22⟩ {} [] [0x61] = .done false [[0x61]] {} ∧
    deserialize ⟨0x2c, 0x22⟩ {} [0x61, 0x22] = .done false [] { error := true, errorPos := 2 } ∧
    deserializeNext ⟨0x2c, 0x22⟩ { error := true, errorPos := 2 } [] [0x61]
      = .done false [[0x61]] { error := true, errorPos := 2 } ∧
    deserializeNext ⟨0x2c, 0x22⟩ {} [] [0x22, 0x61] = .done true [[0x61]] {} := by decide +kernel

/-! ## csv: the plugin glue (plugin_csv.cpp) -/

section csvplugin
open BlocV.Mod.CsvPlugin

/-- **csv_plugin_args_total** (the `csv_args_total` of the plugin level), UNCONDITIONAL since /repo ad063b9. For EVERY
parser object (any separator / encapsulator, any error state), EVERY state of the table variable (null table, empty table,
null elements anywhere, the last one included) and EVERY call of the method table — `serialize(T)`, `deserialize(line, T)`,
`deserialize_next(line, T)` with any line (null, empty, ill-formed), `in_error()`, `error_pos()` — the call answers a value or
the BLOC error "Invalid arguments." and never reaches a C++-level fault (no null dereference, no `out.back()` on an empty
vector); and the BLOC error is raised EXACTLY for a null line, or a null table handed to `deserialize_next`. -/
theorem csv_plugin_args_total (w : World) (op : Op) :
    (Mod.CsvPlugin.step w op).2.isHazard = false
    ∧ ((Mod.CsvPlugin.step w op).2 = .err ↔
        op = .deserialize none ∨ op = .deserializeNext none ∨ (∃ line, op = .deserializeNext (some line) ∧ w.tbl = none)) := by
  cases op with
  | serialize => cases h : w.tbl <;> simp [Mod.CsvPlugin.step, h, Res.isHazard]
  | inError => simp [Mod.CsvPlugin.step, Res.isHazard]
  | errorPos => simp [Mod.CsvPlugin.step, Res.isHazard]
  | deserialize line =>
    cases line with
    | none => simp [Mod.CsvPlugin.step, Res.isHazard]
    | some l =>
      have := (csv_args_total w.cfg w.ps false [] l).2.1
      cases h : deserialize w.cfg w.ps l with
      | done n o p => simp [Mod.CsvPlugin.step, h, Res.isHazard]
      | hazardEmptyBack => exact absurd h this
  | deserializeNext line =>
    cases line with
    | none => simp [Mod.CsvPlugin.step, Res.isHazard]
    | some l =>
      cases ht : w.tbl with
      | none => simp [Mod.CsvPlugin.step, ht, Res.isHazard]
      | some t =>
        cases hl : t.getLast? with
        | none =>
          have := (csv_args_total w.cfg w.ps true [] l).2.2
          cases h : deserializeNext w.cfg w.ps [] l with
          | done n o p => simp [Mod.CsvPlugin.step, ht, hl, h, Res.isHazard]
          | hazardEmptyBack => exact absurd h this
        | some e =>
          have := (csv_args_total w.cfg w.ps true [fieldOf e] l).2.2
          cases h : deserializeNext w.cfg w.ps [fieldOf e] l with
          | done n o p => simp [Mod.CsvPlugin.step, ht, hl, h, Res.isHazard]
          | hazardEmptyBack => exact absurd h this

/-- null / empty arguments are answered: null line → BLOC error, null table → BLOC error, `serialize(null table)` → null
string, a null element serializes as the empty field; `deserialize_next` on the empty table starts a record -/
example : (Mod.CsvPlugin.step { cfg := ⟨0x2c, 0x22⟩, tbl := some [some [0x61], none] } (.deserializeNext none)).2 = .err
    ∧ (Mod.CsvPlugin.step { cfg := ⟨0x2c, 0x22⟩, tbl := none } (.deserializeNext (some [0x78]))).2 = .err
    ∧ (Mod.CsvPlugin.step { cfg := ⟨0x2c, 0x22⟩, tbl := none } .serialize).2 = .str none
    ∧ (Mod.CsvPlugin.step { cfg := ⟨0x2c, 0x22⟩, tbl := some [some [0x61], none] } .serialize).2 = .str (some [0x61, 0x2c])
    ∧ (Mod.CsvPlugin.step { cfg := ⟨0x2c, 0x22⟩, tbl := some [] } (.deserializeNext (some [0x78]))) =
        ({ cfg := ⟨0x2c, 0x22⟩, tbl := some [some [0x78]] }, .bool false) := by decide +kernel

/-- **csv_next_null_last_element_witness** — regression witness of the repaired finding `C18.csv_next_null_last_element`
(/repo ad063b9). `C = csv(); T = [a, null]; C.deserialize_next("x,y", T)` was a null-pointer dereference; now the null
element is continued as an empty ENCAPSULATED field: the call answers TRUE ("needs more": the encapsulation opened by the
continuation is still open, so the separator is data) and `T = [a, "x,y"]`. With the line `x",y` the encapsulator closes the
field: FALSE and `T = [a, "x", "y"]`; with the empty line (end of stream) the null element becomes the empty string. -/
theorem csv_next_null_last_element_witness :
    Mod.CsvPlugin.step { cfg := ⟨0x2c, 0x22⟩, tbl := some [some [0x61], none] } (.deserializeNext (some [0x78, 0x2c, 0x79]))
      = ({ cfg := ⟨0x2c, 0x22⟩, tbl := some [some [0x61], some [0x78, 0x2c, 0x79]] }, .bool true)
    ∧ Mod.CsvPlugin.step { cfg := ⟨0x2c, 0x22⟩, tbl := some [some [0x61], none] } (.deserializeNext (some [0x78, 0x22, 0x2c, 0x79]))
      = ({ cfg := ⟨0x2c, 0x22⟩, tbl := some [some [0x61], some [0x78], some [0x79]] }, .bool false)
    ∧ Mod.CsvPlugin.step { cfg := ⟨0x2c, 0x22⟩, tbl := some [none] } (.deserializeNext (some []))
      = ({ cfg := ⟨0x2c, 0x22⟩, tbl := some [some []] }, .bool true) := by decide +kernel

/-- **csv_plugin_next_core.** The plugin hands only the LAST element of the table to the parser (`data = [T.last]`, a null
element as the empty string) and leaves the others where they are. For EVERY table `pre ++ [e]` — null elements anywhere,
`e` included — and a non-empty line this IS the parser's `deserialize_next` on the plugin's copy `fields T` of the whole
table: same "needs more" flag, same parser state, same fields appended — except that (a) on a parse error, where the parser
core clears its whole vector, the plugin's table keeps the earlier elements `pre` (only the element being continued is lost),
and (b) the earlier elements are not rewritten: a null element of `pre` stays null (the core would see it as ""). -/
theorem csv_plugin_next_core (w : World) (pre : BTable) (e : BStr) (line : List UInt8) (hl : line ≠ [])
    (ht : w.tbl = some (pre ++ [e])) :
    ∃ next out ps', deserializeNext w.cfg w.ps [fieldOf e] line = .done next out ps'
      ∧ Mod.CsvPlugin.step w (.deserializeNext (some line)) = ({ w with ps := ps', tbl := some (pre ++ out.map some) }, .bool next)
      ∧ deserializeNext w.cfg w.ps (fields (pre ++ [e])) line = .done next (if out = [] then [] else fields pre ++ out) ps' := by
  cases line with
  | nil => exact absurd rfl hl
  | cons x xs =>
    have hS := scan_addPre w.cfg (fields pre) (x :: xs).length (x :: xs) (Nat.le_refl _)
      { out := [], value := fieldOf e, first := true, encap := true }
    simp only [addPre, List.append_nil] at hS
    have e1 : deserializeNext w.cfg w.ps [fieldOf e] (x :: xs)
        = finish w.ps (scan w.cfg (x :: xs) { out := [], value := fieldOf e, first := true, encap := true }) := by
      simp [deserializeNext, deserializeChunk]
    have e2 : deserializeNext w.cfg w.ps (fields (pre ++ [e])) (x :: xs)
        = finish w.ps (scan w.cfg (x :: xs) { out := fields pre, value := fieldOf e, first := true, encap := true }) := by
      simp [deserializeNext, deserializeChunk, fields]
    rw [e1, e2, hS]
    generalize scan w.cfg (x :: xs) { out := [], value := fieldOf e, first := true, encap := true } = S at e1 ⊢
    have hlast : (pre ++ [e]).getLast? = some e := by simp
    cases he : S.error with
    | true =>
      refine ⟨false, [], { error := true, errorPos := S.pos }, by simp [finish, he], ?_, by simp [finish, he]⟩
      simp [Mod.CsvPlugin.step, ht, hlast, e1, finish, he]
    | false =>
      refine ⟨S.encap, S.out ++ [S.value], w.ps, by simp [finish, he], ?_, by simp [finish, he]⟩
      simp [Mod.CsvPlugin.step, ht, hlast, e1, finish, he]

/-- hypotheses satisfiable: `T = ["a", "b"]`, line `c",d` completes the continued field: `["a", "bc", "d"]`; and with a null
element in front and a null last element: `T = [null, null]`, line `c",d` → `[null, "c", "d"]` -/
example : ([0x63, 0x22, 0x2c, 0x64] : List UInt8) ≠ []
    ∧ (Mod.CsvPlugin.step { cfg := ⟨0x2c, 0x22⟩, tbl := some ([some [0x61]] ++ [some [0x62]]) }
        (.deserializeNext (some [0x63, 0x22, 0x2c, 0x64]))).1.tbl = some [some [0x61], some [0x62, 0x63], some [0x64]]
    ∧ (Mod.CsvPlugin.step { cfg := ⟨0x2c, 0x22⟩, tbl := some ([none] ++ [none]) }
        (.deserializeNext (some [0x63, 0x22, 0x2c, 0x64]))).1.tbl = some [none, some [0x63], some [0x64]] := by
  decide +kernel

/-- **csv_plugin_next_null_last.** What a null last element means for the continuation: exactly what the EMPTY STRING
means. For every parser object, every table `pre ++ [null]` and every non-null line (empty, any bytes), `deserialize_next`
answers the same value and leaves the same parser state and the same table as on `pre ++ [""]`. (So, by
`csv_plugin_next_core`, it is the core's `deserialize_next` on `fields T`, whose last field is "".) -/
theorem csv_plugin_next_null_last (w : World) (pre : BTable) (line : List UInt8) :
    Mod.CsvPlugin.step { w with tbl := some (pre ++ [none]) } (.deserializeNext (some line))
      = Mod.CsvPlugin.step { w with tbl := some (pre ++ [some []]) } (.deserializeNext (some line)) := by
  have h1 : (pre ++ [(none : BStr)]).getLast? = some none := by simp
  have h2 : (pre ++ [(some [] : BStr)]).getLast? = some (some []) := by simp
  have := (csv_args_total w.cfg w.ps true [[]] line).2.2
  cases h : deserializeNext w.cfg w.ps [[]] line with
  | done n o p => simp [Mod.CsvPlugin.step, h1, h2, fieldOf, h]
  | hazardEmptyBack => exact absurd h this

example : Mod.CsvPlugin.step { cfg := ⟨0x2c, 0x22⟩, ps := { error := true, errorPos := 3 }, tbl := some ([some [0x61]] ++ [none]) }
      (.deserializeNext (some [0x22, 0x22, 0x78, 0x22, 0x20, 0x2c]))
    = ({ cfg := ⟨0x2c, 0x22⟩, ps := { error := true, errorPos := 3 }, tbl := some [some [0x61], some [0x22, 0x78], some []] }, .bool false) := by
  decide +kernel

theorem fields_map_some (r : Row) : fields (r.map some) = r := by
  induction r with
  | nil => rfl
  | cons x xs ih => simp only [fields, List.map_cons, List.map_map] at ih ⊢; rw [ih]; rfl

/-- `deserialize_next` as a client of the PLUGIN sees it: the table variable holds `out`; answer = the flag and the
    fields of the table afterwards, or `none` when the call raised an error / set the error flag -/
def pluginNext (cfg : Cfg) (out : Row) (line : List UInt8) : BlocV.Spec.Csv.Call :=
  match Mod.CsvPlugin.step { cfg := cfg, tbl := some (out.map some) } (.deserializeNext (some line)) with
  | (w', .bool b) => if w'.ps.error then none else some (b, fields (w'.tbl.getD []))
  | _ => none

/-- the plugin's `deserialize_next` is, for a client, the parser's — on every table and every line -/
theorem pluginNext_eq (cfg : Cfg) (out : Row) (line : List UInt8) : pluginNext cfg out line = callNext cfg out line := by
  unfold pluginNext callNext
  rcases List.eq_nil_or_concat out with rfl | ⟨pre, last, rfl⟩
  · -- empty table: the same call
    cases h : deserializeNext cfg {} [] line with
    | done n o p =>
      cases hp : p.error <;> simp [Mod.CsvPlugin.step, h, Outcome.toCall, hp, fields_map_some]
    | hazardEmptyBack => exact absurd h (csv_args_total cfg {} true [] line).2.2
  · simp only [List.concat_eq_append]
    cases line with
    | nil =>
      have hl : (List.map some (pre ++ [last])).getLast? = some (some last) := by simp
      simp [Mod.CsvPlugin.step, hl, deserializeNext, deserializeChunk, Outcome.toCall, List.dropLast_concat]
      have := fields_map_some (pre ++ [last])
      simpa [fieldOf] using this
    | cons x xs =>
      obtain ⟨next, o, ps', h1, h2, h3⟩ := csv_plugin_next_core { cfg := cfg, tbl := some ((pre ++ [last]).map some) } (pre.map some)
        (some last) (x :: xs) (by simp) (by simp)
      have hf : fields (pre.map some ++ [some last]) = pre ++ [last] := by
        have := fields_map_some (pre ++ [last]); simpa using this
      simp only [hf, fields_map_some, fieldOf] at h1 h2 h3
      rw [h2, h3]
      simp only [Outcome.toCall]
      by_cases he : ps'.error = true
      · simp [he]
      · by_cases ho : o = []
        · -- a complete or continued record always has at least one field: `o = []` only after an error
          exfalso
          have : deserializeNext cfg {} [last] (x :: xs) = .done next o ps' := h1
          simp only [deserializeNext, deserializeChunk] at this
          simp only [List.getLast?_singleton, List.dropLast_singleton] at this
          rw [if_pos (by simp)] at this
          simp only [finish] at this
          split at this
          · injection this with _ _ h; rw [← h] at he; simp at he
          · injection this with _ h _; rw [ho] at h; simp at h
        · simp [he, ho]
          have := fields_map_some (pre ++ o)
          simpa using this

/-- **csv_plugin_linewise.** The line-wise client THROUGH THE PLUGIN (first line: `deserialize(line, T)`, every further
line: `deserialize_next(line, T)` on the table variable) rebuilds every row: for `sep ≠ enc`, neither of them LF, every
row other than the single empty field, the loop over `splitAfterLF (serialize row)` consumes ALL lines and ends with
"record complete" and exactly the original fields in `T`. -/
theorem csv_plugin_linewise (cfg : Cfg) (hne : cfg.sep ≠ cfg.enc) (hsep : cfg.sep ≠ LF) (henc : cfg.enc ≠ LF)
    (row : Row) (hrow : row ≠ [[]]) :
    RoundTripLines (serialize cfg) (callFirst cfg) (pluginNext cfg) row := by
  have : pluginNext cfg = callNext cfg := by funext out line; exact pluginNext_eq cfg out line
  rw [this]; exact csv_linewise cfg hne hsep henc row hrow

example : (⟨0x3b, 0x27⟩ : Cfg).sep ≠ (⟨0x3b, 0x27⟩ : Cfg).enc ∧ (⟨0x3b, 0x27⟩ : Cfg).sep ≠ LF ∧ (⟨0x3b, 0x27⟩ : Cfg).enc ≠ LF
    ∧ ([[0x61, 0x0a, 0x62], [0x27]] : Row) ≠ [[]]
    ∧ pluginNext ⟨0x3b, 0x27⟩ [[0x61]] [0x62, 0x27, 0x3b, 0x63] = some (false, [[0x61, 0x62], [0x63]]) := by decide +kernel

/-- **csv_plugin_ctor.** The constructors: which arguments are refused, and which separator / encapsulator BYTES the
others select — `csv(string)`: first and second byte of the string (default encapsulator `"`), further bytes ignored, so a
multi-byte character is split; `csv(int, int)`: the low 8 bits of each integer. -/
theorem csv_plugin_ctor (c : Ctor) :
    (ctorCfg c = none ↔ c = .fmt none ∨ c = .fmt (some []) ∨ ∃ s e, c = .codes s e ∧ (s = none ∨ e = none))
    ∧ (∀ s, ctorCfg (.fmt (some [s])) = some ⟨s, 0x22⟩)
    ∧ (∀ s e rest, ctorCfg (.fmt (some (s :: e :: rest))) = some ⟨s, e⟩)
    ∧ (∀ s e, ctorCfg (.codes (some s) (some e)) = some ⟨toChar s, toChar e⟩) := by
  refine ⟨?_, fun _ => rfl, fun _ _ _ => rfl, fun _ _ => rfl⟩
  cases c with
  | default => simp [ctorCfg]
  | fmt s =>
    cases s with
    | none => simp [ctorCfg]
    | some l =>
      match l with
      | [] => simp [ctorCfg]
      | [x] => simp [ctorCfg]
      | x :: y :: r => simp [ctorCfg]
  | codes s e =>
    cases s with
    | none => cases e <;> simp [ctorCfg] <;> exact ⟨none, _, ⟨rfl, rfl⟩, Or.inl rfl⟩
    | some a =>
      cases e with
      | none => simp [ctorCfg]; exact ⟨_, none, ⟨rfl, rfl⟩, Or.inr rfl⟩
      | some b => simp [ctorCfg]

/-- `csv("é;")` = (C3, A9); `csv(300, -1)` = (2C, FF); `csv(44, 300)` = (2C, 2C): separator = encapsulator, outside the
round-trip theorem; `csv("")`, `csv(null)`, `csv(44, null)` are refused -/
example : ctorCfg (.fmt (some [0xC3, 0xA9, 0x3B])) = some ⟨0xC3, 0xA9⟩ ∧ ctorCfg (.codes (some 300) (some (-1))) = some ⟨0x2C, 0xFF⟩
    ∧ ctorCfg (.codes (some 44) (some 300)) = some ⟨0x2C, 0x2C⟩ ∧ ctorCfg (.fmt (some [])) = none ∧ ctorCfg (.fmt none) = none
    ∧ ctorCfg (.codes (some 44) none) = none := by decide +kernel

/-- **csv_plugin_roundtrip.** Through the plugin, for ANY separator / encapsulator bytes with `sep ≠ enc` (CR, LF, NUL,
space, bytes ≥ 0x80 allowed — this is the exact side condition, see `csv_roundtrip` and the `decide` witnesses there) and
any table `T` of strings (null elements count as empty fields) other than the single empty field: `serialize(T)` answers a
string, and `deserialize` of that string answers FALSE (record complete), clears the error flag and REPLACES the table
variable by the original fields — every byte of every field, whatever the parser's and the variable's previous state. -/
theorem csv_plugin_roundtrip (w : World) (t : BTable) (hne : w.cfg.sep ≠ w.cfg.enc) (ht : w.tbl = some t)
    (hrow : fields t ≠ [[]]) (anyTbl : Option BTable) :
    (Mod.CsvPlugin.step w .serialize).2 = .str (some (serialize w.cfg (fields t)))
    ∧ Mod.CsvPlugin.step { w with tbl := anyTbl } (.deserialize (some (serialize w.cfg (fields t))))
        = ({ w with ps := { w.ps with error := false }, tbl := some ((fields t).map some) }, .bool false) := by
  refine ⟨by simp [Mod.CsvPlugin.step, ht], ?_⟩
  simp [Mod.CsvPlugin.step, csv_roundtrip w.cfg hne (fields t) hrow w.ps]

example : (⟨0x00, 0x0a⟩ : Cfg).sep ≠ (⟨0x00, 0x0a⟩ : Cfg).enc
    ∧ fields [some [0x61, 0x00], none, some [0x0a]] = [[0x61, 0x00], [], [0x0a]] ∧ fields [some [0x61, 0x00], none, some [0x0a]] ≠ [[]] := by
  decide

end csvplugin

/-! ## utf8

In this module a "code point" is the character's UTF-8 byte sequence packed big-endian into a 32-bit
number (`Spec.Utf8.pack`), not its Unicode scalar value; `at` returns it and `insert` expects it.
The theorems say: on valid UTF-8 without U+0000 the module holds exactly the sequence an independent
RFC 3629 decoder produces (in that representation), and count / at / substr / remove / insert /
string() are the list operations on that sequence. -/

section utf8
open BlocV.Mod.Utf8
open BlocV.Spec.Utf8 (isScalar encode encodeAll pack lSubstr lRemove lInsert)

/-- Unicode scalar values other than U+0000. -/
def ValidCps (cps : List Nat) : Prop := ∀ c ∈ cps, isScalar c = true ∧ c ≠ 0

/-- **decode_valid_agrees** (partial: U+0000 excluded, see the example below). Constructing the module's
string from the RFC 3629 encoding of any sequence of non-zero Unicode scalar values yields exactly
that sequence (each character in the packed representation), `rawsize` = number of bytes, and the
parser back at rest. -/
theorem decode_valid_agrees_partial (cps : List Nat) (h : ValidCps cps) :
    ofBytes (encodeAll cps) = { parser := .p0, store := cps.map pack, rawSize := (encodeAll cps).length } := by
  have := writeBytes_encodeAll cps h {} rfl
  simpa [ofBytes] using this

example : ValidCps [0x41, 0xE9, 0x20AC, 0x1F600, 0x10FFFF, 0xD7FF, 0xE000] ∧
    (ofBytes (encodeAll [0x41, 0xE9, 0x20AC, 0x1F600])).store = [0x41, 0xC3A9, 0xE282AC, 0xF09F9880] := by
  refine ⟨?_, by decide +kernel⟩
  intro c hc
  simp at hc
  rcases hc with rfl | rfl | rfl | rfl | rfl | rfl | rfl <;> decide

/-- The full statement is false: U+0000 (valid UTF-8, accepted by the independent decoder) is dropped. -/
example : BlocV.Spec.Utf8.decode [0x61, 0x00, 0x62] = some [0x61, 0, 0x62] ∧
    (ofBytes [0x61, 0x00, 0x62]).store = [0x61, 0x62] := by decide +kernel

/-- **decode_illformed.** For EVERY byte string — well-formed or not — the module's decoder holds exactly what the
independent look-ahead decoder `Spec.Utf8.lenient` ("take a well-formed RFC 3629 sequence, otherwise drop ONE byte")
produces, with U+0000 removed (recorded finding `C18.utf8_nul_dropped`), each scalar value in the module's packed
representation. So on ill-formed input the module: emits no replacement character and raises no error; drops an
invalid lead byte (80..C1, F5..FF); drops a lead together with the continuation bytes already accepted when the next
byte is outside the RFC 3629 §4 range for its position, and re-reads that byte as the start of a new sequence (the
dropped continuation bytes cannot start one); drops a truncated sequence at the end of the text. -/
theorem decode_illformed (bs : List UInt8) :
    (ofBytes bs).store = ((BlocV.Spec.Utf8.lenient bs).filter (· ≠ 0)).map pack := by
  have h := (foldl_writeByte bs {}).1
  simp only [ofBytes]
  rw [h, emit_bytes]
  simp [lenientPacked, BlocV.Spec.Utf8.lenient]

/-- **decode_valid_agrees** (the full statement, as far as it is true): for EVERY list of Unicode scalar values — U+0000
included — the module built from its RFC 3629 encoding holds exactly the list WITHOUT its U+0000 elements (recorded finding
`C18.utf8_nul_dropped`), each in the packed representation. (`decode_valid_agrees_partial` is the case without U+0000, with
`rawSize` and parser state.) Uses `lenient_encodeAll`: the independent decoder inverts the independent encoder on all
scalar values. -/
theorem decode_valid_agrees (cps : List Nat) (h : ∀ c ∈ cps, isScalar c = true) :
    (ofBytes (encodeAll cps)).store = (cps.filter (· ≠ 0)).map pack := by
  rw [decode_illformed]
  simp only [BlocV.Spec.Utf8.lenient]
  rw [lenient_encodeAll cps h]

example : (∀ c ∈ [0x41, 0, 0x10FFFF, 0xD7FF, 0], isScalar c = true)
    ∧ (ofBytes (encodeAll [0x41, 0, 0x10FFFF, 0xD7FF, 0])).store = [0x41, 0xF48FBFBF, 0xED9FBF] := by
  refine ⟨?_, by decide +kernel⟩
  intro c hc
  simp at hc
  rcases hc with rfl | rfl | rfl | rfl | rfl <;> decide

/-- … and the parser is left in the state the byte-at-a-time machine reaches (mid-sequence after a truncated tail:
a later `append(string)` can complete the character). -/
theorem decode_illformed_state (bs : List UInt8) :
    (ofBytes bs).parser = endState .p0 (bs.map (·.toNat)) := by
  have h := (foldl_writeByte bs {}).2
  simpa [ofBytes] using h

/-- non-trivial ill-formed inputs: over-long C0 80, surrogate ED A0 80, F4 90 80 80 (> U+10FFFF), truncated E2 82,
E2 82 41 (the offending byte is re-read), a stray continuation byte between two characters, F8 -/
example : (ofBytes [0xC0, 0x80]).store = [] ∧ (ofBytes [0xED, 0xA0, 0x80]).store = []
    ∧ (ofBytes [0xF4, 0x90, 0x80, 0x80]).store = [] ∧ (ofBytes [0xE2, 0x82]).store = []
    ∧ (ofBytes [0xE2, 0x82, 0x41]).store = [0x41] ∧ (ofBytes [0x41, 0x80, 0xC3, 0xA9, 0xF8, 0x42]).store = [0x41, 0xC3A9, 0x42]
    ∧ BlocV.Spec.Utf8.lenient [0x41, 0x80, 0xC3, 0xA9, 0xF8, 0x42] = [0x41, 0xE9, 0x42]
    ∧ (ofBytes [0xE2, 0x82]).parser = .p2u3 0xE2 0x82 := by decide +kernel

/-- A test of the Spec (not a theorem about all inputs): the independent decoder inverts the encoder at
the boundary values and rejects over-long forms, surrogates, values above U+10FFFF and truncation. -/
example : ([0x7F, 0x80, 0x7FF, 0x800, 0xD7FF, 0xE000, 0xFFFF, 0x10000, 0x10FFFF].all
      fun c => BlocV.Spec.Utf8.decode (encode c) == some [c]) = true ∧
    BlocV.Spec.Utf8.decode [0xC0, 0x80] = none ∧ BlocV.Spec.Utf8.decode [0xE0, 0x80, 0x80] = none ∧
    BlocV.Spec.Utf8.decode [0xED, 0xA0, 0x80] = none ∧ BlocV.Spec.Utf8.decode [0xF4, 0x90, 0x80, 0x80] = none ∧
    BlocV.Spec.Utf8.decode [0xE2, 0x82] = none ∧ BlocV.Spec.Utf8.decode [0x80] = none := by decide +kernel

/-- **utf8_count_agrees** -/
theorem utf8_count_agrees (cps : List Nat) (h : ValidCps cps) :
    pluginCount (ofBytes (encodeAll cps)) = cps.length := by
  rw [decode_valid_agrees_partial cps h]; simp [pluginCount, size]

/-- **utf8_at_agrees**: inside the string `at` is the list's element (packed); at or beyond the end, and for every
negative argument, it is the BLOC error INDEX_RANGE; null is the BLOC error "Invalid arguments". -/
theorem utf8_at_agrees (cps : List Nat) (h : ValidCps cps) (a0 : Option Int64) :
    pluginAt (ofBytes (encodeAll cps)) a0 =
      match a0 with
      | none => .invalidArgs
      | some i => if 0 ≤ i.toInt then
          match cps[i.toInt.toNat]? with
          | some c => .ok (pack c)
          | none => .indexRange
        else .indexRange := by
  rw [decode_valid_agrees_partial cps h]
  cases a0 with
  | none => rfl
  | some i =>
    simp only [pluginAt, size, List.length_map]
    by_cases hneg : i.toInt < 0
    · simp [hneg, show ¬ 0 ≤ i.toInt by omega]
    · have hpos : 0 ≤ i.toInt := by omega
      have hsz : toSizeT i = i.toInt.toNat := toSizeT_of_nonneg i hpos
      simp only [hneg, false_or, hpos, if_true, hsz]
      generalize i.toInt.toNat = N
      by_cases hlt : cps.length ≤ N
      · simp [hlt, List.getElem?_eq_none hlt]
      · have hlt' : N < cps.length := by omega
        simp [hlt, List.getElem?_map, List.getElem?_eq_getElem hlt']

/-- **utf8_substr_agrees**: for every position and count (no side condition) `substr` is the encoding of
`drop pos |> take n`; in particular the empty string from the end on. -/
theorem utf8_substr_agrees (cps : List Nat) (h : ValidCps cps) (pos n : Nat) :
    substr (ofBytes (encodeAll cps)) pos n = encodeAll (lSubstr cps pos n) := by
  rw [decode_valid_agrees_partial cps h]
  have hsc : ∀ c ∈ lSubstr cps pos n, isScalar c = true := fun c hc =>
    (h c (List.mem_of_mem_drop (List.mem_of_mem_take hc))).1
  unfold substr
  simp only [List.length_map]
  split
  · rename_i hlt
    rw [← flatMap_uString_pack _ hsc]
    simp only [lSubstr, List.map_take, List.map_drop]
    split
    · rename_i hgt
      rw [List.take_of_length_le (by simp <;> omega)]
      try rw [List.take_of_length_le (by simp <;> omega)]
    · rfl
  · rename_i hge
    simp [lSubstr, List.drop_of_length_le (Nat.le_of_not_lt hge), encodeAll]

/-- **utf8_string_agrees**: `string()` gives back the original bytes, and never overruns its buffer. -/
theorem utf8_string_agrees (cps : List Nat) (h : ValidCps cps) :
    pluginString (ofBytes (encodeAll cps)) = some (encodeAll cps) := by
  rw [decode_valid_agrees_partial cps h]
  simp [pluginString, toStdString, flatMap_uString_pack cps (fun c hc => (h c hc).1)]

/-- **utf8_remove_agrees**: inside the string, `remove` answers true and leaves the list with the range
cut out (the count is clamped); from the end on it answers false and changes nothing. -/
theorem utf8_remove_agrees (cps : List Nat) (h : ValidCps cps) (pos n : Nat) :
    let r := remove (ofBytes (encodeAll cps)) pos n
    (pos < cps.length → r.1 = true ∧ r.2.store = (lRemove cps pos n).map pack) ∧
    (¬ pos < cps.length → r = (false, ofBytes (encodeAll cps))) := by
  rw [decode_valid_agrees_partial cps h]
  simp only [remove, List.length_map]
  refine ⟨fun hlt => ?_, fun hge => by simp [hge]⟩
  simp only [hlt, if_true, true_and, lRemove, List.map_append, List.map_take, List.map_drop]
  split
  · rename_i hgt
    rw [List.drop_of_length_le (by simp <;> omega)]
    try rw [List.drop_of_length_le (by simp <;> omega)]
  · rfl

/-- **utf8_insert_agrees**: inserting the packed form of a non-zero scalar value at a position up to the
end answers true and gives the list with the element inserted; beyond the end it answers false and
changes nothing (whatever the value). -/
theorem utf8_insert_agrees (cps : List Nat) (h : ValidCps cps) (pos c : Nat) (hc : isScalar c = true) (hc0 : c ≠ 0) :
    let s := ofBytes (encodeAll cps)
    (pos ≤ cps.length → insertCp s pos (pack c) =
      (true, { s with store := (lInsert cps pos c).map pack, rawSize := s.rawSize + (encode c).length })) ∧
    (¬ pos ≤ cps.length → ∀ u, insertCp s pos u = (false, s)) := by
  rw [decode_valid_agrees_partial cps h]
  simp only [insertCp, List.length_map]
  refine ⟨fun hle => ?_, fun hgt u => by simp [hgt]⟩
  rw [(uString_pack c hc).1, parseFirst_encode c hc hc0]
  simp [hle, lInsert, (uString_pack c hc).2]

/-- **utf8_args_total**: with any argument — null, negative, huge — count, at, substr, remove, insert and string()
return a value or a BLOC error ("Invalid arguments", INDEX_RANGE): no method can reach an out-of-bounds access.
Holds for every string state. `at` answers INDEX_RANGE exactly when the position is negative or not inside the string. -/
theorem utf8_args_total (s : UStr) (a0 a1 : Option Int64) (o : Option UStr) :
    pluginAt s a0 ≠ .hazardOob ∧
    pluginSubstr1 s a0 ≠ .hazardOob ∧ pluginSubstr2 s a0 a1 ≠ .hazardOob ∧ pluginRemove s a0 a1 ≠ .hazardOob ∧
    pluginInsert s a0 a1 ≠ .hazardOob ∧ pluginInsertC s a0 o ≠ .hazardOob ∧
    (pluginAt s a0 = .indexRange ↔ ∃ i, a0 = some i ∧ (i.toInt < 0 ∨ size s ≤ toSizeT i)) := by
  refine ⟨?_, ?_, ?_, ?_, ?_, ?_, ?_⟩
  · cases a0 with
    | none => simp [pluginAt]
    | some i =>
      simp only [pluginAt]
      split
      · simp
      · rename_i hc
        cases hq : s.store[toSizeT i]? with
        | none =>
          have := List.getElem?_eq_none_iff.mp hq
          exact absurd (Or.inr this) hc
        | some u => simp
  · cases a0 <;> simp [pluginSubstr1]
  · cases a0 <;> cases a1 <;> simp [pluginSubstr2]
  · cases a0 <;> cases a1 <;> simp [pluginRemove]
  · cases a0 <;> cases a1 <;> simp [pluginInsert]
  · cases a0 <;> cases o <;> simp [pluginInsertC]
  · cases a0 with
    | none => simp [pluginAt]
    | some i =>
      simp only [pluginAt, Option.some.injEq, exists_eq_left']
      split
      · rename_i hc; simp [hc]
      · rename_i hc
        cases hq : s.store[toSizeT i]? <;> simp [hc]

/-- The former out-of-bounds `at` is a BLOC error: `utf8("abc").at(-1)`, `.at(3)`, `.at(INT64_MIN)`; inside it still answers. -/
example : pluginAt (ofBytes [0x61, 0x62, 0x63]) (some (-1)) = .indexRange ∧
    pluginAt (ofBytes [0x61, 0x62, 0x63]) (some 3) = .indexRange ∧
    pluginAt (ofBytes [0x61, 0x62, 0x63]) (some (-9223372036854775808)) = .indexRange ∧
    pluginAt (ofBytes [0x61, 0x62, 0x63]) none = .invalidArgs ∧
    pluginAt (ofBytes [0x61, 0x62, 0x63]) (some 2) = .ok 0x63 := by decide +kernel

/-- **utf8_methods_total.** The WHOLE method table of plugin_utf8.cpp (empty, count, rawsize, reserve, clear,
append(integer), append(string), concat(utf8), string, at, remove, insert(pos, integer), insert(pos, utf8), substr(pos),
substr(pos, n) — everything but the five table-driven transformations), on every object state that satisfies the
representation invariant `Inv` (`rawSize` = the bytes `ToStdString` writes; it holds for every constructed object:
`ofBytes_inv`, `inv_empty`) and with EVERY argument (null, negative, INT64 extremes, the receiver itself or another
object as utf8 argument), for EVERY allocator limit `mem`: the call answers a value or a BLOC error — NEVER a C++-level
failure (unconditional since /repo 2b1dab4: `reserve` turns a negative count, `std::length_error` and `std::bad_alloc`
into EXC_RT_OUT_OF_RANGE) — and keeps the invariant (so `string()` never overruns its buffer and `rawSize -= bc` never
wraps). `hb` says the text fits a `size_t` (an address-space fact). -/
theorem utf8_methods_total (mem : Nat) (u v : UStr) (op : POp) (hu : Inv u) (hb : u.rawSize < 2 ^ 64) :
    (pstep mem u v op).2.isHazard = false ∧ Inv (pstep mem u v op).1 := by
  cases op with
  | empty => simp [pstep, PVal.isHazard, hu]
  | count => simp [pstep, PVal.isHazard, hu]
  | rawsize => simp [pstep, PVal.isHazard, hu]
  | reserve n =>
    cases n with
    | none => simp [pstep, pluginReserve, PVal.isHazard, hu]
    | some i =>
      simp only [pstep, pluginReserve]
      refine ⟨?_, hu⟩
      split
      · rfl
      · split
        · rfl
        · split <;> rfl
  | clear => simp [pstep, PVal.isHazard, clear_inv]
  | append c => cases c <;> simp [pstep, PVal.isHazard, hu, appendCp_inv]
  | appendL t => cases t <;> simp [pstep, PVal.isHazard, hu, appendBytes_inv]
  | concat o =>
    cases o with
    | none => simp [pstep, PVal.isHazard, hu]
    | some w => cases w <;> simp [pstep, PVal.isHazard, appendData_inv _ _ hu]
  | string => simp [pstep, pluginString, toStdString_of_inv u hu, PVal.isHazard, hu]
  | «at» i =>
    refine ⟨?_, hu⟩
    simp only [pstep]
    have := (utf8_args_total u i none none).1
    cases h : pluginAt u i <;> simp_all [ofPRes, PVal.isHazard]
  | remove a0 a1 =>
    cases a0 <;> cases a1 <;> simp [pstep, pluginRemove, ofPRes, PVal.isHazard, hu, remove_inv _ _ _ hu hb]
  | insert a0 a1 =>
    cases a0 <;> cases a1 <;> simp [pstep, pluginInsert, ofPRes, PVal.isHazard, hu, insertCp_inv _ _ _ hu]
  | insertC a0 o =>
    cases a0 <;> cases o <;> simp [pstep, pluginInsertC, ofPRes, PVal.isHazard, hu, insertData_inv _ _ _ hu]
  | substr1 a0 => cases a0 <;> simp [pstep, pluginSubstr1, ofPRes, PVal.isHazard, hu]
  | substr2 a0 a1 => cases a0 <;> cases a1 <;> simp [pstep, pluginSubstr2, ofPRes, PVal.isHazard, hu]

/-- **utf8_reserve_exact.** `reserve(n)` in closed form, for every object, every argument and every allocator limit: the
object is left as it was; null → "Invalid arguments."; TRUE exactly when `0 ≤ n ≤ vector::max_size()` (2^61 - 1 elements)
and the allocator serves `n` elements; in every other case — negative, above `max_size()`, above memory — the ONE error
class EXC_RT_OUT_OF_RANGE. -/
theorem utf8_reserve_exact (mem : Nat) (u v : UStr) (n : Option Int64) :
    (pstep mem u v (.reserve n)).1 = u
    ∧ (pstep mem u v (.reserve n)).2 =
        match n with
        | none => .invalidArgs
        | some i => if 0 ≤ i.toInt ∧ i.toInt.toNat ≤ MAX_SIZE ∧ i.toInt.toNat ≤ mem then .bool true else .outOfRange := by
  refine ⟨rfl, ?_⟩
  cases n with
  | none => rfl
  | some i =>
    simp only [pstep, pluginReserve]
    by_cases h0 : i.toInt < 0
    · rw [if_pos h0, if_neg (by omega)]
    · rw [if_neg h0, toSizeT_of_nonneg i (by omega)]
      by_cases h1 : MAX_SIZE < i.toInt.toNat
      · rw [if_pos h1, if_neg (by omega)]
      · rw [if_neg h1]
        by_cases h2 : mem < i.toInt.toNat
        · rw [if_pos h2, if_neg (by omega)]
        · rw [if_neg h2, if_pos ⟨by omega, by omega, by omega⟩]

/-- **utf8_reserve_unchecked_witness** — regression witnesses of the repaired finding `C18.utf8_reserve_unchecked`
(/repo 2b1dab4), with an allocator serving 2^32 elements: the boundary requests -1, -2, INT64_MIN (negative), 2^61, 2^62,
INT64_MAX (above `max_size()`, formerly `std::length_error`), 2^40, 2^50 (above memory, formerly `std::bad_alloc`) all answer
EXC_RT_OUT_OF_RANGE and leave the object alone; 2^61 - 1 = `max_size()` itself is refused only for want of memory (it is
TRUE with an allocator that serves it); 0, 10 and 10^6 answer TRUE; null answers "Invalid arguments." -/
theorem utf8_reserve_unchecked_witness :
    (([-1, -2, -9223372036854775808, 2305843009213693952, 4611686018427387904, 9223372036854775807, 1099511627776,
        1125899906842624, 2305843009213693951] : List Int64).all
      fun n => pstep (2 ^ 32) (ofBytes [0x61, 0x62]) {} (.reserve (some n)) == (ofBytes [0x61, 0x62], .outOfRange)) = true
    ∧ (([0, 10, 1000000] : List Int64).all
      fun n => pstep (2 ^ 32) (ofBytes [0x61, 0x62]) {} (.reserve (some n)) == (ofBytes [0x61, 0x62], .bool true)) = true
    ∧ (pstep (2 ^ 61) (ofBytes [0x61, 0x62]) {} (.reserve (some 2305843009213693951))).2 = .bool true
    ∧ (pstep (2 ^ 62) (ofBytes [0x61, 0x62]) {} (.reserve (some 2305843009213693952))).2 = .outOfRange
    ∧ (pstep (2 ^ 32) (ofBytes [0x61, 0x62]) {} (.reserve none)).2 = .invalidArgs := by decide +kernel

/-- "the text fits the address space" along a history: `rawSize < 2^64` in every state the history passes through -/
def Fits (mem : Nat) (v : UStr) : UStr → List POp → Prop
  | u, [] => u.rawSize < 2 ^ 64
  | u, op :: ops => u.rawSize < 2 ^ 64 ∧ Fits mem v (pstep mem u v op).1 ops

instance Fits.dec (mem : Nat) (v : UStr) : (u : UStr) → (ops : List POp) → Decidable (Fits mem v u ops)
  | u, [] => inferInstanceAs (Decidable (u.rawSize < 2 ^ 64))
  | u, op :: ops => @instDecidableAnd _ _ _ (Fits.dec mem v (pstep mem u v op).1 ops)

/-- **utf8_history_total.** Whole histories: starting from any object that satisfies the invariant (every constructed
object does), ANY list of method calls with ANY arguments, for ANY allocator limit: every call of the history is answered
(one answer per call: the run is never cut short), no answer is a C++-level failure — no out-of-bounds access, no buffer
overrun, no foreign exception in any reachable state — and the invariant holds at the end (hence, by induction, in every
state on the way). -/
theorem utf8_history_total (mem : Nat) (v : UStr) : ∀ (ops : List POp) (u : UStr), Inv u → Fits mem v u ops →
    (∀ r ∈ (prun mem v u ops).2, r.isHazard = false)
    ∧ (prun mem v u ops).2.length = ops.length
    ∧ Inv (prun mem v u ops).1 := by
  intro ops
  induction ops with
  | nil => intro u hu _; exact ⟨by simp [prun], by simp [prun], by simpa [prun] using hu⟩
  | cons op ops ih =>
    intro u hu hf
    obtain ⟨hb, hf'⟩ := hf
    have hm := utf8_methods_total mem u v op hu hb
    simp only [prun]
    rw [if_neg (by simp [hm.1])]
    have := ih (pstep mem u v op).1 hm.2 hf'
    refine ⟨?_, by simp [this.2.1], this.2.2⟩
    intro r hr
    simp only [List.mem_cons] at hr
    rcases hr with rfl | hr
    · exact hm.1
    · exact this.1 r hr

example : Inv (ofBytes [0x61, 0xC3, 0xA9]) ∧ Fits (2 ^ 32) {} (ofBytes [0x61, 0xC3, 0xA9])
      [.insertC (some 0) (some .self), .remove (some 1) (some (-1)), .reserve (some (-1)), .string]
    ∧ (prun (2 ^ 32) {} (ofBytes [0x61, 0xC3, 0xA9])
        [.insertC (some 0) (some .self), .remove (some 1) (some (-1)), .reserve (some (-1)), .string]).2
      = [.int 2, .bool true, .outOfRange, .str [0x61]] := by
  refine ⟨ofBytes_inv _, by decide +kernel, by decide +kernel⟩

/-- the hypotheses hold for every constructed object (any bytes); null / negative / huge arguments are answered;
`U.insert(0, U)` doubles the text. -/
example : Inv (ofBytes [0x61, 0xC3, 0xA9, 0xFF]) ∧ (ofBytes [0x61, 0xC3, 0xA9, 0xFF]).rawSize < 2 ^ 64
    ∧ (pstep (2 ^ 32) (ofBytes [0x61]) {} (.reserve (some 1000000))).2 = .bool true
    ∧ (pstep (2 ^ 32) (ofBytes [0x61]) {} (.reserve none)).2 = .invalidArgs
    ∧ (pstep (2 ^ 32) (ofBytes [0x61]) {} (.remove (some (-1)) (some (-9223372036854775808)))).2 = .bool false
    ∧ (pstep (2 ^ 32) (ofBytes [0x61, 0xC3, 0xA9]) {} (.insertC (some 0) (some .self)))
        = ({ parser := .p0, store := [0x61, 0xC3A9, 0x61, 0xC3A9], rawSize := 6 }, .int 2) := by
  refine ⟨ofBytes_inv _, by decide +kernel, by decide +kernel, by decide +kernel, by decide +kernel, by decide +kernel⟩

/-! ### the case transformations (`toupper`, `tolower`) and the transformation that stays installed -/

/-- **utf8_case_agrees.** `toupper()` / `tolower()` on valid text, for EVERY character table `cm`: the object built from
the RFC 3629 encoding of any non-zero scalar values holds, after `Transform(f)`, exactly the table images of its characters
in order (`applyF`: the entry's `upper` / `lower` field where a page exists, the character itself where none does), minus
those the table maps to "no character" (0); the parser is at rest, `rawsize` is the number of bytes of the new text, and
the transformation installed in the object's parser is the one that was there before the call (`g`), not `f`. So `count()` never grows, and it is unchanged
when the table maps none of the characters to 0. -/
theorem utf8_case_agrees (cm : CharMap) (f : Func) (cps : List Nat) (h : ValidCps cps) (g : Func) :
    transformT cm f { u := ofBytes (encodeAll cps), func := g }
      = { u := { parser := .p0, store := outF cm f (cps.map pack), rawSize := bytesOf (outF cm f (cps.map pack)) }, func := g }
    ∧ (transformT cm f { u := ofBytes (encodeAll cps), func := g }).u.store.length ≤ cps.length
    ∧ ((∀ c ∈ cps, applyF cm f (pack c) ≠ 0) →
        (transformT cm f { u := ofBytes (encodeAll cps), func := g }).u.store = cps.map fun c => applyF cm f (pack c)) := by
  have hs : (ofBytes (encodeAll cps)).store = cps.map pack := by rw [decode_valid_agrees_partial cps h]
  have key : transformT cm f { u := ofBytes (encodeAll cps), func := g }
      = { u := { parser := .p0, store := outF cm f (cps.map pack), rawSize := bytesOf (outF cm f (cps.map pack)) }, func := g } := by
    have e := transformT_eq cm f { u := ofBytes (encodeAll cps), func := g }
    have eu : (transformT cm f { u := ofBytes (encodeAll cps), func := g }).u
        = { parser := .p0, store := outF cm f (cps.map pack), rawSize := bytesOf (outF cm f (cps.map pack)) } := by
      rw [e.1]
      simp only [hs]
      rw [reread_bytes cps h, foldl_writeByteF]
      obtain ⟨h1, h2⟩ := emit_encodeAll cps h
      simp only [h1, h2]
      simp
    cases ht : transformT cm f { u := ofBytes (encodeAll cps), func := g } with
    | mk u fn =>
      rw [ht] at eu e
      simp only at eu e
      rw [eu, e.2]
  refine ⟨key, ?_, ?_⟩
  · rw [key]
    have := outF_length_le cm f (cps.map pack)
    simpa using this
  · intro hz
    rw [key]
    simp only [outF, List.map_map]
    rw [List.filter_eq_self.mpr]
    · rfl
    · intro x hx
      simp only [List.mem_map, Function.comp] at hx
      obtain ⟨c, hc, rfl⟩ := hx
      simpa using hz c hc

/-- a table with the entries of `a`, `é` (C3 A9 ↦ upper C3 89) and an entry that maps `x` to "no character" -/
def cmEx : CharMap := fun u =>
  if u = 0x61 then some (0x41, 0x61) else if u = 0x41 then some (0x41, 0x61) else if u = 0xC3A9 then some (0xC389, 0xC3A9)
  else if u = 0x78 then some (0, 0x78) else if u < 0x80 then some (u, u) else none

example : ValidCps [0x61, 0xE9, 0x78, 0x20AC]
    ∧ (transformT cmEx .upper { u := ofBytes (encodeAll [0x61, 0xE9, 0x78, 0x20AC]) }).u
        = { parser := .p0, store := [0x41, 0xC389, 0xE282AC], rawSize := 6 } := by
  refine ⟨?_, by decide +kernel⟩
  intro c hc
  simp at hc
  rcases hc with rfl | rfl | rfl | rfl <;> decide

/-- **utf8_case_total.** For EVERY table, every object state and every call of `toupper` / `tolower` / `append(string)` /
`append(integer)` / `clear` with any argument: the representation invariant is kept — `rawsize` is the number of bytes
`string()` writes, so `string()` never overruns its buffer after a transformation either (ill-formed stored values, NUL
bytes inside `_u_string`, table images of any size included). -/
theorem utf8_case_total (cm : CharMap) (t : TStr) (op : TOp) (hi : Inv t.u) : Inv (tstep cm t op).u := by
  cases op with
  | toupper => exact transformT_inv cm .upper t
  | tolower => exact transformT_inv cm .lower t
  | appendL s =>
    cases s with
    | none => exact hi
    | some s => exact foldl_writeByteF_inv cm t.func s t.u hi
  | append c =>
    cases c with
    | none => exact hi
    | some c => exact appendCp_inv _ _ hi
  | clear => exact inv_empty

example : Inv ({ u := ofBytes [0x61, 0xFF, 0xC3], func := .lower } : TStr).u := ofBytes_inv _

/-- no call of the method table changes the transformation installed in the object's parser (since the repair of
`C18.utf8_transform_sticky`: `Transform(func)` puts it back) -/
theorem tstep_func (cm : CharMap) (t : TStr) (op : TOp) : (tstep cm t op).func = t.func := by
  cases op with
  | toupper => rfl
  | tolower => rfl
  | appendL s => cases s <;> rfl
  | append c => cases c <;> rfl
  | clear => rfl

/-- … hence none of a whole history does -/
theorem trun_func (cm : CharMap) : ∀ (ops : List TOp) (t : TStr), (ops.foldl (tstep cm) t).func = t.func := by
  intro ops
  induction ops with
  | nil => intro t; rfl
  | cons op ops ih => intro t; simp only [List.foldl_cons]; rw [ih, tstep_func]

/-- **utf8_append_after_transform** (positive since the repair of `C18.utf8_transform_sticky`). On an object the plugin
created (`TransformNop` installed), after ANY history of `toupper` / `tolower` / `append` / `clear` calls, for EVERY table and
EVERY byte string (well-formed or not): `append(string)` stores exactly what it stores on a fresh object in the same state —
it is the plain `WriteByte` loop of Model/Mod/Utf8.lean (`appendBytes`), the transformations that ran before leave no
trace in the parser; so, with the parser at rest, the characters appended are the ones the independent look-ahead decoder
finds in the text (`decode_illformed`), untransformed. -/
theorem utf8_append_after_transform (cm : CharMap) (t0 : TStr) (h0 : t0.func = .nop) (ops : List TOp) (text : List UInt8) :
    let t := ops.foldl (tstep cm) t0
    (appendBytesT cm t text).u = appendBytes t.u text
    ∧ (appendBytesT cm t text).func = .nop
    ∧ (t.u.parser = .p0 →
        (appendBytesT cm t text).u.store = t.u.store ++ ((BlocV.Spec.Utf8.lenient text).filter (· ≠ 0)).map pack) := by
  intro t
  have hf : t.func = .nop := by rw [trun_func]; exact h0
  have e : (appendBytesT cm t text).u = appendBytes t.u text := by
    simp only [appendBytesT, appendBytes, hf]
    exact foldl_writeByteF_nop cm text t.u
  refine ⟨e, hf, ?_⟩
  intro hp
  rw [e]
  simp only [appendBytes]
  rw [(foldl_writeByte text t.u).1, hp, emit_bytes]
  simp [lenientPacked, BlocV.Spec.Utf8.lenient]

example : ({ u := ofBytes [0x61, 0x62] } : TStr).func = .nop
    ∧ ([TOp.toupper, .appendL (some [0x63]), .clear, .tolower].foldl (tstep cmEx) { u := ofBytes [0x61, 0x62] }).u.parser = .p0 := by
  decide +kernel

/-- **utf8_transform_sticky_witness** — regression witness of the repaired finding `C18.utf8_transform_sticky` (by
evaluation, with a table that upper-cases `a`): `U = utf8("ab"); U.toupper()` holds `A b`; `U.append("ad")` then holds
`A b a d` — the appended text is stored as given (it was `A b A d`); after `U.clear()`, `U.append("a")` holds `a` (was `A`);
`U.append(0x61)` (integer) stores `a`; the transformation installed is still `TransformNop`. -/
theorem utf8_transform_sticky_witness :
    let t1 := tstep cmEx { u := ofBytes [0x61, 0x62] } .toupper
    let t2 := tstep cmEx t1 (.appendL (some [0x61, 0x64]))
    let t3 := tstep cmEx (tstep cmEx t2 .clear) (.appendL (some [0x61]))
    let t4 := tstep cmEx t3 (.append (some 0x61))
    t1.u.store = [0x41, 0x62] ∧ t2.u.store = [0x41, 0x62, 0x61, 0x64] ∧ t3.u.store = [0x61] ∧ t4.u.store = [0x61, 0x61]
    ∧ t4.func = .nop := by decide +kernel

/-! ### `capitalize()` and `normalize()`: the transformations that read the parser's context -/

/-- **utf8_ctx_agrees.** `capitalize()` / `normalize()` on valid text, for EVERY character table with categories: the object
built from the RFC 3629 encoding of any non-zero scalar values holds, after the call, exactly `outC` of its characters — the
left-to-right pass over the CHARACTERS (not bytes) that starts in the context "after a space" and gives each character its
table image chosen by the category of the last character STORED before it (`doneC`: capitalize = `upper` after a space /
breaker / control character and `lower` elsewhere; normalize = one blank for a run of spaces and breakers, nothing for a
leading one and for control characters, `lower` elsewhere; a character without page is kept and ends the word context) —
the parser is at rest, `rawsize` is the number of bytes of the new text, the installed transformation is untouched, and
`count()` never grows. -/
theorem utf8_ctx_agrees (cm : CharMapC) (f : FuncC) (cps : List Nat) (h : ValidCps cps) (g : Func) :
    transformC cm f { u := ofBytes (encodeAll cps), func := g }
      = { u := { parser := .p0, store := (outC cm f CTX0 (cps.map pack)).1, rawSize := bytesOf (outC cm f CTX0 (cps.map pack)).1 },
          func := g }
    ∧ (transformC cm f { u := ofBytes (encodeAll cps), func := g }).u.store.length ≤ cps.length := by
  have hs : (ofBytes (encodeAll cps)).store = cps.map pack := by rw [decode_valid_agrees_partial cps h]
  have key : transformC cm f { u := ofBytes (encodeAll cps), func := g }
      = { u := { parser := .p0, store := (outC cm f CTX0 (cps.map pack)).1, rawSize := bytesOf (outC cm f CTX0 (cps.map pack)).1 },
          func := g } := by
    have e := transformC_eq cm f { u := ofBytes (encodeAll cps), func := g }
    have eu : (transformC cm f { u := ofBytes (encodeAll cps), func := g }).u
        = { parser := .p0, store := (outC cm f CTX0 (cps.map pack)).1, rawSize := bytesOf (outC cm f CTX0 (cps.map pack)).1 } := by
      rw [e.1]
      simp only [hs]
      rw [reread_bytes cps h, foldl_writeByteC]
      obtain ⟨h1, h2⟩ := emit_encodeAll cps h
      simp only [h1, h2]
      simp
    cases ht : transformC cm f { u := ofBytes (encodeAll cps), func := g } with
    | mk u fn =>
      rw [ht] at eu e
      simp only at eu e
      rw [eu, e.2]
  refine ⟨key, ?_⟩
  rw [key]
  have := outC_length_le cm f (cps.map pack) CTX0
  simpa using this

/-- a table with categories: blank and LF are spaces / breakers (1, 3), TAB is a control character (4), `a` `b` have the
    upper-case images `A` `B`, `é` (C3 A9) has `É` (C3 89); other ASCII maps to itself; nothing else has a page -/
def cmExC : CharMapC := fun u =>
  if u = 0x20 then some (0x20, 0x20, 1) else if u = 0x0a then some (0x0a, 0x0a, 3) else if u = 0x09 then some (0x09, 0x09, 4)
  else if u = 0x61 ∨ u = 0x41 then some (0x41, 0x61, 0) else if u = 0x62 ∨ u = 0x42 then some (0x42, 0x62, 0)
  else if u = 0xC3A9 ∨ u = 0xC389 then some (0xC389, 0xC3A9, 0) else if u < 0x80 then some (u, u, 0) else none

/-- `"ab  B\na\tb€a é"`: capitalize gives `Ab  B\nA\tB€a É` (a character without page — € — ends the word context: the `a`
    behind it stays lower case); normalize gives `ab b a b€a é` (runs of blanks / LF become one blank, TAB vanishes and
    does not separate) -/
example : ValidCps [0x61, 0x62, 0x20, 0x20, 0x42, 0x0a, 0x61, 0x09, 0x62, 0x20AC, 0x61, 0x20, 0xE9]
    ∧ (transformC cmExC .capitalize { u := ofBytes (encodeAll [0x61, 0x62, 0x20, 0x20, 0x42, 0x0a, 0x61, 0x09, 0x62, 0x20AC, 0x61, 0x20, 0xE9]) }).u.store
        = [0x41, 0x62, 0x20, 0x20, 0x42, 0x0a, 0x41, 0x09, 0x42, 0xE282AC, 0x61, 0x20, 0xC389]
    ∧ (transformC cmExC .normalize { u := ofBytes (encodeAll [0x20, 0x61, 0x62, 0x20, 0x20, 0x42, 0x0a, 0x61, 0x09, 0x62, 0x20AC, 0x61, 0x20, 0xE9]) }).u.store
        = [0x61, 0x62, 0x20, 0x62, 0x20, 0x61, 0x62, 0xE282AC, 0x61, 0x20, 0xC3A9] := by
  refine ⟨?_, by decide +kernel, by decide +kernel⟩
  intro c hc
  simp at hc
  rcases hc with rfl | rfl | rfl | rfl | rfl | rfl | rfl | rfl | rfl | rfl | rfl | rfl | rfl <;> decide

/-- **utf8_ctx_total.** For EVERY table with categories, every object state and every call of the `u8t` alphabet
(`capitalize`, `normalize` and the calls of `utf8_case_total`): the representation invariant is kept and the transformation
installed in the object's parser is not changed. -/
theorem utf8_ctx_total (cm : CharMapC) (tr : CharMapT) (t : TStr) (op : TOpC) (hi : Inv t.u) :
    Inv (tstepC cm tr t op).u ∧ (tstepC cm tr t op).func = t.func := by
  cases op with
  | base op => exact ⟨utf8_case_total cm.toCM t op hi, tstep_func cm.toCM t op⟩
  | capitalize => exact ⟨transformC_inv cm .capitalize t, rfl⟩
  | normalize => exact ⟨transformC_inv cm .normalize t, rfl⟩
  | translit => exact ⟨transformT_inv (trCM tr) .upper t, rfl⟩

/-- **utf8_translit_agrees.** `translit()` on valid text, for EVERY `translate` column: each character is replaced by ONE
stored element holding the packed bytes of its `translate` string (the character itself when there is no page for it), in
order, characters with an empty string vanish; the parser is at rest, `rawsize` is the number of bytes of the new text,
the installed transformation is untouched; `count()` never grows — a replacement of several letters counts as one element. -/
theorem utf8_translit_agrees (tr : CharMapT) (cps : List Nat) (h : ValidCps cps) (g : Func) :
    translitT tr { u := ofBytes (encodeAll cps), func := g }
      = { u := { parser := .p0, store := ((cps.map pack).map fun u => (tr u).getD u).filter (· ≠ 0),
                 rawSize := bytesOf (((cps.map pack).map fun u => (tr u).getD u).filter (· ≠ 0)) }, func := g }
    ∧ (translitT tr { u := ofBytes (encodeAll cps), func := g }).u.store.length ≤ cps.length := by
  have e : ∀ l : List Nat, outF (trCM tr) .upper l = (l.map fun u => (tr u).getD u).filter (· ≠ 0) := by
    intro l
    simp only [outF]
    congr 1
    apply List.map_congr_left
    intro u _
    simp only [applyF, trCM]
    cases tr u <;> rfl
  have := utf8_case_agrees (trCM tr) .upper cps h g
  rw [e] at this
  exact ⟨this.1, this.2.1⟩

/-- `ß` (C3 9F) ↦ `ss` (one element 0x7373, 2 bytes), `é` ↦ `e`, `€` has no page and is kept, `x` has an empty
    translate string and vanishes: `aßé€x` -> elements `a`, `ss`, `e`, `€`: count 4, 7 bytes, string `asse€`;
    a following `toupper()` re-reads the bytes: `s`, `s` are two characters then (count 5) -/
def trEx : CharMapT := fun u =>
  if u = 0xC39F then some 0x7373 else if u = 0xC3A9 then some 0x65 else if u = 0x78 then some 0 else if u < 0x80 then some u else none

example : ValidCps [0x61, 0xDF, 0xE9, 0x20AC, 0x78]
    ∧ (translitT trEx { u := ofBytes (encodeAll [0x61, 0xDF, 0xE9, 0x20AC, 0x78]) }).u
        = { parser := .p0, store := [0x61, 0x7373, 0x65, 0xE282AC], rawSize := 7 }
    ∧ (transformT cmEx .upper (translitT trEx { u := ofBytes (encodeAll [0x61, 0xDF, 0xE9, 0x20AC, 0x78]) })).u.store
        = [0x41, 0x73, 0x73, 0x65, 0xE282AC] := by
  refine ⟨?_, by decide +kernel, by decide +kernel⟩
  intro c hc
  simp at hc
  rcases hc with rfl | rfl | rfl | rfl | rfl <;> decide

example : Inv ({ u := ofBytes [0x61, 0xFF, 0x20, 0xC3], func := .nop } : TStr).u := ofBytes_inv _

end utf8

end BlocV.C18
