/-
  C18 — csv, file, sqlite3, utf8 modules move data losslessly and tolerate any argument.
  This file: the csv and utf8 halves. Property theorems and their non-vacuity examples only
  (helper lemmas: Proofs/Lemmas/Csv.lean, Proofs/Lemmas/Utf8.lean).

  Model: BlocV/Model/Mod/Csv.lean (csvparser.cpp), BlocV/Model/Mod/Utf8.lean (utf8helper.cpp + the
  argument handling of plugin_utf8.cpp).  Spec: BlocV/Spec/Csv.lean, BlocV/Spec/Utf8.lean.
-/
import BlocV.Proofs.Lemmas.Csv
import BlocV.Proofs.Lemmas.Utf8

namespace BlocV.C18
open BlocV.Mod.Csv
open BlocV.Spec.Csv (RowOk RoundTrip RoundTripLines splitAfterLF feedLines)

/-! ## csv -/

/-- The rows of the property (several fields, or one non-empty field) are among the rows the theorems
cover (every row but the single empty field; the empty row is covered too). -/
theorem rowOk_ne (row : Row) (h : RowOk row) : row ≠ [[]] := by
  rcases h with h | ⟨f, rfl, hf⟩
  · intro e; subst e; simp at h
  · intro e; simp at e; exact hf e

/-- **csv_roundtrip.** For every separator/encapsulator pair with `sep ≠ enc` — nothing else is needed:
either may be CR, LF, a space, NUL, a byte ≥ 0x80 — every row other than the single empty field, and
every field content, `deserialize (serialize row)` returns "record complete" and exactly the row, with
the error flag clear, whatever the parser's error members were before. -/
theorem csv_roundtrip (cfg : Cfg) (hne : cfg.sep ≠ cfg.enc) (row : Row) (hrow : row ≠ [[]]) (ps : PState) :
    deserialize cfg ps (serialize cfg row) = .done false row { ps with error := false } := by
  cases row with
  | nil => simp [serialize_nil, deserialize, deserializeChunk]
  | cons f fs =>
    rw [serialize_cons]
    have hs := ser_ne_nil cfg f fs hrow
    have hrun := (run_row cfg hne fs f []).1
    cases hl : serF cfg f ++ joinTail cfg fs with
    | nil => exact absurd hl hs
    | cons x xs =>
      rw [hl] at hrun
      simp only [deserialize, deserializeChunk, Bool.false_eq_true, if_false]
      have h1 := scan_eq_run cfg (x :: xs) { out := [], value := [], first := true, encap := false } rfl
      have h2 : toA { out := [], value := [], first := true, encap := false } = clean [] := rfl
      rw [h2] at h1
      rw [← h1] at hrun
      generalize scan cfg (x :: xs) { out := [], value := [], first := true, encap := false } = st at hrun
      unfold callOfA toA at hrun
      unfold finish
      by_cases he : st.error
      · simp [he] at hrun
      · simp [he] at hrun
        simp [he, hrun.1, hrun.2]

/-- The same as the property words it: a client that calls `deserialize` on the serialized record. -/
theorem csv_roundtrip_spec (cfg : Cfg) (hne : cfg.sep ≠ cfg.enc) (row : Row) (hrow : RowOk row) :
    RoundTrip (serialize cfg) (callFirst cfg) row := by
  unfold RoundTrip callFirst
  rw [csv_roundtrip cfg hne row (rowOk_ne row hrow)]
  rfl

/-- Hypotheses satisfiable on a non-trivial row: `a,"\n` / empty / two spaces, with `,` and `"`. -/
example : (⟨0x2c, 0x22⟩ : Cfg).sep ≠ (⟨0x2c, 0x22⟩ : Cfg).enc ∧
    RowOk [[0x61, 0x2c, 0x22, 0x0a], [], [0x20, 0x20]] ∧
    deserialize ⟨0x2c, 0x22⟩ {} (serialize ⟨0x2c, 0x22⟩ [[0x61, 0x2c, 0x22, 0x0a], [], [0x20, 0x20]])
      = .done false [[0x61, 0x2c, 0x22, 0x0a], [], [0x20, 0x20]] {} := by decide +kernel

/-- The side condition is necessary: with `sep = enc = ','` the row `a,b` does not come back
(the parser reports an error at position 2). -/
example : deserialize ⟨0x2c, 0x2c⟩ {} (serialize ⟨0x2c, 0x2c⟩ [[0x61], [0x62]])
    = .done false [] { error := true, errorPos := 2 } := by decide +kernel

/-- The excluded row: a single empty field serializes to the empty text, which deserializes to no field. -/
example : deserialize ⟨0x2c, 0x22⟩ {} (serialize ⟨0x2c, 0x22⟩ [[]]) = .done false [] {} := by decide +kernel

/-- **csv_linewise.** If moreover neither the separator nor the encapsulator is LF, the client loop
"`deserialize` the first line; while it returns true, `deserialize_next` the following line" over the
serialized record cut after every LF consumes all lines and ends with "record complete" and exactly the
row. -/
theorem csv_linewise (cfg : Cfg) (hne : cfg.sep ≠ cfg.enc) (hsep : cfg.sep ≠ LF) (henc : cfg.enc ≠ LF)
    (row : Row) (hrow : row ≠ [[]]) :
    RoundTripLines (serialize cfg) (callFirst cfg) (callNext cfg) row := by
  unfold RoundTripLines
  cases row with
  | nil => simp [serialize_nil, splitAfterLF, feedLines, callFirst_nil]
  | cons f fs =>
    rw [serialize_cons]
    have hs := ser_ne_nil cfg f fs hrow
    obtain ⟨hrun, hmon⟩ := run_row cfg hne fs f []
    cases hsp : splitAfterLF (serF cfg f ++ joinTail cfg fs) with
    | nil => exact absurd (splitAfterLF_eq_nil _ hsp) hs
    | cons l1 ls =>
      simp only [feedLines]
      rw [callFirst_eq cfg l1 (splitAfterLF_head_ne_nil _ l1 ls hsp)]
      rw [feed_lines cfg hne _ (clean []) (clean []) (R_refl _) (hmon henc hsep) l1 ls hsp, hrun]
      simp

example : RowOk [[0x61, 0x0a, 0x0a, 0x22], [0x0a], [0x62]] ∧
    feedLines (callFirst ⟨0x2c, 0x22⟩) (callNext ⟨0x2c, 0x22⟩)
      (splitAfterLF (serialize ⟨0x2c, 0x22⟩ [[0x61, 0x0a, 0x0a, 0x22], [0x0a], [0x62]]))
      = (some (false, [[0x61, 0x0a, 0x0a, 0x22], [0x0a], [0x62]]), []) ∧
    (splitAfterLF (serialize ⟨0x2c, 0x22⟩ [[0x61, 0x0a, 0x0a, 0x22], [0x0a], [0x62]])).length = 4 := by decide +kernel

/-- Necessary: separator LF — the first line `a\n` is already a complete record `["a", ""]`. -/
example : feedLines (callFirst ⟨0x0a, 0x22⟩) (callNext ⟨0x0a, 0x22⟩)
    (splitAfterLF (serialize ⟨0x0a, 0x22⟩ [[0x61], [0x62]])) = (some (false, [[0x61], []]), [[0x62]]) := by decide +kernel

/-- Necessary: encapsulator LF — the field `\n` is written as four LFs; the client sees a complete
record `[""]` after two of the four lines. -/
example : feedLines (callFirst ⟨0x2c, 0x0a⟩) (callNext ⟨0x2c, 0x0a⟩)
    (splitAfterLF (serialize ⟨0x2c, 0x0a⟩ [[0x0a]])) = (some (false, [[]]), [[0x0a], [0x0a]]) := by decide +kernel

/-- **csv_args_total**: `deserialize`, `deserialize_next` and `deserialize_chunk` with ANY parser state, ANY field
table (empty, after an error, after `deserialize("")`) and ANY line return a result: `back()` / `pop_back()` are never
applied to an empty vector. -/
theorem csv_args_total (cfg : Cfg) (ps : PState) (next : Bool) (out : Row) (line : List UInt8) :
    deserializeChunk cfg ps next out line ≠ .hazardEmptyBack
    ∧ deserialize cfg ps line ≠ .hazardEmptyBack ∧ deserializeNext cfg ps out line ≠ .hazardEmptyBack := by
  have key : ∀ (ps : PState) (next : Bool) (out : Row), deserializeChunk cfg ps next out line ≠ .hazardEmptyBack := by
    intro ps next out
    unfold deserializeChunk
    cases line with
    | nil => simp
    | cons x xs =>
      simp only []
      split
      · rename_i h
        cases hq : out.getLast? with
        | none => exact absurd (List.getLast?_eq_none_iff.mp hq) h.2
        | some v => simp only [finish]; split <;> simp
      · simp only [finish]; split <;> simp
  exact ⟨key ps next out, key _ false [], key ps true out⟩

/-- **csv_next_empty_table**: `deserialize_next` on an EMPTY field table (fresh table, after a parse error, after
`deserialize("")`) treats a non-empty line as the start of a record: the same fields and the same "needs more" flag
as `deserialize_chunk(false, …)` — i.e. as `deserialize`, except that `m_error` is not reset. -/
theorem csv_next_empty_table (cfg : Cfg) (ps : PState) (line : List UInt8) (hl : line ≠ []) :
    deserializeNext cfg ps [] line = deserializeChunk cfg ps false [] line
    ∧ deserializeNext cfg { ps with error := false } [] line = deserialize cfg ps line := by
  cases line with
  | nil => exact absurd rfl hl
  | cons x xs => simp [deserializeNext, deserialize, deserializeChunk]

/-- the former hazard witnesses: `deserialize_next("a")` on the empty table gives the field `a`; after the parse
error of `a"` (table cleared) the next line `a` starts a record -/
example : deserializeNext ⟨0x2c, 0x22⟩ {} [] [0x61] = .done false [[0x61]] {} ∧
    deserialize ⟨0x2c, 0x22⟩ {} [0x61, 0x22] = .done false [] { error := true, errorPos := 2 } ∧
    deserializeNext ⟨0x2c, 0x22⟩ { error := true, errorPos := 2 } [] [0x61]
      = .done false [[0x61]] { error := true, errorPos := 2 } ∧
    deserializeNext ⟨0x2c, 0x22⟩ {} [] [0x22, 0x61] = .done true [[0x61]] {} := by decide +kernel

/-! ## utf8

In this module a "code point" is the character's UTF-8 byte sequence packed big-endian into a 32-bit
number (`Spec.Utf8.pack`), not its Unicode scalar value; `at` returns it and `insert` expects it.
The theorems say: on valid UTF-8 without U+0000 the module holds exactly the sequence an independent
RFC 3629 decoder produces (in that representation), and count / at / substr / remove / insert /
string() are the list operations on that sequence. -/

section utf8
open BlocV.Mod.Utf8
open BlocV.Spec.Utf8 (isScalar encode encodeAll pack lSubstr lRemove lInsert)

/-- Unicode scalar values other than U+0000. -/
def ValidCps (cps : List Nat) : Prop := ∀ c ∈ cps, isScalar c = true ∧ c ≠ 0

/-- **decode_valid_agrees** (partial: U+0000 excluded, see the example below). Constructing the module's
string from the RFC 3629 encoding of any sequence of non-zero Unicode scalar values yields exactly
that sequence (each character in the packed representation), `rawsize` = number of bytes, and the
parser back at rest. -/
theorem decode_valid_agrees_partial (cps : List Nat) (h : ValidCps cps) :
    ofBytes (encodeAll cps) = { parser := .p0, store := cps.map pack, rawSize := (encodeAll cps).length } := by
  have := writeBytes_encodeAll cps h {} rfl
  simpa [ofBytes] using this

example : ValidCps [0x41, 0xE9, 0x20AC, 0x1F600, 0x10FFFF, 0xD7FF, 0xE000] ∧
    (ofBytes (encodeAll [0x41, 0xE9, 0x20AC, 0x1F600])).store = [0x41, 0xC3A9, 0xE282AC, 0xF09F9880] := by
  refine ⟨?_, by decide +kernel⟩
  intro c hc
  simp at hc
  rcases hc with rfl | rfl | rfl | rfl | rfl | rfl | rfl <;> decide

/-- The full statement is false: U+0000 (valid UTF-8, accepted by the independent decoder) is dropped. -/
example : BlocV.Spec.Utf8.decode [0x61, 0x00, 0x62] = some [0x61, 0, 0x62] ∧
    (ofBytes [0x61, 0x00, 0x62]).store = [0x61, 0x62] := by decide +kernel

/-- A test of the Spec (not a theorem about all inputs): the independent decoder inverts the encoder at
the boundary values and rejects over-long forms, surrogates, values above U+10FFFF and truncation. -/
example : ([0x7F, 0x80, 0x7FF, 0x800, 0xD7FF, 0xE000, 0xFFFF, 0x10000, 0x10FFFF].all
      fun c => BlocV.Spec.Utf8.decode (encode c) == some [c]) = true ∧
    BlocV.Spec.Utf8.decode [0xC0, 0x80] = none ∧ BlocV.Spec.Utf8.decode [0xE0, 0x80, 0x80] = none ∧
    BlocV.Spec.Utf8.decode [0xED, 0xA0, 0x80] = none ∧ BlocV.Spec.Utf8.decode [0xF4, 0x90, 0x80, 0x80] = none ∧
    BlocV.Spec.Utf8.decode [0xE2, 0x82] = none ∧ BlocV.Spec.Utf8.decode [0x80] = none := by decide +kernel

/-- **utf8_count_agrees** -/
theorem utf8_count_agrees (cps : List Nat) (h : ValidCps cps) :
    pluginCount (ofBytes (encodeAll cps)) = cps.length := by
  rw [decode_valid_agrees_partial cps h]; simp [pluginCount, size]

/-- **utf8_at_agrees**: inside the string `at` is the list's element (packed); at or beyond the end, and for every
negative argument, it is the BLOC error INDEX_RANGE; null is the BLOC error "Invalid arguments". -/
theorem utf8_at_agrees (cps : List Nat) (h : ValidCps cps) (a0 : Option Int64) :
    pluginAt (ofBytes (encodeAll cps)) a0 =
      match a0 with
      | none => .invalidArgs
      | some i => if 0 ≤ i.toInt then
          match cps[i.toInt.toNat]? with
          | some c => .ok (pack c)
          | none => .indexRange
        else .indexRange := by
  rw [decode_valid_agrees_partial cps h]
  cases a0 with
  | none => rfl
  | some i =>
    simp only [pluginAt, size, List.length_map]
    by_cases hneg : i.toInt < 0
    · simp [hneg, show ¬ 0 ≤ i.toInt by omega]
    · have hpos : 0 ≤ i.toInt := by omega
      have hsz : toSizeT i = i.toInt.toNat := toSizeT_of_nonneg i hpos
      simp only [hneg, false_or, hpos, if_true, hsz]
      generalize i.toInt.toNat = N
      by_cases hlt : cps.length ≤ N
      · simp [hlt, List.getElem?_eq_none hlt]
      · have hlt' : N < cps.length := by omega
        simp [hlt, List.getElem?_map, List.getElem?_eq_getElem hlt']

/-- **utf8_substr_agrees**: for every position and count (no side condition) `substr` is the encoding of
`drop pos |> take n`; in particular the empty string from the end on. -/
theorem utf8_substr_agrees (cps : List Nat) (h : ValidCps cps) (pos n : Nat) :
    substr (ofBytes (encodeAll cps)) pos n = encodeAll (lSubstr cps pos n) := by
  rw [decode_valid_agrees_partial cps h]
  have hsc : ∀ c ∈ lSubstr cps pos n, isScalar c = true := fun c hc =>
    (h c (List.mem_of_mem_drop (List.mem_of_mem_take hc))).1
  unfold substr
  simp only [List.length_map]
  split
  · rename_i hlt
    rw [← flatMap_uString_pack _ hsc]
    simp only [lSubstr, List.map_take, List.map_drop]
    split
    · rename_i hgt
      rw [List.take_of_length_le (by simp <;> omega)]
      try rw [List.take_of_length_le (by simp <;> omega)]
    · rfl
  · rename_i hge
    simp [lSubstr, List.drop_of_length_le (Nat.le_of_not_lt hge), encodeAll]

/-- **utf8_string_agrees**: `string()` gives back the original bytes, and never overruns its buffer. -/
theorem utf8_string_agrees (cps : List Nat) (h : ValidCps cps) :
    pluginString (ofBytes (encodeAll cps)) = some (encodeAll cps) := by
  rw [decode_valid_agrees_partial cps h]
  simp [pluginString, toStdString, flatMap_uString_pack cps (fun c hc => (h c hc).1)]

/-- **utf8_remove_agrees**: inside the string, `remove` answers true and leaves the list with the range
cut out (the count is clamped); from the end on it answers false and changes nothing. -/
theorem utf8_remove_agrees (cps : List Nat) (h : ValidCps cps) (pos n : Nat) :
    let r := remove (ofBytes (encodeAll cps)) pos n
    (pos < cps.length → r.1 = true ∧ r.2.store = (lRemove cps pos n).map pack) ∧
    (¬ pos < cps.length → r = (false, ofBytes (encodeAll cps))) := by
  rw [decode_valid_agrees_partial cps h]
  simp only [remove, List.length_map]
  refine ⟨fun hlt => ?_, fun hge => by simp [hge]⟩
  simp only [hlt, if_true, true_and, lRemove, List.map_append, List.map_take, List.map_drop]
  split
  · rename_i hgt
    rw [List.drop_of_length_le (by simp <;> omega)]
    try rw [List.drop_of_length_le (by simp <;> omega)]
  · rfl

/-- **utf8_insert_agrees**: inserting the packed form of a non-zero scalar value at a position up to the
end answers true and gives the list with the element inserted; beyond the end it answers false and
changes nothing (whatever the value). -/
theorem utf8_insert_agrees (cps : List Nat) (h : ValidCps cps) (pos c : Nat) (hc : isScalar c = true) (hc0 : c ≠ 0) :
    let s := ofBytes (encodeAll cps)
    (pos ≤ cps.length → insertCp s pos (pack c) =
      (true, { s with store := (lInsert cps pos c).map pack, rawSize := s.rawSize + (encode c).length })) ∧
    (¬ pos ≤ cps.length → ∀ u, insertCp s pos u = (false, s)) := by
  rw [decode_valid_agrees_partial cps h]
  simp only [insertCp, List.length_map]
  refine ⟨fun hle => ?_, fun hgt u => by simp [hgt]⟩
  rw [(uString_pack c hc).1, parseFirst_encode c hc hc0]
  simp [hle, lInsert, (uString_pack c hc).2]

/-- **utf8_args_total**: with any argument — null, negative, huge — count, at, substr, remove, insert and string()
return a value or a BLOC error ("Invalid arguments", INDEX_RANGE): no method can reach an out-of-bounds access.
Holds for every string state. `at` answers INDEX_RANGE exactly when the position is negative or not inside the string. -/
theorem utf8_args_total (s : UStr) (a0 a1 : Option Int64) (o : Option UStr) :
    pluginAt s a0 ≠ .hazardOob ∧
    pluginSubstr1 s a0 ≠ .hazardOob ∧ pluginSubstr2 s a0 a1 ≠ .hazardOob ∧ pluginRemove s a0 a1 ≠ .hazardOob ∧
    pluginInsert s a0 a1 ≠ .hazardOob ∧ pluginInsertC s a0 o ≠ .hazardOob ∧
    (pluginAt s a0 = .indexRange ↔ ∃ i, a0 = some i ∧ (i.toInt < 0 ∨ size s ≤ toSizeT i)) := by
  refine ⟨?_, ?_, ?_, ?_, ?_, ?_, ?_⟩
  · cases a0 with
    | none => simp [pluginAt]
    | some i =>
      simp only [pluginAt]
      split
      · simp
      · rename_i hc
        cases hq : s.store[toSizeT i]? with
        | none =>
          have := List.getElem?_eq_none_iff.mp hq
          exact absurd (Or.inr this) hc
        | some u => simp
  · cases a0 <;> simp [pluginSubstr1]
  · cases a0 <;> cases a1 <;> simp [pluginSubstr2]
  · cases a0 <;> cases a1 <;> simp [pluginRemove]
  · cases a0 <;> cases a1 <;> simp [pluginInsert]
  · cases a0 <;> cases o <;> simp [pluginInsertC]
  · cases a0 with
    | none => simp [pluginAt]
    | some i =>
      simp only [pluginAt, Option.some.injEq, exists_eq_left']
      split
      · rename_i hc; simp [hc]
      · rename_i hc
        cases hq : s.store[toSizeT i]? <;> simp [hc]

/-- The former out-of-bounds `at` is a BLOC error: `utf8("abc").at(-1)`, `.at(3)`, `.at(INT64_MIN)`; inside it still answers. -/
example : pluginAt (ofBytes [0x61, 0x62, 0x63]) (some (-1)) = .indexRange ∧
    pluginAt (ofBytes [0x61, 0x62, 0x63]) (some 3) = .indexRange ∧
    pluginAt (ofBytes [0x61, 0x62, 0x63]) (some (-9223372036854775808)) = .indexRange ∧
    pluginAt (ofBytes [0x61, 0x62, 0x63]) none = .invalidArgs ∧
    pluginAt (ofBytes [0x61, 0x62, 0x63]) (some 2) = .ok 0x63 := by decide +kernel

end utf8

end BlocV.C18
