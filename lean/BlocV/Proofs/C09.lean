/-
  C09 — tables stay uniform, tuples keep their structure, indexing is range-checked.

  Model: Model/Members.lean (the C++ `value()` methods on values). Spec: Spec/Containers.lean.
  Regions of the recorded findings: KF/C09.lean. Helper lemmas: Proofs/Lemmas/Containers.lean.

  The full property is FALSE for the code as it is; the file proves the negation at concrete
  witnesses (`make_type_collision`, `uniform_broken_by_*`), and the `_partial` theorem under
  "the tuple declarations in play hash injectively" + "no call in the level-mixing region".
  The null-pointer dereference of a typed-null element argument in the type-mixing branch of
  put / insert / concat / set@ is repaired (9e8652f): `mix_null_stores_null`, `mix_null_sat_spec`,
  `table_methods_no_hazard` state what the code does there now; the `_partial` theorem covers those calls
  (they succeed and keep the table uniform) without any exclusion.
-/
import BlocV.Proofs.Lemmas.Containers

namespace BlocV.C09
open BlocV BlocV.Spec

/-! ### the 16-bit structure hash -/

def declA : List Ty := [Ty.bool, Ty.raw, Ty.bool, Ty.bool, Ty.str]
def declB : List Ty := [Ty.num, Ty.int, Ty.bool, Ty.str, Ty.bool]
def declZ : List Ty := [Ty.raw, Ty.raw, Ty.raw, Ty.num, Ty.raw]

/-- Two different declarations with the same tuple type, and a non-empty declaration whose type is
the "opaque" tuple type (minor 0). Proved by evaluation of `TupleDecl::Decl::make_type`. -/
theorem make_type_collision :
    makeTupleTy declA 0 = makeTupleTy declB 0 ∧ declA ≠ declB ∧
    makeTupleTy declZ 0 = { major := .tup, minor := 0, level := 0 } ∧ declZ ≠ [] := by decide

def tA : Val := .tup declA [.bool true, .raw [97], .bool true, .bool true, .str [115]]
def tB : Val := .tup declB [.num 0x3ff8000000000000, .int 2, .bool true, .str [115], .bool true]
def tabA : Val := .tab (makeTupleTy declA 1) declA [tA]

/-- Witness C09.tuple.hashCollision: from a uniform table and a uniform tuple, `put` succeeds and the
table is no longer uniform. -/
theorem uniform_broken_by_collision :
    uniform tabA = true ∧ uniform tB = true ∧
    (match memberCall .put tabA [.int 0, tB] false with
      | .ok (_, x') => !uniform x'
      | _ => false) = true := by decide

def tabI2 : Val := .tab { major := .int, level := 2 } [] [.tab { major := .int, level := 1 } [] [.int 1]]

/-- Witness C09.mix.level: `tab(1, tab(1, 1)).insert(0, null)` stores an integer null of level 0 in
a table of tables. -/
theorem uniform_broken_by_level_mixing :
    uniform tabI2 = true ∧
    (match memberCall .insert tabI2 [.int 0, .null Ty.none] false with
      | .ok (_, x') => !uniform x'
      | _ => false) = true := by decide

/-- (repaired upstream, 9e8652f; was `hazard nullDeref`) a typed-null decimal put into an integer table is
stored as a null integer. The general statement is `mix_null_stores_null` below. -/
example : memberCall .put (.tab { major := .int, level := 1 } [] [.int 0]) [.int 0, .null Ty.num] false =
    .ok (.tab { major := .int, level := 1 } [] [.null Ty.int], .tab { major := .int, level := 1 } [] [.null Ty.int]) := by rfl
/-- Witness C09.tuple.hashZero: the tab constructor refuses the tuple whose declaration hashes to 0. -/
example : (match biTab (m := Res) [.ok (.int 1), .ok (.tup declZ [.raw [], .raw [], .raw [], .num 0, .raw []])] with
    | .err c _ => c == Gen.EXC_RT_COMPOUND_OPAQUE | _ => false) = true := by decide
/-- (repaired upstream, 7b31e38) a rank above 2^32 − 1 is refused at compile time. -/
example : acceptItem (makeTupleTy [Ty.int] 0) 4294967297 = some Gen.EXC_PARSE_OUT_OF_INDICE := by decide

/-! ### a typed null of the other numeric type (repair 9e8652f) -/

/-- **mix_null_stores_null**. A scalar typed null of the OTHER numeric type (a NULL decimal for an
integer container, a NULL integer for a decimal one: `crossNum`) is stored as the null of the container's
own major (`numNull`: `Value(Value::type_integer)` / `Value(Value::type_numeric)`), by all four methods:
`put` replaces the element at an in-range position, `insert` adds it at a position 0 ≤ p ≤ n, `concat`
appends it, `set@` replaces the item — the result is the receiver itself. For a table of one dimension
and for a tuple item that null has exactly the element type (`numNull_elem_type`); the table's LEVEL is
still not consulted (C09.mix.level: see the last example). -/
theorem mix_null_stores_null :
    (∀ (t nt : Ty) (d : List Ty) (es : List Val) (p : Int64) (c : Bool),
      crossNum t.major nt.major = true → nt.level = 0 →
      (inRange p es.length = true →
        mPut (.tab t d es) (.int p) (.null nt) c =
          .ok (.tab t d (listPut es (idxOf p) (numNull t.major)), .tab t d (listPut es (idxOf p) (numNull t.major)))) ∧
      (inRangeIns p es.length = true →
        mInsert (.tab t d es) (.int p) (.null nt) c =
          .ok (.tab t d (listIns es (idxOf p) [numNull t.major]), .tab t d (listIns es (idxOf p) [numNull t.major]))) ∧
      (t.level > 0 →
        mConcat (.tab t d es) (.null nt) c =
          .ok (.tab t d (es ++ [numNull t.major]), .tab t d (es ++ [numNull t.major])))) ∧
    (∀ (decl : List Ty) (items : List Val) (idx : Nat) (dt nt : Ty) (old : Val),
      decl[idx]? = some dt → items[idx]? = some old → crossNum dt.major nt.major = true → nt.level = 0 →
      setItemV (.tup decl items) idx (.null nt) =
        .ok (.tup decl (listPut items idx (numNull dt.major)), .tup decl (listPut items idx (numNull dt.major)))) := by
  refine ⟨?_, ?_⟩
  · intro t nt d es p c hc hl
    refine ⟨?_, ?_, ?_⟩
    · intro hp
      have hlt : idxOf p < es.length := by
        unfold inRange at hp; unfold idxOf; simp at hp; omega
      have hsome : es[idxOf p]? = some es[idxOf p] := by simp [hlt]
      unfold mPut
      simp only [Val.isNull, Bool.or_self, Bool.false_eq_true, ↓reduceIte]
      have e : (Val.int p).asInt = .ok p := rfl
      rw [e]
      simp only [hp, Bool.not_true, Bool.false_eq_true, ↓reduceIte, hsome,
        classify_null_cross .put t nt _ hc hl]
    · intro hp
      unfold mInsert
      simp only [Val.isNull, Bool.or_self, Bool.false_eq_true, ↓reduceIte]
      have e : (Val.int p).asInt = .ok p := rfl
      rw [e]
      simp only [hp, Bool.not_true, Bool.false_eq_true, ↓reduceIte,
        classify_null_cross .insert t nt _ hc hl]
    · intro hlev
      unfold mConcat
      have : (Val.tab t d es).type.level > 0 := hlev
      simp only [this, ↓reduceIte, classify_null_cross .concat t nt _ hc hl]
  · intro decl items idx dt nt old hdt hold hc hl
    have hne : dt ≠ nt := by
      intro e; subst e
      unfold crossNum at hc
      simp only [Bool.or_eq_true, Bool.and_eq_true, beq_iff_eq] at hc
      rcases hc with ⟨h1, h2⟩ | ⟨h1, h2⟩ <;> rw [h1] at h2 <;> simp at h2
    have hlt : idx < decl.length := by
      rcases Nat.lt_or_ge idx decl.length with h | h
      · exact h
      · rw [List.getElem?_eq_none h] at hdt; simp at hdt
    unfold setItemV
    simp only [Val.isNull, Bool.false_eq_true, ↓reduceIte, Val.type, hl, bne_self_eq_false, hlt, hdt, hold]
    have : (dt == nt) = false := by simpa using hne
    simp only [this, Bool.false_eq_true, ↓reduceIte, mixItem_null_cross dt nt _ hc]

/-- non-vacuity, all four methods and both directions, as member calls / statements: `Ti1[0].put(0, num())`,
`Ti1[0].insert(1, num())`, `Ti1[0].concat(num())`, `Td1[1.5].put(0, int())`, `tup(1, "a").set@1(num())`,
`tup(1.5, 2).set@1(int())` -/
example : crossNum .int .num = true ∧ crossNum .num .int = true ∧ crossNum .int .int = false ∧
    crossNum .int .none = false ∧ crossNum .str .int = false := by decide
def ti1 (es : List Val) : Val := .tab { major := .int, level := 1 } [] es
def td1 (es : List Val) : Val := .tab { major := .num, level := 1 } [] es
example : memberCall .put (ti1 [.int 0]) [.int 0, .null Ty.num] false = .ok (ti1 [.null Ty.int], ti1 [.null Ty.int]) := by rfl
example : memberCall .insert (ti1 [.int 0]) [.int 1, .null Ty.num] false =
    .ok (ti1 [.int 0, .null Ty.int], ti1 [.int 0, .null Ty.int]) := by rfl
example : memberCall .concat (ti1 [.int 0]) [.null Ty.num] false =
    .ok (ti1 [.int 0, .null Ty.int], ti1 [.int 0, .null Ty.int]) := by rfl
example : memberCall .put (td1 [.num 0x3ff8000000000000]) [.int 0, .null Ty.int] false =
    .ok (td1 [.null Ty.num], td1 [.null Ty.num]) := by rfl
example : memberCall .concat (td1 []) [.null Ty.int] false = .ok (td1 [.null Ty.num], td1 [.null Ty.num]) := by rfl
example : setItemV (.tup [Ty.int, Ty.str] [.int 1, .str [97]]) 0 (.null Ty.num) =
    .ok (.tup [Ty.int, Ty.str] [.null Ty.int, .str [97]], .tup [Ty.int, Ty.str] [.null Ty.int, .str [97]]) := by rfl
example : setItemV (.tup [Ty.num, Ty.int] [.num 0x3ff8000000000000, .int 2]) 0 (.null Ty.int) =
    .ok (.tup [Ty.num, Ty.int] [.null Ty.num, .int 2], .tup [Ty.num, Ty.int] [.null Ty.num, .int 2]) := by rfl
/-- the stored null has the element type of a one-dimensional table, and the results above are uniform -/
example : (numNull .int).type = ({ major := .int, level := 1 } : Ty).levelDown ∧
    uniform (ti1 [.int 0, .null Ty.int]) = true ∧ uniform (td1 [.null Ty.num]) = true := by decide
/-- an out-of-range position still wins over the element (index error), a null TABLE of the other type is
still refused / ignored: the repair changed the dereferencing cell only -/
example : (match memberCall .put (ti1 [.int 0]) [.int 1, .null Ty.num] false with
    | .err c _ => c == Gen.EXC_RT_INDEX_RANGE_S | _ => false) = true := by decide
example : (match memberCall .put (ti1 [.int 0]) [.int 0, .null { major := .num, level := 1 }] false with
    | .err c _ => c == Gen.EXC_RT_TYPE_MISMATCH_S | _ => false) = true := by decide
/-- C09.mix.level stays: `Ti2[].insert(0, num())` yields `Ti2[N:i0]` — a level-0 null integer in a table of
tables (inside `KF.levelBug`, not uniform). -/
example : memberCall .insert (.tab { major := .int, level := 2 } [] []) [.int 0, .null Ty.num] false =
      .ok (.tab { major := .int, level := 2 } [] [.null Ty.int], .tab { major := .int, level := 2 } [] [.null Ty.int]) ∧
    KF.levelBug { major := .int, level := 2 } (.null Ty.num) = true ∧
    uniform (.tab { major := .int, level := 2 } [] [.null Ty.int]) = false := ⟨by rfl, by decide, by decide⟩

/-- **mix_null_sat_spec**. On a one-dimensional integer / decimal table the repaired
`put` of a scalar typed null of the other numeric type does what the specification allows at EVERY
integer position: the null of the element type is stored (Spec: `either`, int↔decimal mixing is
UNDETERMINED BY DOCUMENTATION) or the index error is raised. -/
theorem mix_null_sat_spec (t nt : Ty) (es : List Val) (p : Int64) (c : Bool)
    (hl1 : t.level = 1) (hc : crossNum t.major nt.major = true) (hl : nt.level = 0) :
    Sat (mPut (.tab t [] es) (.int p) (.null nt) c) (Spec.tabPut t [] es (.int p) (.null nt)) := by
  have hcc := hc
  unfold crossNum at hcc
  simp only [Bool.or_eq_true, Bool.and_eq_true, beq_iff_eq] at hcc
  have hnt : t.major ≠ .tup := by rcases hcc with ⟨h1, _⟩ | ⟨h1, _⟩ <;> rw [h1] <;> simp
  have hmin : normMinor t = 0 := by
    unfold normMinor; rcases hcc with ⟨h1, _⟩ | ⟨h1, _⟩ <;> rw [h1] <;> simp
  have hfit : fit (elemETy t []) (.null nt) = .conv (numNull t.major) := by
    unfold fit elemETy
    rw [mkETy_nontup t [] _ hnt, hl1, hmin]
    have e1 : etyOf (.null nt) = ⟨nt.major, normMinor nt, [], 0⟩ := by
      show mkETy nt [] nt.level = _
      rw [mkETy_nil, hl]
    rcases hcc with ⟨h1, h2⟩ | ⟨h1, h2⟩
    · rw [e1, h1, h2]; simp [isUntypedNull, h2, hl, numNull, Ty.int]
    · rw [e1, h1, h2]; simp [isUntypedNull, h2, hl, numNull, Ty.num]
  unfold Spec.tabPut
  by_cases hr : 0 ≤ p.toInt ∧ p.toInt < (es.length : Int)
  · have hp : inRange p es.length = true := by simp [inRange, hr]
    have hlt : idxOf p < es.length := by unfold idxOf; omega
    rw [(mix_null_stores_null.1 t nt [] es p c hc hl).1 hp]
    simp only [Spec.pos, hr, and_self, ↓reduceIte, hfit]
    left
    rw [listPut_eq_set es (idxOf p) _ hlt]; rfl
  · have hp : inRange p es.length = false := by simp [inRange, hr]
    simp only [Spec.pos, hr, ↓reduceIte, Sat]
    unfold mPut
    have e : (Val.int p).asInt = .ok p := rfl
    simp [Val.isNull, e, hp, idxErr]

/-- the hypotheses are satisfiable (both directions), and what the Spec says at such an input -/
example : Sat (mPut (ti1 [.int 0]) (.int 0) (.null Ty.num) false)
      (Spec.tabPut { major := .int, level := 1 } [] [.int 0] (.int 0) (.null Ty.num)) ∧
    Sat (mPut (td1 []) (.int 0) (.null Ty.int) false)
      (Spec.tabPut { major := .num, level := 1 } [] [] (.int 0) (.null Ty.int)) :=
  ⟨mix_null_sat_spec _ Ty.num _ 0 false rfl (by decide) rfl, mix_null_sat_spec _ Ty.int _ 0 false rfl (by decide) rfl⟩
example : Spec.tabPut { major := .int, level := 1 } [] [.int 0] (.int 0) (.null Ty.num) =
    .either (ti1 [.null Ty.int]) (ti1 [.null Ty.int]) := by
  simp [Spec.tabPut, Spec.pos, fit, elemETy, mkETy, etyOf, normMinor, isUntypedNull, Ty.num, Ty.int, Val.type, ti1]

/-- **table_methods_no_hazard**. After the repair no C-level hazard is left in `put`, `insert`, `concat` on a
table receiver: for every table, every position value and every element argument that is not a malformed
table (`WfArg`: a `Collection` carries a table type), the outcome is a value or a BLOC error. -/
theorem table_methods_no_hazard (t : Ty) (d : List Ty) (es : List Val) (a0 a1 : Val) (c : Bool)
    (h0 : WfArg a0) (h1 : WfArg a1) :
    (mPut (.tab t d es) a0 a1 c).isHazard = false ∧
    (mInsert (.tab t d es) a0 a1 c).isHazard = false ∧
    (t.level > 0 → (mConcat (.tab t d es) a1 c).isHazard = false) := by
  have pos : a0.isNull = false → (∃ i, a0.asInt = .ok i) ∨ (∃ k x, a0.asInt = .err k x) := by
    intro hn
    unfold Val.asInt
    split
    · right; exact ⟨_, _, rfl⟩
    · rename_i hty
      simp only [bne_iff_ne, ne_eq, Bool.or_eq_true, not_or, Decidable.not_not] at hty
      obtain ⟨i, rfl⟩ := nonnull_int a0 h0 hn hty.1 hty.2
      left; exact ⟨i, rfl⟩
  refine ⟨?_, ?_, ?_⟩
  · unfold mPut
    cases hn : a0.isNull with
    | true => simp [Val.isNull, idxErr, Res.isHazard]
    | false =>
      simp only [Val.isNull, Bool.or_false, Bool.false_eq_true, ↓reduceIte]
      rcases pos hn with ⟨i, hi⟩ | ⟨k, x, hi⟩
      · rw [hi]
        simp only
        split
        · rfl
        · split
          · rfl
          · rename_i old _
            have := classify_no_hazard .put t a1 old.type h1
            revert this
            cases classify .put t a1 old.type with
            | ok s => intro _; cases s <;> rfl
            | _ => simp [Res.isHazard]
      · rw [hi]; rfl
  · unfold mInsert
    cases hn : a0.isNull with
    | true => simp [Val.isNull, idxErr, Res.isHazard]
    | false =>
      simp only [Val.isNull, Bool.or_false, Bool.false_eq_true, ↓reduceIte]
      rcases pos hn with ⟨i, hi⟩ | ⟨k, x, hi⟩
      · rw [hi]
        simp only
        split
        · rfl
        · have := classify_no_hazard .insert t a1 t.levelDown h1
          revert this
          cases classify .insert t a1 t.levelDown with
          | ok s => intro _; cases s <;> rfl
          | _ => simp [Res.isHazard]
      · rw [hi]; rfl
  · intro hlev
    unfold mConcat
    have : (Val.tab t d es).type.level > 0 := hlev
    simp only [this, ↓reduceIte]
    have := classify_no_hazard .concat t a1 t.levelDown h1
    revert this
    cases classify .concat t a1 t.levelDown with
    | ok s => intro _; cases s <;> rfl
    | _ => simp [Res.isHazard]

example : WfArg (.null Ty.num) ∧ WfArg (.int 0) := ⟨fun _ _ _ h => by simp at h, fun _ _ _ h => by simp at h⟩
example : (memberCall .put (ti1 [.int 0]) [.int 0, .null Ty.num] false).isHazard = false ∧
    (memberCall .insert (td1 []) [.int 0, .null Ty.int] false).isHazard = false := by decide

/-! ### operation sequences -/

inductive Op
  | mem (m : Member) (args : List Val)
  | set (rank : Nat) (arg : Val)

/-- one statement `x.m(args)` / `x.set@rank(arg)` on the variable `x` -/
def stepRes (x : Val) : Op → Res (Val × Val)
  | .mem m args => memberCall m x args false
  | .set rank a =>
    match itemNo rank with
    | .ok no => setItemV x (itemIndex no) a
    | .err c e => .err c e
    | .haz h => .haz h
    | .unmodelled => .unmodelled

/-- the variable after the statement: a call that does not succeed leaves it as it was -/
def applyOp (x : Val) (op : Op) : Val :=
  match stepRes x op with
  | .ok (_, x') => x'
  | _ => x

def run (x : Val) (ops : List Op) : Val := ops.foldl applyOp x

/-- the arguments are uniform values with declarations in `P`, and the call is outside the
level-mixing region C09.mix.level -/
def OpOk (P : List Ty → Bool) (x : Val) : Op → Prop
  | .mem m args => (∀ a ∈ args, uniformP P a = true) ∧
      (∀ t d es a, x = .tab t d es → KF.elemArg m args = some a → KF.levelBug t a = false)
  | .set _ a => uniformP P a = true

/-- `OpOk` along the run -/
def Safe (P : List Ty → Bool) : Val → List Op → Prop
  | _, [] => True
  | x, op :: ops => OpOk P x op ∧ Safe P (applyOp x op) ops

theorem step_preserves (P) (hinj : Inj P) (x : Val) (op : Op) (r x' : Val)
    (hx : uniformP P x = true) (hok : OpOk P x op) (h : stepRes x op = .ok (r, x')) :
    uniformP P r = true ∧ uniformP P x' = true := by
  cases op with
  | mem m args =>
    obtain ⟨hargs, hreg⟩ := hok
    have h' : memberCall m x args false = .ok (r, x') := h
    unfold memberCall at h'
    split at h'
    · exact mAt_preserves P x _ r x' hx h'
    · rename_i a0 a1
      exact mPut_preserves P hinj x a0 a1 false r x' hx (hargs a1 (by simp))
        (fun t d es he => hreg t d es a1 he rfl) h'
    · rename_i a0 a1
      exact mInsert_preserves P hinj x a0 a1 false r x' hx (hargs a1 (by simp))
        (fun t d es he => hreg t d es a1 he rfl) h'
    · exact mDelete_preserves P x _ false r x' hx h'
    · rename_i a0
      exact mConcat_preserves P hinj x a0 false r x' hx (hargs a0 (by simp))
        (fun t d es he => hreg t d es a0 he rfl) h'
    · exact mCount_preserves P x r x' hx h'
    · simp at h'
  | set rank a =>
    have h' : (match itemNo rank with
      | .ok no => setItemV x (itemIndex no) a
      | .err c e => .err c e
      | .haz h => .haz h
      | .unmodelled => .unmodelled) = Res.ok (r, x') := h
    split at h'
    · obtain ⟨h1, h2, _⟩ := setItemV_preserves P x _ a r x' hx hok h'
      exact ⟨by rw [h1]; exact h2, h2⟩
    all_goals simp at h'

/-- **uniform_preserved (partial)**. For every sequence of member calls and `set@` on a variable that
starts uniform, with uniform arguments, when the tuple declarations in play (`P`) hash injectively
and no call lies in the level-mixing region: after every step the variable is uniform, every value
returned by a successful step is uniform, and a step that is rejected leaves the variable unchanged.
(No exclusion is needed for typed-null element arguments: since 9e8652f a NULL decimal / integer given for
an integer / decimal table or item is a successful step that stores the null of the element type —
`mix_null_stores_null`; see `nullOps_safe` for such a run.) -/
theorem uniform_preserved_partial (P : List Ty → Bool) (hinj : Inj P) :
    ∀ (ops : List Op) (x : Val), UniformIn P x → Safe P x ops →
      UniformIn P (run x ops) ∧
      (∀ (pre : List Op) (op : Op) (post : List Op), ops = pre ++ op :: post →
        UniformIn P (run x pre) ∧
        (∀ r x', stepRes (run x pre) op = .ok (r, x') → UniformIn P r ∧ run x (pre ++ [op]) = x') ∧
        ((∀ r x', stepRes (run x pre) op ≠ .ok (r, x')) → run x (pre ++ [op]) = run x pre)) := by
  intro ops
  induction ops with
  | nil =>
    intro x hx _
    refine ⟨hx, ?_⟩
    intro pre op post h
    simp at h
  | cons op ops ih =>
    intro x hx hs
    obtain ⟨hok, hrest⟩ := hs
    have hx1 : UniformIn P (applyOp x op) := by
      unfold applyOp
      split
      · rename_i r x' he
        exact (step_preserves P hinj x op _ _ hx hok he).2
      · exact hx
    obtain ⟨ih1, ih2⟩ := ih (applyOp x op) hx1 hrest
    refine ⟨by simpa [run] using ih1, ?_⟩
    intro pre op' post hsplit
    cases pre with
    | nil =>
      simp at hsplit
      obtain ⟨rfl, rfl⟩ := hsplit
      refine ⟨hx, ?_, ?_⟩
      · intro r x' he
        have he' : stepRes x op = .ok (r, x') := he
        refine ⟨(step_preserves P hinj x op r x' hx hok he').1, ?_⟩
        simp [run, applyOp, he']
      · intro hne
        have hne' : ∀ r x', stepRes x op ≠ .ok (r, x') := hne
        simp only [run, List.nil_append, List.foldl_cons, List.foldl_nil]
        unfold applyOp
        split
        · rename_i r x' he; exact absurd he (hne' r x')
        · rfl
    | cons p pre' =>
      simp at hsplit
      obtain ⟨rfl, hsplit⟩ := hsplit
      have := ih2 pre' op' post hsplit
      simpa [run] using this

/-- the hypotheses are satisfiable: one declaration in play, a three-step run (append a tuple, replace
it, delete out of range = rejected) -/
def declIS : List Ty := [Ty.int, Ty.str]
def onlyIS (d : List Ty) : Bool := d == declIS
theorem inj_onlyIS : Inj onlyIS := by
  intro d1 d2 h1 h2 _
  simp [onlyIS] at h1 h2
  rw [h1, h2]

def tIS (i : Int64) : Val := .tup declIS [.int i, .str [97]]
def exOps : List Op := [.mem .concat [tIS 1], .mem .put [.int 0, tIS 3], .mem .delete [.int 5]]
def exTab : Val := .tab (makeTupleTy declIS 1) declIS []

theorem exOps_safe : ∀ x, Safe onlyIS x exOps := by
  intro x
  have lb : ∀ t (i : Int64), KF.levelBug t (tIS i) = false := by
    intro t i; simp [KF.levelBug, tIS, Val.type, makeTupleTy_major]
  refine ⟨⟨?_, ?_⟩, ⟨?_, ?_⟩, ⟨?_, ?_⟩, trivial⟩
  · intro a ha; simp at ha; subst ha; decide
  · intro t d es a _ he; simp [KF.elemArg] at he; subst he; exact lb t 1
  · intro a ha; simp at ha; rcases ha with rfl | rfl <;> decide
  · intro t d es a _ he; simp [KF.elemArg] at he; subst he; exact lb t 3
  · intro a ha; simp at ha; subst ha; decide
  · intro t d es a _ he; simp [KF.elemArg] at he

example : UniformIn onlyIS exTab ∧ Safe onlyIS exTab exOps ∧
    (run exTab exOps == .tab (makeTupleTy declIS 1) declIS [tIS 3]) = true :=
  ⟨by decide, exOps_safe exTab, by decide⟩

/-- the hypotheses are also satisfiable by a run whose steps give a typed null of the other numeric type
(the cells repaired by 9e8652f): `t = tab(1, 0); t.put(0, num()); t.concat(num());` ends as `Ti1[N:i0,N:i0]` -/
def nullOps : List Op := [.mem .put [.int 0, .null Ty.num], .mem .concat [.null Ty.num]]

theorem nullOps_safe : Safe onlyIS (ti1 [.int 0]) nullOps := by
  have lb : ∀ es t d es' a, ti1 es = .tab t d es' → a = .null Ty.num → KF.levelBug t a = false := by
    intro es t d es' a hx ha
    simp [ti1] at hx
    subst ha
    rw [← hx.1]; decide
  refine ⟨⟨?_, ?_⟩, ⟨?_, ?_⟩, trivial⟩
  · intro a ha; simp at ha; rcases ha with rfl | rfl <;> decide
  · intro t d es a hx he; simp [KF.elemArg] at he; exact lb _ t d es a hx he.symm
  · intro a ha; simp at ha; subst ha; decide
  · intro t d es a hx he; simp [KF.elemArg] at he
    have e : applyOp (ti1 [.int 0]) (.mem .put [.int 0, .null Ty.num]) = ti1 [.null Ty.int] := by rfl
    rw [e] at hx; exact lb _ t d es a hx he.symm

example : UniformIn onlyIS (ti1 [.int 0]) ∧ Safe onlyIS (ti1 [.int 0]) nullOps ∧
    (run (ti1 [.int 0]) nullOps == ti1 [.null Ty.int, .null Ty.int]) = true ∧
    UniformIn onlyIS (run (ti1 [.int 0]) nullOps) :=
  ⟨by decide, nullOps_safe, by decide, (uniform_preserved_partial onlyIS inj_onlyIS nullOps _ (by decide) nullOps_safe).1⟩

/-- The unrestricted statement is false: a uniform start and uniform arguments do not suffice
(witnesses: hash collision; level mixing). -/
theorem uniform_preserved_fails :
    ¬ (∀ (ops : List Op) (x : Val), Uniform x → (∀ m args, Op.mem m args ∈ ops → ∀ a ∈ args, Uniform a) →
        Uniform (run x ops)) := by
  intro h
  have := h [.mem .put [.int 0, tB]] tabA (by decide) (by
    intro m args hm a ha
    simp at hm
    obtain ⟨_, rfl⟩ := hm
    simp at ha
    rcases ha with rfl | rfl <;> decide)
  revert this
  decide

/-! ### index contracts -/

/-- `t.at(p)` for every position value `p`: the element for an integer 0 ≤ p < n, the index error for a
null or out-of-range position, a refusal for anything that is not an integer. -/
theorem at_index_contract (P) (t : Ty) (d : List Ty) (es : List Val) (p : Val) (hp : uniformP P p = true) :
    Sat (mAt (.tab t d es) p) (Spec.tabAt (.tab t d es) es p) := by
  unfold mAt Spec.tabAt
  have hr : (Val.tab t d es).isNull = false := rfl
  rcases asInt_of_pos P p es.length hp with ⟨i, rfl, hn, hi, hs⟩ | ⟨hn, hs⟩ | ⟨hn, hi, hs⟩
  · rw [hs]
    simp only [Val.isNull, Bool.or_self, Bool.false_eq_true, ↓reduceIte, hi, inRange, idxOf]
    by_cases hr : 0 ≤ i.toInt ∧ i.toInt < (es.length : Int)
    · simp only [hr, and_self, decide_true, ↓reduceIte]
      cases he : es[i.toInt.toNat]? <;> simp [Sat, idxErr]
    · simp [hr, Sat, idxErr]
  · rw [hs]; simp [hn, hr, Sat, idxErr]
  · rw [hs]; simp [hn, hi, hr, Sat]

theorem listDel_eq_eraseIdx {α} (l : List α) (n : Nat) : listDel l n = l.eraseIdx n := by
  unfold listDel; rw [List.eraseIdx_eq_take_drop_succ]

/-- `t.delete(p)` for every position value. -/
theorem delete_index_contract (P) (t : Ty) (d : List Ty) (es : List Val) (p : Val) (c : Bool) (hp : uniformP P p = true) :
    Sat (mDelete (.tab t d es) p c) (Spec.tabDelete t d es p) := by
  unfold mDelete Spec.tabDelete
  have hr : (Val.tab t d es).isNull = false := rfl
  rcases asInt_of_pos P p es.length hp with ⟨i, rfl, hn, hi, hs⟩ | ⟨hn, hs⟩ | ⟨hn, hi, hs⟩
  · rw [hs]
    simp only [Val.isNull, Bool.or_self, Bool.false_eq_true, ↓reduceIte, hi, inRange, idxOf]
    by_cases hr : 0 ≤ i.toInt ∧ i.toInt < (es.length : Int)
    · simp [hr, Sat, listDel_eq_eraseIdx]
    · simp [hr, Sat, idxErr]
  · rw [hs]; simp [hn, hr, Sat, idxErr]
  · rw [hs]; simp [hn, hi, hr, Sat]

/-- `t.put(p, x)`: whatever the element, a position that is not an integer in 0 ≤ p < n is refused as the
Spec says (index error for null / out of range). -/
theorem put_index_contract (P) (t : Ty) (d : List Ty) (es : List Val) (p x : Val) (c : Bool) (e : SErr)
    (hp : uniformP P p = true) (hpos : Spec.pos p es.length = .error e) :
    Sat (mPut (.tab t d es) p x c) (.reject e) := by
  unfold mPut
  have hr : (Val.tab t d es).isNull = false := rfl
  rcases asInt_of_pos P p es.length hp with ⟨i, rfl, hn, hi, hs⟩ | ⟨hn, hs⟩ | ⟨hn, hi, hs⟩
  · rw [hs] at hpos
    by_cases hr' : 0 ≤ i.toInt ∧ i.toInt < (es.length : Int)
    · simp [hr'] at hpos
    · simp [hr'] at hpos; subst hpos
      simp [Val.isNull, hi, inRange, hr', Sat, idxErr]
  · rw [hs] at hpos; simp at hpos; subst hpos; simp [hn, hr, Sat, idxErr]
  · rw [hs] at hpos; simp at hpos; subst hpos; simp [hn, hi, hr, Sat]

/-- `t.insert(p, x)`: positions are 0 ≤ p ≤ n. -/
theorem insert_index_contract (P) (t : Ty) (d : List Ty) (es : List Val) (p x : Val) (c : Bool) (e : SErr)
    (hp : uniformP P p = true) (hpos : Spec.pos p (es.length + 1) = .error e) :
    Sat (mInsert (.tab t d es) p x c) (.reject e) := by
  unfold mInsert
  have hr : (Val.tab t d es).isNull = false := rfl
  rcases asInt_of_pos P p (es.length + 1) hp with ⟨i, rfl, hn, hi, _⟩ | ⟨hn, hs⟩ | ⟨hn, hi, hs⟩
  · simp only [Spec.pos] at hpos
    split at hpos
    · simp at hpos
    · rename_i hc
      simp at hpos; subst hpos
      have : ¬(0 ≤ i.toInt ∧ i.toInt ≤ (es.length : Int)) := by
        intro h2; apply hc; push_cast; omega
      simp [Val.isNull, hi, inRangeIns, this, Sat, idxErr]
  · rw [hs] at hpos; simp at hpos; subst hpos; simp [hn, hr, Sat, idxErr]
  · rw [hs] at hpos; simp at hpos; subst hpos; simp [hn, hi, hr, Sat]

/-- strings: `s.at(p)` for every position value. -/
theorem str_at_index_contract (P) (s : Bytes) (p : Val) (hp : uniformP P p = true) :
    Sat (mAt (.str s) p) (Spec.seqAt (.str s) s p) := by
  unfold mAt Spec.seqAt
  have hr : (Val.str s).isNull = false := rfl
  rcases asInt_of_pos P p s.length hp with ⟨i, rfl, hn, hi, hs⟩ | ⟨hn, hs⟩ | ⟨hn, hi, hs⟩
  · rw [hs]
    simp only [Val.isNull, Bool.or_self, Bool.false_eq_true, ↓reduceIte, hi, inRange, idxOf]
    by_cases hr : 0 ≤ i.toInt ∧ i.toInt < (s.length : Int)
    · simp only [hr, and_self, decide_true, ↓reduceIte]
      cases he : s[i.toInt.toNat]? <;> simp [Sat, idxErr, intOfByte]
    · simp [hr, Sat, idxErr]
  · rw [hs]; simp [hn, hr, Sat, idxErr]
  · rw [hs]; simp [hn, hi, hr, Sat]

theorem itemNo_small (rank : Nat) (hr : rank < 4294967296) : itemNo rank = .ok rank := by
  unfold itemNo
  have e32 : (2:Nat) ^ 32 = 4294967296 := by decide
  rw [e32]
  have h1 : ¬ rank ≥ 4294967296 := by omega
  rw [if_neg h1]

theorem itemIndex_small (rank : Nat) (h1 : 1 ≤ rank) (hr : rank < 4294967296) : itemIndex rank = rank - 1 := by
  unfold itemIndex
  have e32 : (2:Nat) ^ 32 = 4294967296 := by decide
  rw [e32]
  omega

theorem itemIndex_zero : itemIndex 0 = 4294967295 := by
  unfold itemIndex
  have e32 : (2:Nat) ^ 32 = 4294967296 := by decide
  rw [e32]

/-- tuples: `u@rank` reads item `rank` (index rank − 1) for 1 ≤ rank ≤ n and raises the index error for every
other index; with `itemNo_small` / `itemIndex_small` / `itemIndex_zero`: for every rank below 2^32 (rank 0 wraps to
index 2^32 − 1, which no tuple has). Ranks ≥ 2^32 are refused at compile time (`acceptItem`). -/
theorem item_index_contract (decl : List Ty) (items : List Val) (hlen : decl.length = items.length) :
    (∀ idx, idx < items.length → ∃ v, items[idx]? = some v ∧ itemAtV (.tup decl items) idx = .ok v) ∧
    (∀ idx, ¬ idx < items.length → itemAtV (.tup decl items) idx = idxErr) := by
  constructor
  · intro idx h
    refine ⟨items[idx], by simp [h], ?_⟩
    simp [itemAtV, Val.isNull, hlen, h]
  · intro idx h
    simp [itemAtV, Val.isNull, hlen, h]

/-! ### tuples keep their structure -/

/-- **tuple_structure_fixed**: a successful `u.set@rank(x)` returns the tuple itself with the declaration
it was created with, the same number of items, every item of its declared type; a rejected call
changes nothing (`applyOp`). -/
theorem tuple_structure_fixed (P) (decl : List Ty) (items : List Val) (rank : Nat) (x r u' : Val)
    (hu : UniformIn P (.tup decl items)) (hx : UniformIn P x)
    (h : stepRes (.tup decl items) (.set rank x) = .ok (r, u')) :
    r = u' ∧ UniformIn P u' ∧ ∃ items', u' = .tup decl items' ∧ items'.length = items.length ∧
      items'.map Val.type = decl := by
  have h' : (match itemNo rank with
      | .ok no => setItemV (.tup decl items) (itemIndex no) x
      | .err c e => .err c e
      | .haz h => .haz h
      | .unmodelled => .unmodelled) = Res.ok (r, u') := h
  split at h'
  · obtain ⟨h1, h2, d, it, it', he, he', hl, hm⟩ := setItemV_preserves P _ _ x r u' hu hx h'
    injection he with hd hi
    subst hd; subst hi
    exact ⟨h1, h2, it', he', hl, hm⟩
  all_goals simp at h'

example : (match stepRes (tIS 1) (.set 1 (.int 9)) with | .ok (r, u) => r == tIS 9 && u == tIS 9 | _ => false) = true := by decide
example : (match stepRes (tIS 1) (.set 2 (.int 9)) with | .err c _ => c == Gen.EXC_RT_TYPE_MISMATCH_S | _ => false) = true := by decide
example : (match stepRes (tIS 1) (.set 3 (.int 9)) with | .err c _ => c == Gen.EXC_RT_INDEX_RANGE_S | _ => false) = true := by decide

/-! ### forall -/

theorem forallTrace_asc (n : Nat) : ∀ (k i : Nat), i + k = n → 0 < k →
    forallTrace false n (k + 1) (some i) = List.range' i k := by
  intro k
  induction k with
  | zero => intro i _ h; omega
  | succ k ih =>
    intro i hik _
    by_cases hk : k = 0
    · subst hk
      have : ¬ i + 1 < n := by omega
      simp [forallTrace, forallNext, this, List.range']
    · have hlt : i + 1 < n := by omega
      have := ih (i + 1) (by omega) (by omega)
      simp [forallTrace, forallNext, hlt, List.range'] at this ⊢
      exact this

theorem forallTrace_desc (n : Nat) : ∀ (i : Nat), i < n →
    forallTrace true n (i + 2) (some i) = (List.range (i + 1)).reverse := by
  intro i
  induction i with
  | zero => intro _; simp [forallTrace, forallNext]
  | succ i ih =>
    intro hi
    have h1 : i < n := by omega
    have := ih h1
    rw [List.range_succ, List.reverse_append]
    simp only [forallTrace, forallNext, ↓reduceIte, Nat.add_sub_cancel, h1]
    simp [this]

/-- **forall_visits_once_in_order**: running the loop header of FORALLStatement (`first`, then
`index += step` until the index leaves 0..n-1) over a table whose length stays n visits
0,1,…,n-1 (asc/auto) resp. n-1,…,0 (desc): every element once, in order. -/
theorem forall_visits_once_in_order (desc : Bool) (n : Nat) :
    forallTrace desc n (n + 1) (forallFirst desc n) = forallOrder desc n ∧
    (forallOrder desc n).Nodup ∧ (∀ i, i ∈ forallOrder desc n ↔ i < n) := by
  refine ⟨?_, ?_, ?_⟩
  · by_cases hn : n = 0
    · subst hn; cases desc <;> simp [forallFirst, forallTrace, forallOrder]
    · cases desc with
      | false =>
        have := forallTrace_asc n n 0 (by omega) (by omega)
        simp [forallFirst, hn, forallOrder, this, List.range_eq_range']
      | true =>
        have := forallTrace_desc n (n - 1) (by omega)
        have e : n - 1 + 2 = n + 1 := by omega
        have e2 : n - 1 + 1 = n := by omega
        rw [e, e2] at this
        simp [forallFirst, hn, forallOrder, this]
  · cases desc with
    | false => simp [forallOrder, List.nodup_range]
    | true =>
      show List.Pairwise (· ≠ ·) (if true = true then (List.range n).reverse else List.range n)
      simp only [if_true]
      rw [List.pairwise_reverse]
      exact (List.nodup_range (n := n)).imp (fun h => Ne.symm h)
  · intro i; cases desc <;> simp [forallOrder]

/-- **forall_length_fixed** (model level): the only write the body can make to the traversed table —
assignment through the iterator — replaces one element by a value of the same implementation type and
keeps the length. (That every other statement on the locked table is refused is checked on the
implementation: correspondence stream "lock".) -/
theorem forall_length_fixed (t : Ty) (d : List Ty) (es : List Val) (i : Nat) (v tbl' : Val)
    (h : forallStep (.tab t d es) i v = .ok tbl') :
    ∃ es', tbl' = .tab t d es' ∧ es'.length = es.length ∧ ∃ old, es[i]? = some old ∧ v.type = old.type := by
  have h' : (match es[i]? with
      | some old => if v.type != old.type then tyMismatch else .ok (.tab t d (listPut es i v))
      | none => .haz .oob) = Res.ok tbl' := h
  split at h'
  · rename_i old hold
    split at h'
    · simp [tyMismatch] at h'
    · rename_i hty
      simp at h'
      have hlt : i < es.length := by
        rcases Nat.lt_or_ge i es.length with h2 | h2
        · exact h2
        · rw [List.getElem?_eq_none h2] at hold; simp at hold
      exact ⟨_, h'.symm, length_listPut es i v hlt, old, hold, by simpa using hty⟩
  · simp at h'

example : forallTrace true 3 4 (forallFirst true 3) = [2, 1, 0] := by decide

end BlocV.C09
