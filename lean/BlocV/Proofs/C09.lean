/-
  C09 — tables stay uniform, tuples keep their structure, indexing is range-checked.

  Model: Model/Members.lean (the C++ `value()` methods on values). Spec: Spec/Containers.lean.
  Regions of the recorded findings: KF/C09.lean. Helper lemmas: Proofs/Lemmas/Containers.lean.

  The full property is FALSE for the code as it is; the file proves the negation at concrete
  witnesses (`make_type_collision`, `uniform_broken_by_*`), and the `_partial` theorem under
  "the tuple declarations in play hash injectively" + "no call in the level-mixing region".
  The null-pointer dereference of a typed-null element argument in the type-mixing branch of
  put / insert / concat / set@ is repaired (9e8652f): `mix_null_stores_null`, `mix_null_sat_spec`,
  `table_methods_no_hazard` state what the code does there now; the `_partial` theorem covers those calls
  (they succeed and keep the table uniform) without any exclusion.
-/
import BlocV.Proofs.Lemmas.Containers
import BlocV.Proofs.Lemmas.ContainersRefine

namespace BlocV.C09
open BlocV BlocV.Spec

/-! ### the 16-bit structure hash -/

def declA : List Ty := [Ty.bool, Ty.raw, Ty.bool, Ty.bool, Ty.str]
def declB : List Ty := [Ty.num, Ty.int, Ty.bool, Ty.str, Ty.bool]
def declZ : List Ty := [Ty.raw, Ty.raw, Ty.raw, Ty.num, Ty.raw]

/-- Two different declarations with the same tuple type, and a non-empty declaration whose type is
the "opaque" tuple type (minor 0). Proved by evaluation of `TupleDecl::Decl::make_type`. -/
theorem make_type_collision :
    makeTupleTy declA 0 = makeTupleTy declB 0 ∧ declA ≠ declB ∧
    makeTupleTy declZ 0 = { major := .tup, minor := 0, level := 0 } ∧ declZ ≠ [] := by decide

def tA : Val := .tup declA [.bool true, .raw [97], .bool true, .bool true, .str [115]]
def tB : Val := .tup declB [.num 0x3ff8000000000000, .int 2, .bool true, .str [115], .bool true]
def tabA : Val := .tab (makeTupleTy declA 1) declA [tA]

/-- Witness C09.tuple.hashCollision: from a uniform table and a uniform tuple, `put` succeeds and the
table is no longer uniform. -/
theorem uniform_broken_by_collision :
    uniform tabA = true ∧ uniform tB = true ∧
    (match memberCall .put tabA [.int 0, tB] false with
      | .ok (_, x') => !uniform x'
      | _ => false) = true := by decide

def tabI2 : Val := .tab { major := .int, level := 2 } [] [.tab { major := .int, level := 1 } [] [.int 1]]

/-- Witness C09.mix.level: `tab(1, tab(1, 1)).insert(0, null)` stores an integer null of level 0 in
a table of tables. -/
theorem uniform_broken_by_level_mixing :
    uniform tabI2 = true ∧
    (match memberCall .insert tabI2 [.int 0, .null Ty.none] false with
      | .ok (_, x') => !uniform x'
      | _ => false) = true := by decide

/-- (repaired upstream, 9e8652f; was `hazard nullDeref`) a typed-null decimal put into an integer table is
stored as a null integer. The general statement is `mix_null_stores_null` below. -/
example : memberCall .put (.tab { major := .int, level := 1 } [] [.int 0]) [.int 0, .null Ty.num] false =
    .ok (.tab { major := .int, level := 1 } [] [.null Ty.int], .tab { major := .int, level := 1 } [] [.null Ty.int]) := by rfl
/-- Witness C09.tuple.hashZero: the tab constructor refuses the tuple whose declaration hashes to 0. -/
example : (match biTab (m := Res) [.ok (.int 1), .ok (.tup declZ [.raw [], .raw [], .raw [], .num 0, .raw []])] with
    | .err c _ => c == Gen.EXC_RT_COMPOUND_OPAQUE | _ => false) = true := by decide
/-- (repaired upstream, 7b31e38) a rank above 2^32 − 1 is refused at compile time. -/
example : acceptItem (makeTupleTy [Ty.int] 0) 4294967297 = some Gen.EXC_PARSE_OUT_OF_INDICE := by decide

/-! ### a typed null of the other numeric type (repair 9e8652f) -/

/-- **mix_null_stores_null**. A scalar typed null of the OTHER numeric type (a NULL decimal for an
integer container, a NULL integer for a decimal one: `crossNum`) is stored as the null of the container's
own major (`numNull`: `Value(Value::type_integer)` / `Value(Value::type_numeric)`), by all four methods:
`put` replaces the element at an in-range position, `insert` adds it at a position 0 ≤ p ≤ n, `concat`
appends it, `set@` replaces the item — the result is the receiver itself. For a table of one dimension
and for a tuple item that null has exactly the element type (`numNull_elem_type`); the table's LEVEL is
still not consulted (C09.mix.level: see the last example). -/
theorem mix_null_stores_null :
    (∀ (t nt : Ty) (d : List Ty) (es : List Val) (p : Int64) (c : Bool),
      crossNum t.major nt.major = true → nt.level = 0 →
      (inRange p es.length = true →
        mPut (.tab t d es) (.int p) (.null nt) c =
          .ok (.tab t d (listPut es (idxOf p) (numNull t.major)), .tab t d (listPut es (idxOf p) (numNull t.major)))) ∧
      (inRangeIns p es.length = true →
        mInsert (.tab t d es) (.int p) (.null nt) c =
          .ok (.tab t d (listIns es (idxOf p) [numNull t.major]), .tab t d (listIns es (idxOf p) [numNull t.major]))) ∧
      (t.level > 0 →
        mConcat (.tab t d es) (.null nt) c =
          .ok (.tab t d (es ++ [numNull t.major]), .tab t d (es ++ [numNull t.major])))) ∧
    (∀ (decl : List Ty) (items : List Val) (idx : Nat) (dt nt : Ty) (old : Val),
      decl[idx]? = some dt → items[idx]? = some old → crossNum dt.major nt.major = true → nt.level = 0 →
      setItemV (.tup decl items) idx (.null nt) =
        .ok (.tup decl (listPut items idx (numNull dt.major)), .tup decl (listPut items idx (numNull dt.major)))) := by
  refine ⟨?_, ?_⟩
  · intro t nt d es p c hc hl
    refine ⟨?_, ?_, ?_⟩
    · intro hp
      have hlt : idxOf p < es.length := by
        unfold inRange at hp; unfold idxOf; simp at hp; omega
      have hsome : es[idxOf p]? = some es[idxOf p] := by simp [hlt]
      unfold mPut
      simp only [Val.isNull, Bool.or_self, Bool.false_eq_true, ↓reduceIte]
      have e : (Val.int p).asInt = .ok p := rfl
      rw [e]
      simp only [hp, Bool.not_true, Bool.false_eq_true, ↓reduceIte, hsome,
        classify_null_cross .put t nt _ hc hl]
    · intro hp
      unfold mInsert
      simp only [Val.isNull, Bool.or_self, Bool.false_eq_true, ↓reduceIte]
      have e : (Val.int p).asInt = .ok p := rfl
      rw [e]
      simp only [hp, Bool.not_true, Bool.false_eq_true, ↓reduceIte,
        classify_null_cross .insert t nt _ hc hl]
    · intro hlev
      unfold mConcat
      have : (Val.tab t d es).type.level > 0 := hlev
      simp only [this, ↓reduceIte, classify_null_cross .concat t nt _ hc hl]
  · intro decl items idx dt nt old hdt hold hc hl
    have hne : dt ≠ nt := by
      intro e; subst e
      unfold crossNum at hc
      simp only [Bool.or_eq_true, Bool.and_eq_true, beq_iff_eq] at hc
      rcases hc with ⟨h1, h2⟩ | ⟨h1, h2⟩ <;> rw [h1] at h2 <;> simp at h2
    have hlt : idx < decl.length := by
      rcases Nat.lt_or_ge idx decl.length with h | h
      · exact h
      · rw [List.getElem?_eq_none h] at hdt; simp at hdt
    unfold setItemV
    simp only [Val.isNull, Bool.false_eq_true, ↓reduceIte, Val.type, hl, bne_self_eq_false, hlt, hdt, hold]
    have : (dt == nt) = false := by simpa using hne
    simp only [this, Bool.false_eq_true, ↓reduceIte, mixItem_null_cross dt nt _ hc]

/-- non-vacuity, all four methods and both directions, as member calls / statements: `Ti1[0].put(0, num())`,
`Ti1[0].insert(1, num())`, `Ti1[0].concat(num())`, `Td1[1.5].put(0, int())`, `tup(1, "a").set@1(num())`,
`tup(1.5, 2).set@1(int())` -/
example : crossNum .int .num = true ∧ crossNum .num .int = true ∧ crossNum .int .int = false ∧
    crossNum .int .none = false ∧ crossNum .str .int = false := by decide
def ti1 (es : List Val) : Val := .tab { major := .int, level := 1 } [] es
def td1 (es : List Val) : Val := .tab { major := .num, level := 1 } [] es
example : memberCall .put (ti1 [.int 0]) [.int 0, .null Ty.num] false = .ok (ti1 [.null Ty.int], ti1 [.null Ty.int]) := by rfl
example : memberCall .insert (ti1 [.int 0]) [.int 1, .null Ty.num] false =
    .ok (ti1 [.int 0, .null Ty.int], ti1 [.int 0, .null Ty.int]) := by rfl
example : memberCall .concat (ti1 [.int 0]) [.null Ty.num] false =
    .ok (ti1 [.int 0, .null Ty.int], ti1 [.int 0, .null Ty.int]) := by rfl
example : memberCall .put (td1 [.num 0x3ff8000000000000]) [.int 0, .null Ty.int] false =
    .ok (td1 [.null Ty.num], td1 [.null Ty.num]) := by rfl
example : memberCall .concat (td1 []) [.null Ty.int] false = .ok (td1 [.null Ty.num], td1 [.null Ty.num]) := by rfl
example : setItemV (.tup [Ty.int, Ty.str] [.int 1, .str [97]]) 0 (.null Ty.num) =
    .ok (.tup [Ty.int, Ty.str] [.null Ty.int, .str [97]], .tup [Ty.int, Ty.str] [.null Ty.int, .str [97]]) := by rfl
example : setItemV (.tup [Ty.num, Ty.int] [.num 0x3ff8000000000000, .int 2]) 0 (.null Ty.int) =
    .ok (.tup [Ty.num, Ty.int] [.null Ty.num, .int 2], .tup [Ty.num, Ty.int] [.null Ty.num, .int 2]) := by rfl
/-- the stored null has the element type of a one-dimensional table, and the results above are uniform -/
example : (numNull .int).type = ({ major := .int, level := 1 } : Ty).levelDown ∧
    uniform (ti1 [.int 0, .null Ty.int]) = true ∧ uniform (td1 [.null Ty.num]) = true := by decide
/-- an out-of-range position still wins over the element (index error), a null TABLE of the other type is
still refused / ignored: the repair changed the dereferencing cell only -/
example : (match memberCall .put (ti1 [.int 0]) [.int 1, .null Ty.num] false with
    | .err c _ => c == Gen.EXC_RT_INDEX_RANGE_S | _ => false) = true := by decide
example : (match memberCall .put (ti1 [.int 0]) [.int 0, .null { major := .num, level := 1 }] false with
    | .err c _ => c == Gen.EXC_RT_TYPE_MISMATCH_S | _ => false) = true := by decide
/-- C09.mix.level stays: `Ti2[].insert(0, num())` yields `Ti2[N:i0]` — a level-0 null integer in a table of
tables (inside `KF.levelBug`, not uniform). -/
example : memberCall .insert (.tab { major := .int, level := 2 } [] []) [.int 0, .null Ty.num] false =
      .ok (.tab { major := .int, level := 2 } [] [.null Ty.int], .tab { major := .int, level := 2 } [] [.null Ty.int]) ∧
    KF.levelBug { major := .int, level := 2 } (.null Ty.num) = true ∧
    uniform (.tab { major := .int, level := 2 } [] [.null Ty.int]) = false := ⟨by rfl, by decide, by decide⟩

/-- **mix_null_sat_spec**. On a one-dimensional integer / decimal table the repaired
`put` of a scalar typed null of the other numeric type does what the specification allows at EVERY
integer position: the null of the element type is stored (Spec: `either`, int↔decimal mixing is
UNDETERMINED BY DOCUMENTATION) or the index error is raised. -/
theorem mix_null_sat_spec (t nt : Ty) (es : List Val) (p : Int64) (c : Bool)
    (hl1 : t.level = 1) (hc : crossNum t.major nt.major = true) (hl : nt.level = 0) :
    Sat (mPut (.tab t [] es) (.int p) (.null nt) c) (Spec.tabPut t [] es (.int p) (.null nt)) := by
  have hcc := hc
  unfold crossNum at hcc
  simp only [Bool.or_eq_true, Bool.and_eq_true, beq_iff_eq] at hcc
  have hnt : t.major ≠ .tup := by rcases hcc with ⟨h1, _⟩ | ⟨h1, _⟩ <;> rw [h1] <;> simp
  have hmin : normMinor t = 0 := by
    unfold normMinor; rcases hcc with ⟨h1, _⟩ | ⟨h1, _⟩ <;> rw [h1] <;> simp
  have hfit : fit (elemETy t []) (.null nt) = .conv (numNull t.major) := by
    unfold fit elemETy
    rw [mkETy_nontup t [] _ hnt, hl1, hmin]
    have e1 : etyOf (.null nt) = ⟨nt.major, normMinor nt, [], 0⟩ := by
      show mkETy nt [] nt.level = _
      rw [mkETy_nil, hl]
    rcases hcc with ⟨h1, h2⟩ | ⟨h1, h2⟩
    · rw [e1, h1, h2]; simp [isUntypedNull, h2, hl, numNull, Ty.int]
    · rw [e1, h1, h2]; simp [isUntypedNull, h2, hl, numNull, Ty.num]
  unfold Spec.tabPut
  by_cases hr : 0 ≤ p.toInt ∧ p.toInt < (es.length : Int)
  · have hp : inRange p es.length = true := by simp [inRange, hr]
    have hlt : idxOf p < es.length := by unfold idxOf; omega
    rw [(mix_null_stores_null.1 t nt [] es p c hc hl).1 hp]
    simp only [Spec.pos, hr, and_self, ↓reduceIte, hfit]
    left
    rw [listPut_eq_set es (idxOf p) _ hlt]; rfl
  · have hp : inRange p es.length = false := by simp [inRange, hr]
    simp only [Spec.pos, hr, ↓reduceIte, Sat]
    unfold mPut
    have e : (Val.int p).asInt = .ok p := rfl
    simp [Val.isNull, e, hp, idxErr]

/-- the hypotheses are satisfiable (both directions), and what the Spec says at such an input -/
example : Sat (mPut (ti1 [.int 0]) (.int 0) (.null Ty.num) false)
      (Spec.tabPut { major := .int, level := 1 } [] [.int 0] (.int 0) (.null Ty.num)) ∧
    Sat (mPut (td1 []) (.int 0) (.null Ty.int) false)
      (Spec.tabPut { major := .num, level := 1 } [] [] (.int 0) (.null Ty.int)) :=
  ⟨mix_null_sat_spec _ Ty.num _ 0 false rfl (by decide) rfl, mix_null_sat_spec _ Ty.int _ 0 false rfl (by decide) rfl⟩
example : Spec.tabPut { major := .int, level := 1 } [] [.int 0] (.int 0) (.null Ty.num) =
    .either (ti1 [.null Ty.int]) (ti1 [.null Ty.int]) := by
  simp [Spec.tabPut, Spec.pos, fit, elemETy, mkETy, etyOf, normMinor, isUntypedNull, Ty.num, Ty.int, Val.type, ti1]

/-- **table_methods_no_hazard**. After the repair no C-level hazard is left in `put`, `insert`, `concat` on a
table receiver: for every table, every position value and every element argument that is not a malformed
table (`WfArg`: a `Collection` carries a table type), the outcome is a value or a BLOC error. -/
theorem table_methods_no_hazard (t : Ty) (d : List Ty) (es : List Val) (a0 a1 : Val) (c : Bool)
    (h0 : WfArg a0) (h1 : WfArg a1) :
    (mPut (.tab t d es) a0 a1 c).isHazard = false ∧
    (mInsert (.tab t d es) a0 a1 c).isHazard = false ∧
    (t.level > 0 → (mConcat (.tab t d es) a1 c).isHazard = false) := by
  have pos : a0.isNull = false → (∃ i, a0.asInt = .ok i) ∨ (∃ k x, a0.asInt = .err k x) := by
    intro hn
    unfold Val.asInt
    split
    · right; exact ⟨_, _, rfl⟩
    · rename_i hty
      simp only [bne_iff_ne, ne_eq, Bool.or_eq_true, not_or, Decidable.not_not] at hty
      obtain ⟨i, rfl⟩ := nonnull_int a0 h0 hn hty.1 hty.2
      left; exact ⟨i, rfl⟩
  refine ⟨?_, ?_, ?_⟩
  · unfold mPut
    cases hn : a0.isNull with
    | true => simp [Val.isNull, idxErr, Res.isHazard]
    | false =>
      simp only [Val.isNull, Bool.or_false, Bool.false_eq_true, ↓reduceIte]
      rcases pos hn with ⟨i, hi⟩ | ⟨k, x, hi⟩
      · rw [hi]
        simp only
        split
        · rfl
        · split
          · rfl
          · rename_i old _
            have := classify_no_hazard .put t a1 old.type h1
            revert this
            cases classify .put t a1 old.type with
            | ok s => intro _; cases s <;> rfl
            | _ => simp [Res.isHazard]
      · rw [hi]; rfl
  · unfold mInsert
    cases hn : a0.isNull with
    | true => simp [Val.isNull, idxErr, Res.isHazard]
    | false =>
      simp only [Val.isNull, Bool.or_false, Bool.false_eq_true, ↓reduceIte]
      rcases pos hn with ⟨i, hi⟩ | ⟨k, x, hi⟩
      · rw [hi]
        simp only
        split
        · rfl
        · have := classify_no_hazard .insert t a1 t.levelDown h1
          revert this
          cases classify .insert t a1 t.levelDown with
          | ok s => intro _; cases s <;> rfl
          | _ => simp [Res.isHazard]
      · rw [hi]; rfl
  · intro hlev
    unfold mConcat
    have : (Val.tab t d es).type.level > 0 := hlev
    simp only [this, ↓reduceIte]
    have := classify_no_hazard .concat t a1 t.levelDown h1
    revert this
    cases classify .concat t a1 t.levelDown with
    | ok s => intro _; cases s <;> rfl
    | _ => simp [Res.isHazard]

example : WfArg (.null Ty.num) ∧ WfArg (.int 0) := ⟨fun _ _ _ h => by simp at h, fun _ _ _ h => by simp at h⟩
example : (memberCall .put (ti1 [.int 0]) [.int 0, .null Ty.num] false).isHazard = false ∧
    (memberCall .insert (td1 []) [.int 0, .null Ty.int] false).isHazard = false := by decide

/-! ### operation sequences -/

inductive Op
  | mem (m : Member) (args : List Val)
  | set (rank : Nat) (arg : Val)

/-- one statement `x.m(args)` / `x.set@rank(arg)` on the variable `x` -/
def stepRes (x : Val) : Op → Res (Val × Val)
  | .mem m args => memberCall m x args false
  | .set rank a =>
    match itemNo rank with
    | .ok no => setItemV x (itemIndex no) a
    | .err c e => .err c e
    | .haz h => .haz h
    | .unmodelled => .unmodelled

/-- the variable after the statement: a call that does not succeed leaves it as it was -/
def applyOp (x : Val) (op : Op) : Val :=
  match stepRes x op with
  | .ok (_, x') => x'
  | _ => x

def run (x : Val) (ops : List Op) : Val := ops.foldl applyOp x

/-- the arguments are uniform values with declarations in `P`, and the call is outside the
level-mixing region C09.mix.level -/
def OpOk (P : List Ty → Bool) (x : Val) : Op → Prop
  | .mem m args => (∀ a ∈ args, uniformP P a = true) ∧
      (∀ t d es a, x = .tab t d es → KF.elemArg m args = some a → KF.levelBug t a = false)
  | .set _ a => uniformP P a = true

/-- `OpOk` along the run -/
def Safe (P : List Ty → Bool) : Val → List Op → Prop
  | _, [] => True
  | x, op :: ops => OpOk P x op ∧ Safe P (applyOp x op) ops

theorem step_preserves (P) (hinj : Inj P) (x : Val) (op : Op) (r x' : Val)
    (hx : uniformP P x = true) (hok : OpOk P x op) (h : stepRes x op = .ok (r, x')) :
    uniformP P r = true ∧ uniformP P x' = true := by
  cases op with
  | mem m args =>
    obtain ⟨hargs, hreg⟩ := hok
    have h' : memberCall m x args false = .ok (r, x') := h
    unfold memberCall at h'
    split at h'
    · exact mAt_preserves P x _ r x' hx h'
    · rename_i a0 a1
      exact mPut_preserves P hinj x a0 a1 false r x' hx (hargs a1 (by simp))
        (fun t d es he => hreg t d es a1 he rfl) h'
    · rename_i a0 a1
      exact mInsert_preserves P hinj x a0 a1 false r x' hx (hargs a1 (by simp))
        (fun t d es he => hreg t d es a1 he rfl) h'
    · exact mDelete_preserves P x _ false r x' hx h'
    · rename_i a0
      exact mConcat_preserves P hinj x a0 false r x' hx (hargs a0 (by simp))
        (fun t d es he => hreg t d es a0 he rfl) h'
    · exact mCount_preserves P x r x' hx h'
    · simp at h'
  | set rank a =>
    have h' : (match itemNo rank with
      | .ok no => setItemV x (itemIndex no) a
      | .err c e => .err c e
      | .haz h => .haz h
      | .unmodelled => .unmodelled) = Res.ok (r, x') := h
    split at h'
    · obtain ⟨h1, h2, _⟩ := setItemV_preserves P x _ a r x' hx hok h'
      exact ⟨by rw [h1]; exact h2, h2⟩
    all_goals simp at h'

/-- **uniform_preserved (partial)**. For every sequence of member calls and `set@` on a variable that
starts uniform, with uniform arguments, when the tuple declarations in play (`P`) hash injectively
and no call lies in the level-mixing region: after every step the variable is uniform, every value
returned by a successful step is uniform, and a step that is rejected leaves the variable unchanged.
(No exclusion is needed for typed-null element arguments: since 9e8652f a NULL decimal / integer given for
an integer / decimal table or item is a successful step that stores the null of the element type —
`mix_null_stores_null`; see `nullOps_safe` for such a run.) -/
theorem uniform_preserved_partial (P : List Ty → Bool) (hinj : Inj P) :
    ∀ (ops : List Op) (x : Val), UniformIn P x → Safe P x ops →
      UniformIn P (run x ops) ∧
      (∀ (pre : List Op) (op : Op) (post : List Op), ops = pre ++ op :: post →
        UniformIn P (run x pre) ∧
        (∀ r x', stepRes (run x pre) op = .ok (r, x') → UniformIn P r ∧ run x (pre ++ [op]) = x') ∧
        ((∀ r x', stepRes (run x pre) op ≠ .ok (r, x')) → run x (pre ++ [op]) = run x pre)) := by
  intro ops
  induction ops with
  | nil =>
    intro x hx _
    refine ⟨hx, ?_⟩
    intro pre op post h
    simp at h
  | cons op ops ih =>
    intro x hx hs
    obtain ⟨hok, hrest⟩ := hs
    have hx1 : UniformIn P (applyOp x op) := by
      unfold applyOp
      split
      · rename_i r x' he
        exact (step_preserves P hinj x op _ _ hx hok he).2
      · exact hx
    obtain ⟨ih1, ih2⟩ := ih (applyOp x op) hx1 hrest
    refine ⟨by simpa [run] using ih1, ?_⟩
    intro pre op' post hsplit
    cases pre with
    | nil =>
      simp at hsplit
      obtain ⟨rfl, rfl⟩ := hsplit
      refine ⟨hx, ?_, ?_⟩
      · intro r x' he
        have he' : stepRes x op = .ok (r, x') := he
        refine ⟨(step_preserves P hinj x op r x' hx hok he').1, ?_⟩
        simp [run, applyOp, he']
      · intro hne
        have hne' : ∀ r x', stepRes x op ≠ .ok (r, x') := hne
        simp only [run, List.nil_append, List.foldl_cons, List.foldl_nil]
        unfold applyOp
        split
        · rename_i r x' he; exact absurd he (hne' r x')
        · rfl
    | cons p pre' =>
      simp at hsplit
      obtain ⟨rfl, hsplit⟩ := hsplit
      have := ih2 pre' op' post hsplit
      simpa [run] using this

/-- the hypotheses are satisfiable: one declaration in play, a three-step run (append a tuple, replace
it, delete out of range = rejected) -/
def declIS : List Ty := [Ty.int, Ty.str]
def onlyIS (d : List Ty) : Bool := d == declIS
theorem inj_onlyIS : Inj onlyIS := by
  intro d1 d2 h1 h2 _
  simp [onlyIS] at h1 h2
  rw [h1, h2]

def tIS (i : Int64) : Val := .tup declIS [.int i, .str [97]]
def exOps : List Op := [.mem .concat [tIS 1], .mem .put [.int 0, tIS 3], .mem .delete [.int 5]]
def exTab : Val := .tab (makeTupleTy declIS 1) declIS []

theorem exOps_safe : ∀ x, Safe onlyIS x exOps := by
  intro x
  have lb : ∀ t (i : Int64), KF.levelBug t (tIS i) = false := by
    intro t i; simp [KF.levelBug, tIS, Val.type, makeTupleTy_major]
  refine ⟨⟨?_, ?_⟩, ⟨?_, ?_⟩, ⟨?_, ?_⟩, trivial⟩
  · intro a ha; simp at ha; subst ha; decide
  · intro t d es a _ he; simp [KF.elemArg] at he; subst he; exact lb t 1
  · intro a ha; simp at ha; rcases ha with rfl | rfl <;> decide
  · intro t d es a _ he; simp [KF.elemArg] at he; subst he; exact lb t 3
  · intro a ha; simp at ha; subst ha; decide
  · intro t d es a _ he; simp [KF.elemArg] at he

example : UniformIn onlyIS exTab ∧ Safe onlyIS exTab exOps ∧
    (run exTab exOps == .tab (makeTupleTy declIS 1) declIS [tIS 3]) = true :=
  ⟨by decide, exOps_safe exTab, by decide⟩

/-- the hypotheses are also satisfiable by a run whose steps give a typed null of the other numeric type
(the cells repaired by 9e8652f): `t = tab(1, 0); t.put(0, num()); t.concat(num());` ends as `Ti1[N:i0,N:i0]` -/
def nullOps : List Op := [.mem .put [.int 0, .null Ty.num], .mem .concat [.null Ty.num]]

theorem nullOps_safe : Safe onlyIS (ti1 [.int 0]) nullOps := by
  have lb : ∀ es t d es' a, ti1 es = .tab t d es' → a = .null Ty.num → KF.levelBug t a = false := by
    intro es t d es' a hx ha
    simp [ti1] at hx
    subst ha
    rw [← hx.1]; decide
  refine ⟨⟨?_, ?_⟩, ⟨?_, ?_⟩, trivial⟩
  · intro a ha; simp at ha; rcases ha with rfl | rfl <;> decide
  · intro t d es a hx he; simp [KF.elemArg] at he; exact lb _ t d es a hx he.symm
  · intro a ha; simp at ha; subst ha; decide
  · intro t d es a hx he; simp [KF.elemArg] at he
    have e : applyOp (ti1 [.int 0]) (.mem .put [.int 0, .null Ty.num]) = ti1 [.null Ty.int] := by rfl
    rw [e] at hx; exact lb _ t d es a hx he.symm

example : UniformIn onlyIS (ti1 [.int 0]) ∧ Safe onlyIS (ti1 [.int 0]) nullOps ∧
    (run (ti1 [.int 0]) nullOps == ti1 [.null Ty.int, .null Ty.int]) = true ∧
    UniformIn onlyIS (run (ti1 [.int 0]) nullOps) :=
  ⟨by decide, nullOps_safe, by decide, (uniform_preserved_partial onlyIS inj_onlyIS nullOps _ (by decide) nullOps_safe).1⟩

/-- **uniform_preserved** with the conclusion in plain `Uniform` (monotonicity `uniformP P v → uniform v`,
`uniformIn_uniform`): along every safe run the variable and every returned value are uniform. The hypotheses stay those of
`uniform_preserved_partial` — they cannot be dropped (`uniform_preserved_fails`). -/
theorem uniform_preserved_plain (P : List Ty → Bool) (hinj : Inj P) (ops : List Op) (x : Val)
    (hx : UniformIn P x) (hs : Safe P x ops) :
    Uniform (run x ops) ∧
    (∀ (pre : List Op) (op : Op) (post : List Op), ops = pre ++ op :: post →
      Uniform (run x pre) ∧ (∀ r x', stepRes (run x pre) op = .ok (r, x') → Uniform r ∧ Uniform x')) := by
  obtain ⟨h1, h2⟩ := uniform_preserved_partial P hinj ops x hx hs
  refine ⟨uniformIn_uniform P _ h1, ?_⟩
  intro pre op post hsplit
  obtain ⟨a, b, _⟩ := h2 pre op post hsplit
  refine ⟨uniformIn_uniform P _ a, ?_⟩
  intro r x' he
  obtain ⟨hr, hrun⟩ := b r x' he
  refine ⟨uniformIn_uniform P _ hr, ?_⟩
  have : UniformIn P (run x (pre ++ [op])) := by
    have hsub : ops = (pre ++ [op]) ++ post := by simp [hsplit]
    cases post with
    | nil => rw [hsub, List.append_nil] at h1; exact h1
    | cons q post' => exact (h2 (pre ++ [op]) q post' (by simp [hsplit])).1
  rw [hrun] at this
  exact uniformIn_uniform P _ this

example : Uniform (run (ti1 [.int 0]) nullOps) :=
  (uniform_preserved_plain onlyIS inj_onlyIS nullOps _ (by decide) nullOps_safe).1

/-- The unrestricted statement is false: a uniform start and uniform arguments do not suffice
(witnesses: hash collision; level mixing). -/
theorem uniform_preserved_fails :
    ¬ (∀ (ops : List Op) (x : Val), Uniform x → (∀ m args, Op.mem m args ∈ ops → ∀ a ∈ args, Uniform a) →
        Uniform (run x ops)) := by
  intro h
  have := h [.mem .put [.int 0, tB]] tabA (by decide) (by
    intro m args hm a ha
    simp at hm
    obtain ⟨_, rfl⟩ := hm
    simp at ha
    rcases ha with rfl | rfl <;> decide)
  revert this
  decide

/-! ### index contracts -/

/-- `t.at(p)` for every position value `p`: the element for an integer 0 ≤ p < n, the index error for a
null or out-of-range position, a refusal for anything that is not an integer. -/
theorem at_index_contract (P) (t : Ty) (d : List Ty) (es : List Val) (p : Val) (hp : uniformP P p = true) :
    Sat (mAt (.tab t d es) p) (Spec.tabAt (.tab t d es) es p) := by
  unfold mAt Spec.tabAt
  have hr : (Val.tab t d es).isNull = false := rfl
  rcases asInt_of_pos P p es.length hp with ⟨i, rfl, hn, hi, hs⟩ | ⟨hn, hs⟩ | ⟨hn, hi, hs⟩
  · rw [hs]
    simp only [Val.isNull, Bool.or_self, Bool.false_eq_true, ↓reduceIte, hi, inRange, idxOf]
    by_cases hr : 0 ≤ i.toInt ∧ i.toInt < (es.length : Int)
    · simp only [hr, and_self, decide_true, ↓reduceIte]
      cases he : es[i.toInt.toNat]? <;> simp [Sat, idxErr]
    · simp [hr, Sat, idxErr]
  · rw [hs]; simp [hn, hr, Sat, idxErr]
  · rw [hs]; simp [hn, hi, hr, Sat]

theorem listDel_eq_eraseIdx {α} (l : List α) (n : Nat) : listDel l n = l.eraseIdx n := by
  unfold listDel; rw [List.eraseIdx_eq_take_drop_succ]

/-- `t.delete(p)` for every position value. -/
theorem delete_index_contract (P) (t : Ty) (d : List Ty) (es : List Val) (p : Val) (c : Bool) (hp : uniformP P p = true) :
    Sat (mDelete (.tab t d es) p c) (Spec.tabDelete t d es p) := by
  unfold mDelete Spec.tabDelete
  have hr : (Val.tab t d es).isNull = false := rfl
  rcases asInt_of_pos P p es.length hp with ⟨i, rfl, hn, hi, hs⟩ | ⟨hn, hs⟩ | ⟨hn, hi, hs⟩
  · rw [hs]
    simp only [Val.isNull, Bool.or_self, Bool.false_eq_true, ↓reduceIte, hi, inRange, idxOf]
    by_cases hr : 0 ≤ i.toInt ∧ i.toInt < (es.length : Int)
    · simp [hr, Sat, listDel_eq_eraseIdx]
    · simp [hr, Sat, idxErr]
  · rw [hs]; simp [hn, hr, Sat, idxErr]
  · rw [hs]; simp [hn, hi, hr, Sat]

/-- `t.put(p, x)`: whatever the element, a position that is not an integer in 0 ≤ p < n is refused as the
Spec says (index error for null / out of range). -/
theorem put_index_contract (P) (t : Ty) (d : List Ty) (es : List Val) (p x : Val) (c : Bool) (e : SErr)
    (hp : uniformP P p = true) (hpos : Spec.pos p es.length = .error e) :
    Sat (mPut (.tab t d es) p x c) (.reject e) := by
  unfold mPut
  have hr : (Val.tab t d es).isNull = false := rfl
  rcases asInt_of_pos P p es.length hp with ⟨i, rfl, hn, hi, hs⟩ | ⟨hn, hs⟩ | ⟨hn, hi, hs⟩
  · rw [hs] at hpos
    by_cases hr' : 0 ≤ i.toInt ∧ i.toInt < (es.length : Int)
    · simp [hr'] at hpos
    · simp [hr'] at hpos; subst hpos
      simp [Val.isNull, hi, inRange, hr', Sat, idxErr]
  · rw [hs] at hpos; simp at hpos; subst hpos; simp [hn, hr, Sat, idxErr]
  · rw [hs] at hpos; simp at hpos; subst hpos; simp [hn, hi, hr, Sat]

/-- `t.insert(p, x)`: positions are 0 ≤ p ≤ n. -/
theorem insert_index_contract (P) (t : Ty) (d : List Ty) (es : List Val) (p x : Val) (c : Bool) (e : SErr)
    (hp : uniformP P p = true) (hpos : Spec.pos p (es.length + 1) = .error e) :
    Sat (mInsert (.tab t d es) p x c) (.reject e) := by
  unfold mInsert
  have hr : (Val.tab t d es).isNull = false := rfl
  rcases asInt_of_pos P p (es.length + 1) hp with ⟨i, rfl, hn, hi, _⟩ | ⟨hn, hs⟩ | ⟨hn, hi, hs⟩
  · simp only [Spec.pos] at hpos
    split at hpos
    · simp at hpos
    · rename_i hc
      simp at hpos; subst hpos
      have : ¬(0 ≤ i.toInt ∧ i.toInt ≤ (es.length : Int)) := by
        intro h2; apply hc; push_cast; omega
      simp [Val.isNull, hi, inRangeIns, this, Sat, idxErr]
  · rw [hs] at hpos; simp at hpos; subst hpos; simp [hn, hr, Sat, idxErr]
  · rw [hs] at hpos; simp at hpos; subst hpos; simp [hn, hi, hr, Sat]

/-- strings: `s.at(p)` for every position value. -/
theorem str_at_index_contract (P) (s : Bytes) (p : Val) (hp : uniformP P p = true) :
    Sat (mAt (.str s) p) (Spec.seqAt (.str s) s p) := by
  unfold mAt Spec.seqAt
  have hr : (Val.str s).isNull = false := rfl
  rcases asInt_of_pos P p s.length hp with ⟨i, rfl, hn, hi, hs⟩ | ⟨hn, hs⟩ | ⟨hn, hi, hs⟩
  · rw [hs]
    simp only [Val.isNull, Bool.or_self, Bool.false_eq_true, ↓reduceIte, hi, inRange, idxOf]
    by_cases hr : 0 ≤ i.toInt ∧ i.toInt < (s.length : Int)
    · simp only [hr, and_self, decide_true, ↓reduceIte]
      cases he : s[i.toInt.toNat]? <;> simp [Sat, idxErr, intOfByte]
    · simp [hr, Sat, idxErr]
  · rw [hs]; simp [hn, hr, Sat, idxErr]
  · rw [hs]; simp [hn, hi, hr, Sat]

theorem itemNo_small (rank : Nat) (hr : rank < 4294967296) : itemNo rank = .ok rank := by
  unfold itemNo
  have e32 : (2:Nat) ^ 32 = 4294967296 := by decide
  rw [e32]
  have h1 : ¬ rank ≥ 4294967296 := by omega
  rw [if_neg h1]

theorem itemIndex_small (rank : Nat) (h1 : 1 ≤ rank) (hr : rank < 4294967296) : itemIndex rank = rank - 1 := by
  unfold itemIndex
  have e32 : (2:Nat) ^ 32 = 4294967296 := by decide
  rw [e32]
  omega

theorem itemIndex_zero : itemIndex 0 = 4294967295 := by
  unfold itemIndex
  have e32 : (2:Nat) ^ 32 = 4294967296 := by decide
  rw [e32]

/-- tuples: `u@rank` reads item `rank` (index rank − 1) for 1 ≤ rank ≤ n and raises the index error for every
other index; with `itemNo_small` / `itemIndex_small` / `itemIndex_zero`: for every rank below 2^32 (rank 0 wraps to
index 2^32 − 1, which no tuple has). Ranks ≥ 2^32 are refused at compile time (`acceptItem`). -/
theorem item_index_contract (decl : List Ty) (items : List Val) (hlen : decl.length = items.length) :
    (∀ idx, idx < items.length → ∃ v, items[idx]? = some v ∧ itemAtV (.tup decl items) idx = .ok v) ∧
    (∀ idx, ¬ idx < items.length → itemAtV (.tup decl items) idx = idxErr) := by
  constructor
  · intro idx h
    refine ⟨items[idx], by simp [h], ?_⟩
    simp [itemAtV, Val.isNull, hlen, h]
  · intro idx h
    simp [itemAtV, Val.isNull, hlen, h]

/-! ### Model = Spec: value refinement of the methods on tables -/

theorem canon_tab_parts (t d es) (h : canon (.tab t d es) = true) :
    canonTy t = true ∧ ∀ e ∈ es, canonTy e.type = true := by
  simp only [canon, Val.type, Bool.and_eq_true, List.all_eq_true] at h
  exact h

/-- the type of an element of a uniform canonical table of non-tuples is the table's element type -/
theorem elem_type_eq (P) (t d es) (old : Val) (i : Nat) (hx : UniformIn P (.tab t d es)) (hcx : canon (.tab t d es) = true)
    (hold : es[i]? = some old) (hnt : t.major ≠ .tup) : old.type = tyOfETy (elemETy t d) := by
  obtain ⟨_, _, hes⟩ := tab_parts P t d es hx
  have hold' := uniformAll_getElem? P _ es _ old hes hold
  obtain ⟨a1, a2, a3⟩ := type_of_ety P old t d hnt hold'.1 hold'.2
  rw [tyOfETy_elem_nontup t d hnt]
  have hco := (canon_tab_parts t d es hcx).2 old (List.mem_of_getElem? hold)
  simp only [canonTy, beq_iff_eq] at hco
  exact Ty.ext' _ _ a1 (by rw [hco, a2]) a3

/-- **put_refines** (Model = Spec). `t.put(p, x)` on a uniform table, for EVERY position value `p` and EVERY uniform
element argument `x` outside the level-mixing region (hash collisions are excluded by `Inj P`): the model's outcome is the
specification's — the table with element `p` replaced by `x` (converted / as the typed null it denotes) where the Spec says
`ok` / `either`, the index error for a null or out-of-range position, a refusal where the Spec refuses. -/
theorem put_refines (P) (hinj : Inj P) (t : Ty) (d : List Ty) (es : List Val) (p x : Val) (c : Bool)
    (hx : UniformIn P (.tab t d es)) (hcx : canon (.tab t d es) = true)
    (hp : UniformIn P p) (ha : UniformIn P x) (hca : canonTy x.type = true)
    (hl : KF.levelBug t x = false) :
    Sat (mPut (.tab t d es) p x c) (Spec.tabPut t d es p x) := by
  obtain ⟨hh, hpd, hes⟩ := tab_parts P t d es hx
  have hct := (canon_tab_parts t d es hcx).1
  cases hpos : Spec.pos p es.length with
  | error e =>
    have := put_index_contract P t d es p x c e hp hpos
    unfold Spec.tabPut; rw [hpos]; exact this
  | ok i =>
    obtain ⟨pi, rfl, h0, h1, rfl⟩ := pos_ok p _ _ hpos
    have hlt : pi.toInt.toNat < es.length := by omega
    obtain ⟨old, hold⟩ : ∃ old, es[pi.toInt.toNat]? = some old := ⟨es[pi.toInt.toNat], List.getElem?_eq_getElem hlt⟩
    have rel := classify_fit P hinj .put t d x old.type hh hpd hct ha hca hl
      (elem_type_eq P t d es old _ hx hcx hold) (fun _ _ _ => rfl)
    rw [mPut_tab_ok t d es pi x c old h0 h1 hold]
    unfold Spec.tabPut
    rw [hpos]
    simp only
    cases hf : fit (elemETy t d) x with
    | exact v =>
      rw [hf] at rel; simp only [SlotRel] at rel
      cases hig : ignoredNull x with
      | true =>
        rw [hig] at rel; rw [rel]
        right; exact ⟨_, _, rfl⟩
      | false =>
        rw [hig] at rel; rw [rel]
        show _ = _
        simp only [Bool.false_eq_true, ↓reduceIte]
        rw [listPut_eq_set es _ v hlt]
    | conv v =>
      rw [hf] at rel; simp only [SlotRel] at rel
      rw [rel.2]
      left
      simp only
      rw [listPut_eq_set es _ v hlt]
    | bad =>
      rw [hf] at rel; simp only [SlotRel] at rel
      obtain ⟨_, c', x', hr⟩ := rel
      rw [hr]
      exact ⟨_, _, rfl⟩
    | no =>
      rw [hf] at rel; simp only [SlotRel] at rel
      rcases rel with hr | ⟨_, hr⟩ <;> rw [hr] <;> exact ⟨_, _, rfl⟩

example : Sat (mPut (ti1 [.int 0, .int 5]) (.int 1) (.num 0x4004000000000000) false)
    (Spec.tabPut { major := .int, level := 1 } [] [.int 0, .int 5] (.int 1) (.num 0x4004000000000000)) :=
  put_refines onlyIS inj_onlyIS _ _ _ _ _ _ (by decide) (by decide) (by decide) (by decide) (by decide) (by decide)

/-- **insert_refines** (Model = Spec). `t.insert(p, x)` for every position value and every uniform argument outside the
level-mixing region: one element (converted / typed null) or the elements of a table of the receiver's own type — in
REVERSE order, UNDETERMINED BY DOCUMENTATION = what the code does — are spliced in at `p` (0 ≤ p ≤ n); a null table / null
tuple leaves the receiver as it is; index error for a null or out-of-range position; refusal of a non-fitting element. -/
theorem insert_refines (P) (hinj : Inj P) (t : Ty) (d : List Ty) (es : List Val) (p x : Val) (c : Bool)
    (hx : UniformIn P (.tab t d es)) (hcx : canon (.tab t d es) = true)
    (hp : UniformIn P p) (ha : UniformIn P x) (hca : canonTy x.type = true)
    (hl : KF.levelBug t x = false) :
    Sat (mInsert (.tab t d es) p x c) (Spec.tabInsert (.tab t d es) t d es p x) := by
  have hct := (canon_tab_parts t d es hcx).1
  cases hpos : Spec.pos p (es.length + 1) with
  | error e =>
    have := insert_index_contract P t d es p x c e hp hpos
    unfold Spec.tabInsert; rw [hpos]; exact this
  | ok i =>
    obtain ⟨pi, rfl, h0, h1, rfl⟩ := pos_ok p _ _ hpos
    have rel := classify_addOf P hinj .insert (by decide) t d es x hx hct ha hca hl
    rw [mInsert_tab_ok t d es pi x c h0 h1]
    unfold Spec.tabInsert
    rw [hpos]
    simp only
    cases hadd : addOf (.tab t d es) t d x with
    | nothing =>
      rw [hadd] at rel; simp only [AddRel] at rel
      rcases rel with h | h <;> rw [h]
      · left; rfl
      · right; exact ⟨_, _, rfl⟩
    | reject e =>
      rw [hadd] at rel; simp only [AddRel] at rel
      obtain ⟨he, rel⟩ := rel
      rcases rel with h | ⟨c', a', h⟩ <;> rw [h] <;> simp only <;>
        rcases he with rfl | rfl <;> exact ⟨_, _, rfl⟩
    | elems vs sure =>
      rw [hadd] at rel
      cases sure with
      | true =>
        simp only [AddRel] at rel
        rcases rel with h | ⟨v, rfl, h⟩ <;> rw [h] <;> simp [Sat, listIns]
      | false =>
        simp only [AddRel] at rel
        obtain ⟨v, rfl, h⟩ := rel
        rw [h]; simp [Sat, listIns]

example : Sat (mInsert (ti1 [.int 0, .int 5]) (.int 1) (ti1 [.int 7, .int 8]) false)
    (Spec.tabInsert (ti1 [.int 0, .int 5]) { major := .int, level := 1 } [] [.int 0, .int 5] (.int 1) (ti1 [.int 7, .int 8])) :=
  insert_refines onlyIS inj_onlyIS _ _ _ _ _ _ (by decide) (by decide) (by decide) (by decide) (by decide) (by decide)
/-- … and what that outcome is: the inserted table appears reversed -/
example : mInsert (ti1 [.int 0, .int 5]) (.int 1) (ti1 [.int 7, .int 8]) false =
    .ok (ti1 [.int 0, .int 8, .int 7, .int 5], ti1 [.int 0, .int 8, .int 7, .int 5]) := by rfl

/-- **concat_refines** (Model = Spec). `t.concat(x)` for every uniform argument outside the level-mixing region: the element
(converted / typed null) or the elements of a table of the receiver's own type are appended, in order; a null table / null
tuple leaves the receiver as it is; a non-fitting argument is refused. -/
theorem concat_refines (P) (hinj : Inj P) (t : Ty) (d : List Ty) (es : List Val) (x : Val) (c : Bool)
    (hx : UniformIn P (.tab t d es)) (hcx : canon (.tab t d es) = true)
    (ha : UniformIn P x) (hca : canonTy x.type = true) (hl : KF.levelBug t x = false) :
    Sat (mConcat (.tab t d es) x c) (Spec.tabConcat (.tab t d es) t d es x) := by
  have hct := (canon_tab_parts t d es hcx).1
  have rel := classify_addOf P hinj .concat (by decide) t d es x hx hct ha hca hl
  rw [mConcat_tab t d es x c (tab_level_pos P t d es hx)]
  unfold Spec.tabConcat
  cases hadd : addOf (.tab t d es) t d x with
  | nothing =>
    rw [hadd] at rel; simp only [AddRel] at rel
    rcases rel with h | h <;> rw [h]
    · left; rfl
    · right; exact ⟨_, _, rfl⟩
  | reject e =>
    rw [hadd] at rel; simp only [AddRel] at rel
    obtain ⟨he, rel⟩ := rel
    rcases rel with h | ⟨c', a', h⟩ <;> rw [h] <;> simp only <;>
      rcases he with rfl | rfl <;> exact ⟨_, _, rfl⟩
  | elems vs sure =>
    rw [hadd] at rel
    cases sure with
    | true =>
      simp only [AddRel] at rel
      rcases rel with h | ⟨v, rfl, h⟩ <;> rw [h] <;> simp [Sat]
    | false =>
      simp only [AddRel] at rel
      obtain ⟨v, rfl, h⟩ := rel
      rw [h]; simp [Sat]

example : Sat (mConcat (td1 [.num 0]) (.int 3) false)
    (Spec.tabConcat (td1 [.num 0]) { major := .num, level := 1 } [] [.num 0] (.int 3)) :=
  concat_refines onlyIS inj_onlyIS _ _ _ _ _ (by decide) (by decide) (by decide) (by decide) (by decide)

/-- **at / delete / count refine the Spec** on every table and every position value (`at_index_contract` and
`delete_index_contract` are already stated against the full Spec outcome: element / erased list / index error). -/
theorem at_delete_count_refine (P) (t : Ty) (d : List Ty) (es : List Val) (p : Val) (c : Bool) (hp : UniformIn P p) :
    Sat (mAt (.tab t d es) p) (Spec.tabAt (.tab t d es) es p) ∧
    Sat (mDelete (.tab t d es) p c) (Spec.tabDelete t d es p) ∧
    mCount (.tab t d es) = .ok (.int (Int64.ofNat es.length), .tab t d es) :=
  ⟨at_index_contract P t d es p hp, delete_index_contract P t d es p c hp, rfl⟩

example : Sat (mAt (ti1 [.int 4]) (.int 0)) (.ok (.int 4) (ti1 [.int 4])) := by
  have := (at_delete_count_refine onlyIS { major := .int, level := 1 } [] [.int 4] (.int 0) false (by decide)).1
  exact this

/-! ### operation sequences against the Spec's list-level run -/

/-- the Spec's outcome of one operation -/
def specOp (x : Val) : Op → Option SOut
  | .mem m args => Spec.specMember m x args
  | .set rank a => Spec.specSet x rank a

/-- the variable after a call whose Spec outcome is `o`: the Spec's new receiver, the old one after a refusal, one of
the two where the Spec leaves the choice (`either`) -/
def SpecNext (x : Val) (o : SOut) (x' : Val) : Prop :=
  match o with
  | .ok _ y => x' = y
  | .reject _ => x' = x
  | .either _ y => x' = y ∨ x' = x

/-- a run of the variable that the Spec allows: every step is in the Spec's domain and goes to a receiver the Spec names -/
inductive SpecRun : Val → List Op → Val → Prop
  | nil (x : Val) : SpecRun x [] x
  | cons (x : Val) (op : Op) (ops : List Op) (x' x'' : Val) (o : SOut) :
      specOp x op = some o → SpecNext x o x' → SpecRun x' ops x'' → SpecRun x (op :: ops) x''

theorem sat_next (x : Val) (op : Op) (o : SOut) (h : Sat (stepRes x op) o) : SpecNext x o (applyOp x op) := by
  unfold applyOp
  cases o with
  | ok r y => simp only [Sat] at h; rw [h]; rfl
  | reject e =>
    cases e <;> simp only [Sat] at h
    · rw [h]; rfl
    · obtain ⟨c, a, h⟩ := h; rw [h]; rfl
    · rw [h]; rfl
    · obtain ⟨c, a, h⟩ := h; rw [h]; rfl
  | either r y =>
    simp only [Sat] at h
    rcases h with h | ⟨c, a, h⟩ <;> rw [h]
    · left; rfl
    · right; rfl

def arityOk : Member → List Val → Bool
  | .at, [_] | .delete, [_] | .concat, [_] | .put, [_, _] | .insert, [_, _] | .count, [] => true
  | _, _ => false

/-- a member call with the right number of arguments, uniform arguments in the image of the implementation, outside the
level-mixing region of a table of type `t` -/
def OpGood (P : List Ty → Bool) (t : Ty) : Op → Prop
  | .mem m args => arityOk m args = true ∧ (∀ a ∈ args, uniformP P a = true ∧ canon a = true) ∧
      (∀ a, KF.elemArg m args = some a → KF.levelBug t a = false)
  | .set _ _ => False

theorem canon_type (a : Val) (h : canon a = true) : canonTy a.type = true := by
  simp only [canon, Bool.and_eq_true] at h; exact h.1

/-- one step: the call is in the Spec's domain, the model's outcome is the Spec's, and the receiver the Spec names is a
table with the same header and canonical minors -/
theorem step_refines (P) (hinj : Inj P) (t : Ty) (d : List Ty) (es : List Val) (op : Op)
    (hx : UniformIn P (.tab t d es)) (hcx : canon (.tab t d es) = true) (hg : OpGood P t op) :
    ∃ o, specOp (.tab t d es) op = some o ∧ Sat (stepRes (.tab t d es) op) o ∧ OutShape t d o := by
  have huni : uniform (.tab t d es) = true := uniformIn_uniform P _ hx
  have hes := (canon_tab_parts t d es hcx).2
  cases op with
  | set r a => exact absurd hg id
  | mem m args =>
    obtain ⟨har, hargs, hreg⟩ := hg
    cases m with
    | «at» =>
      match args, har with
      | [p], _ =>
        refine ⟨Spec.tabAt (.tab t d es) es p, by simp [specOp, Spec.specMember, Spec.specAt, huni], ?_, tabAt_shape t d es p hes⟩
        exact at_index_contract P t d es p (hargs p (by simp)).1
    | delete =>
      match args, har with
      | [p], _ =>
        refine ⟨Spec.tabDelete t d es p, by simp [specOp, Spec.specMember, Spec.specDelete, huni], ?_, tabDelete_shape t d es p hes⟩
        exact delete_index_contract P t d es p false (hargs p (by simp)).1
    | count =>
      match args, har with
      | [], _ =>
        exact ⟨.ok (.int (Int64.ofNat es.length)) (.tab t d es), by simp [specOp, Spec.specMember, Spec.specCount, huni], rfl, es, rfl, hes⟩
    | put =>
      match args, har with
      | [p, x], _ =>
        have hp := hargs p (by simp)
        have hxx := hargs x (by simp)
        refine ⟨Spec.tabPut t d es p x, by simp [specOp, Spec.specMember, Spec.specPut, huni], ?_, tabPut_shape t d es p x hes (canon_type x hxx.2)⟩
        exact put_refines P hinj t d es p x false hx hcx hp.1 hxx.1 (canon_type x hxx.2) (hreg x rfl)
    | insert =>
      match args, har with
      | [p, x], _ =>
        have hp := hargs p (by simp)
        have hxx := hargs x (by simp)
        refine ⟨Spec.tabInsert (.tab t d es) t d es p x, by simp [specOp, Spec.specMember, Spec.specInsert, huni], ?_, tabInsert_shape t d es p x hes hxx.2⟩
        exact insert_refines P hinj t d es p x false hx hcx hp.1 hxx.1 (canon_type x hxx.2) (hreg x rfl)
    | concat =>
      match args, har with
      | [x], _ =>
        have hxx := hargs x (by simp)
        refine ⟨Spec.tabConcat (.tab t d es) t d es x, by simp [specOp, Spec.specMember, Spec.specConcat, huni], ?_, tabConcat_shape t d es x hes hxx.2⟩
        exact concat_refines P hinj t d es x false hx hcx hxx.1 (canon_type x hxx.2) (hreg x rfl)

theorem opGood_opOk (P) (t d es op) (hg : OpGood P t op) : OpOk P (.tab t d es) op := by
  cases op with
  | set r a => exact absurd hg id
  | mem m args =>
    obtain ⟨_, hargs, hreg⟩ := hg
    refine ⟨fun a ha => (hargs a ha).1, ?_⟩
    intro t' d' es' a he hel
    injection he with h1 _ _
    subst h1
    exact hreg a hel

/-- one step keeps the header, the uniformity and the canonical minors -/
theorem step_invariant (P) (hinj : Inj P) (t : Ty) (d : List Ty) (es : List Val) (op : Op)
    (hx : UniformIn P (.tab t d es)) (hcx : canon (.tab t d es) = true) (hg : OpGood P t op) :
    ∃ es', applyOp (.tab t d es) op = .tab t d es' ∧ UniformIn P (.tab t d es') ∧ canon (.tab t d es') = true := by
  obtain ⟨o, _, hsat, hshape⟩ := step_refines P hinj t d es op hx hcx hg
  have hnext := sat_next _ op o hsat
  have hct := (canon_tab_parts t d es hcx).1
  have huni : UniformIn P (applyOp (.tab t d es) op) := by
    unfold applyOp
    split
    · rename_i r x' he
      exact (step_preserves P hinj _ op _ _ hx (opGood_opOk P t d es op hg) he).2
    · exact hx
  have same : ∃ es', applyOp (.tab t d es) op = .tab t d es' ∧ ∀ e ∈ es', canonTy e.type = true := by
    cases o with
    | ok r y =>
      obtain ⟨es', hy, hc⟩ := hshape
      exact ⟨es', by rw [← hy]; exact hnext, hc⟩
    | reject e => exact ⟨es, hnext, (canon_tab_parts t d es hcx).2⟩
    | either r y =>
      obtain ⟨es', hy, hc⟩ := hshape
      rcases hnext with h | h
      · exact ⟨es', by rw [← hy]; exact h, hc⟩
      · exact ⟨es, h, (canon_tab_parts t d es hcx).2⟩
  obtain ⟨es', he, hc⟩ := same
  refine ⟨es', he, by rw [← he]; exact huni, ?_⟩
  simp only [canon, Val.type, Bool.and_eq_true, List.all_eq_true]
  exact ⟨hct, hc⟩

/-- **ops_refine_spec** — the op-SEQUENCE theorem against the Spec. For every list of member calls (at / put / insert /
delete / concat / count, any position values, any uniform arguments) applied to a uniform table, outside the recorded
finding regions (C09.mix.level: `OpGood`; hash collisions: `Inj P`): the whole run is a run the specification allows
(`SpecRun`: each step's receiver is the one the Spec's list-level function names — `List.set`, take/drop splice, append,
`List.eraseIdx` —, the old receiver after a refusal), and before every step the variable is a table with the SAME header,
plainly `Uniform` (monotonicity `uniformIn_uniform`), and the model's outcome of the step — result value, receiver, error
class — is the Spec's (`Sat`). By induction over the operation list. -/
theorem ops_refine_spec (P : List Ty → Bool) (hinj : Inj P) (t : Ty) (d : List Ty) :
    ∀ (ops : List Op) (es : List Val), UniformIn P (.tab t d es) → canon (.tab t d es) = true →
      (∀ op ∈ ops, OpGood P t op) →
      SpecRun (.tab t d es) ops (run (.tab t d es) ops) ∧
      (∃ es', run (.tab t d es) ops = .tab t d es' ∧ Uniform (.tab t d es')) ∧
      (∀ (pre : List Op) (op : Op) (post : List Op), ops = pre ++ op :: post →
        ∃ es' o, run (.tab t d es) pre = .tab t d es' ∧ Uniform (.tab t d es') ∧ UniformIn P (.tab t d es') ∧
          specOp (.tab t d es') op = some o ∧ Sat (stepRes (.tab t d es') op) o) := by
  intro ops
  induction ops with
  | nil =>
    intro es hx _ _
    refine ⟨.nil _, ⟨es, rfl, uniformIn_uniform P _ hx⟩, ?_⟩
    intro pre op post h; simp at h
  | cons op ops ih =>
    intro es hx hcx hg
    have hgo := hg op (by simp)
    obtain ⟨o, hspec, hsat, _⟩ := step_refines P hinj t d es op hx hcx hgo
    obtain ⟨es1, he1, hx1, hcx1⟩ := step_invariant P hinj t d es op hx hcx hgo
    obtain ⟨ih1, ih2, ih3⟩ := ih es1 hx1 hcx1 (fun op' h => hg op' (by simp [h]))
    have hrun : ∀ l, run (.tab t d es) (op :: l) = run (.tab t d es1) l := by
      intro l; simp [run, he1]
    refine ⟨?_, ?_, ?_⟩
    · rw [hrun]
      exact .cons _ op ops _ _ o hspec (by rw [← he1]; exact sat_next _ op o hsat) ih1
    · rw [hrun]; exact ih2
    · intro pre op' post hsplit
      cases pre with
      | nil =>
        simp at hsplit
        obtain ⟨rfl, rfl⟩ := hsplit
        exact ⟨es, o, rfl, uniformIn_uniform P _ hx, hx, hspec, hsat⟩
      | cons q pre' =>
        simp at hsplit
        obtain ⟨rfl, hsplit⟩ := hsplit
        rw [hrun]
        exact ih3 pre' op' post hsplit

/-- the hypotheses are satisfiable by a non-trivial run: insert a table (reversed), put a decimal (converted), a rejected
delete, concat of an untyped null -/
def refOps : List Op := [.mem .insert [.int 1, ti1 [.int 7, .int 8]], .mem .put [.int 0, .num 0x4004000000000000],
  .mem .delete [.int 9], .mem .concat [.null Ty.none]]

theorem refOps_good : ∀ op ∈ refOps, OpGood onlyIS { major := .int, level := 1 } op := by
  intro op h
  simp [refOps] at h
  rcases h with rfl | rfl | rfl | rfl
  all_goals
    refine ⟨rfl, ?_, ?_⟩
    · intro a ha; simp at ha
      first
        | (rcases ha with rfl | rfl <;> exact ⟨by decide, by decide⟩)
        | (subst ha; exact ⟨by decide, by decide⟩)
    · intro a he; simp [KF.elemArg] at he
      try (subst he; decide)

example : (run (ti1 [.int 0, .int 5]) refOps == ti1 [.int 2, .int 8, .int 7, .int 5, .null Ty.int]) = true ∧
    SpecRun (ti1 [.int 0, .int 5]) refOps (run (ti1 [.int 0, .int 5]) refOps) :=
  ⟨by decide, (ops_refine_spec onlyIS inj_onlyIS _ _ refOps _ (by decide) (by decide) refOps_good).1⟩

/-! ### Model = Spec: strings and bytes (sequences of 8-bit character codes) -/

/-- the Spec's `code` never answers `index` -/
theorem code_not_index (x : Val) : Spec.code x ≠ .error .index := by
  unfold Spec.code
  split
  · split <;> simp
  · simp
  · simp

/-- **seq_put_refines**. `s.put(p, c)` on a string variable and on bytes, for every position value and every argument:
the character at `p` is replaced by the code `c` (0..255), OUT_OF_RANGE for another integer, the index error for a null or
out-of-range position, a refusal for a null or non-integer code. -/
theorem seq_put_refines (P) (s : Bytes) (p x : Val) (c : Bool) (hp : UniformIn P p) (hx : UniformIn P x) :
    Sat (mPut (.str s) p x false) (Spec.seqPut Val.str s p x) ∧
    Sat (mPut (.raw s) p x c) (Spec.seqPut Val.raw s p x) := by
  constructor
  · have hr0 : (Val.str s).isNull = false := rfl
    unfold mPut Spec.seqPut
    rcases asInt_of_pos P p s.length hp with ⟨i, rfl, hn, hi, hs⟩ | ⟨hn, hs⟩ | ⟨hn, hi, hs⟩
    · rw [hs]
      simp only [hr0, hn, Bool.or_self, Bool.false_eq_true, ↓reduceIte, hi, inRange, idxOf]
      by_cases hr : 0 ≤ i.toInt ∧ i.toInt < (s.length : Int)
      · have hlt : i.toInt.toNat < s.length := by omega
        simp only [hr, and_self, decide_true, Bool.not_true, Bool.false_eq_true, ↓reduceIte]
        cases hnx : x.isNull with
        | false =>
          have hc := charArg_code P x hx hnx
          simp only [Bool.false_eq_true, ↓reduceIte]
          cases hcode : Spec.code x with
          | ok b =>
            rw [hcode] at hc; simp only at hc
            rw [hc]
            simp only [Sat]
            rw [listPut_eq_set s _ b hlt]
          | error e =>
            rw [hcode] at hc
            cases e with
            | range => simp only at hc; rw [hc]; rfl
            | index => simp only at hc; obtain ⟨c', a', hc⟩ := hc; rw [hc]; simp [Spec.code] at hcode; split at hcode <;> (try split at hcode) <;> simp at hcode
            | type => simp only at hc; obtain ⟨c', a', hc⟩ := hc; rw [hc]; exact ⟨_, _, rfl⟩
            | any => simp only at hc; obtain ⟨c', a', hc⟩ := hc; rw [hc]; exact ⟨_, _, rfl⟩
        | true =>
          obtain ⟨ty, rfl⟩ : ∃ ty, x = .null ty := by
            cases x <;> simp [Val.isNull] at hnx
            exact ⟨_, rfl⟩
          simp [Val.isNull, Spec.code, Sat, tyMismatch]
      · simp [hr, Sat, idxErr]
    · rw [hs]; simp [hn, hr0, Sat, idxErr]
    · rw [hs]; simp [hn, hi, hr0, Sat]
  · have hr0 : (Val.raw s).isNull = false := rfl
    unfold mPut Spec.seqPut
    rcases asInt_of_pos P p s.length hp with ⟨i, rfl, hn, hi, hs⟩ | ⟨hn, hs⟩ | ⟨hn, hi, hs⟩
    · rw [hs]
      simp only [hr0, hn, Bool.or_self, Bool.false_eq_true, ↓reduceIte, hi, inRange, idxOf]
      by_cases hr : 0 ≤ i.toInt ∧ i.toInt < (s.length : Int)
      · have hlt : i.toInt.toNat < s.length := by omega
        simp only [hr, and_self, decide_true, Bool.not_true, Bool.false_eq_true, ↓reduceIte]
        cases hnx : x.isNull with
        | false =>
          have hc := charArg_code P x hx hnx
          simp only [Bool.false_eq_true, ↓reduceIte]
          cases hcode : Spec.code x with
          | ok b =>
            rw [hcode] at hc; simp only at hc
            rw [hc]
            simp only [Sat]
            rw [listPut_eq_set s _ b hlt]
          | error e =>
            rw [hcode] at hc
            cases e with
            | range => simp only at hc; rw [hc]; rfl
            | index => simp only at hc; obtain ⟨c', a', hc⟩ := hc; rw [hc]; simp [Spec.code] at hcode; split at hcode <;> (try split at hcode) <;> simp at hcode
            | type => simp only at hc; obtain ⟨c', a', hc⟩ := hc; rw [hc]; exact ⟨_, _, rfl⟩
            | any => simp only at hc; obtain ⟨c', a', hc⟩ := hc; rw [hc]; exact ⟨_, _, rfl⟩
        | true =>
          obtain ⟨ty, rfl⟩ : ∃ ty, x = .null ty := by
            cases x <;> simp [Val.isNull] at hnx
            exact ⟨_, rfl⟩
          simp [Val.isNull, Spec.code, Sat, tyMismatch]
      · simp [hr, Sat, idxErr]
    · rw [hs]; simp [hn, hr0, Sat, idxErr]
    · rw [hs]; simp [hn, hi, hr0, Sat]

example : mPut (.str [97, 98]) (.int 1) (.int 65) false = .ok (.str [97, 65], .str [97, 65]) ∧
    Spec.seqPut Val.str [97, 98] (.int 1) (.int 65) = .ok (.str [97, 65]) (.str [97, 65]) := by
  constructor <;> rfl

theorem str_insert_inrange (P) (s : Bytes) (pi : Int64) (x : Val) (hx : UniformIn P x)
    (h0 : 0 ≤ pi.toInt) (h1 : pi.toInt ≤ (s.length : Int)) :
    Sat (mInsert (.str s) (.int pi) x false) (Spec.seqInsert (.str s) Val.str false s (.int pi) x) := by
  have hp : inRangeIns pi s.length = true := by simp [inRangeIns, h0, h1]
  have hpos : Spec.pos (.int pi) (s.length + 1) = .ok pi.toInt.toNat := by
    have : 0 ≤ pi.toInt ∧ pi.toInt < ((s.length + 1 : Nat) : Int) := ⟨h0, by push_cast; omega⟩
    simp only [Spec.pos, this, and_self, ↓reduceIte]
  have e : (Val.int pi).asInt = .ok pi := rfl
  unfold mInsert Spec.seqInsert
  rw [hpos, e]
  simp only [Val.isNull, Bool.or_self, Bool.false_eq_true, ↓reduceIte, hp, Bool.not_true, idxOf]
  cases x with
  | null ty => left; rfl
  | str b => simp [Val.type, Ty.str, Val.asStr, Spec.seqArg, Sat, listIns]
  | int i =>
    simp only [Val.type, Ty.int, Spec.seqArg, Spec.code]
    rw [charArg_int]
    by_cases hc : 0 ≤ i.toInt ∧ i.toInt ≤ 255
    · simp [hc, Sat, listIns]
    · simp [hc, Sat]
  | tab at_ ad vs =>
    have hl := tab_level_pos P at_ ad vs hx
    have hl' : at_.level ≠ 0 := by omega
    cases hmaj : at_.major <;> simp [Val.type, Spec.seqArg, Sat, hmaj, Val.asStr, charArg, Val.asInt, hl']
  | tup ad items => simp [Val.type, makeTupleTy_major, Spec.seqArg, Sat]
  | raw b => simp [Val.type, Ty.raw, Spec.seqArg, Sat]
  | bool b => simp [Val.type, Ty.bool, Spec.seqArg, Sat]
  | num b => simp [Val.type, Ty.num, Spec.seqArg, Sat]
  | imag a b => simp [Val.type, Ty.imag, Spec.seqArg, Sat]
  | obj a b => simp [Val.type, Spec.seqArg, Sat]

theorem raw_insert_inrange (P) (s : Bytes) (pi : Int64) (x : Val) (c : Bool) (hx : UniformIn P x)
    (h0 : 0 ≤ pi.toInt) (h1 : pi.toInt ≤ (s.length : Int)) :
    Sat (mInsert (.raw s) (.int pi) x c) (Spec.seqInsert (.raw s) Val.raw true s (.int pi) x) := by
  have hp : inRangeIns pi s.length = true := by simp [inRangeIns, h0, h1]
  have hpos : Spec.pos (.int pi) (s.length + 1) = .ok pi.toInt.toNat := by
    have : 0 ≤ pi.toInt ∧ pi.toInt < ((s.length + 1 : Nat) : Int) := ⟨h0, by push_cast; omega⟩
    simp only [Spec.pos, this, and_self, ↓reduceIte]
  have e : (Val.int pi).asInt = .ok pi := rfl
  unfold mInsert insRaw Spec.seqInsert
  rw [hpos, e]
  simp only [Val.isNull, Bool.or_self, Bool.false_eq_true, ↓reduceIte, hp, Bool.not_true, idxOf]
  cases x with
  | null ty => left; rfl
  | str b => simp [Val.type, Ty.str, Val.asStr, Spec.seqArg, Sat, listIns]
  | raw b => simp [Val.type, Ty.raw, Val.asRaw, Spec.seqArg, Sat, listIns]
  | int i =>
    simp only [Val.type, Ty.int, Spec.seqArg, Spec.code]
    rw [charArg_int]
    by_cases hc : 0 ≤ i.toInt ∧ i.toInt ≤ 255
    · simp [hc, Sat, listIns]
    · simp [hc, Sat]
  | tab at_ ad vs =>
    have hl := tab_level_pos P at_ ad vs hx
    have hl' : at_.level ≠ 0 := by omega
    cases hmaj : at_.major <;> simp [Val.type, Spec.seqArg, Sat, hmaj, Val.asStr, Val.asRaw, charArg, Val.asInt, hl']
  | tup ad items => simp [Val.type, makeTupleTy_major, Spec.seqArg, Sat]
  | bool b => simp [Val.type, Ty.bool, Spec.seqArg, Sat]
  | num b => simp [Val.type, Ty.num, Spec.seqArg, Sat]
  | imag a b => simp [Val.type, Ty.imag, Spec.seqArg, Sat]
  | obj a b => simp [Val.type, Spec.seqArg, Sat]

/-- **seq_insert_refines**. `s.insert(p, x)` on a string variable / bytes, every position value, every argument: a string
(bytes receivers: also bytes) or one character code is spliced in at `p` (0 ≤ p ≤ n), any null leaves the receiver as it
is, OUT_OF_RANGE for a code outside 0..255, the index error for a null / out-of-range position, a refusal otherwise. -/
theorem seq_insert_refines (P) (s : Bytes) (p x : Val) (c : Bool) (hp : UniformIn P p) (hx : UniformIn P x) :
    Sat (mInsert (.str s) p x false) (Spec.seqInsert (.str s) Val.str false s p x) ∧
    Sat (mInsert (.raw s) p x c) (Spec.seqInsert (.raw s) Val.raw true s p x) := by
  have bad : ∀ (recv : Val) (mk : Bytes → Val) (isRaw : Bool) (e : SErr), Spec.pos p (s.length + 1) = .error e →
      Spec.seqInsert recv mk isRaw s p x = .reject e := by
    intro recv mk isRaw e h; unfold Spec.seqInsert; rw [h]
  rcases asInt_of_pos P p (s.length + 1) hp with ⟨i, rfl, hn, hi, hs⟩ | ⟨hn, hs⟩ | ⟨hn, hi, hs⟩
  · by_cases hr : 0 ≤ i.toInt ∧ i.toInt < ((s.length + 1 : Nat) : Int)
    · have h1 : i.toInt ≤ (s.length : Int) := by have := hr.2; push_cast at this; omega
      exact ⟨str_insert_inrange P s i x hx hr.1 h1, raw_insert_inrange P s i x c hx hr.1 h1⟩
    · rw [if_neg hr] at hs
      rw [bad _ _ _ _ hs, bad _ _ _ _ hs]
      have hq : inRangeIns i s.length = false := by
        simp only [inRangeIns, decide_eq_false_iff_not]; intro h; apply hr; push_cast; omega
      constructor
      · unfold mInsert; simp [Val.isNull, hi, hq, Sat, idxErr]
      · unfold mInsert insRaw; simp [Val.isNull, hi, hq, Sat, idxErr]
  · rw [bad _ _ _ _ hs, bad _ _ _ _ hs]
    constructor <;> (unfold mInsert; simp [hn, Sat, idxErr])
  · rw [bad _ _ _ _ hs, bad _ _ _ _ hs]
    have h1 : (Val.str s).isNull = false := rfl
    have h2 : (Val.raw s).isNull = false := rfl
    constructor
    · unfold mInsert; simp [hn, hi, h1, Sat]
    · unfold mInsert insRaw; simp [hn, hi, h2, Sat]

example : mInsert (.str [97, 98]) (.int 1) (.str [120, 121]) false = .ok (.str [97, 120, 121, 98], .str [97, 120, 121, 98]) := by rfl

/-- **seq_delete_refines**. `s.delete(p)` on a string variable / bytes for every position value. -/
theorem seq_delete_refines (P) (s : Bytes) (p : Val) (c : Bool) (hp : UniformIn P p) :
    Sat (mDelete (.str s) p false) (Spec.seqDelete Val.str s p) ∧
    Sat (mDelete (.raw s) p c) (Spec.seqDelete Val.raw s p) := by
  have h1 : (Val.str s).isNull = false := rfl
  have h2 : (Val.raw s).isNull = false := rfl
  unfold mDelete Spec.seqDelete
  rcases asInt_of_pos P p s.length hp with ⟨i, rfl, hn, hi, hs⟩ | ⟨hn, hs⟩ | ⟨hn, hi, hs⟩
  · rw [hs]
    simp only [Val.isNull, Bool.or_self, Bool.false_eq_true, ↓reduceIte, hi, inRange, idxOf]
    by_cases hr : 0 ≤ i.toInt ∧ i.toInt < (s.length : Int)
    · simp [hr, Sat, listDel_eq_eraseIdx]
    · simp [hr, Sat, idxErr]
  · rw [hs]; simp [hn, h1, h2, Sat, idxErr]
  · rw [hs]; simp [hn, hi, h1, h2, Sat]

/-- **seq_concat_refines**. `s.concat(x)` on a non-null string variable / bytes for every argument: a string (bytes
receivers: also bytes) or one character code is appended, any null leaves the receiver as it is, OUT_OF_RANGE for a code
outside 0..255, a refusal otherwise (bytes given to a string: NOT_TABCHAR by fall-through). -/
theorem seq_concat_refines (P) (s : Bytes) (x : Val) (c : Bool) (hx : UniformIn P x) :
    Sat (mConcat (.str s) x false) (Spec.seqConcat (.str s) Val.str false s x) ∧
    Sat (mConcat (.raw s) x c) (Spec.seqConcat (.raw s) Val.raw true s x) := by
  constructor
  · unfold mConcat Spec.seqConcat
    simp only [Val.type, Ty.str, Nat.lt_irrefl, ↓reduceIte, gt_iff_lt]
    cases x with
    | null ty => left; rfl
    | str b => simp [Val.isNull, Val.type, Ty.str, Val.asStr, Spec.seqArg, Sat]
    | int i =>
      simp only [Val.isNull, Val.type, Ty.int, Spec.seqArg, Spec.code, Bool.false_eq_true, ↓reduceIte]
      rw [charArg_int]
      by_cases hc : 0 ≤ i.toInt ∧ i.toInt ≤ 255
      · simp [hc, Sat, Val.asStr, Val.type, Ty.str]
      · simp [hc, Sat]
    | tab at_ ad vs =>
      have hl := tab_level_pos P at_ ad vs hx
      have hl' : at_.level ≠ 0 := by omega
      cases hmaj : at_.major <;>
        simp [Val.isNull, Val.type, Spec.seqArg, Sat, hmaj, Val.asStr, Val.asRaw, charArg, Val.asInt, hl', concatRawCase, Ty.str]
    | tup ad items => simp [Val.isNull, Val.type, makeTupleTy_major, Spec.seqArg, Sat, concatRawCase]
    | raw b => simp [Val.isNull, Val.type, Ty.raw, Spec.seqArg, Sat, concatRawCase, Val.asRaw, Ty.str]
    | bool b => simp [Val.isNull, Val.type, Ty.bool, Spec.seqArg, Sat, concatRawCase]
    | num b => simp [Val.isNull, Val.type, Ty.num, Spec.seqArg, Sat, concatRawCase]
    | imag a b => simp [Val.isNull, Val.type, Ty.imag, Spec.seqArg, Sat, concatRawCase]
    | obj a b => simp [Val.isNull, Val.type, Spec.seqArg, Sat, concatRawCase]
  · unfold mConcat Spec.seqConcat
    simp only [Val.type, Ty.raw, Nat.lt_irrefl, ↓reduceIte, gt_iff_lt]
    cases x with
    | null ty => left; rfl
    | str b => simp [Val.isNull, Val.type, Ty.str, Val.asStr, Val.asRaw, Ty.raw, Spec.seqArg, Sat, concatRawCase]
    | raw b => simp [Val.isNull, Val.type, Ty.raw, Val.asRaw, Spec.seqArg, Sat, concatRawCase]
    | int i =>
      simp only [Val.isNull, Val.type, Ty.int, Spec.seqArg, Spec.code, Bool.false_eq_true, ↓reduceIte, concatRawCase]
      rw [charArg_int]
      by_cases hc : 0 ≤ i.toInt ∧ i.toInt ≤ 255
      · simp [hc, Sat, Val.asRaw, Val.type, Ty.raw]
      · simp [hc, Sat]
    | tab at_ ad vs =>
      have hl := tab_level_pos P at_ ad vs hx
      have hl' : at_.level ≠ 0 := by omega
      cases hmaj : at_.major <;>
        simp [Val.isNull, Val.type, Spec.seqArg, Sat, hmaj, Val.asStr, Val.asRaw, charArg, Val.asInt, hl', concatRawCase, Ty.raw]
    | tup ad items => simp [Val.isNull, Val.type, makeTupleTy_major, Spec.seqArg, Sat, concatRawCase]
    | bool b => simp [Val.isNull, Val.type, Ty.bool, Spec.seqArg, Sat, concatRawCase]
    | num b => simp [Val.isNull, Val.type, Ty.num, Spec.seqArg, Sat, concatRawCase]
    | imag a b => simp [Val.isNull, Val.type, Ty.imag, Spec.seqArg, Sat, concatRawCase]
    | obj a b => simp [Val.isNull, Val.type, Spec.seqArg, Sat, concatRawCase]

example : mConcat (.raw [0]) (.str [97]) false = .ok (.raw [0, 97], .raw [0, 97]) ∧
    (match mConcat (.str [97]) (.raw [0]) false with | .err c _ => c == Gen.EXC_RT_NOT_TABCHAR | _ => false) = true :=
  ⟨by rfl, by decide⟩

/-- bytes: `r.at(p)` for every position value (strings: `str_at_index_contract`) -/
theorem raw_at_refines (P) (s : Bytes) (p : Val) (hp : UniformIn P p) :
    Sat (mAt (.raw s) p) (Spec.seqAt (.raw s) s p) := by
  unfold mAt Spec.seqAt
  have hr : (Val.raw s).isNull = false := rfl
  rcases asInt_of_pos P p s.length hp with ⟨i, rfl, hn, hi, hs⟩ | ⟨hn, hs⟩ | ⟨hn, hi, hs⟩
  · rw [hs]
    simp only [Val.isNull, Bool.or_self, Bool.false_eq_true, ↓reduceIte, hi, inRange, idxOf]
    by_cases hr : 0 ≤ i.toInt ∧ i.toInt < (s.length : Int)
    · simp only [hr, and_self, decide_true, ↓reduceIte]
      cases he : s[i.toInt.toNat]? <;> simp [Sat, idxErr, intOfByte]
    · simp [hr, Sat, idxErr]
  · rw [hs]; simp [hn, hr, Sat, idxErr]
  · rw [hs]; simp [hn, hi, hr, Sat]

/-! ### Model = Spec: tuples (`set@N`, `@N`; ranks are 1-based) -/

theorem setItemV_inrange (decl : List Ty) (items : List Val) (idx : Nat) (x : Val) (dt : Ty) (old : Val)
    (hl : x.type.level = 0) (hidx : idx < decl.length) (hdt : decl[idx]? = some dt) (hold : items[idx]? = some old) :
    setItemV (.tup decl items) idx x =
      (match (if dt == x.type then (.ok (some x) : Res (Option Val)) else mixItem dt x old.type) with
        | .ok (some v) => .ok (Val.tup decl (listPut items idx v), Val.tup decl (listPut items idx v))
        | .ok none => tyMismatch
        | .err c a => .err c a
        | .haz h => .haz h
        | .unmodelled => .unmodelled) := by
  unfold setItemV
  simp only [Val.isNull, Bool.false_eq_true, ↓reduceIte, hl, bne_self_eq_false, hidx, hdt, hold]
  by_cases he : (dt == x.type) = true
  · simp only [he, ↓reduceIte]
  · simp only [he, Bool.false_eq_true, ↓reduceIte]
    rfl

/-- **set_refines** (Model = Spec). `u.set@rank(x)` on a uniform tuple, for every rank below 2^32 (larger ranks are refused
at compile time, `acceptSet`) and every uniform argument: item `rank` (1-based) is replaced by `x` — as it is, as the typed
null it denotes, or converted int↔decimal (`either`) —, the index error for rank 0 and ranks above the number of items, a
refusal for a non-fitting value or a table. -/
theorem set_refines (P) (hinj : Inj P) (decl : List Ty) (items : List Val) (rank : Nat) (x : Val)
    (hu : UniformIn P (.tup decl items)) (hx : UniformIn P x) (hcx : canonTy x.type = true)
    (hrank : rank < 4294967296) (hlen : items.length < 4294967295) :
    ∃ o, Spec.specSet (.tup decl items) rank x = some o ∧ Sat (stepRes (.tup decl items) (.set rank x)) o := by
  have huni : uniform (.tup decl items) = true := uniformIn_uniform P _ hu
  have hu' := hu
  unfold UniformIn at hu'
  rw [uniformP_tup] at hu'
  simp only [Bool.and_eq_true, beq_iff_eq] at hu'
  obtain ⟨⟨⟨hd, hsc⟩, hP⟩, hmap, hall⟩ := hu'
  have hlen' : decl.length = items.length := by have := congrArg List.length hmap; simpa using this.symm
  have hstep : stepRes (.tup decl items) (.set rank x) = setItemV (.tup decl items) (itemIndex rank) x := by
    simp only [stepRes, itemNo_small rank hrank]
  rw [hstep]
  unfold Spec.specSet
  simp only [huni, Bool.not_true, Bool.false_eq_true, ↓reduceIte]
  by_cases hl : x.type.level = 0
  · have hl' : (x.type.level != 0) = false := by simp [hl]
    simp only [hl', Bool.false_eq_true, ↓reduceIte]
    by_cases hr : 1 ≤ rank ∧ rank ≤ items.length
    · have hidx : itemIndex rank = rank - 1 := itemIndex_small rank hr.1 hrank
      have hlt : rank - 1 < decl.length := by omega
      have hlt' : rank - 1 < items.length := by omega
      obtain ⟨dt, hdt⟩ : ∃ dt, decl[rank - 1]? = some dt := ⟨_, List.getElem?_eq_getElem hlt⟩
      obtain ⟨old, hold⟩ : ∃ old, items[rank - 1]? = some old := ⟨_, List.getElem?_eq_getElem hlt'⟩
      have hold_ty : old.type = dt := by
        have : (items.map Val.type)[rank - 1]? = some old.type := by simp [hold]
        rw [hmap, hdt] at this; exact (Option.some.inj this).symm
      have hdts : scalarTy dt = true := by
        rw [List.all_eq_true] at hsc
        exact hsc dt (List.mem_of_getElem? hdt)
      have hs' := hdts
      simp only [scalarTy, Bool.and_eq_true, Bool.or_eq_true, beq_iff_eq] at hs'
      have hnt : dt.major ≠ .tup := by
        rcases hs'.2 with ⟨_, h⟩ | h
        · rcases h with ((((h | h) | h) | h) | h) | h <;> rw [h] <;> simp
        · rw [h]; simp
      have hnn : dt.major ≠ .none := by
        rcases hs'.2 with ⟨_, h⟩ | h
        · rcases h with ((((h | h) | h) | h) | h) | h <;> rw [h] <;> simp
        · rw [h]; simp
      have hcan : dt.minor = normMinor dt := by
        rcases hs'.2 with ⟨h0, h⟩ | h
        · rw [h0]; unfold normMinor
          rcases h with ((((h | h) | h) | h) | h) | h <;> rw [h] <;> simp
        · unfold normMinor; rw [h]; simp
      -- the item type as the header of a one-dimensional table
      have hE : elemETy dt.levelUp [] = mkETy dt [] 0 := by
        unfold elemETy
        rw [mkETy_nontup _ [] _ (by simpa [Ty.levelUp] using hnt), mkETy_nontup dt [] 0 hnt]
        simp [Ty.levelUp, normMinor, hs'.1]
      have hh : headerOk dt.levelUp [] = true := by
        rw [headerOk_iff]
        refine ⟨by simp [Ty.levelUp], by simp [Ty.levelUp, hs'.1], by simpa [Ty.levelUp] using hnn, Or.inr ⟨by simpa [Ty.levelUp] using hnt, rfl⟩⟩
      have hct : canonTy dt.levelUp = true := by
        simp only [canonTy, beq_iff_eq, Ty.levelUp, normMinor]
        simpa [normMinor] using hcan
      have hlb : KF.levelBug dt.levelUp x = false := by
        simp [KF.levelBug, Ty.levelUp, hs'.1]
      have hnull : dt.levelUp.major ≠ .tup → old.type = tyOfETy (elemETy dt.levelUp []) := by
        intro _
        rw [hE, mkETy_nontup dt [] 0 hnt, hold_ty]
        exact Ty.ext' _ _ rfl hcan hs'.1
      have rel := classify_fit P hinj .put dt.levelUp [] x old.type hh (fun h => absurd h (by simpa [Ty.levelUp] using hnt))
        hct hx hcx hlb hnull (fun _ _ _ => rfl)
      rw [hE] at rel
      rw [hidx, setItemV_inrange decl items (rank - 1) x dt old hl hlt hdt hold,
        setSlot_eq_classify dt x old.type hl hdts]
      simp only [hr, and_self, ↓reduceIte, hdt]
      cases hf : fit (mkETy dt [] 0) x with
      | exact v =>
        rw [hf] at rel; simp only [SlotRel] at rel
        cases hig : ignoredNull x with
        | true =>
          have := fit_ign_lvl0 (mkETy dt [] 0) x hig hl (by rw [mkETy_nontup dt [] 0 hnt]; exact hnt)
          rw [this] at hf; simp at hf
        | false =>
          rw [hig] at rel; rw [rel]
          refine ⟨_, rfl, ?_⟩
          simp only [slotOpt, Bool.false_eq_true, ↓reduceIte, Sat]
          rw [listPut_eq_set items _ v hlt']
      | conv v =>
        rw [hf] at rel; simp only [SlotRel] at rel
        rw [rel.2]
        refine ⟨_, rfl, ?_⟩
        simp only [slotOpt, Sat]
        left
        rw [listPut_eq_set items _ v hlt']
      | bad =>
        rw [hf] at rel; simp only [SlotRel] at rel
        obtain ⟨_, c', a', hr'⟩ := rel
        rw [hr']
        exact ⟨_, rfl, _, _, rfl⟩
      | no =>
        rw [hf] at rel; simp only [SlotRel] at rel
        rcases rel with hr' | ⟨_, hr'⟩ <;> rw [hr'] <;> exact ⟨_, rfl, _, _, rfl⟩
    · simp only [hr, ↓reduceIte]
      refine ⟨_, rfl, ?_⟩
      have hge : ¬ itemIndex rank < decl.length := by
        by_cases h0 : rank = 0
        · subst h0; rw [itemIndex_zero]; omega
        · rw [itemIndex_small rank (by omega) hrank]; omega
      simp [setItemV, Val.isNull, hl, hge, Sat, idxErr]
  · have hl' : (x.type.level != 0) = true := by simpa using hl
    simp only [hl', ↓reduceIte]
    refine ⟨_, rfl, ?_⟩
    simp [setItemV, Val.isNull, hl', Sat]

example : ∃ o, Spec.specSet (tIS 1) 1 (.num 0x4004000000000000) = some o ∧ Sat (stepRes (tIS 1) (.set 1 (.num 0x4004000000000000))) o :=
  set_refines onlyIS inj_onlyIS _ _ 1 _ (by decide) (by decide) (by decide) (by decide) (by decide)
example : stepRes (tIS 1) (.set 1 (.num 0x4004000000000000)) = .ok (tIS 2, tIS 2) := by rfl

/-- **item_refines**. `u@rank` on a uniform tuple for every rank below 2^32: item `rank` (1-based), the index error for
rank 0 and ranks above the number of items. -/
theorem item_refines (P) (decl : List Ty) (items : List Val) (rank : Nat)
    (hu : UniformIn P (.tup decl items)) (hrank : rank < 4294967296) (hlen : items.length < 4294967295) :
    match Spec.specItem (.tup decl items) rank with
    | some (.ok v _) => itemAtV (.tup decl items) (itemIndex rank) = .ok v
    | some (.reject _) => itemAtV (.tup decl items) (itemIndex rank) = idxErr
    | _ => False := by
  have huni : uniform (.tup decl items) = true := uniformIn_uniform P _ hu
  have hu' := hu
  unfold UniformIn at hu'
  rw [uniformP_tup] at hu'
  simp only [Bool.and_eq_true, beq_iff_eq] at hu'
  have hlen' : decl.length = items.length := by have := congrArg List.length hu'.2.1; simpa using this.symm
  obtain ⟨h1, h2⟩ := item_index_contract decl items hlen'
  unfold Spec.specItem
  simp only [huni, Bool.not_true, Bool.false_eq_true, ↓reduceIte]
  by_cases hr : 1 ≤ rank ∧ rank ≤ items.length
  · have hidx : itemIndex rank = rank - 1 := itemIndex_small rank hr.1 hrank
    obtain ⟨v, hv, hm⟩ := h1 (rank - 1) (by omega)
    simp only [hr, and_self, ↓reduceIte, hv, hidx, hm]
  · simp only [hr, ↓reduceIte]
    apply h2
    by_cases h0 : rank = 0
    · subst h0; rw [itemIndex_zero]; omega
    · rw [itemIndex_small rank (by omega) hrank]; omega

/-! ### "a table being traversed by forall cannot change": the parse-time lock -/

/-- **locked ⇒ every mutating member is refused, every non-mutating one is accepted** (the head test of
`Member{CONCAT,PUT,DELETE,INSERT,SET}Expression::parse`; `at` and `count` have none): for a receiver expression whose
`symbolId()` is a locked symbol — the variable itself or any chain `t.at(i).…` / `t@N.…` hanging off it. -/
theorem lock_refuses_mutating (op : MemberOp) (recv : RecvExp) (fl : Nat → Bool) (s : Nat)
    (hs : recv.symbolId = some s) (hl : fl s = true) :
    lockRefuses op recv fl = op.mutating ∧
    (op.mutating = true ↔ op = .m .concat ∨ op = .m .put ∨ op = .m .delete ∨ op = .m .insert ∨ op = .set) := by
  constructor
  · simp [lockRefuses, recvLocked, hs, hl]
  · cases op with
    | set => simp [MemberOp.mutating]
    | m m => cases m <;> simp [MemberOp.mutating]

/-- an unlocked receiver, or one without a symbol, is never refused by the lock test -/
theorem lock_accepts_unlocked (op : MemberOp) (recv : RecvExp) (fl : Nat → Bool)
    (h : ∀ s, recv.symbolId = some s → fl s = false) : lockRefuses op recv fl = false := by
  unfold lockRefuses recvLocked
  cases hs : recv.symbolId with
  | none => simp
  | some s => simp [h s hs]

/-- the lock test inside the full compile-time check: with a locked receiver the four mutating methods and `set@` answer
CONST_VIOLATION whatever the arguments are (once the receiver's static type reaches the built-in members at all); `at` and
`count` do not look at the flag. -/
theorem accept_locked (m : Member) (exp : Ty) (args : List Ty) (hd : memberDispatch exp = none) :
    ((MemberOp.m m).mutating = true → acceptMember m exp args true = some Gen.EXC_PARSE_CONST_VIOLATION_S) ∧
    ((MemberOp.m m).mutating = false → acceptMember m exp args true = acceptMember m exp args false) ∧
    (∀ decl rank arg, acceptSet exp decl rank arg true = some Gen.EXC_PARSE_CONST_VIOLATION_S) := by
  refine ⟨?_, ?_, ?_⟩
  · intro h
    cases m <;> simp [MemberOp.mutating] at h <;> simp [acceptMember, hd]
  · intro h
    cases m <;> simp [MemberOp.mutating] at h <;> simp [acceptMember, hd]
  · intro decl rank arg
    simp [acceptSet, hd]

example : memberDispatch { major := .int, level := 1 } = none := by decide
example : acceptMember .delete { major := .int, level := 1 } [Ty.int] false = none ∧
    acceptMember .delete { major := .int, level := 1 } [Ty.int] true = some Gen.EXC_PARSE_CONST_VIOLATION_S := by decide

/-- entering `forall <iter> in <target>` locks the target's symbol and never unlocks another symbol than its own iterator -/
theorem forallEnter_locks (iter sid : Nat) (fl : Nat → Bool) (h : sid ≠ iter) :
    forallEnter iter (some sid) fl sid = true ∧
    (∀ tgt s, s ≠ iter → fl s = true → forallEnter iter tgt fl s = true) ∧
    forallEnter iter (some sid) fl iter = fl sid := by
  refine ⟨?_, ?_, ?_⟩
  · simp [forallEnter, h]
  · intro tgt s hs hl
    cases tgt with
    | none => exact hl
    | some t => simp only [forallEnter, beq_iff_eq, hs, ↓reduceIte]; split <;> simp [hl]
  · simp [forallEnter]

mutual
  /-- an accepted statement leaves every flag as it was (the flags saved by `parse_clause` are restored) -/
  theorem lockStmt_restores : ∀ (st : LStmt) (fl fl' : Nat → Bool), lockStmt st fl = some fl' → ∀ s, fl' s = fl s
    | .call op recv, fl, fl', h, s => by
      simp only [lockStmt] at h
      split at h
      · simp at h
      · simp at h; rw [← h]
    | .assign sym, fl, fl', h, s => by
      simp only [lockStmt] at h
      split at h
      · simp at h
      · simp at h; rw [← h]
    | .loop iter target body, fl, fl', h, s => by
      simp only [lockStmt] at h
      split at h
      · simp at h
      · rename_i cur hb
        simp at h
        have ih := lockBody_restores body _ cur hb s
        rw [← h]
        simp only [forallLeave]
        split
        · rename_i e; simp at e; rw [e]
        · split
          · rfl
          · rename_i h1 h2
            rw [ih]
            cases ht : target.symbolId with
            | none => simp [forallEnter]
            | some t =>
              have : t ≠ s := by intro e; rw [ht, e] at h2; simp at h2
              have h1' : s ≠ iter := by simpa using h1
              simp [forallEnter, h1', Ne.symm this]
  theorem lockBody_restores : ∀ (body : List LStmt) (fl fl' : Nat → Bool), lockBody body fl = some fl' → ∀ s, fl' s = fl s
    | [], fl, fl', h, s => by simp [lockBody] at h; rw [← h]
    | st :: rest, fl, fl', h, s => by
      simp only [lockBody] at h
      split at h
      · simp at h
      · rename_i fl1 h1
        rw [lockBody_restores rest fl1 fl' h s, lockStmt_restores st fl fl1 h1 s]
end

/-- the body contains, at any nesting depth under loops that do not re-use `s` as their iterator, a mutating member call
on a receiver hanging off the symbol `s`, or an assignment `s = …` -/
inductive Touches (s : Nat) : List LStmt → Prop
  | here (op : MemberOp) (recv : RecvExp) (rest : List LStmt) :
      op.mutating = true → recv.symbolId = some s → Touches s (.call op recv :: rest)
  | assigned (rest : List LStmt) : Touches s (.assign s :: rest)
  | nested (iter : Nat) (target : RecvExp) (body rest : List LStmt) :
      iter ≠ s → Touches s body → Touches s (.loop iter target body :: rest)
  | later (st : LStmt) (rest : List LStmt) : Touches s rest → Touches s (st :: rest)

/-- **a locked table cannot be changed anywhere in the body**: if `s` is locked, every statement list that somewhere
(directly, in a nested forall over any table, after other statements) calls a mutating member on `s` or on a chain hanging
off `s` is refused at compile time. -/
theorem locked_body_refused (s : Nat) : ∀ (body : List LStmt), Touches s body → ∀ (fl : Nat → Bool), fl s = true →
    lockBody body fl = none := by
  intro body ht
  induction ht with
  | here op recv rest hm hs =>
    intro fl hl
    simp [lockBody, lockStmt, lockRefuses, recvLocked, hm, hs, hl]
  | assigned rest =>
    intro fl hl
    simp [lockBody, lockStmt, hl]
  | nested iter target body rest hne _ ih =>
    intro fl hl
    have := ih (forallEnter iter target.symbolId fl) ((forallEnter_locks iter s fl (Ne.symm hne)).2.1 _ s (Ne.symm hne) hl)
    simp [lockBody, lockStmt, this]
  | later st rest _ ih =>
    intro fl hl
    simp only [lockBody]
    split
    · rfl
    · rename_i fl1 h1
      exact ih fl1 (by rw [lockStmt_restores st fl fl1 h1 s]; exact hl)

/-- **forall_table_cannot_change**: `forall e in t loop <body> end loop` with `e ≠ t` is refused whenever the body touches
`t`; an accepted forall statement leaves all lock flags as they were. -/
theorem forall_table_cannot_change (e t : Nat) (body : List LStmt) (fl : Nat → Bool) (hne : t ≠ e) :
    (Touches t body → lockStmt (.loop e (.var t) body) fl = none) ∧
    (∀ fl', lockStmt (.loop e (.var t) body) fl = some fl' → ∀ s, fl' s = fl s) := by
  constructor
  · intro ht
    have := locked_body_refused t body ht (forallEnter e (some t) fl) (forallEnter_locks e t fl hne).1
    simp [lockStmt, RecvExp.symbolId, this]
  · exact fun fl' h => lockStmt_restores _ fl fl' h

/-- non-vacuity: `forall e in t loop forall f in u loop x = 1; t.at(0).delete(0); end loop; end loop` (symbols t=0, u=1,
e=2, f=3) is refused; the same body with `u.delete(0)` on the copy is accepted and restores the flags -/
example : lockStmt (.loop 2 (.var 0) [.loop 3 (.var 1) [.call (.m .count) (.var 0), .call (.m .delete) (.chain (.var 0))]])
    (fun _ => false) = none :=
  (forall_table_cannot_change 2 0 _ _ (by decide)).1
    (.nested 3 (.var 1) _ _ (by decide) (.later _ _ (.here _ _ _ rfl rfl)))
example : (lockStmt (.loop 2 (.var 0) [.call (.m .delete) (.var 1), .call (.m .concat) (.var 2)]) (fun _ => false)).isSome = true := by
  decide
/-- the lock on assignment: `forall e in t loop forall f in u loop t = u; end loop; end loop` is refused, `u = t;` is not
(inside `forall e in t` only) -/
example : lockStmt (.loop 2 (.var 0) [.loop 3 (.var 1) [.assign 0]]) (fun _ => false) = none :=
  (forall_table_cannot_change 2 0 _ _ (by decide)).1 (.nested 3 (.var 1) _ _ (by decide) (.assigned _))
example : (lockStmt (.loop 2 (.var 0) [.assign 1, .assign 2]) (fun _ => false)).isSome = true := by decide

/-! ### constructors: `tab(n, x)`, `tup(…)` -/

/-- what `tab_refines` says for one Spec outcome -/
def TabSat (P : List Ty → Bool) (r : Res Val) : Option SOut → Prop
  | some (.ok v _) => r = .ok v ∧ UniformIn P v
  | some (.reject .index) => r = .err Gen.EXC_RT_INDEX_RANGE_S
  | some (.reject _) => ∃ c a, r = .err c a
  | some (.either _ _) => False
  | none => True

/-- **tab_refines** (Model = Spec, and the result is uniform). `tab(n, x)` with a non-null count up to 2^20 and a uniform
`x` whose declaration does not hash to 0 (C09.tuple.hashZero): the table of `n` copies of `x` one dimension above `x` —
nested tables (`tab(2, tab(3, 0))`), tables of tuples (header = the tuple's declaration), tables of typed nulls —, and that
table is uniform; the index error for a negative count; a refusal for an untyped null / the opaque tuple (COMPOUND_OPAQUE)
and at the dimension limit (`x` of 254 dimensions: OUT_OF_DIMENSION, TYPE_LEVEL_MAX = 255). -/
theorem tab_refines (P) (n : Int64) (x : Val) (hx : UniformIn P x) (hz : KF.hashZero x = false)
    (hlv : x.type.level < 255) (hn1 : n.toInt ≤ 1048576) :
    TabSat P (biTab (m := Res) [.ok (.int n), .ok x]) (Spec.specTab [.int n, x]) := by
  have huni : uniform x = true := uniformIn_uniform P _ hx
  unfold Spec.specTab
  simp only [huni, Bool.not_true, Bool.false_eq_true, ↓reduceIte]
  by_cases hneg : n.toInt < 0
  · simp only [hneg, ↓reduceIte, TabSat]
    exact biTab_neg n x hneg
  · have h0 : 0 ≤ n.toInt := by omega
    have hbig : ¬ n.toInt > 1048576 := by omega
    simp only [hneg, hbig, ↓reduceIte]
    have scalar : ∀ (v : Val), v.type.level = 0 → v.type.major ≠ .none → v.type.major ≠ .tup →
        etyOf v = mkETy v.type [] v.type.level → uniformP P v = true →
        tabHeader v = .ok (v.type.levelUp, []) →
        TabSat P (biTab (m := Res) [.ok (.int n), .ok v])
          (some (.ok (.tab v.type.levelUp [] (List.replicate n.toInt.toNat v)) (.tab v.type.levelUp [] (List.replicate n.toInt.toNat v)))) := by
      intro v hl hnn hnt hety hu hhd
      have hdown : v.type.levelUp.levelDown = v.type := by cases v.type; simp [Ty.levelUp, Ty.levelDown]
      refine ⟨biTab_res n v _ _ h0 hn1 hhd hdown.symm (by simp [Ty.levelUp]) (by simp [Ty.levelUp, hl]), ?_⟩
      apply tab_uniform_build P _ _ v _ _ (fun h => absurd h (by simpa [Ty.levelUp] using hnt)) _ hu
      · rw [headerOk_iff]
        exact ⟨by simp [Ty.levelUp], by simp [Ty.levelUp, hl], by simpa [Ty.levelUp] using hnn,
          Or.inr ⟨by simpa [Ty.levelUp] using hnt, rfl⟩⟩
      · rw [hety]
        unfold elemETy
        rw [mkETy_nontup _ [] _ hnt, mkETy_nontup _ [] _ (by simpa [Ty.levelUp] using hnt)]
        simp [Ty.levelUp, normMinor]
    cases x with
    | bool b => exact scalar (.bool b) rfl (by simp [Val.type, Ty.bool]) (by simp [Val.type, Ty.bool]) rfl hx rfl
    | int b => exact scalar (.int b) rfl (by simp [Val.type, Ty.int]) (by simp [Val.type, Ty.int]) rfl hx rfl
    | num b => exact scalar (.num b) rfl (by simp [Val.type, Ty.num]) (by simp [Val.type, Ty.num]) rfl hx rfl
    | imag a b => exact scalar (.imag a b) rfl (by simp [Val.type, Ty.imag]) (by simp [Val.type, Ty.imag]) rfl hx rfl
    | str b => exact scalar (.str b) rfl (by simp [Val.type, Ty.str]) (by simp [Val.type, Ty.str]) rfl hx rfl
    | raw b => exact scalar (.raw b) rfl (by simp [Val.type, Ty.raw]) (by simp [Val.type, Ty.raw]) rfl hx rfl
    | obj a b => exact scalar (.obj a b) rfl (by simp [Val.type]) (by simp [Val.type]) rfl hx rfl
    | tup decl items =>
      have hu := hx
      unfold UniformIn at hu
      rw [uniformP_tup] at hu
      simp only [Bool.and_eq_true] at hu
      have hd : decl ≠ [] := by have := hu.1.1.1; simpa using this
      have hmin : (makeTupleTy decl 0).minor ≠ 0 := by
        have := hz; simp [KF.hashZero, hd] at this; exact this
      have hhd : tabHeader (.tup decl items) = .ok (makeTupleTy decl 1, decl) := by
        unfold tabHeader
        have h1 : ((Val.tup decl items).type.major == Major.none) = false := by simp [Val.type, makeTupleTy_major]
        have h2 : ((Val.tup decl items).type == ({ major := .tup } : Ty)) = false := by
          apply beq_eq_false_iff_ne.mpr
          intro e; apply hmin; have := congrArg Ty.minor e; simpa [Val.type] using this
        have h3 : ¬ ((Val.tup decl items).type.level ≥ Gen.TYPE_LEVEL_MAX - 1) := by
          simp [Val.type, makeTupleTy_level, Gen.TYPE_LEVEL_MAX]
        simp only [h1, h2, h3, Bool.or_self, Bool.false_eq_true, ↓reduceIte]
      have hty : (Val.tup decl items).type = (makeTupleTy decl 1).levelDown := by
        rw [makeTupleTy_levelDown]; rfl
      refine ⟨biTab_res n _ _ _ h0 hn1 hhd hty (by rw [makeTupleTy_level]; omega) (by rw [makeTupleTy_level]; omega), ?_⟩
      apply tab_uniform_build P _ _ _ _ _ (fun _ => hu.1.2) _ hx
      · rw [headerOk_iff]
        exact ⟨by rw [makeTupleTy_level]; omega, by rw [makeTupleTy_level]; omega, by rw [makeTupleTy_major]; simp,
          Or.inl ⟨makeTupleTy_major decl 1, hd, by rw [makeTupleTy_level]⟩⟩
      · show mkETy (makeTupleTy decl 0) decl 0 = elemETy (makeTupleTy decl 1) decl
        unfold elemETy
        rw [mkETy_tup _ decl 0 (makeTupleTy_major decl 0) hd, mkETy_tup _ decl _ (makeTupleTy_major decl 1) hd, makeTupleTy_level]
    | tab t decl es =>
      obtain ⟨hh, hp, _⟩ := tab_parts P t decl es hx
      have hh' := (headerOk_iff t decl).1 hh
      by_cases h254 : t.level ≥ 254
      · simp only [h254, ↓reduceIte, TabSat]
        have hl : t.level = 254 := by have := hh'.2.1; omega
        refine ⟨_, _, biTab_header_err n _ Gen.EXC_RT_OUT_OF_DIMENSION [] h0 hn1 ?_⟩
        unfold tabHeader
        have h1 : ((Val.tab t decl es).type.major == Major.none) = false := by simpa [Val.type] using hh'.2.2.1
        have h2 : ((Val.tab t decl es).type == ({ major := .tup } : Ty)) = false := by
          apply beq_eq_false_iff_ne.mpr
          intro e; have := congrArg Ty.level e; simp [Val.type, hl] at this
        have h3 : (Val.tab t decl es).type.level ≥ Gen.TYPE_LEVEL_MAX - 1 := by
          simp [Val.type, hl, Gen.TYPE_LEVEL_MAX]
        simp only [h1, h2, h3, Bool.or_self, Bool.false_eq_true, ↓reduceIte]
      · simp only [h254, ↓reduceIte]
        have hhd : tabHeader (.tab t decl es) = .ok (t.levelUp, decl) := by
          unfold tabHeader
          have h1 : ((Val.tab t decl es).type.major == Major.none) = false := by simpa [Val.type] using hh'.2.2.1
          have h2 : ((Val.tab t decl es).type == ({ major := .tup } : Ty)) = false := by
            apply beq_eq_false_iff_ne.mpr
            intro e; have := congrArg Ty.level e; simp [Val.type] at this; omega
          have h3 : ¬ ((Val.tab t decl es).type.level ≥ Gen.TYPE_LEVEL_MAX - 1) := by
            simp only [Val.type, Gen.TYPE_LEVEL_MAX]; omega
          simp only [h1, h2, h3, Bool.or_self, Bool.false_eq_true, ↓reduceIte]
          rcases hh'.2.2.2 with ⟨a1, a2, a3⟩ | ⟨a1, a2⟩
          · have hm : (t.level + 1) % 256 = t.level + 1 := by omega
            have : makeTupleTy decl (t.level + 1) = t.levelUp := by
              rw [a3]; unfold makeTupleTy Ty.levelUp; split <;> simp
            simp [a1, hm, this]
          · have : (t.major == Major.tup) = false := by simpa using a1
            have hlt : t.level < 255 := hlv
            simp [this, a2, levelUp8_eq t hlt]
        have hty : (Val.tab t decl es).type = t.levelUp.levelDown := by cases t; simp [Val.type, Ty.levelUp, Ty.levelDown]
        refine ⟨biTab_res n _ _ _ h0 hn1 hhd hty (by simp [Ty.levelUp]) (by simp only [Ty.levelUp]; omega), ?_⟩
        apply tab_uniform_build P _ _ _ _ _ (fun h => hp (by simpa [Ty.levelUp] using h)) _ hx
        · rw [headerOk_iff]
          refine ⟨by simp [Ty.levelUp], by simp only [Ty.levelUp]; omega, by simpa [Ty.levelUp] using hh'.2.2.1, ?_⟩
          rcases hh'.2.2.2 with ⟨a1, a2, a3⟩ | ⟨a1, a2⟩
          · left
            refine ⟨by simpa [Ty.levelUp] using a1, a2, ?_⟩
            rw [a3]; unfold makeTupleTy Ty.levelUp; split <;> simp
          · right; exact ⟨by simpa [Ty.levelUp] using a1, a2⟩
        · show mkETy t decl t.level = elemETy t.levelUp decl
          unfold elemETy mkETy
          simp [Ty.levelUp, normMinor]
    | null ty =>
      by_cases hop : ty.major = .none ∨ (ty.major = .tup ∧ ty.minor = 0 ∧ ty.level = 0)
      · have hc : (ty.major == Major.none || ty.major == Major.tup && ty.minor == 0 && ty.level == 0) = true := by
          rcases hop with h | ⟨h1, h2, h3⟩ <;> simp [*]
        simp only [hc, ↓reduceIte, TabSat]
        refine ⟨_, _, biTab_header_err n _ Gen.EXC_RT_COMPOUND_OPAQUE [] h0 hn1 ?_⟩
        unfold tabHeader
        have : ((Val.null ty).type.major == Major.none || (Val.null ty).type == ({ major := .tup } : Ty)) = true := by
          rcases hop with h | ⟨h1, h2, h3⟩
          · simp [Val.type, h]
          · have : ty = ({ major := .tup } : Ty) := Ty.ext' _ _ h1 h2 h3
            simp [Val.type, this]
        simp only [this, ↓reduceIte]
      · have hc : (ty.major == Major.none || ty.major == Major.tup && ty.minor == 0 && ty.level == 0) = false := by
          apply Bool.eq_false_iff.mpr
          intro h; apply hop
          simp only [Bool.or_eq_true, Bool.and_eq_true, beq_iff_eq] at h
          rcases h with h | ⟨⟨h1, h2⟩, h3⟩
          · exact Or.inl h
          · exact Or.inr ⟨h1, h2, h3⟩
        simp only [hc, Bool.false_eq_true, ↓reduceIte]
        by_cases htup : ty.major = .tup
        · simp [htup, TabSat]
        · have htup' : (ty.major == Major.tup) = false := by simpa using htup
          simp only [htup', Bool.false_eq_true, ↓reduceIte]
          have hnn : ty.major ≠ .none := fun h => hop (Or.inl h)
          have hlv' : ty.level < 255 := hlv
          by_cases h254 : ty.level ≥ 254
          · simp only [h254, ↓reduceIte, TabSat]
            have hl : ty.level = 254 := by omega
            refine ⟨_, _, biTab_header_err n _ Gen.EXC_RT_OUT_OF_DIMENSION [] h0 hn1 ?_⟩
            unfold tabHeader
            have h1 : ((Val.null ty).type.major == Major.none) = false := by simpa [Val.type] using hnn
            have h2 : ((Val.null ty).type == ({ major := .tup } : Ty)) = false := by
              apply beq_eq_false_iff_ne.mpr
              intro e; have := congrArg Ty.major e; simp [Val.type] at this; exact htup this
            have h3 : (Val.null ty).type.level ≥ Gen.TYPE_LEVEL_MAX - 1 := by
              simp [Val.type, hl, Gen.TYPE_LEVEL_MAX]
            simp only [h1, h2, h3, Bool.or_self, Bool.false_eq_true, ↓reduceIte]
          · simp only [h254, ↓reduceIte]
            have hhd : tabHeader (.null ty) = .ok (ty.levelUp, []) := by
              unfold tabHeader
              have h1 : ((Val.null ty).type.major == Major.none) = false := by simpa [Val.type] using hnn
              have h2 : ((Val.null ty).type == ({ major := .tup } : Ty)) = false := by
                apply beq_eq_false_iff_ne.mpr
                intro e; have := congrArg Ty.major e; simp [Val.type] at this; exact htup this
              have h3 : ¬ ((Val.null ty).type.level ≥ Gen.TYPE_LEVEL_MAX - 1) := by
                simp only [Val.type, Gen.TYPE_LEVEL_MAX]; omega
              simp only [h1, h2, h3, Bool.or_self, Bool.false_eq_true, ↓reduceIte]
              show Res.ok (levelUp8 ty, []) = _
              rw [levelUp8_eq ty hlv']
            have hty : (Val.null ty).type = ty.levelUp.levelDown := by cases ty; simp [Val.type, Ty.levelUp, Ty.levelDown]
            refine ⟨biTab_res n _ _ _ h0 hn1 hhd hty (by simp [Ty.levelUp]) (by simp only [Ty.levelUp]; omega), ?_⟩
            apply tab_uniform_build P _ _ _ _ _ (fun h => absurd h (by simpa [Ty.levelUp] using htup)) _ hx
            · rw [headerOk_iff]
              exact ⟨by simp [Ty.levelUp], by simp only [Ty.levelUp]; omega, by simpa [Ty.levelUp] using hnn,
                Or.inr ⟨by simpa [Ty.levelUp] using htup, rfl⟩⟩
            · show mkETy ty [] ty.level = elemETy ty.levelUp []
              unfold elemETy
              rw [mkETy_nontup _ [] _ htup, mkETy_nontup _ [] _ (by simpa [Ty.levelUp] using htup)]
              simp [Ty.levelUp, normMinor]

/-- nested tables: `tab(2, tab(3, 0))` is the uniform 2 × 3 table of integers -/
example : biTab (m := Res) [.ok (.int 2), .ok (ti1 [.int 0, .int 0, .int 0])] =
    .ok (.tab { major := .int, level := 2 } [] [ti1 [.int 0, .int 0, .int 0], ti1 [.int 0, .int 0, .int 0]]) := by rfl
example : TabSat onlyIS (biTab (m := Res) [.ok (.int 2), .ok (tIS 1)]) (Spec.specTab [.int 2, tIS 1]) :=
  tab_refines onlyIS 2 (tIS 1) (by decide) (by decide) (by decide) (by decide)
/-- the level limit: a table of 254 dimensions cannot be nested further (run time), a static type of 255 dimensions is
refused at compile time -/
example : (match biTab (m := Res) [.ok (.int 1), .ok (.null { major := .int, level := 254 })] with
    | .err c _ => c == Gen.EXC_RT_OUT_OF_DIMENSION | _ => false) = true ∧
    acceptTab [Ty.int, { major := .int, level := 255 }] = some Gen.EXC_PARSE_OUT_OF_DIMENSION := by decide

theorem tabHeader_level (x : Val) (t : Ty) (decl : List Ty) (h : tabHeader x = .ok (t, decl)) :
    1 ≤ t.level ∧ t.level ≤ 254 ∧ x.type.level ≤ 253 ∧ KF.hashZero x = false := by
  unfold tabHeader at h
  split at h
  · simp at h
  · rename_i hop
    split at h
    · simp at h
    · rename_i hlv
      simp only [Gen.TYPE_LEVEL_MAX] at hlv
      have hl : x.type.level ≤ 253 := by omega
      have hz : KF.hashZero x = false := by
        cases x with
        | tup d items =>
          simp only [KF.hashZero, Bool.and_eq_false_iff]
          by_cases hd : d = []
          · left; simp [hd]
          · right
            apply beq_eq_false_iff_ne.mpr
            intro hm
            apply hop
            have : (Val.tup d items).type = ({ major := .tup } : Ty) := by
              apply Ty.ext'
              · exact makeTupleTy_major d 0
              · exact hm
              · exact makeTupleTy_level d 0
            simp [this]
        | _ => rfl
      refine ⟨?_, ?_, hl, hz⟩ <;>
      · cases x with
        | tup d items => simp at h; rw [← h.1, makeTupleTy_level]; omega
        | tab t' d' es' =>
          have hl' : t'.level ≤ 253 := hl
          have hm : (t'.level + 1) % 256 = t'.level + 1 := by omega
          simp only at h
          split at h
          · simp at h; rw [← h.1, makeTupleTy_level, hm]; omega
          · simp at h; rw [← h.1]; simp only [levelUp8, hm]; omega
        | _ =>
          simp at h
          rw [← h.1]
          simp only [levelUp8]
          omega

theorem specTab_some (n : Int64) (x : Val) (hu : uniform x = true) (h0 : 0 ≤ n.toInt) (h1 : n.toInt ≤ 1048576)
    (hnt : ∀ ty, x = .null ty → ty.major ≠ .tup) : ∃ o, Spec.specTab [.int n, x] = some o := by
  unfold Spec.specTab
  have a : ¬ n.toInt < 0 := by omega
  have b : ¬ n.toInt > 1048576 := by omega
  simp only [hu, Bool.not_true, Bool.false_eq_true, ↓reduceIte, a, b]
  cases x with
  | null ty =>
    have := hnt ty rfl
    simp only [this, beq_iff_eq, Bool.false_and, Bool.or_false, Bool.false_eq_true, ↓reduceIte]
    split
    · exact ⟨_, rfl⟩
    · split <;> exact ⟨_, rfl⟩
  | tab t d es => simp only; split <;> exact ⟨_, rfl⟩
  | _ => exact ⟨_, rfl⟩

/-- **tab_level_bounded** (positive statement after the repair 2c67aef; was the witness `level_limit_wraps` of the former
finding C09.tab.levelWrap). Whatever the count and the element are (static types known or opaque, null count or not, element
of any number of dimensions): a value returned by `tab(n, x)` has between 1 and 254 dimensions — the `uint8_t` level never
wraps —, and for a uniform `x` (not a typed null tuple, which has no declaration) it is uniform. -/
theorem tab_level_bounded (P : List Ty → Bool) (a0 x r : Val) (h : biTab (m := Res) [.ok a0, .ok x] = .ok r) :
    1 ≤ r.type.level ∧ r.type.level ≤ 254 ∧
    (UniformIn P x → (∀ ty, x = .null ty → ty.major ≠ .tup) → UniformIn P r) := by
  cases hn : a0.isNull with
  | true =>
    unfold biTab at h
    simp only [bind, hn, ↓reduceIte, pure] at h
    split at h
    · simp [rerr, liftR, liftM, monadLift] at h
    · rename_i hl
      simp only [Gen.TYPE_LEVEL_MAX] at hl
      injection h with h
      have hm : (x.type.level + 1) % 256 = x.type.level + 1 := by omega
      rw [← h]
      show 1 ≤ (levelUp8 x.type).level ∧ (levelUp8 x.type).level ≤ 254 ∧ _
      simp only [levelUp8, hm]
      exact ⟨by omega, by omega, fun _ _ => by simp [UniformIn]⟩
  | false =>
    -- the count is an integer
    have hint : ∃ n, a0 = .int n := by
      unfold biTab at h
      simp only [bind, hn, Bool.false_eq_true, ↓reduceIte, liftR, liftM, monadLift, MonadLift.monadLift] at h
      cases ha : a0.asInt with
      | ok n =>
        unfold Val.asInt at ha
        split at ha
        · simp at ha
        · cases a0 <;> simp at ha
          exact ⟨_, rfl⟩
      | err c e => rw [ha] at h; simp at h
      | haz e => rw [ha] at h; simp at h
      | unmodelled => rw [ha] at h; simp at h
    obtain ⟨n, rfl⟩ := hint
    have hneg : ¬ n.toInt < 0 := by
      intro hc; rw [biTab_neg n x hc] at h; simp at h
    have hbig : n.toInt ≤ 1048576 := by
      rcases Int.lt_or_le 1048576 n.toInt with hc | hc
      · exfalso
        have b : n > 1048576 := by
          show (1048576 : Int64) < n
          rw [Int64.lt_iff_toInt_lt]; exact hc
        have a : ¬ (n < 0) := by rw [Int64.lt_iff_toInt_lt]; show ¬ n.toInt < 0; omega
        have e : (Val.int n).asInt = .ok n := rfl
        unfold biTab at h
        simp [bind, Val.isNull, liftR, liftM, monadLift, MonadLift.monadLift, e, a, b] at h
      · exact hc
    have h0 : 0 ≤ n.toInt := by omega
    cases hh : tabHeader x with
    | err c e => rw [biTab_header_err n x c e h0 hbig hh] at h; simp at h
    | haz e => exact absurd hh (by unfold tabHeader; split; simp; split; simp; split <;> (try split) <;> simp)
    | unmodelled => exact absurd hh (by unfold tabHeader; split; simp; split; simp; split <;> (try split) <;> simp)
    | ok td =>
      obtain ⟨t, decl⟩ := td
      obtain ⟨hl1, hl2, hxl, hz⟩ := tabHeader_level x t decl hh
      -- the result is a table with this header
      have hshape : ∃ es, r = .tab t decl es := by
        have a : ¬ (n < 0) := by rw [Int64.lt_iff_toInt_lt]; show ¬ n.toInt < 0; omega
        have b : ¬ (n > 1048576) := by
          show ¬ ((1048576 : Int64) < n)
          rw [Int64.lt_iff_toInt_lt]; show ¬ (1048576 : Int) < n.toInt; omega
        have e : (Val.int n).asInt = .ok n := rfl
        unfold biTab at h
        simp only [bind, Val.isNull, Bool.false_eq_true, ↓reduceIte, liftR, liftM, monadLift, MonadLift.monadLift, e, a, b, hh, pure] at h
        split at h
        · injection h with h; exact ⟨_, h.symm⟩
        · cases hf : tabFill (m := Res) (Res.ok x) (levelDown8 t) (idxOf n - 1) [x] with
          | ok es => rw [hf] at h; simp only at h; injection h with h; exact ⟨_, h.symm⟩
          | err c e => rw [hf] at h; simp at h
          | haz e => rw [hf] at h; simp at h
          | unmodelled => rw [hf] at h; simp at h
      obtain ⟨es, rfl⟩ := hshape
      refine ⟨hl1, hl2, ?_⟩
      intro hx hnt
      have huni := uniformIn_uniform P _ hx
      have hsat := tab_refines P n x hx hz (by omega) hbig
      obtain ⟨o, ho⟩ := specTab_some n x huni h0 hbig hnt
      rw [ho] at hsat
      cases o with
      | ok v w => simp only [TabSat] at hsat; rw [h] at hsat; injection hsat.1 with e; rw [e]; exact hsat.2
      | reject e =>
        cases e <;> simp only [TabSat] at hsat
        · rw [h] at hsat; simp at hsat
        · obtain ⟨c, a, hc⟩ := hsat; rw [h] at hc; simp at hc
        · obtain ⟨c, a, hc⟩ := hsat; rw [h] at hc; simp at hc
        · obtain ⟨c, a, hc⟩ := hsat; rw [h] at hc; simp at hc
      | either v w => exact absurd hsat id

/-- the former witnesses of C09.tab.levelWrap are refused now, on both paths -/
example : (match biTab (m := Res) [.ok (.null Ty.int), .ok (.null { major := .int, level := 254 })] with
      | .err c _ => c == Gen.EXC_RT_OUT_OF_DIMENSION | _ => false) = true ∧
    (match biTab (m := Res) [.ok (.int 0), .ok (.null { major := .int, level := 255 })] with
      | .err c _ => c == Gen.EXC_RT_OUT_OF_DIMENSION | _ => false) = true ∧
    biTab (m := Res) [.ok (.null Ty.int), .ok (.null { major := .int, level := 253 })] = .ok (.null { major := .int, level := 254 }) := by
  refine ⟨by decide, by decide, by rfl⟩
example : ∀ r, biTab (m := Res) [.ok (.int 2), .ok (.int 7)] = .ok r → UniformIn onlyIS r :=
  fun r h => (tab_level_bounded onlyIS _ _ r h).2.2 (by decide) (fun ty e => by simp at e)

/-! ### tab(n, e) with an element expression whose value changes between evaluations -/

theorem tabFill_stream (ty : Ty) : ∀ (k : Nat) (acc vs : List Val), k ≤ vs.length →
    (tabFill (m := StateT (List Val) Res) nextVal ty k acc).run vs =
      if (vs.take k).all (fun v => v.type == ty) then .ok (acc ++ vs.take k, vs.drop k)
      else .err Gen.EXC_RT_VARYING_COLLECTION := by
  intro k
  induction k with
  | zero => intro acc vs _; simp [tabFill, StateT.run, pure, StateT.pure]
  | succ k ih =>
    intro acc vs hl
    cases vs with
    | nil => simp at hl
    | cons v vs =>
      have hl' : k ≤ vs.length := by simpa using hl
      have ih' := ih (acc ++ [v]) vs hl'
      simp only [StateT.run] at ih' ⊢
      simp only [tabFill, bind, StateT.bind, nextVal, List.take_succ_cons, List.all_cons, List.drop_succ_cons]
      by_cases hv : v.type = ty
      · have h1 : (v.type != ty) = false := by simp [hv]
        have h2 : (v.type == ty) = true := by simp [hv]
        simp only [h1, h2, Bool.false_eq_true, ↓reduceIte, Bool.true_and]
        rw [ih']
        split <;> simp
      · have : (v.type != ty) = true := by simpa using hv
        have h2 : (v.type == ty) = false := by simpa using hv
        simp [this, h2, rerr, liftR, liftM, monadLift, MonadLift.monadLift, StateT.lift, bind]

theorem tab_varying (n : Int64) (v : Val) (vs : List Val) (t : Ty) (decl : List Ty)
    (h0 : 1 ≤ n.toInt) (h1 : n.toInt ≤ 1048576) (hh : tabHeader v = .ok (t, decl))
    (hlen : n.toInt.toNat - 1 ≤ vs.length) :
    (biTab (m := StateT (List Val) Res) [pure (.int n), nextVal]).run (v :: vs) =
      if (vs.take (n.toInt.toNat - 1)).all (fun w => w.type == levelDown8 t)
      then .ok (.tab t decl (v :: vs.take (n.toInt.toNat - 1)), vs.drop (n.toInt.toNat - 1))
      else .err Gen.EXC_RT_VARYING_COLLECTION := by
  have a : ¬ (n < 0) := by rw [Int64.lt_iff_toInt_lt]; show ¬ n.toInt < 0; omega
  have b : ¬ (n > 1048576) := by
    show ¬ ((1048576 : Int64) < n)
    rw [Int64.lt_iff_toInt_lt]; show ¬ (1048576 : Int) < n.toInt; omega
  have hz : (n == 0) = false := by
    apply beq_eq_false_iff_ne.mpr; intro e; subst e; simp at h0
  have e : (Val.int n).asInt = .ok n := rfl
  have hf := tabFill_stream (levelDown8 t) (idxOf n - 1) [v] vs (by unfold idxOf; exact hlen)
  simp only [StateT.run] at hf ⊢
  unfold idxOf at hf
  by_cases hc : ((vs.take (n.toInt.toNat - 1)).all fun w => w.type == levelDown8 t) = true
  · rw [if_pos hc] at hf
    rw [if_pos hc]
    unfold biTab
    simp only [bind, StateT.bind, pure, StateT.pure, Val.isNull, Bool.false_eq_true, ↓reduceIte, liftR, liftM, monadLift,
      MonadLift.monadLift, StateT.lift, e, a, b, hh, hz, nextVal, idxOf, hf]
    rfl
  · rw [if_neg hc] at hf
    rw [if_neg hc]
    unfold biTab
    simp only [bind, StateT.bind, pure, StateT.pure, Val.isNull, Bool.false_eq_true, ↓reduceIte, liftR, liftM, monadLift,
      MonadLift.monadLift, StateT.lift, e, a, b, hh, hz, nextVal, idxOf, hf]

/-- a varying element expression: `tab(3, e)` with e = 1, 2, "a" is refused with VARYING_COLLECTION; with e = 1, 2, 3 it is the
table of the three values (the first evaluation fixes the item type, every later one must have exactly that type) -/
example : (match biTabScript (.int 3) [.int 1, .int 2, .str [97]] with | .err c _ => c == Gen.EXC_RT_VARYING_COLLECTION | _ => false) = true ∧
    biTabScript (.int 3) [.int 1, .int 2, .int 3] = .ok (ti1 [.int 1, .int 2, .int 3]) := by
  refine ⟨by decide, by rfl⟩

/-- an item that `tup` accepts at run time: typed, not a table, not a tuple (builtin_tup.cpp value(), 4db32b5) -/
def tupItemOk (v : Val) : Bool := v.type.major != .none && !(decide (v.type.level > 0) || v.type.major == .tup)

theorem tupItems_const : ∀ (vs acc : List Val),
    tupItems (m := Res) (vs.map fun v => Res.ok v) acc =
      (match vs.find? (fun v => !tupItemOk v) with
        | none => .ok (acc ++ vs)
        | some v => if v.type.major == .none then .err Gen.EXC_RT_COMPOUND_OPAQUE else .err Gen.EXC_RT_FUNC_ARG_TYPE_S) := by
  intro vs
  induction vs with
  | nil => intro acc; simp [tupItems, pure]
  | cons v vs ih =>
    intro acc
    simp only [List.map_cons, tupItems, bind, List.find?_cons]
    by_cases h : v.type.major = .none
    · simp [h, tupItemOk, rerr, liftR, liftM, monadLift]
    · have h' : (v.type.major == Major.none) = false := by simpa using h
      by_cases h2 : (decide (v.type.level > 0) || v.type.major == .tup) = true
      · simp [h', h2, tupItemOk, rerr, liftR, liftM, monadLift]
      · have hok : tupItemOk v = true := by simp [tupItemOk, h]; simpa using h2
        simp only [h', Bool.false_eq_true, ↓reduceIte, h2, hok, Bool.not_true, ih]
        simp

theorem biTup_eq (vs : List Val) (hne : vs ≠ []) :
    biTup (m := Res) (vs.map fun v => Res.ok v) =
      (match tupItems (m := Res) (vs.map fun v => Res.ok v) [] with
        | .ok items => .ok (.tup (items.map Val.type) items)
        | .err c a => .err c a
        | .haz h => .haz h
        | .unmodelled => .unmodelled) := by
  have hmap : (vs.map fun v => Res.ok v) ≠ [] := by simpa using hne
  unfold biTup
  cases hm : (vs.map fun v => Res.ok v) with
  | nil => exact absurd hm hmap
  | cons a b =>
    simp only [bind, pure]
    cases tupItems (m := Res) (a :: b) [] <;> rfl

/-- **tup_structure**. `tup(v1, …, vn)` (n ≥ 1): the tuple whose declaration is the list of the items' types, in order, with
exactly the given items, when every item is typed and neither a table nor a tuple; otherwise COMPOUND_OPAQUE (first offending
item untyped) or FUNC_ARG_TYPE (first offending item a table / tuple — also at run time since 4db32b5); when the items are
scalars the tuple is uniform; `acceptTup` refuses exactly static tuple / table / pointer arguments. -/
theorem tup_structure (P : List Ty → Bool) (vs : List Val) (hne : vs ≠ []) :
    ((∀ v ∈ vs, tupItemOk v = true) →
      biTup (m := Res) (vs.map fun v => Res.ok v) = .ok (.tup (vs.map Val.type) vs) ∧
      ((∀ v ∈ vs, scalarVal v = true) → P (vs.map Val.type) = true → UniformIn P (.tup (vs.map Val.type) vs))) ∧
    ((∃ v ∈ vs, tupItemOk v = false) →
      biTup (m := Res) (vs.map fun v => Res.ok v) = .err Gen.EXC_RT_COMPOUND_OPAQUE ∨
      biTup (m := Res) (vs.map fun v => Res.ok v) = .err Gen.EXC_RT_FUNC_ARG_TYPE_S) ∧
    (∀ args : List Ty, acceptTup args = some Gen.EXC_PARSE_FUNC_ARG_TYPE_S ↔
      ∃ t ∈ args, t.level > 0 ∨ t.major = .tup ∨ t.major = .ptr) := by
  refine ⟨?_, ?_, ?_⟩
  · intro hall
    have hc : vs.find? (fun v => !tupItemOk v) = none := by
      rw [List.find?_eq_none]; intro v hv; simp [hall v hv]
    refine ⟨by rw [biTup_eq vs hne, tupItems_const, hc]; simp, ?_⟩
    intro hsc hP
    unfold UniformIn
    rw [uniformP_tup]
    simp only [Bool.and_eq_true, beq_iff_eq, List.all_eq_true]
    refine ⟨⟨⟨by simpa using hne, ?_⟩, hP⟩, trivial, hsc⟩
    intro t ht
    simp only [List.mem_map] at ht
    obtain ⟨v, hv, rfl⟩ := ht
    have := hsc v hv
    cases v <;> simp_all [scalarVal]
  · intro ⟨v, hv, hn⟩
    cases hf : vs.find? (fun v => !tupItemOk v) with
    | none =>
      rw [List.find?_eq_none] at hf
      have := hf v hv; simp [hn] at this
    | some w =>
      rw [biTup_eq vs hne, tupItems_const, hf]
      by_cases hw : w.type.major = .none
      · left; simp [hw]
      · right; simp [hw]
  · intro args
    unfold acceptTup
    constructor
    · intro h
      split at h
      · rename_i hany
        rw [List.any_eq_true] at hany
        obtain ⟨t, ht, hc⟩ := hany
        refine ⟨t, ht, ?_⟩
        simpa [or_assoc] using hc
      · simp at h
    · intro ⟨t, ht, hc⟩
      have : args.any (fun t => decide (t.level > 0) || t.major == Major.tup || t.major == Major.ptr) = true := by
        rw [List.any_eq_true]; exact ⟨t, ht, by simpa [or_assoc] using hc⟩
      simp [this]

example : biTup (m := Res) [.ok (.int 1), .ok (.str [97])] = .ok (tIS 1) := by rfl
/-- tuple-in-tuple and table-in-tuple are refused at compile time AND at run time; an untyped null at run time -/
example : acceptTup [Ty.int, makeTupleTy declIS 0] = some Gen.EXC_PARSE_FUNC_ARG_TYPE_S ∧
    acceptTup [{ major := .int, level := 1 }] = some Gen.EXC_PARSE_FUNC_ARG_TYPE_S ∧ acceptTup [Ty.int, Ty.str] = none ∧
    (match biTup (m := Res) [.ok (.int 1), .ok (.null Ty.none)] with
      | .err c _ => c == Gen.EXC_RT_COMPOUND_OPAQUE | _ => false) = true ∧
    (match biTup (m := Res) [.ok (.int 1), .ok (tIS 2)] with
      | .err c _ => c == Gen.EXC_RT_FUNC_ARG_TYPE_S | _ => false) = true := by decide

/-- **tup_never_nested** (positive statement after the repair 4db32b5; was the witness `tup_nesting_accepted` of the former
finding C09.tup.nested). Whatever the argument values are — static types known or opaque —, a value returned by `tup(…)` is the
null tuple (no argument) or a tuple with exactly the given items, none of which is a table, a tuple (null tuples included)
or untyped: a tuple never holds a tuple or a table. -/
theorem tup_never_nested (vs : List Val) (r : Val) (h : biTup (m := Res) (vs.map fun v => Res.ok v) = .ok r) :
    (vs = [] ∧ r = .null { major := .tup }) ∨
    (r = .tup (vs.map Val.type) vs ∧
      ∀ v ∈ vs, v.type.level = 0 ∧ v.type.major ≠ .tup ∧ v.type.major ≠ .none ∧
        (∀ d i, v ≠ .tup d i)) := by
  by_cases hne : vs = []
  · subst hne
    left
    simp [biTup, pure] at h
    exact ⟨rfl, h.symm⟩
  · right
    rw [biTup_eq vs hne, tupItems_const] at h
    cases hf : vs.find? (fun v => !tupItemOk v) with
    | some w => rw [hf] at h; by_cases hw : w.type.major = .none <;> simp [hw] at h
    | none =>
      rw [hf] at h
      simp at h
      refine ⟨h.symm, ?_⟩
      rw [List.find?_eq_none] at hf
      intro v hv
      have := hf v hv
      simp only [Bool.not_eq_true', Bool.not_eq_false] at this
      simp only [tupItemOk, Bool.and_eq_true, bne_iff_ne, ne_eq, Bool.not_eq_true', Bool.or_eq_false_iff,
        decide_eq_false_iff_not, beq_eq_false_iff_ne] at this
      refine ⟨by omega, this.2.2, this.1, ?_⟩
      intro d i e
      subst e
      exact this.2.2 (makeTupleTy_major d 0)

example : ∀ r, biTup (m := Res) [.ok (.int 1), .ok (.str [97])] = .ok r → r = tIS 1 := by
  intro r h
  rcases tup_never_nested [.int 1, .str [97]] r h with ⟨h0, _⟩ | ⟨h1, _⟩
  · simp at h0
  · exact h1

/-! ### operation sequences on strings, bytes and tuples -/

/-- a member call with the right number of arguments and uniform arguments -/
def OpGoodS (P : List Ty → Bool) : Op → Prop
  | .mem m args => arityOk m args = true ∧ (∀ a ∈ args, uniformP P a = true)
  | .set _ _ => False

/-- the receiver named by a Spec outcome is again a string (resp. bytes) -/
def SeqShape (mk : Bytes → Val) : SOut → Prop
  | .ok _ y => ∃ s', y = mk s'
  | .either _ y => ∃ s', y = mk s'
  | .reject _ => True

theorem str_step_refines (P) (s : Bytes) (op : Op) (hg : OpGoodS P op) :
    ∃ o, specOp (Val.str s) op = some o ∧ Sat (stepRes (Val.str s) op) o ∧ SeqShape Val.str o := by
  have huni : uniform (Val.str s) = true := by simp [uniform, uniformP]
  cases op with
  | set r a => exact absurd hg id
  | mem m args =>
    obtain ⟨har, hargs⟩ := hg
    cases m with
    | «at» =>
      match args, har with
      | [p], _ =>
        refine ⟨Spec.seqAt (Val.str s) s p, by simp [specOp, Spec.specMember, Spec.specAt, huni], str_at_index_contract P s p (hargs p (by simp)), ?_⟩
        unfold Spec.seqAt; split
        · split
          · exact ⟨s, rfl⟩
          · trivial
        · trivial
    | delete =>
      match args, har with
      | [p], _ =>
        refine ⟨Spec.seqDelete Val.str s p, by simp [specOp, Spec.specMember, Spec.specDelete, huni],
          (seq_delete_refines P s p false (hargs p (by simp))).1, ?_⟩
        unfold Spec.seqDelete; split
        · trivial
        · exact ⟨_, rfl⟩
    | count =>
      match args, har with
      | [], _ =>
        exact ⟨.ok (.int (Int64.ofNat s.length)) (Val.str s), by simp [specOp, Spec.specMember, Spec.specCount, huni], rfl, s, rfl⟩
    | put =>
      match args, har with
      | [p, x], _ =>
        refine ⟨Spec.seqPut Val.str s p x, by simp [specOp, Spec.specMember, Spec.specPut, huni],
          (seq_put_refines P s p x false (hargs p (by simp)) (hargs x (by simp))).1, ?_⟩
        unfold Spec.seqPut; split
        · trivial
        · split
          · exact ⟨_, rfl⟩
          · trivial
    | insert =>
      match args, har with
      | [p, x], _ =>
        refine ⟨Spec.seqInsert (Val.str s) Val.str false s p x, by simp [specOp, Spec.specMember, Spec.specInsert, huni],
          (seq_insert_refines P s p x false (hargs p (by simp)) (hargs x (by simp))).1, ?_⟩
        unfold Spec.seqInsert; split
        · trivial
        · split
          · exact ⟨s, rfl⟩
          · split
            · exact ⟨_, rfl⟩
            · trivial
    | concat =>
      match args, har with
      | [x], _ =>
        refine ⟨Spec.seqConcat (Val.str s) Val.str false s x, by simp [specOp, Spec.specMember, Spec.specConcat, huni],
          (seq_concat_refines P s x false (hargs x (by simp))).1, ?_⟩
        unfold Spec.seqConcat; split
        · exact ⟨s, rfl⟩
        · split
          · exact ⟨_, rfl⟩
          · trivial

/-- **str_ops_refine_spec** — the op-sequence theorem for a string variable receiver: for every list of member calls (any position
values, any uniform arguments) the run is one the specification allows (`SpecRun`), the variable stays a string variable after every
step, and before every step the model's outcome is the Spec's (`Sat`). Induction over the operation list. -/
theorem str_ops_refine_spec (P : List Ty → Bool) :
    ∀ (ops : List Op) (s : Bytes), (∀ op ∈ ops, OpGoodS P op) →
      SpecRun (Val.str s) ops (run (Val.str s) ops) ∧ (∃ s', run (Val.str s) ops = Val.str s') ∧
      (∀ (pre : List Op) (op : Op) (post : List Op), ops = pre ++ op :: post →
        ∃ s' o, run (Val.str s) pre = Val.str s' ∧ specOp (Val.str s') op = some o ∧ Sat (stepRes (Val.str s') op) o) := by
  intro ops
  induction ops with
  | nil =>
    intro s _
    refine ⟨.nil _, ⟨s, rfl⟩, ?_⟩
    intro pre op post h; simp at h
  | cons op ops ih =>
    intro s hg
    obtain ⟨o, hspec, hsat, hshape⟩ := str_step_refines P s op (hg op (by simp))
    have hnext := sat_next _ op o hsat
    have hs1 : ∃ s1, applyOp (Val.str s) op = Val.str s1 := by
      cases o with
      | ok r y => obtain ⟨s', hy⟩ := hshape; exact ⟨s', by rw [← hy]; exact hnext⟩
      | reject e => exact ⟨s, hnext⟩
      | either r y =>
        obtain ⟨s', hy⟩ := hshape
        rcases hnext with h | h
        · exact ⟨s', by rw [← hy]; exact h⟩
        · exact ⟨s, h⟩
    obtain ⟨s1, he1⟩ := hs1
    obtain ⟨ih1, ih2, ih3⟩ := ih s1 (fun op' h => hg op' (by simp [h]))
    have hrun : ∀ l, run (Val.str s) (op :: l) = run (Val.str s1) l := by
      intro l; simp [run, he1]
    refine ⟨?_, ?_, ?_⟩
    · rw [hrun]
      exact .cons _ op ops _ _ o hspec (by rw [← he1]; exact hnext) ih1
    · rw [hrun]; exact ih2
    · intro pre op' post hsplit
      cases pre with
      | nil =>
        simp at hsplit
        obtain ⟨rfl, rfl⟩ := hsplit
        exact ⟨s, o, rfl, hspec, hsat⟩
      | cons q pre' =>
        simp at hsplit
        obtain ⟨rfl, hsplit⟩ := hsplit
        rw [hrun]
        exact ih3 pre' op' post hsplit

theorem raw_step_refines (P) (s : Bytes) (op : Op) (hg : OpGoodS P op) :
    ∃ o, specOp (Val.raw s) op = some o ∧ Sat (stepRes (Val.raw s) op) o ∧ SeqShape Val.raw o := by
  have huni : uniform (Val.raw s) = true := by simp [uniform, uniformP]
  cases op with
  | set r a => exact absurd hg id
  | mem m args =>
    obtain ⟨har, hargs⟩ := hg
    cases m with
    | «at» =>
      match args, har with
      | [p], _ =>
        refine ⟨Spec.seqAt (Val.raw s) s p, by simp [specOp, Spec.specMember, Spec.specAt, huni], raw_at_refines P s p (hargs p (by simp)), ?_⟩
        unfold Spec.seqAt; split
        · split
          · exact ⟨s, rfl⟩
          · trivial
        · trivial
    | delete =>
      match args, har with
      | [p], _ =>
        refine ⟨Spec.seqDelete Val.raw s p, by simp [specOp, Spec.specMember, Spec.specDelete, huni],
          (seq_delete_refines P s p false (hargs p (by simp))).2, ?_⟩
        unfold Spec.seqDelete; split
        · trivial
        · exact ⟨_, rfl⟩
    | count =>
      match args, har with
      | [], _ =>
        exact ⟨.ok (.int (Int64.ofNat s.length)) (Val.raw s), by simp [specOp, Spec.specMember, Spec.specCount, huni], rfl, s, rfl⟩
    | put =>
      match args, har with
      | [p, x], _ =>
        refine ⟨Spec.seqPut Val.raw s p x, by simp [specOp, Spec.specMember, Spec.specPut, huni],
          (seq_put_refines P s p x false (hargs p (by simp)) (hargs x (by simp))).2, ?_⟩
        unfold Spec.seqPut; split
        · trivial
        · split
          · exact ⟨_, rfl⟩
          · trivial
    | insert =>
      match args, har with
      | [p, x], _ =>
        refine ⟨Spec.seqInsert (Val.raw s) Val.raw true s p x, by simp [specOp, Spec.specMember, Spec.specInsert, huni],
          (seq_insert_refines P s p x false (hargs p (by simp)) (hargs x (by simp))).2, ?_⟩
        unfold Spec.seqInsert; split
        · trivial
        · split
          · exact ⟨s, rfl⟩
          · split
            · exact ⟨_, rfl⟩
            · trivial
    | concat =>
      match args, har with
      | [x], _ =>
        refine ⟨Spec.seqConcat (Val.raw s) Val.raw true s x, by simp [specOp, Spec.specMember, Spec.specConcat, huni],
          (seq_concat_refines P s x false (hargs x (by simp))).2, ?_⟩
        unfold Spec.seqConcat; split
        · exact ⟨s, rfl⟩
        · split
          · exact ⟨_, rfl⟩
          · trivial

/-- **raw_ops_refine_spec** — the op-sequence theorem for a bytes value receiver: for every list of member calls (any position
values, any uniform arguments) the run is one the specification allows (`SpecRun`), the variable stays a bytes value after every
step, and before every step the model's outcome is the Spec's (`Sat`). Induction over the operation list. -/
theorem raw_ops_refine_spec (P : List Ty → Bool) :
    ∀ (ops : List Op) (s : Bytes), (∀ op ∈ ops, OpGoodS P op) →
      SpecRun (Val.raw s) ops (run (Val.raw s) ops) ∧ (∃ s', run (Val.raw s) ops = Val.raw s') ∧
      (∀ (pre : List Op) (op : Op) (post : List Op), ops = pre ++ op :: post →
        ∃ s' o, run (Val.raw s) pre = Val.raw s' ∧ specOp (Val.raw s') op = some o ∧ Sat (stepRes (Val.raw s') op) o) := by
  intro ops
  induction ops with
  | nil =>
    intro s _
    refine ⟨.nil _, ⟨s, rfl⟩, ?_⟩
    intro pre op post h; simp at h
  | cons op ops ih =>
    intro s hg
    obtain ⟨o, hspec, hsat, hshape⟩ := raw_step_refines P s op (hg op (by simp))
    have hnext := sat_next _ op o hsat
    have hs1 : ∃ s1, applyOp (Val.raw s) op = Val.raw s1 := by
      cases o with
      | ok r y => obtain ⟨s', hy⟩ := hshape; exact ⟨s', by rw [← hy]; exact hnext⟩
      | reject e => exact ⟨s, hnext⟩
      | either r y =>
        obtain ⟨s', hy⟩ := hshape
        rcases hnext with h | h
        · exact ⟨s', by rw [← hy]; exact h⟩
        · exact ⟨s, h⟩
    obtain ⟨s1, he1⟩ := hs1
    obtain ⟨ih1, ih2, ih3⟩ := ih s1 (fun op' h => hg op' (by simp [h]))
    have hrun : ∀ l, run (Val.raw s) (op :: l) = run (Val.raw s1) l := by
      intro l; simp [run, he1]
    refine ⟨?_, ?_, ?_⟩
    · rw [hrun]
      exact .cons _ op ops _ _ o hspec (by rw [← he1]; exact hnext) ih1
    · rw [hrun]; exact ih2
    · intro pre op' post hsplit
      cases pre with
      | nil =>
        simp at hsplit
        obtain ⟨rfl, rfl⟩ := hsplit
        exact ⟨s, o, rfl, hspec, hsat⟩
      | cons q pre' =>
        simp at hsplit
        obtain ⟨rfl, hsplit⟩ := hsplit
        rw [hrun]
        exact ih3 pre' op' post hsplit

example : (run (.str [97, 98]) [.mem .concat [.str [120]], .mem .put [.int 0, .int 65], .mem .delete [.int 9], .mem .insert [.int 1, .int 66]]
      == .str [65, 66, 98, 120]) = true ∧
    SpecRun (.str [97, 98]) [.mem .concat [.str [120]], .mem .put [.int 0, .int 65], .mem .delete [.int 9], .mem .insert [.int 1, .int 66]]
      (run (.str [97, 98]) [.mem .concat [.str [120]], .mem .put [.int 0, .int 65], .mem .delete [.int 9], .mem .insert [.int 1, .int 66]]) := by
  refine ⟨by decide, (str_ops_refine_spec onlyIS _ _ ?_).1⟩
  intro op h
  simp at h
  rcases h with rfl | rfl | rfl | rfl <;> exact ⟨rfl, fun a ha => by simp at ha; first | (rcases ha with rfl | rfl <;> rfl) | (subst ha; rfl)⟩

/-! ### what the receiver expression designates: storage, constant, temporary, handed-through operand -/

/-- **handed_through_receiver_unchanged** (`MemberExpression::receiver()`, 876bec0). A member call whose receiver expression
merely hands an lvalue through (`(s + null).concat(x)`, …) or yields a temporary works on a copy: for EVERY member, receiver
value and argument list, the operand keeps its value, the result is the one the in-place call on a variable computes, and
the error (if any) is the same. -/
theorem handed_through_receiver_unchanged (m : Member) (recv : Val) (args : List Val) :
    (∀ r x', memberCallK .handedThrough m recv args = .ok (r, x') →
      x' = recv ∧ ∃ y, memberCallK .storage m recv args = .ok (r, y)) ∧
    (∀ c a, memberCallK .handedThrough m recv args = .err c a ↔ memberCallK .storage m recv args = .err c a) ∧
    memberCallK .temporary m recv args = memberCallK .handedThrough m recv args := by
  unfold memberCallK
  simp only
  cases h : memberCall m recv args false with
  | ok p => obtain ⟨r0, y0⟩ := p; simp
  | err c a => simp
  | haz e => simp
  | unmodelled => simp

theorem const_as_handed_str (m : Member) (s : Bytes) (args : List Val) :
    memberCallK .constant m (.str s) args = memberCallK .handedThrough m (.str s) args := by
  unfold memberCallK memberCall
  simp only
  split
  · unfold mAt; simp only [Val.isNull, Bool.false_or]; repeat' split
    all_goals first | rfl | simp_all [idxErr]
  · unfold mPut; simp only [Val.isNull, Bool.false_or]; repeat' split
    all_goals first | rfl | simp_all [idxErr, tyMismatch]
  · unfold mInsert; simp only [Val.isNull, Bool.false_or]; repeat' split
    all_goals first | rfl | simp_all [idxErr]
  · unfold mDelete; simp only [Val.isNull, Bool.false_or]; repeat' split
    all_goals first | rfl | simp_all [idxErr]
  · unfold mConcat concatRawCase; simp only [Val.isNull, Val.type, Ty.str, Val.asStr, Val.asRaw]; repeat' split
    all_goals first | rfl | simp_all
  · rfl
  · rfl

theorem const_as_handed_null (m : Member) (args : List Val) :
    memberCallK .constant m (.null Ty.none) args = memberCallK .handedThrough m (.null Ty.none) args := by
  unfold memberCallK memberCall
  simp only
  split
  · rfl
  · rfl
  · rfl
  · rfl
  · unfold mConcat; simp only [Val.isNull, Val.type, Ty.none]; repeat' split
    all_goals first | rfl | simp_all
  · rfl
  · rfl

/-- **constant_receiver_unchanged**. The only constants that reach the built-in members are string literals and the literal
`null`; a member call on one never writes to the constant (the `isConst()` paths of member_{put,insert,delete,concat}.cpp;
`null.concat`: a40085e) and returns exactly what the call on a variable holding that value returns — so the refinement
theorems for string variables (`seq_*_refines`) carry over to constant string receivers, result for result. -/
theorem constant_receiver_unchanged (m : Member) (recv : Val) (args : List Val)
    (hc : (∃ s, recv = .str s) ∨ recv = .null Ty.none) :
    (∀ r x', memberCallK .constant m recv args = .ok (r, x') →
      x' = recv ∧ ∃ y, memberCallK .storage m recv args = .ok (r, y)) ∧
    (∀ c a, memberCallK .constant m recv args = .err c a ↔ memberCallK .storage m recv args = .err c a) := by
  have e : memberCallK .constant m recv args = memberCallK .handedThrough m recv args := by
    rcases hc with ⟨s, rfl⟩ | rfl
    · exact const_as_handed_str m s args
    · exact const_as_handed_null m args
  rw [e]
  exact ⟨(handed_through_receiver_unchanged m recv args).1, (handed_through_receiver_unchanged m recv args).2.1⟩

/-- constant string receivers refine the Spec's result: `"abc".put(p, c)` returns what `seqPut` says, the constant is untouched -/
theorem const_str_put_refines (P) (s : Bytes) (p x : Val) (hp : UniformIn P p) (hx : UniformIn P x) :
    match Spec.seqPut Val.str s p x with
    | .ok r _ => memberCallK .constant .put (.str s) [p, x] = .ok (r, .str s)
    | .reject .index => memberCallK .constant .put (.str s) [p, x] = .err Gen.EXC_RT_INDEX_RANGE_S
    | .reject .range => memberCallK .constant .put (.str s) [p, x] = .err Gen.EXC_RT_OUT_OF_RANGE
    | .reject _ => ∃ c a, memberCallK .constant .put (.str s) [p, x] = .err c a
    | .either _ _ => True := by
  have h := (seq_put_refines P s p x false hp hx).1
  have hk := constant_receiver_unchanged .put (.str s) [p, x] (Or.inl ⟨s, rfl⟩)
  have hst : memberCallK .storage .put (.str s) [p, x] = mPut (.str s) p x false := rfl
  rw [hst] at hk
  cases ho : Spec.seqPut Val.str s p x with
  | ok r y =>
    rw [ho] at h; simp only [Sat] at h
    simp only
    cases hcst : memberCallK .constant .put (.str s) [p, x] with
    | ok q =>
      obtain ⟨r', x'⟩ := q
      obtain ⟨e1, y', e2⟩ := hk.1 r' x' hcst
      rw [h] at e2; injection e2 with e2; injection e2 with e3 _
      rw [e1, e3]
    | err c a => have := (hk.2 c a).1 hcst; rw [h] at this; simp at this
    | haz e =>
      exfalso
      have : memberCallK .constant .put (.str s) [p, x] = memberCallK .handedThrough .put (.str s) [p, x] := const_as_handed_str _ _ _
      rw [this] at hcst
      have hm : memberCall .put (.str s) [p, x] false = .ok (r, y) := h
      simp [memberCallK, hm] at hcst
    | unmodelled =>
      exfalso
      have : memberCallK .constant .put (.str s) [p, x] = memberCallK .handedThrough .put (.str s) [p, x] := const_as_handed_str _ _ _
      rw [this] at hcst
      have hm : memberCall .put (.str s) [p, x] false = .ok (r, y) := h
      simp [memberCallK, hm] at hcst
  | reject e =>
    rw [ho] at h
    cases e <;> simp only [Sat] at h <;> simp only
    · exact (hk.2 _ _).2 h
    · obtain ⟨c, a, h⟩ := h; exact ⟨c, a, (hk.2 _ _).2 h⟩
    · exact (hk.2 _ _).2 h
    · obtain ⟨c, a, h⟩ := h; exact ⟨c, a, (hk.2 _ _).2 h⟩
  | either r y => trivial

example : memberCallK .handedThrough .concat (.str [97, 98]) [.str [120]] = .ok (.str [97, 98, 120], .str [97, 98]) ∧
    memberCallK .storage .concat (.str [97, 98]) [.str [120]] = .ok (.str [97, 98, 120], .str [97, 98, 120]) ∧
    memberCallK .constant .concat (.null Ty.none) [.int 65] = .ok (.str [65], .null Ty.none) ∧
    memberCallK .handedThrough .delete (ti1 [.int 1, .int 2]) [.int 0] = .ok (ti1 [.int 2], ti1 [.int 1, .int 2]) := by
  refine ⟨by rfl, by rfl, by rfl, by rfl⟩

/-! ### tuples keep their structure -/

/-- **tuple_structure_fixed**: a successful `u.set@rank(x)` returns the tuple itself with the declaration
it was created with, the same number of items, every item of its declared type; a rejected call
changes nothing (`applyOp`). -/
theorem tuple_structure_fixed (P) (decl : List Ty) (items : List Val) (rank : Nat) (x r u' : Val)
    (hu : UniformIn P (.tup decl items)) (hx : UniformIn P x)
    (h : stepRes (.tup decl items) (.set rank x) = .ok (r, u')) :
    r = u' ∧ UniformIn P u' ∧ ∃ items', u' = .tup decl items' ∧ items'.length = items.length ∧
      items'.map Val.type = decl := by
  have h' : (match itemNo rank with
      | .ok no => setItemV (.tup decl items) (itemIndex no) x
      | .err c e => .err c e
      | .haz h => .haz h
      | .unmodelled => .unmodelled) = Res.ok (r, u') := h
  split at h'
  · obtain ⟨h1, h2, d, it, it', he, he', hl, hm⟩ := setItemV_preserves P _ _ x r u' hu hx h'
    injection he with hd hi
    subst hd; subst hi
    exact ⟨h1, h2, it', he', hl, hm⟩
  all_goals simp at h'

example : (match stepRes (tIS 1) (.set 1 (.int 9)) with | .ok (r, u) => r == tIS 9 && u == tIS 9 | _ => false) = true := by decide
example : (match stepRes (tIS 1) (.set 2 (.int 9)) with | .err c _ => c == Gen.EXC_RT_TYPE_MISMATCH_S | _ => false) = true := by decide
example : (match stepRes (tIS 1) (.set 3 (.int 9)) with | .err c _ => c == Gen.EXC_RT_INDEX_RANGE_S | _ => false) = true := by decide

/-- **tup_ops_refine_spec** — sequences of `set@` on a uniform tuple (ranks below 2^32, uniform canonical arguments): the run
is one the Spec allows, the variable is after every step a uniform tuple with the SAME declaration and number of items, and
each step's outcome is the Spec's. -/
theorem tup_ops_refine_spec (P : List Ty → Bool) (hinj : Inj P) (decl : List Ty) :
    ∀ (ops : List Op) (items : List Val), UniformIn P (.tup decl items) → items.length < 4294967295 →
      (∀ op ∈ ops, ∃ rank a, op = .set rank a ∧ rank < 4294967296 ∧ UniformIn P a ∧ canonTy a.type = true) →
      SpecRun (.tup decl items) ops (run (.tup decl items) ops) ∧
      ∃ items', run (.tup decl items) ops = .tup decl items' ∧ items'.length = items.length ∧ UniformIn P (.tup decl items') := by
  intro ops
  induction ops with
  | nil => intro items hu _ _; exact ⟨.nil _, items, rfl, rfl, hu⟩
  | cons op ops ih =>
    intro items hu hlen hg
    obtain ⟨rank, a, rfl, hr, ha, hca⟩ := hg op (by simp)
    obtain ⟨o, hspec, hsat⟩ := set_refines P hinj decl items rank a hu ha hca hr hlen
    have hnext := sat_next (.tup decl items) (.set rank a) o hsat
    have hstep : ∃ items1, applyOp (.tup decl items) (.set rank a) = .tup decl items1 ∧ items1.length = items.length ∧
        UniformIn P (.tup decl items1) := by
      unfold applyOp
      split
      · rename_i r x' he
        obtain ⟨_, h2, items', h3, h4, _⟩ := tuple_structure_fixed P decl items rank a r x' hu ha he
        exact ⟨items', h3, h4, by rw [← h3]; exact h2⟩
      · exact ⟨items, rfl, rfl, hu⟩
    obtain ⟨items1, he1, hl1, hu1⟩ := hstep
    obtain ⟨ih1, items', ih2, ih3, ih4⟩ := ih items1 hu1 (by omega) (fun op' h => hg op' (by simp [h]))
    have hrun : run (.tup decl items) (.set rank a :: ops) = run (.tup decl items1) ops := by simp [run, he1]
    refine ⟨?_, items', by rw [hrun]; exact ih2, by omega, ih4⟩
    rw [hrun]
    exact .cons _ _ ops _ _ o hspec (by rw [← he1]; exact hnext) ih1

example : SpecRun (tIS 1) [.set 1 (.num 0x4004000000000000), .set 3 (.int 1), .set 2 (.str [98])]
    (run (tIS 1) [.set 1 (.num 0x4004000000000000), .set 3 (.int 1), .set 2 (.str [98])]) := by
  refine (tup_ops_refine_spec onlyIS inj_onlyIS declIS _ _ (by decide) (by decide) ?_).1
  intro op h
  simp at h
  rcases h with rfl | rfl | rfl
  · exact ⟨1, _, rfl, by decide, by decide, by decide⟩
  · exact ⟨3, _, rfl, by decide, by decide, by decide⟩
  · exact ⟨2, _, rfl, by decide, by decide, by decide⟩

/-! ### forall -/

theorem forallTrace_asc (n : Nat) : ∀ (k i : Nat), i + k = n → 0 < k →
    forallTrace false n (k + 1) (some i) = List.range' i k := by
  intro k
  induction k with
  | zero => intro i _ h; omega
  | succ k ih =>
    intro i hik _
    by_cases hk : k = 0
    · subst hk
      have : ¬ i + 1 < n := by omega
      simp [forallTrace, forallNext, this, List.range']
    · have hlt : i + 1 < n := by omega
      have := ih (i + 1) (by omega) (by omega)
      simp [forallTrace, forallNext, hlt, List.range'] at this ⊢
      exact this

theorem forallTrace_desc (n : Nat) : ∀ (i : Nat), i < n →
    forallTrace true n (i + 2) (some i) = (List.range (i + 1)).reverse := by
  intro i
  induction i with
  | zero => intro _; simp [forallTrace, forallNext]
  | succ i ih =>
    intro hi
    have h1 : i < n := by omega
    have := ih h1
    rw [List.range_succ, List.reverse_append]
    simp only [forallTrace, forallNext, ↓reduceIte, Nat.add_sub_cancel, h1]
    simp [this]

/-- **forall_visits_once_in_order**: running the loop header of FORALLStatement (`first`, then
`index += step` until the index leaves 0..n-1) over a table whose length stays n visits
0,1,…,n-1 (asc/auto) resp. n-1,…,0 (desc): every element once, in order. -/
theorem forall_visits_once_in_order (desc : Bool) (n : Nat) :
    forallTrace desc n (n + 1) (forallFirst desc n) = forallOrder desc n ∧
    (forallOrder desc n).Nodup ∧ (∀ i, i ∈ forallOrder desc n ↔ i < n) := by
  refine ⟨?_, ?_, ?_⟩
  · by_cases hn : n = 0
    · subst hn; cases desc <;> simp [forallFirst, forallTrace, forallOrder]
    · cases desc with
      | false =>
        have := forallTrace_asc n n 0 (by omega) (by omega)
        simp [forallFirst, hn, forallOrder, this, List.range_eq_range']
      | true =>
        have := forallTrace_desc n (n - 1) (by omega)
        have e : n - 1 + 2 = n + 1 := by omega
        have e2 : n - 1 + 1 = n := by omega
        rw [e, e2] at this
        simp [forallFirst, hn, forallOrder, this]
  · cases desc with
    | false => simp [forallOrder, List.nodup_range]
    | true =>
      show List.Pairwise (· ≠ ·) (if true = true then (List.range n).reverse else List.range n)
      simp only [if_true]
      rw [List.pairwise_reverse]
      exact (List.nodup_range (n := n)).imp (fun h => Ne.symm h)
  · intro i; cases desc <;> simp [forallOrder]

/-- **forall_length_fixed** (model level): the only write the body can make to the traversed table —
assignment through the iterator — replaces one element by a value of the same implementation type and
keeps the length. (That every other statement on the locked table is refused is checked on the
implementation: correspondence stream "lock".) -/
theorem forall_length_fixed (t : Ty) (d : List Ty) (es : List Val) (i : Nat) (v tbl' : Val)
    (h : forallStep (.tab t d es) i v = .ok tbl') :
    ∃ es', tbl' = .tab t d es' ∧ es'.length = es.length ∧ ∃ old, es[i]? = some old ∧ v.type = old.type := by
  have h' : (match es[i]? with
      | some old => if v.type != old.type then tyMismatch else .ok (.tab t d (listPut es i v))
      | none => .haz .oob) = Res.ok tbl' := h
  split at h'
  · rename_i old hold
    split at h'
    · simp [tyMismatch] at h'
    · rename_i hty
      simp at h'
      have hlt : i < es.length := by
        rcases Nat.lt_or_ge i es.length with h2 | h2
        · exact h2
        · rw [List.getElem?_eq_none h2] at hold; simp at hold
      exact ⟨_, h'.symm, length_listPut es i v hlt, old, hold, by simpa using hty⟩
  · simp at h'

example : forallTrace true 3 4 (forallFirst true 3) = [2, 1, 0] := by decide

end BlocV.C09
