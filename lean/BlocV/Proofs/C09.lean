/-
  C09 — tables stay uniform, tuples keep their structure, indexing is range-checked.

  Model: Model/Members.lean (the C++ `value()` methods on values). Spec: Spec/Containers.lean.
  Regions of the recorded findings: KF/C09.lean. Helper lemmas: Proofs/Lemmas/Containers.lean.

  The full property is FALSE for the code as it is; the file proves the negation at concrete
  witnesses (`make_type_collision`, `uniform_broken_by_*`), and the `_partial` theorem under
  "the tuple declarations in play hash injectively" + "no call in the level-mixing region".
-/
import BlocV.Proofs.Lemmas.Containers

namespace BlocV.C09
open BlocV BlocV.Spec

/-! ### the 16-bit structure hash -/

def declA : List Ty := [Ty.bool, Ty.raw, Ty.bool, Ty.bool, Ty.str]
def declB : List Ty := [Ty.num, Ty.int, Ty.bool, Ty.str, Ty.bool]
def declZ : List Ty := [Ty.raw, Ty.raw, Ty.raw, Ty.num, Ty.raw]

/-- Two different declarations with the same tuple type, and a non-empty declaration whose type is
the "opaque" tuple type (minor 0). Proved by evaluation of `TupleDecl::Decl::make_type`. -/
theorem make_type_collision :
    makeTupleTy declA 0 = makeTupleTy declB 0 ∧ declA ≠ declB ∧
    makeTupleTy declZ 0 = { major := .tup, minor := 0, level := 0 } ∧ declZ ≠ [] := by decide

def tA : Val := .tup declA [.bool true, .raw [97], .bool true, .bool true, .str [115]]
def tB : Val := .tup declB [.num 0x3ff8000000000000, .int 2, .bool true, .str [115], .bool true]
def tabA : Val := .tab (makeTupleTy declA 1) declA [tA]

/-- Witness C09.tuple.hashCollision: from a uniform table and a uniform tuple, `put` succeeds and the
table is no longer uniform. -/
theorem uniform_broken_by_collision :
    uniform tabA = true ∧ uniform tB = true ∧
    (match memberCall .put tabA [.int 0, tB] false with
      | .ok (_, x') => !uniform x'
      | _ => false) = true := by decide

def tabI2 : Val := .tab { major := .int, level := 2 } [] [.tab { major := .int, level := 1 } [] [.int 1]]

/-- Witness C09.mix.level: `tab(1, tab(1, 1)).insert(0, null)` stores an integer null of level 0 in
a table of tables. -/
theorem uniform_broken_by_level_mixing :
    uniform tabI2 = true ∧
    (match memberCall .insert tabI2 [.int 0, .null Ty.none] false with
      | .ok (_, x') => !uniform x'
      | _ => false) = true := by decide

/-- Witnesses of the hazards: a typed-null decimal put into an integer table dereferences null; the
tab constructor refuses the tuple whose declaration hashes to 0. -/
example : (match memberCall .put (.tab { major := .int, level := 1 } [] [.int 0]) [.int 0, .null Ty.num] false with
    | .haz .nullDeref => true | _ => false) = true := by decide
example : (match biTab (m := Res) [.ok (.int 1), .ok (.tup declZ [.raw [], .raw [], .raw [], .num 0, .raw []])] with
    | .err c _ => c == Gen.EXC_RT_COMPOUND_OPAQUE | _ => false) = true := by decide
/-- (repaired upstream, 7b31e38) a rank above 2^32 − 1 is refused at compile time. -/
example : acceptItem (makeTupleTy [Ty.int] 0) 4294967297 = some Gen.EXC_PARSE_OUT_OF_INDICE := by decide

/-! ### operation sequences -/

inductive Op
  | mem (m : Member) (args : List Val)
  | set (rank : Nat) (arg : Val)

/-- one statement `x.m(args)` / `x.set@rank(arg)` on the variable `x` -/
def stepRes (x : Val) : Op → Res (Val × Val)
  | .mem m args => memberCall m x args false
  | .set rank a =>
    match itemNo rank with
    | .ok no => setItemV x (itemIndex no) a
    | .err c e => .err c e
    | .haz h => .haz h
    | .unmodelled => .unmodelled

/-- the variable after the statement: a call that does not succeed leaves it as it was -/
def applyOp (x : Val) (op : Op) : Val :=
  match stepRes x op with
  | .ok (_, x') => x'
  | _ => x

def run (x : Val) (ops : List Op) : Val := ops.foldl applyOp x

/-- the arguments are uniform values with declarations in `P`, and the call is outside the
level-mixing region C09.mix.level -/
def OpOk (P : List Ty → Bool) (x : Val) : Op → Prop
  | .mem m args => (∀ a ∈ args, uniformP P a = true) ∧
      (∀ t d es a, x = .tab t d es → KF.elemArg m args = some a → KF.levelBug t a = false)
  | .set _ a => uniformP P a = true

/-- `OpOk` along the run -/
def Safe (P : List Ty → Bool) : Val → List Op → Prop
  | _, [] => True
  | x, op :: ops => OpOk P x op ∧ Safe P (applyOp x op) ops

theorem step_preserves (P) (hinj : Inj P) (x : Val) (op : Op) (r x' : Val)
    (hx : uniformP P x = true) (hok : OpOk P x op) (h : stepRes x op = .ok (r, x')) :
    uniformP P r = true ∧ uniformP P x' = true := by
  cases op with
  | mem m args =>
    obtain ⟨hargs, hreg⟩ := hok
    have h' : memberCall m x args false = .ok (r, x') := h
    unfold memberCall at h'
    split at h'
    · exact mAt_preserves P x _ r x' hx h'
    · rename_i a0 a1
      exact mPut_preserves P hinj x a0 a1 false r x' hx (hargs a1 (by simp))
        (fun t d es he => hreg t d es a1 he rfl) h'
    · rename_i a0 a1
      exact mInsert_preserves P hinj x a0 a1 false r x' hx (hargs a1 (by simp))
        (fun t d es he => hreg t d es a1 he rfl) h'
    · exact mDelete_preserves P x _ false r x' hx h'
    · rename_i a0
      exact mConcat_preserves P hinj x a0 false r x' hx (hargs a0 (by simp))
        (fun t d es he => hreg t d es a0 he rfl) h'
    · exact mCount_preserves P x r x' hx h'
    · simp at h'
  | set rank a =>
    have h' : (match itemNo rank with
      | .ok no => setItemV x (itemIndex no) a
      | .err c e => .err c e
      | .haz h => .haz h
      | .unmodelled => .unmodelled) = Res.ok (r, x') := h
    split at h'
    · obtain ⟨h1, h2, _⟩ := setItemV_preserves P x _ a r x' hx hok h'
      exact ⟨by rw [h1]; exact h2, h2⟩
    all_goals simp at h'

/-- **uniform_preserved (partial)**. For every sequence of member calls and `set@` on a variable that
starts uniform, with uniform arguments, when the tuple declarations in play (`P`) hash injectively
and no call lies in the level-mixing region: after every step the variable is uniform, every value
returned by a successful step is uniform, and a step that is rejected leaves the variable unchanged. -/
theorem uniform_preserved_partial (P : List Ty → Bool) (hinj : Inj P) :
    ∀ (ops : List Op) (x : Val), UniformIn P x → Safe P x ops →
      UniformIn P (run x ops) ∧
      (∀ (pre : List Op) (op : Op) (post : List Op), ops = pre ++ op :: post →
        UniformIn P (run x pre) ∧
        (∀ r x', stepRes (run x pre) op = .ok (r, x') → UniformIn P r ∧ run x (pre ++ [op]) = x') ∧
        ((∀ r x', stepRes (run x pre) op ≠ .ok (r, x')) → run x (pre ++ [op]) = run x pre)) := by
  intro ops
  induction ops with
  | nil =>
    intro x hx _
    refine ⟨hx, ?_⟩
    intro pre op post h
    simp at h
  | cons op ops ih =>
    intro x hx hs
    obtain ⟨hok, hrest⟩ := hs
    have hx1 : UniformIn P (applyOp x op) := by
      unfold applyOp
      split
      · rename_i r x' he
        exact (step_preserves P hinj x op _ _ hx hok he).2
      · exact hx
    obtain ⟨ih1, ih2⟩ := ih (applyOp x op) hx1 hrest
    refine ⟨by simpa [run] using ih1, ?_⟩
    intro pre op' post hsplit
    cases pre with
    | nil =>
      simp at hsplit
      obtain ⟨rfl, rfl⟩ := hsplit
      refine ⟨hx, ?_, ?_⟩
      · intro r x' he
        have he' : stepRes x op = .ok (r, x') := he
        refine ⟨(step_preserves P hinj x op r x' hx hok he').1, ?_⟩
        simp [run, applyOp, he']
      · intro hne
        have hne' : ∀ r x', stepRes x op ≠ .ok (r, x') := hne
        simp only [run, List.nil_append, List.foldl_cons, List.foldl_nil]
        unfold applyOp
        split
        · rename_i r x' he; exact absurd he (hne' r x')
        · rfl
    | cons p pre' =>
      simp at hsplit
      obtain ⟨rfl, hsplit⟩ := hsplit
      have := ih2 pre' op' post hsplit
      simpa [run] using this

/-- the hypotheses are satisfiable: one declaration in play, a three-step run (append a tuple, replace
it, delete out of range = rejected) -/
def declIS : List Ty := [Ty.int, Ty.str]
def onlyIS (d : List Ty) : Bool := d == declIS
theorem inj_onlyIS : Inj onlyIS := by
  intro d1 d2 h1 h2 _
  simp [onlyIS] at h1 h2
  rw [h1, h2]

def tIS (i : Int64) : Val := .tup declIS [.int i, .str [97]]
def exOps : List Op := [.mem .concat [tIS 1], .mem .put [.int 0, tIS 3], .mem .delete [.int 5]]
def exTab : Val := .tab (makeTupleTy declIS 1) declIS []

theorem exOps_safe : ∀ x, Safe onlyIS x exOps := by
  intro x
  have lb : ∀ t (i : Int64), KF.levelBug t (tIS i) = false := by
    intro t i; simp [KF.levelBug, tIS, Val.type, makeTupleTy_major]
  refine ⟨⟨?_, ?_⟩, ⟨?_, ?_⟩, ⟨?_, ?_⟩, trivial⟩
  · intro a ha; simp at ha; subst ha; decide
  · intro t d es a _ he; simp [KF.elemArg] at he; subst he; exact lb t 1
  · intro a ha; simp at ha; rcases ha with rfl | rfl <;> decide
  · intro t d es a _ he; simp [KF.elemArg] at he; subst he; exact lb t 3
  · intro a ha; simp at ha; subst ha; decide
  · intro t d es a _ he; simp [KF.elemArg] at he

example : UniformIn onlyIS exTab ∧ Safe onlyIS exTab exOps ∧
    (run exTab exOps == .tab (makeTupleTy declIS 1) declIS [tIS 3]) = true :=
  ⟨by decide, exOps_safe exTab, by decide⟩

/-- The unrestricted statement is false: a uniform start and uniform arguments do not suffice
(witnesses: hash collision; level mixing). -/
theorem uniform_preserved_fails :
    ¬ (∀ (ops : List Op) (x : Val), Uniform x → (∀ m args, Op.mem m args ∈ ops → ∀ a ∈ args, Uniform a) →
        Uniform (run x ops)) := by
  intro h
  have := h [.mem .put [.int 0, tB]] tabA (by decide) (by
    intro m args hm a ha
    simp at hm
    obtain ⟨_, rfl⟩ := hm
    simp at ha
    rcases ha with rfl | rfl <;> decide)
  revert this
  decide

/-! ### index contracts -/

/-- `t.at(p)` for every position value `p`: the element for an integer 0 ≤ p < n, the index error for a
null or out-of-range position, a refusal for anything that is not an integer. -/
theorem at_index_contract (P) (t : Ty) (d : List Ty) (es : List Val) (p : Val) (hp : uniformP P p = true) :
    Sat (mAt (.tab t d es) p) (Spec.tabAt (.tab t d es) es p) := by
  unfold mAt Spec.tabAt
  have hr : (Val.tab t d es).isNull = false := rfl
  rcases asInt_of_pos P p es.length hp with ⟨i, rfl, hn, hi, hs⟩ | ⟨hn, hs⟩ | ⟨hn, hi, hs⟩
  · rw [hs]
    simp only [Val.isNull, Bool.or_self, Bool.false_eq_true, ↓reduceIte, hi, inRange, idxOf]
    by_cases hr : 0 ≤ i.toInt ∧ i.toInt < (es.length : Int)
    · simp only [hr, and_self, decide_true, ↓reduceIte]
      cases he : es[i.toInt.toNat]? <;> simp [Sat, idxErr]
    · simp [hr, Sat, idxErr]
  · rw [hs]; simp [hn, hr, Sat, idxErr]
  · rw [hs]; simp [hn, hi, hr, Sat]

theorem listDel_eq_eraseIdx {α} (l : List α) (n : Nat) : listDel l n = l.eraseIdx n := by
  unfold listDel; rw [List.eraseIdx_eq_take_drop_succ]

/-- `t.delete(p)` for every position value. -/
theorem delete_index_contract (P) (t : Ty) (d : List Ty) (es : List Val) (p : Val) (c : Bool) (hp : uniformP P p = true) :
    Sat (mDelete (.tab t d es) p c) (Spec.tabDelete t d es p) := by
  unfold mDelete Spec.tabDelete
  have hr : (Val.tab t d es).isNull = false := rfl
  rcases asInt_of_pos P p es.length hp with ⟨i, rfl, hn, hi, hs⟩ | ⟨hn, hs⟩ | ⟨hn, hi, hs⟩
  · rw [hs]
    simp only [Val.isNull, Bool.or_self, Bool.false_eq_true, ↓reduceIte, hi, inRange, idxOf]
    by_cases hr : 0 ≤ i.toInt ∧ i.toInt < (es.length : Int)
    · simp [hr, Sat, listDel_eq_eraseIdx]
    · simp [hr, Sat, idxErr]
  · rw [hs]; simp [hn, hr, Sat, idxErr]
  · rw [hs]; simp [hn, hi, hr, Sat]

/-- `t.put(p, x)`: whatever the element, a position that is not an integer in 0 ≤ p < n is refused as the
Spec says (index error for null / out of range). -/
theorem put_index_contract (P) (t : Ty) (d : List Ty) (es : List Val) (p x : Val) (c : Bool) (e : SErr)
    (hp : uniformP P p = true) (hpos : Spec.pos p es.length = .error e) :
    Sat (mPut (.tab t d es) p x c) (.reject e) := by
  unfold mPut
  have hr : (Val.tab t d es).isNull = false := rfl
  rcases asInt_of_pos P p es.length hp with ⟨i, rfl, hn, hi, hs⟩ | ⟨hn, hs⟩ | ⟨hn, hi, hs⟩
  · rw [hs] at hpos
    by_cases hr' : 0 ≤ i.toInt ∧ i.toInt < (es.length : Int)
    · simp [hr'] at hpos
    · simp [hr'] at hpos; subst hpos
      simp [Val.isNull, hi, inRange, hr', Sat, idxErr]
  · rw [hs] at hpos; simp at hpos; subst hpos; simp [hn, hr, Sat, idxErr]
  · rw [hs] at hpos; simp at hpos; subst hpos; simp [hn, hi, hr, Sat]

/-- `t.insert(p, x)`: positions are 0 ≤ p ≤ n. -/
theorem insert_index_contract (P) (t : Ty) (d : List Ty) (es : List Val) (p x : Val) (c : Bool) (e : SErr)
    (hp : uniformP P p = true) (hpos : Spec.pos p (es.length + 1) = .error e) :
    Sat (mInsert (.tab t d es) p x c) (.reject e) := by
  unfold mInsert
  have hr : (Val.tab t d es).isNull = false := rfl
  rcases asInt_of_pos P p (es.length + 1) hp with ⟨i, rfl, hn, hi, _⟩ | ⟨hn, hs⟩ | ⟨hn, hi, hs⟩
  · simp only [Spec.pos] at hpos
    split at hpos
    · simp at hpos
    · rename_i hc
      simp at hpos; subst hpos
      have : ¬(0 ≤ i.toInt ∧ i.toInt ≤ (es.length : Int)) := by
        intro h2; apply hc; push_cast; omega
      simp [Val.isNull, hi, inRangeIns, this, Sat, idxErr]
  · rw [hs] at hpos; simp at hpos; subst hpos; simp [hn, hr, Sat, idxErr]
  · rw [hs] at hpos; simp at hpos; subst hpos; simp [hn, hi, hr, Sat]

/-- strings: `s.at(p)` for every position value. -/
theorem str_at_index_contract (P) (s : Bytes) (p : Val) (hp : uniformP P p = true) :
    Sat (mAt (.str s) p) (Spec.seqAt (.str s) s p) := by
  unfold mAt Spec.seqAt
  have hr : (Val.str s).isNull = false := rfl
  rcases asInt_of_pos P p s.length hp with ⟨i, rfl, hn, hi, hs⟩ | ⟨hn, hs⟩ | ⟨hn, hi, hs⟩
  · rw [hs]
    simp only [Val.isNull, Bool.or_self, Bool.false_eq_true, ↓reduceIte, hi, inRange, idxOf]
    by_cases hr : 0 ≤ i.toInt ∧ i.toInt < (s.length : Int)
    · simp only [hr, and_self, decide_true, ↓reduceIte]
      cases he : s[i.toInt.toNat]? <;> simp [Sat, idxErr, intOfByte]
    · simp [hr, Sat, idxErr]
  · rw [hs]; simp [hn, hr, Sat, idxErr]
  · rw [hs]; simp [hn, hi, hr, Sat]

theorem itemNo_small (rank : Nat) (hr : rank < 4294967296) : itemNo rank = .ok rank := by
  unfold itemNo
  have e32 : (2:Nat) ^ 32 = 4294967296 := by decide
  rw [e32]
  have h1 : ¬ rank ≥ 4294967296 := by omega
  rw [if_neg h1]

theorem itemIndex_small (rank : Nat) (h1 : 1 ≤ rank) (hr : rank < 4294967296) : itemIndex rank = rank - 1 := by
  unfold itemIndex
  have e32 : (2:Nat) ^ 32 = 4294967296 := by decide
  rw [e32]
  omega

theorem itemIndex_zero : itemIndex 0 = 4294967295 := by
  unfold itemIndex
  have e32 : (2:Nat) ^ 32 = 4294967296 := by decide
  rw [e32]

/-- tuples: `u@rank` reads item `rank` (index rank − 1) for 1 ≤ rank ≤ n and raises the index error for every
other index; with `itemNo_small` / `itemIndex_small` / `itemIndex_zero`: for every rank below 2^32 (rank 0 wraps to
index 2^32 − 1, which no tuple has). Ranks ≥ 2^32 are refused at compile time (`acceptItem`). -/
theorem item_index_contract (decl : List Ty) (items : List Val) (hlen : decl.length = items.length) :
    (∀ idx, idx < items.length → ∃ v, items[idx]? = some v ∧ itemAtV (.tup decl items) idx = .ok v) ∧
    (∀ idx, ¬ idx < items.length → itemAtV (.tup decl items) idx = idxErr) := by
  constructor
  · intro idx h
    refine ⟨items[idx], by simp [h], ?_⟩
    simp [itemAtV, Val.isNull, hlen, h]
  · intro idx h
    simp [itemAtV, Val.isNull, hlen, h]

/-! ### tuples keep their structure -/

/-- **tuple_structure_fixed**: a successful `u.set@rank(x)` returns the tuple itself with the declaration
it was created with, the same number of items, every item of its declared type; a rejected call
changes nothing (`applyOp`). -/
theorem tuple_structure_fixed (P) (decl : List Ty) (items : List Val) (rank : Nat) (x r u' : Val)
    (hu : UniformIn P (.tup decl items)) (hx : UniformIn P x)
    (h : stepRes (.tup decl items) (.set rank x) = .ok (r, u')) :
    r = u' ∧ UniformIn P u' ∧ ∃ items', u' = .tup decl items' ∧ items'.length = items.length ∧
      items'.map Val.type = decl := by
  have h' : (match itemNo rank with
      | .ok no => setItemV (.tup decl items) (itemIndex no) x
      | .err c e => .err c e
      | .haz h => .haz h
      | .unmodelled => .unmodelled) = Res.ok (r, u') := h
  split at h'
  · obtain ⟨h1, h2, d, it, it', he, he', hl, hm⟩ := setItemV_preserves P _ _ x r u' hu hx h'
    injection he with hd hi
    subst hd; subst hi
    exact ⟨h1, h2, it', he', hl, hm⟩
  all_goals simp at h'

example : (match stepRes (tIS 1) (.set 1 (.int 9)) with | .ok (r, u) => r == tIS 9 && u == tIS 9 | _ => false) = true := by decide
example : (match stepRes (tIS 1) (.set 2 (.int 9)) with | .err c _ => c == Gen.EXC_RT_TYPE_MISMATCH_S | _ => false) = true := by decide
example : (match stepRes (tIS 1) (.set 3 (.int 9)) with | .err c _ => c == Gen.EXC_RT_INDEX_RANGE_S | _ => false) = true := by decide

/-! ### forall -/

theorem forallTrace_asc (n : Nat) : ∀ (k i : Nat), i + k = n → 0 < k →
    forallTrace false n (k + 1) (some i) = List.range' i k := by
  intro k
  induction k with
  | zero => intro i _ h; omega
  | succ k ih =>
    intro i hik _
    by_cases hk : k = 0
    · subst hk
      have : ¬ i + 1 < n := by omega
      simp [forallTrace, forallNext, this, List.range']
    · have hlt : i + 1 < n := by omega
      have := ih (i + 1) (by omega) (by omega)
      simp [forallTrace, forallNext, hlt, List.range'] at this ⊢
      exact this

theorem forallTrace_desc (n : Nat) : ∀ (i : Nat), i < n →
    forallTrace true n (i + 2) (some i) = (List.range (i + 1)).reverse := by
  intro i
  induction i with
  | zero => intro _; simp [forallTrace, forallNext]
  | succ i ih =>
    intro hi
    have h1 : i < n := by omega
    have := ih h1
    rw [List.range_succ, List.reverse_append]
    simp only [forallTrace, forallNext, ↓reduceIte, Nat.add_sub_cancel, h1]
    simp [this]

/-- **forall_visits_once_in_order**: running the loop header of FORALLStatement (`first`, then
`index += step` until the index leaves 0..n-1) over a table whose length stays n visits
0,1,…,n-1 (asc/auto) resp. n-1,…,0 (desc): every element once, in order. -/
theorem forall_visits_once_in_order (desc : Bool) (n : Nat) :
    forallTrace desc n (n + 1) (forallFirst desc n) = forallOrder desc n ∧
    (forallOrder desc n).Nodup ∧ (∀ i, i ∈ forallOrder desc n ↔ i < n) := by
  refine ⟨?_, ?_, ?_⟩
  · by_cases hn : n = 0
    · subst hn; cases desc <;> simp [forallFirst, forallTrace, forallOrder]
    · cases desc with
      | false =>
        have := forallTrace_asc n n 0 (by omega) (by omega)
        simp [forallFirst, hn, forallOrder, this, List.range_eq_range']
      | true =>
        have := forallTrace_desc n (n - 1) (by omega)
        have e : n - 1 + 2 = n + 1 := by omega
        have e2 : n - 1 + 1 = n := by omega
        rw [e, e2] at this
        simp [forallFirst, hn, forallOrder, this]
  · cases desc with
    | false => simp [forallOrder, List.nodup_range]
    | true =>
      show List.Pairwise (· ≠ ·) (if true = true then (List.range n).reverse else List.range n)
      simp only [if_true]
      rw [List.pairwise_reverse]
      exact (List.nodup_range (n := n)).imp (fun h => Ne.symm h)
  · intro i; cases desc <;> simp [forallOrder]

/-- **forall_length_fixed** (model level): the only write the body can make to the traversed table —
assignment through the iterator — replaces one element by a value of the same implementation type and
keeps the length. (That every other statement on the locked table is refused is checked on the
implementation: correspondence stream "lock".) -/
theorem forall_length_fixed (t : Ty) (d : List Ty) (es : List Val) (i : Nat) (v tbl' : Val)
    (h : forallStep (.tab t d es) i v = .ok tbl') :
    ∃ es', tbl' = .tab t d es' ∧ es'.length = es.length ∧ ∃ old, es[i]? = some old ∧ v.type = old.type := by
  have h' : (match es[i]? with
      | some old => if v.type != old.type then tyMismatch else .ok (.tab t d (listPut es i v))
      | none => .haz .oob) = Res.ok tbl' := h
  split at h'
  · rename_i old hold
    split at h'
    · simp [tyMismatch] at h'
    · rename_i hty
      simp at h'
      have hlt : i < es.length := by
        rcases Nat.lt_or_ge i es.length with h2 | h2
        · exact h2
        · rw [List.getElem?_eq_none h2] at hold; simp at hold
      exact ⟨_, h'.symm, length_listPut es i v hlt, old, hold, by simpa using hty⟩
  · simp at h'

example : forallTrace true 3 4 (forallFirst true 3) = [2, 1, 0] := by decide

end BlocV.C09
