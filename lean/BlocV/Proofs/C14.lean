/-
  C14 — cloned contexts are independent, also when run concurrently on several threads.

  Property theorems only. Model: Model/World.lean (shared immutable programs + the shared mutable
  cells extracted from the source + per-context state; one step = one top-level statement run by
  `exec` of Model/Interp.lean).

  SCOPE, said once and meant for every theorem below: this is schedule-independence OF THE MODEL at
  statement granularity. "Thread" here is "context whose steps are interleaved with the steps of other
  contexts in any order". That real threads, interleaving at the granularity of machine instructions,
  cannot do more is the data-race-freedom assumption; it is exactly what the recorded races
  (`_level`, the error record, the RNG statics, `_type_volatile`) break. (`Error::what`'s buffer was
  one of them until fix 1cb0b5a made it `thread_local`: it is per-thread state now, `whatBuf` of the
  context, and no exception to anything below.)
  The C++ memory model, the allocator and stdio locking are outside. Script-visible exceptions to
  independence, documented as shared by design: `random()` and module objects — nothing else.
-/
import BlocV.Model.World
import BlocV.Proofs.C05

namespace BlocV.C14
open BlocV BlocV.World

/-! ### the list of shared cells is covered -/

/-- Every `mutable` member / non-const static / shared heap cell that extract/shared.py finds in
/repo/blocc is assigned to a kind of the model, and every `thread_local` static to a per-thread
kind. A new shared mutable field makes this fail — and so does `Error::what`'s buffer if it loses its
`thread_local`: it then reappears in `Gen.sharedCells`, where `cellKind` does not know it. -/
theorem all_shared_cells_classified :
    Gen.sharedCells.all (fun c => (cellKind c).isSome) = true ∧
    Gen.threadLocalCells.all (fun c => (threadCellKind c).isSome) = true := by
  decide

/-- non-vacuity: both lists are inhabited (31 cells — 30 shared, 1 per thread) -/
example : Gen.sharedCells.length = 30 ∧ Gen.threadLocalCells.length = 1 := by decide

/-- The `what` buffer is per-thread state: listed as `thread_local`, not among the shared cells, and
no shared kind stands for it. (Negated before fix 1cb0b5a: it was the shared cell of kind
`whatBuffer`.) -/
theorem what_buffer_is_thread_local :
    Gen.threadLocalCells.filter (fun c => threadCellKind c == some .whatBuffer) = [("blocc/exception.h", "buf")] ∧
    Gen.sharedCells.all (fun c => c.1 != "blocc/exception.h") = true ∧
    cellKind ("blocc/exception.h", "buf") = none := by
  decide

/-- non-vacuity / sensitivity: with the cell back among the shared ones (the tree before the fix, or
a later removal of `thread_local`) the classification obligation is false -/
example : (("blocc/exception.h", "buf") :: Gen.sharedCells).all (fun c => (cellKind c).isSome) = false := by
  decide

/-- No kind is stale: each one still has a cell in the source (shared kinds in the shared list,
per-thread kinds in the `thread_local` list). -/
theorem every_kind_has_a_cell (k : SharedKind) : Gen.sharedCells.any (fun c => cellKind c == some k) = true := by
  cases k <;> decide

theorem every_thread_kind_has_a_cell (k : ThreadKind) :
    Gen.threadLocalCells.any (fun c => threadCellKind c == some k) = true := by
  cases k <;> decide

example : Gen.threadLocalCells.map threadCellKind = [some .whatBuffer] := by decide

/-- The shared cells a step writes are where the task says they are: the error record and `_level`,
nothing else (the `what` buffer of exception.h left this list with the repair of `Error::what`; the record's own
message copy `bloc_error_msg` joined it). -/
theorem written_cells :
    Gen.sharedCells.filter (fun c => match cellKind c with | some k => writtenKinds.contains k | none => false) =
      [("blocc/bloc_capi.cpp", "bloc_error"), ("blocc/bloc_capi.cpp", "bloc_error_msg"), ("blocc/statement.h", "_level")] := by
  decide

/-! ### small facts about the update functions -/

theorem upd_same (f : CtxId → Option Ctx) (c : CtxId) (v : Option Ctx) : upd f c v c = v := by simp [upd]

theorem upd_other (f : CtxId → Option Ctx) (c d : CtxId) (v : Option Ctx) (h : d ≠ c) : upd f c v d = f d := by
  simp [upd, h]

theorem updShared_other (s : Shared) (k j : SharedKind) (v : CellVal) (h : j ≠ k) : updShared s k v j = s j := by
  simp [updShared, h]

theorem appendLevels_other (s : Shared) (ws : List (StmtRef × Nat)) (j : SharedKind) (h : j ≠ .stmtLevel) :
    appendLevels s ws j = s j := by
  cases hm : s .stmtLevel <;> simp [appendLevels, hm, updShared, h]

theorem recordError_other (s : Shared) (code : Nat) (arg : Bytes) (j : SharedKind)
    (h1 : j ≠ .errorRecord) : recordError s code arg j = s j := by
  unfold recordError
  rw [updShared_other _ _ _ _ h1]

/-! ### clone -/

/-- **clone_copies.** At clone time the clone holds the original's variables (names, values, types)
and function declarations; it has no saved return value, no output and no run of its own; the
original and every other context are exactly as before, and so is every shared cell. (Nor does it
inherit per-thread state: its `what` buffer is empty.) -/
theorem clone_copies (w : World) (src dst : CtxId) (s : Ctx) (h : w.ctxs src = some s) :
    (∃ d, (apply w (.clone src dst)).ctxs dst = some d ∧ d.st.vars = s.st.vars ∧ d.funcs = s.funcs ∧
          d.st.returned = none ∧ d.st.out = [] ∧ d.running = false ∧ d.result = none ∧ d.whatBuf = none) ∧
    (∀ e, e ≠ dst → (apply w (.clone src dst)).ctxs e = w.ctxs e) ∧
    (apply w (.clone src dst)).shared = w.shared ∧ (apply w (.clone src dst)).progs = w.progs := by
  have e : apply w (.clone src dst) = { w with ctxs := upd w.ctxs dst (some (cloneCtx s)) } := by
    simp only [apply, h]
  rw [e]
  refine ⟨⟨cloneCtx s, upd_same _ _ _, rfl, rfl, rfl, rfl, rfl, rfl, rfl⟩, ?_, rfl, rfl⟩
  intro e he
  exact upd_other _ _ _ _ he

/-- Non-vacuity: the original of `demoWorld` has two variables and one function after compiling. -/
def demoProg : List Stmt :=
  [.funcS "F" [("P", Ty.int)] Ty.int [.returnS (some (.bin .add (.var "P") (.lit (.int 1))))] [],
   .letS "X" (.lit (.int 5)),
   .letS "Y" (.fcall "F" [.var "X"]),
   .printS [.var "Y"]]

def demoWorld : World := run (initWorld [demoProg] 50) [.compile 0 0, .clone 0 1, .clone 0 2]

example : ((demoWorld.ctxs 1).map fun c => (c.st.vars.map (·.1), c.funcs.map (·.name))) = some (["X", "Y"], ["F"]) := by
  decide

/-! ### footprint -/

/-- **footprint (writes).** Whatever an operation on context `op.target` does, it leaves alone: the
programs, every OTHER context (variables, functions, saved value, output, run state, and the `what`
buffer of the thread that runs it), and every shared cell whose kind is not one of `writtenKinds` =
{`_level`, error record} — in particular the constant cells, the RNG, the registry. No exception for
`Error::what`'s buffer any more: it is not a shared cell (`what_buffer_is_thread_local`), a step
writes only the buffer of its own context. -/
theorem footprint (w : World) (op : Op) :
    (apply w op).progs = w.progs ∧ (apply w op).fuel = w.fuel ∧
    (∀ d, d ≠ op.target → (apply w op).ctxs d = w.ctxs d) ∧
    (∀ k, k ∉ writtenKinds → (apply w op).shared k = w.shared k) := by
  cases op with
  | compile c pid =>
    simp only [apply]
    split
    · exact ⟨rfl, rfl, fun _ _ => rfl, fun _ _ => rfl⟩
    · exact ⟨rfl, rfl, fun d hd => upd_other _ _ _ _ hd, fun _ _ => rfl⟩
  | start c pid =>
    simp only [apply]
    split
    · exact ⟨rfl, rfl, fun _ _ => rfl, fun _ _ => rfl⟩
    · split
      · exact ⟨rfl, rfl, fun _ _ => rfl, fun _ _ => rfl⟩
      · split
        · exact ⟨rfl, rfl, fun d hd => upd_other _ _ _ _ hd, fun _ _ => rfl⟩
        · exact ⟨rfl, rfl, fun d hd => upd_other _ _ _ _ hd, fun _ _ => rfl⟩
  | step c =>
    simp only [apply]
    split
    · exact ⟨rfl, rfl, fun _ _ => rfl, fun _ _ => rfl⟩
    · refine ⟨rfl, rfl, fun d hd => upd_other _ _ _ _ hd, ?_⟩
      intro k hk
      have h1 : k ≠ .stmtLevel := fun e => hk (by simp [writtenKinds, e])
      have h2 : k ≠ .errorRecord := fun e => hk (by simp [writtenKinds, e])
      dsimp only
      split
      · rw [recordError_other _ _ _ _ h2, appendLevels_other _ _ _ h1]
      · rw [appendLevels_other _ _ _ h1]
  | clone s d =>
    simp only [apply]
    split
    · exact ⟨rfl, rfl, fun _ _ => rfl, fun _ _ => rfl⟩
    · exact ⟨rfl, rfl, fun e he => upd_other _ _ _ _ he, fun _ _ => rfl⟩
  | purge c =>
    simp only [apply]
    split
    · exact ⟨rfl, rfl, fun _ _ => rfl, fun _ _ => rfl⟩
    · exact ⟨rfl, rfl, fun d hd => upd_other _ _ _ _ hd, fun _ _ => rfl⟩
  | free c =>
    exact ⟨rfl, rfl, fun d hd => upd_other _ _ _ _ hd, fun _ _ => rfl⟩

/-- The statement step, as the task states it: a step of context `c` writes only `c`'s own state and
the listed shared cells. -/
theorem step_footprint (w : World) (c : CtxId) :
    (∀ d, d ≠ c → (step w c).ctxs d = w.ctxs d) ∧ (step w c).progs = w.progs ∧
    (∀ k, k ∉ writtenKinds → (step w c).shared k = w.shared k) :=
  let f := footprint w (.step c)
  ⟨f.2.2.1, f.1, f.2.2.2⟩

/-- **footprint (reads).** What an operation makes of its target context depends only on that context
(for `clone`: on the source), the immutable programs and the fuel — not on any other context and not
on ANY shared mutable cell: `w` and `w'` may differ in every shared cell. This holds of the code
without the former exception: which handler an error reaches (`BEGINStatement::docatch` reading the
name through `Error::what()`) depends on the thread's own buffer only, so a handled user exception
cannot miss its handler because of what another context does (`handler_found_under_every_schedule`). -/
theorem reads_footprint (w w' : World) (op : Op)
    (ht : w.ctxs op.target = w'.ctxs op.target) (hp : w.progs = w'.progs) (hf : w.fuel = w'.fuel)
    (hs : ∀ s d, op = .clone s d → w.ctxs s = w'.ctxs s) :
    (apply w op).ctxs op.target = (apply w' op).ctxs op.target := by
  cases op with
  | compile c pid =>
    simp only [Op.target] at ht
    simp only [apply, Op.target, ← ht, ← hp]
    split <;> simp [upd_same, ht]
  | start c pid =>
    simp only [Op.target] at ht
    simp only [apply, Op.target, ← ht]
    split
    · exact ht
    · split
      · exact ht
      · split <;> simp [upd_same]
  | step c =>
    simp only [Op.target] at ht
    simp only [apply, Op.target, ← ht, ← hp, ← hf]
    split
    · exact ht
    · simp [upd_same]
  | clone s d =>
    have := hs s d rfl
    simp only [apply, Op.target, ← this]
    split
    · exact ht
    · simp [upd_same]
  | purge c =>
    simp only [Op.target] at ht
    simp only [apply, Op.target, ← ht]
    split
    · exact ht
    · simp [upd_same]
  | free c =>
    simp [apply, Op.target, upd_same]

/-! ### commutation -/

/-- **steps_commute.** Steps of two different contexts commute on everything script-visible: every
context (variables, functions, results, outputs), the programs, and every shared cell outside
`writtenKinds` = {`_level`, error record}. (Those two differ only in the ORDER of log entries / in
which error was recorded last — see `level_writes_benign` and `error_record_is_last_writer`; the
`what` buffers are part of the contexts and commute with them.) -/
theorem steps_commute (w : World) (c d : CtxId) (h : c ≠ d) :
    (∀ e, (step (step w c) d).ctxs e = (step (step w d) c).ctxs e) ∧
    (step (step w c) d).progs = (step (step w d) c).progs ∧
    (∀ k, k ∉ writtenKinds → (step (step w c) d).shared k = (step (step w d) c).shared k) := by
  have fc := footprint w (.step c)
  have fd := footprint w (.step d)
  have fcd := footprint (step w c) (.step d)
  have fdc := footprint (step w d) (.step c)
  simp only [Op.target] at fc fd fcd fdc
  refine ⟨?_, ?_, ?_⟩
  · intro e
    by_cases hec : e = c
    · subst hec
      -- left: d's step does not touch c; right: c's step reads only c, which d's step left alone
      show (apply (step w e) (.step d)).ctxs e = (apply (step w d) (.step e)).ctxs e
      rw [fcd.2.2.1 e h]
      exact reads_footprint w (step w d) (.step e) (fd.2.2.1 e h).symm fd.1.symm fd.2.1.symm (fun _ _ hh => by cases hh)
    · by_cases hed : e = d
      · subst hed
        show (apply (step w c) (.step e)).ctxs e = (apply (step w c |> fun _ => step w e) (.step c)).ctxs e
        rw [fdc.2.2.1 e (Ne.symm h)]
        exact (reads_footprint w (step w c) (.step e) (fc.2.2.1 e (Ne.symm h)).symm fc.1.symm fc.2.1.symm (fun _ _ hh => by cases hh)).symm
      · show (apply (step w c) (.step d)).ctxs e = (apply (step w d) (.step c)).ctxs e
        rw [fcd.2.2.1 e hed, fdc.2.2.1 e hec]
        show (apply w (.step c)).ctxs e = (apply w (.step d)).ctxs e
        rw [fc.2.2.1 e hec, fd.2.2.1 e hed]
  · show (apply (step w c) (.step d)).progs = (apply (step w d) (.step c)).progs
    rw [fcd.1, fdc.1]
    show (apply w (.step c)).progs = (apply w (.step d)).progs
    rw [fc.1, fd.1]
  · intro k hk
    show (apply (step w c) (.step d)).shared k = (apply (step w d) (.step c)).shared k
    rw [fcd.2.2.2 k hk, fdc.2.2.2 k hk]
    show (apply w (.step c)).shared k = (apply w (.step d)).shared k
    rw [fc.2.2.2 k hk, fd.2.2.2 k hk]

/-! ### every schedule -/

/-- two worlds that a context cannot tell apart -/
def Agree (c : CtxId) (w w' : World) : Prop := w.ctxs c = w'.ctxs c ∧ w.progs = w'.progs ∧ w.fuel = w'.fuel

theorem run_cons (w : World) (op : Op) (ops : List Op) : run w (op :: ops) = run (apply w op) ops := rfl

/-- The general form: in ANY sequence of operations (statement steps of any contexts, compiles,
starts, clones, purges, frees, in any order) that does not clone INTO `c`, context `c` ends exactly
as if only the operations on `c` itself had been performed, in their order. -/
theorem projection (c : CtxId) (ops : List Op) (hno : ∀ s, Op.clone s c ∉ ops) :
    ∀ w w', Agree c w w' → Agree c (run w ops) (run w' (ops.filter fun op => op.target == c)) := by
  induction ops with
  | nil => intro w w' h; exact h
  | cons op ops ih =>
    intro w w' h
    have hno' : ∀ s, Op.clone s c ∉ ops := fun s hm => hno s (List.mem_cons_of_mem _ hm)
    by_cases ht : op.target = c
    · have hf : (op :: ops).filter (fun op => op.target == c) = op :: ops.filter (fun op => op.target == c) := by
        simp [ht]
      rw [hf, run_cons, run_cons]
      apply ih hno'
      have fw := footprint w op
      have fw' := footprint w' op
      refine ⟨?_, by rw [fw.1, fw'.1]; exact h.2.1, by rw [fw.2.1, fw'.2.1]; exact h.2.2⟩
      have := reads_footprint w w' op (by rw [ht]; exact h.1) h.2.1 h.2.2
        (fun s d hh => by subst hh; simp only [Op.target] at ht; subst ht; exact absurd (List.mem_cons_self) (hno s))
      rw [ht] at this
      exact this
    · have hf : (op :: ops).filter (fun op => op.target == c) = ops.filter (fun op => op.target == c) := by
        simp [ht]
      rw [hf, run_cons]
      apply ih hno'
      have fw := footprint w op
      exact ⟨by rw [fw.2.2.1 c (Ne.symm ht)]; exact h.1, by rw [fw.1]; exact h.2.1, by rw [fw.2.1]; exact h.2.2⟩

theorem agree_refl (c : CtxId) (w : World) : Agree c w w := ⟨rfl, rfl, rfl⟩

/-- the sequential run: `n` consecutive statement steps of one context, nobody else moves -/
def alone (w : World) (c : CtxId) (n : Nat) : World := run w (List.replicate n (.step c))

theorem target_step (d : CtxId) : (Op.step d).target = d := rfl

theorem filter_steps (c : CtxId) (sched : List CtxId) :
    (sched.map Op.step).filter (fun op => op.target == c) = List.replicate (sched.count c) (Op.step c) := by
  induction sched with
  | nil => rfl
  | cons d r ih =>
    by_cases h : d = c
    · subst h
      simp only [List.map_cons, List.filter_cons, target_step, beq_self_eq_true, if_true, List.count_cons_self,
        List.replicate_succ]
      rw [ih]
    · have h' : (d == c) = false := by simpa using h
      simp only [List.map_cons, List.filter_cons, target_step, h', List.count_cons, Bool.false_eq_true, if_false]
      rw [ih]
      simp

/-- **interleaving_eq_sequential.** For EVERY schedule — any finite sequence of context ids, each
occurrence one statement step of that context; any number of contexts, in particular 2..8 clones of
one original running the same or different programs — every context ends with exactly the
variables, function declarations, saved return value, result (ok / error code and argument), printed
output, position and `what` buffer that its own steps alone produce: its sequential run of the same
length. In particular every error is handled by the handler the sequential run selects: the former
script-visible exception of the code ("a handled user exception can miss its handler", finding
C14.what_static_buffer) is gone with fix 1cb0b5a, the statement needs no exclusion for it. -/
theorem interleaving_eq_sequential (w : World) (sched : List CtxId) (c : CtxId) :
    (run w (sched.map Op.step)).ctxs c = (alone w c (sched.count c)).ctxs c := by
  have := projection c (sched.map Op.step) (fun s hm => by simp at hm) w w (agree_refl c w)
  rw [filter_steps] at this
  exact this.1

/-- A context that is not running ignores steps … -/
theorem step_idle (w : World) (c : CtxId) (x : Ctx) (h : w.ctxs c = some x) (hr : x.running = false) :
    (step w c).ctxs c = w.ctxs c := by
  simp only [step, apply, h, stepCtx, hr, upd_same]
  rfl

theorem alone_succ (w : World) (c : CtxId) (n : Nat) : alone w c (n + 1) = alone (step w c) c n := rfl

theorem alone_add (w : World) (c : CtxId) (n m : Nat) : alone w c (n + m) = alone (alone w c n) c m := by
  induction n generalizing w with
  | zero => simp [alone, run]
  | succ n ih => rw [Nat.succ_add, alone_succ, alone_succ, ih]

theorem alone_idle (w : World) (c : CtxId) (x : Ctx) (h : w.ctxs c = some x) (hr : x.running = false) (m : Nat) :
    (alone w c m).ctxs c = some x := by
  induction m generalizing w with
  | zero => exact h
  | succ m ih =>
    rw [alone_succ]
    exact ih (step w c) (by rw [step_idle w c x h hr]; exact h)

/-- … so two COMPLETE schedules (in each, the context got to the end of its run) give the context
the same final state, however differently they interleave it with the others. -/
theorem complete_schedules_agree (w : World) (s1 s2 : List CtxId) (c : CtxId) (x y : Ctx)
    (h1 : (run w (s1.map Op.step)).ctxs c = some x) (hx : x.running = false)
    (h2 : (run w (s2.map Op.step)).ctxs c = some y) (hy : y.running = false) : x = y := by
  rw [interleaving_eq_sequential] at h1 h2
  rcases Nat.le_total (s1.count c) (s2.count c) with hle | hle
  · obtain ⟨m, hm⟩ := Nat.exists_eq_add_of_le hle
    rw [hm, alone_add] at h2
    have := alone_idle _ c x h1 hx m
    rw [this] at h2
    exact Option.some.inj h2
  · obtain ⟨m, hm⟩ := Nat.exists_eq_add_of_le hle
    rw [hm, alone_add] at h1
    have := alone_idle _ c y h2 hy m
    rw [this] at h1
    exact (Option.some.inj h1).symm

/-- **purge_free_independent.** Purging or freeing another context `o` (the original, say) at ANY
point of ANY sequence of operations changes nothing for context `c`: it keeps working with its
variables and functions, and ends as if `o` had been left alone. -/
theorem purge_free_independent (w : World) (pre post : List Op) (c o : CtxId) (ho : o ≠ c)
    (hno : ∀ s, Op.clone s c ∉ pre ++ post) :
    (run w (pre ++ [.purge o] ++ post)).ctxs c = (run w (pre ++ post)).ctxs c ∧
    (run w (pre ++ [.free o] ++ post)).ctxs c = (run w (pre ++ post)).ctxs c ∧
    (run w (pre ++ [.purge o, .free o] ++ post)).ctxs c = (run w (pre ++ post)).ctxs c := by
  have key : ∀ (mid : List Op), (∀ op ∈ mid, op.target ≠ c) → (∀ s, Op.clone s c ∉ mid) →
      (run w (pre ++ mid ++ post)).ctxs c = (run w (pre ++ post)).ctxs c := by
    intro mid hmid hcl
    have hno2 : ∀ s, Op.clone s c ∉ pre ++ mid ++ post := by
      intro s hm
      simp only [List.mem_append] at hm
      rcases hm with (hm | hm) | hm
      · exact hno s (List.mem_append_left _ hm)
      · exact hcl s hm
      · exact hno s (List.mem_append_right _ hm)
    have a := projection c (pre ++ mid ++ post) hno2 w w (agree_refl c w)
    have b := projection c (pre ++ post) hno w w (agree_refl c w)
    have hmf : mid.filter (fun op => op.target == c) = [] := by
      apply List.filter_eq_nil_iff.mpr
      intro op hop
      simpa using hmid op hop
    have : (pre ++ mid ++ post).filter (fun op => op.target == c) = (pre ++ post).filter (fun op => op.target == c) := by
      simp only [List.filter_append, hmf, List.append_nil]
    rw [this] at a
    exact a.1.trans b.1.symm
  refine ⟨key [.purge o] ?_ ?_, key [.free o] ?_ ?_, key [.purge o, .free o] ?_ ?_⟩
  all_goals (intro x hx; simp at hx)
  · subst hx; exact ho
  · subst hx; exact ho
  · rcases hx with hx | hx <;> (subst hx; exact ho)

/-! ### the shared writes -/

/-- **shared_writes_benign, constant cells.** No operation of the model writes a constant cell … -/
theorem const_cells_never_written (w : World) (ops : List Op) :
    (run w ops).shared .constValue = w.shared .constValue := by
  induction ops generalizing w with
  | nil => rfl
  | cons op ops ih =>
    rw [run_cons, ih]
    exact (footprint w op).2.2.2 .constValue (by decide)

/-- … and that is what the storage discipline guarantees (C05 `eval_frame`): two contexts whose store
views share the SAME constant cells `cs` (all carrying the LVALUE flag) and own their variables and
temporaries — evaluating any expression in one leaves `cs`, hence the other's view of every literal,
exactly as it was. -/
theorem const_cells_frame (cs : List Cell) (varsA poolA : List Cell) (wmA : Nat) (e : LExpr) (ℓ : Loc) (σ' : Store)
    (hcs : ∀ c ∈ cs, c.lv = true) (hv : ∀ c ∈ varsA, c.lv = true)
    (he : evalL e { vars := varsA, csts := cs, pool := poolA, wm := wmA } = .ok (ℓ, σ')) :
    σ'.csts = cs :=
  (C05.eval_frame e _ σ' ℓ ⟨hv, hcs⟩ he).1.2

/-- the level a node receives when every run starts at exec level `b` -/
def refLevel (b : Nat) (progs : List (List Stmt)) : StmtRef → Nat
  | .prog pid (i :: rel) => match (progs.getD pid [])[i]? with
    | some s => levelOf b s rel
    | none => b
  | .prog _ [] => b
  | .fn f rel => levelOf 0 (.beginS f.body f.catches) rel

def LevelInv (b : Nat) (progs : List (List Stmt)) (log : List (StmtRef × Nat)) : Prop :=
  ∀ r v, (r, v) ∈ log → v = refLevel b progs r

theorem stepCtx_levels (progs : List (List Stmt)) (fuel : Nat) (ctx : Ctx) (r : StmtRef) (v : Nat)
    (h : (r, v) ∈ (stepCtx progs fuel ctx).2.1) : v = refLevel ctx.execLevel progs r := by
  unfold stepCtx at h
  split at h
  · simp at h
  · split at h
    · simp at h
    · rename_i stmt hstmt
      have hmem : (r, v) ∈ stmtLevelWrites ctx.prog ctx.pc ctx.execLevel stmt ++ (ctx.funcs.map funcLevelWrites).flatten := by
        split at h <;> exact h
      rcases List.mem_append.mp hmem with hm | hm
      · simp only [stmtLevelWrites, List.mem_map] at hm
        obtain ⟨rel, _, he⟩ := hm
        cases he
        simp only [refLevel]
        rw [hstmt]
      · simp only [List.mem_flatten, List.mem_map] at hm
        obtain ⟨l, ⟨f, _, hl⟩, hin⟩ := hm
        subst hl
        simp only [funcLevelWrites, List.mem_map] at hin
        obtain ⟨rel, _, he⟩ := hin
        cases he
        simp [refLevel]

/-- every live context starts its runs at exec level `b` -/
def SameBase (b : Nat) (w : World) : Prop := ∀ c x, w.ctxs c = some x → x.execLevel = b

theorem sameBase_apply (w : World) (op : Op) (h : SameBase 0 w) : SameBase 0 (apply w op) := by
  intro e x hx
  by_cases he : e = op.target
  · subst he
    cases op with
    | compile c pid =>
      simp only [apply, Op.target] at hx
      split at hx
      · exact h _ _ hx
      · rename_i ctx hc; dsimp only at hx; rw [upd_same] at hx; cases hx; exact h c ctx hc
    | start c pid =>
      simp only [apply, Op.target] at hx
      split at hx
      · exact h _ _ hx
      · rename_i ctx hc
        split at hx
        · exact h _ _ hx
        · split at hx <;> (dsimp only at hx; rw [upd_same] at hx; cases hx; exact h c ctx hc)
    | step c =>
      simp only [apply, Op.target] at hx
      split at hx
      · exact h _ _ hx
      · rename_i ctx hc
        dsimp only at hx; rw [upd_same] at hx
        cases hx
        have := h c ctx hc
        unfold stepCtx
        split
        · exact this
        · split
          · exact this
          · split <;> exact this
    | clone s d =>
      simp only [apply, Op.target] at hx
      split at hx
      · exact h _ _ hx
      · dsimp only at hx; rw [upd_same] at hx; cases hx; rfl
    | purge c =>
      simp only [apply, Op.target] at hx
      split at hx
      · exact h _ _ hx
      · rename_i ctx hc; dsimp only at hx; rw [upd_same] at hx; cases hx; exact h c ctx hc
    | free c =>
      simp only [apply, Op.target] at hx; rw [upd_same] at hx
      cases hx
  · rw [(footprint w op).2.2.1 e he] at hx
    exact h _ _ hx

/-- **shared_writes_benign, `_level`.** ASSUMPTION, stated exactly: every context enters its runs with
the same exec-stack depth (`SameBase 0`: the stack is empty between runs — true unless a foreign
exception skipped an `execEnd`; a fresh clone always starts at 0). Then every write any context
ever performs on a statement node stores the value `refLevel` = (number of enclosing `begin` blocks
of the node): a function of the node alone. Concurrent writers of one node therefore write the SAME
value, and a reader (`Context::onRuntimeError` comparing `stmt->level()` with its own depth) sees
that value whichever write it observes. -/
theorem level_writes_benign (ops : List Op) : ∀ (w : World) (log0 : List (StmtRef × Nat)),
    SameBase 0 w → w.shared .stmtLevel = .levels log0 → LevelInv 0 w.progs log0 →
    ∃ log, (run w ops).shared .stmtLevel = .levels log ∧ LevelInv 0 w.progs log := by
  induction ops with
  | nil => intro w log0 _ hs hi; exact ⟨log0, hs, hi⟩
  | cons op ops ih =>
    intro w log0 hb hs hi
    rw [run_cons]
    have hp : (apply w op).progs = w.progs := (footprint w op).1
    have hb' := sameBase_apply w op hb
    -- the log after `op`
    have : ∃ log1, (apply w op).shared .stmtLevel = .levels log1 ∧ LevelInv 0 w.progs log1 := by
      cases op with
      | step c =>
        simp only [apply]
        split
        · exact ⟨log0, hs, hi⟩
        · rename_i ctx hc
          have hlv : ∀ (sh : Shared) code arg, recordError sh code arg .stmtLevel = sh .stmtLevel :=
            fun sh code arg => recordError_other sh code arg _ (by decide)
          refine ⟨log0 ++ (stepCtx w.progs w.fuel ctx).2.1, ?_, ?_⟩
          · dsimp only
            split
            · rw [hlv]; simp [appendLevels, hs, updShared]
            · simp [appendLevels, hs, updShared]
          · intro r v hm
            rcases List.mem_append.mp hm with hm | hm
            · exact hi r v hm
            · have := stepCtx_levels w.progs w.fuel ctx r v hm
              rw [hb c ctx hc] at this
              exact this
      | compile c pid => simp only [apply]; split <;> exact ⟨log0, hs, hi⟩
      | start c pid =>
        simp only [apply]
        split
        · exact ⟨log0, hs, hi⟩
        · split
          · exact ⟨log0, hs, hi⟩
          · split <;> exact ⟨log0, hs, hi⟩
      | clone s d => simp only [apply]; split <;> exact ⟨log0, hs, hi⟩
      | purge c => simp only [apply]; split <;> exact ⟨log0, hs, hi⟩
      | free c => exact ⟨log0, hs, hi⟩
    obtain ⟨log1, hs1, hi1⟩ := this
    have := ih (apply w op) log1 hb' hs1 (by rw [hp]; exact hi1)
    rw [hp] at this
    exact this

/-- Consequence in the form "concurrent writers write the same value". -/
theorem same_node_same_level (progs : List (List Stmt)) (log : List (StmtRef × Nat)) (h : LevelInv 0 progs log)
    (r : StmtRef) (v v' : Nat) (h1 : (r, v) ∈ log) (h2 : (r, v') ∈ log) : v = v' :=
  (h r v h1).trans (h r v' h2).symm

/-- **shared_writes_benign**, both halves in one statement: over ANY sequence of operations from a
world in which every exec stack is empty between runs, the constant cells are never written and all
writes to one statement node's `_level` carry the same value. With the `what` buffer per thread, the
only shared write that is NOT benign is the error record (`error_record_is_last_writer`). -/
theorem shared_writes_benign (w : World) (ops : List Op) (log0 : List (StmtRef × Nat))
    (hb : SameBase 0 w) (hs : w.shared .stmtLevel = .levels log0) (hi : LevelInv 0 w.progs log0) :
    (run w ops).shared .constValue = w.shared .constValue ∧
    ∃ log, (run w ops).shared .stmtLevel = .levels log ∧
      ∀ r v v', (r, v) ∈ log → (r, v') ∈ log → v = v' := by
  refine ⟨const_cells_never_written w ops, ?_⟩
  obtain ⟨log, h1, h2⟩ := level_writes_benign ops w log0 hb hs hi
  exact ⟨log, h1, fun r v v' a b => same_node_same_level w.progs log h2 r v v' a b⟩

/-- non-vacuity: the initial world satisfies the three hypotheses -/
example : SameBase 0 (initWorld [demoProg]) ∧ (initWorld [demoProg]).shared .stmtLevel = .levels [] ∧
    LevelInv 0 (initWorld [demoProg]).progs [] := by
  refine ⟨?_, rfl, ?_⟩
  · intro c x h
    simp only [initWorld] at h
    split at h
    · cases h; rfl
    · cases h
  · intro r v h; cases h

/-- The assumption is needed: a context whose exec stack is one deep between runs (execLevel 1)
and a fresh one, running the same statement, store DIFFERENT levels into the same node. -/
example :
    let p : List Stmt := [.nop]
    let w : World := { initWorld [p] 5 with
      ctxs := fun c => if c = 0 then some { running := true, execLevel := 1 } else if c = 1 then some { running := true } else none }
    (match (run w [.step 0, .step 1]).shared .stmtLevel with
     | .levels log => log.map (·.2)
     | _ => []) = [1, 0] := by
  decide +kernel

/-- **The error record is NOT benign** (finding C14.error_record_process_wide): `bloc_error` is a
single process-wide cell; after two contexts failed, the record holds the error of whichever failed
last — `bloc_errno()` / `bloc_strerror()` of a failed `bloc_execute2` depend on the schedule, in the
model already. The buffer the message is formatted into is NOT part of this any more (fix 1cb0b5a):
each context's `what` buffer holds its own error under both schedules. -/
def errDemo : World :=
  { initWorld [[.raiseS "E1"], [.raiseS "DIVIDE_BY_ZERO"]] 5 with
    ctxs := fun c => if c = 0 then some { running := true, prog := 0 } else if c = 1 then some { running := true, prog := 1 } else none }

def recordedCode (w : World) : Option Nat :=
  match w.shared .errorRecord with
  | .lastError (some (c, _)) => some c
  | _ => none

theorem error_record_is_last_writer :
    recordedCode (run errDemo [.step 0, .step 1]) = some Gen.EXC_RT_DIVIDE_BY_ZERO ∧
    recordedCode (run errDemo [.step 1, .step 0]) = some Gen.EXC_RT_USER_S ∧
    -- … while each context's own result is the same under both schedules
    ((run errDemo [.step 0, .step 1]).ctxs 0).map (·.running) = ((run errDemo [.step 1, .step 0]).ctxs 0).map (·.running) ∧
    -- … and so is the `what` buffer of each: its own error, whoever failed last
    (∀ ops ∈ [[Op.step 0, .step 1], [.step 1, .step 0]],
      ((run errDemo ops).ctxs 0).map (fun c => c.whatBuf.map (·.1)) = some (some Gen.EXC_RT_USER_S) ∧
      ((run errDemo ops).ctxs 1).map (fun c => c.whatBuf.map (·.1)) = some (some Gen.EXC_RT_DIVIDE_BY_ZERO)) := by
  decide +kernel

/-! ### the `what` buffer is private to its thread -/

/-- A step of context `c` (any operation on it) leaves the `what` buffer of every other context
alone: corollary of `footprint`, the buffer being part of the context. -/
theorem what_buffer_private (w : World) (op : Op) (d : CtxId) (h : d ≠ op.target) :
    ((apply w op).ctxs d).map (·.whatBuf) = (w.ctxs d).map (·.whatBuf) := by
  rw [(footprint w op).2.2.1 d h]

/-- non-vacuity: in `errDemo` context 1 fails AFTER context 0 did; context 0's buffer still holds
context 0's error (USER, argument "E1"), context 1's its own -/
example :
    ((run errDemo [.step 0]).ctxs 0).map (·.whatBuf) = some (some (Gen.EXC_RT_USER_S, "E1".toUTF8.toList)) ∧
    ((run errDemo [.step 0, .step 1]).ctxs 0).map (·.whatBuf) = some (some (Gen.EXC_RT_USER_S, "E1".toUTF8.toList)) ∧
    ((run errDemo [.step 0, .step 1]).ctxs 1).map (fun c => c.whatBuf.map (·.1)) = some (some Gen.EXC_RT_DIVIDE_BY_ZERO) := by
  decide +kernel

/-- Two contexts, each raising its OWN user exception inside a block that handles exactly that name
(the stress witness of the former finding C14.what_static_buffer, one round). -/
def whatDemo : World :=
  let p (e : String) : List Stmt :=
    [.letS "N" (.lit (.int 0)),
     .beginS [.raiseS e] [(e, [.letS "N" (.bin .add (.var "N") (.lit (.int 1)))])],
     .returnS (some (.var "N"))]
  { initWorld [p "NAMEA", p "NAMEBBBBBBBBBBBBBBB"] 50 with
    ctxs := fun c => if c = 0 then some { running := true, prog := 0 } else if c = 1 then some { running := true, prog := 1 } else none }

/-- the run ended normally and handed `v` to the host -/
def returnedVal (x : Ctx) (v : Val) : Bool :=
  match x.result with
  | some (.ok (some r)) => r == v
  | _ => false

/-- **Every schedule selects the right handler** (was: false of the code — under threads the clause
name was compared with a buffer another thread could have overwritten; the model never had the
defect, the statement was an exclusion of the correspondence). General form: `interleaving_eq_sequential`;
here for the witness, over ALL 20 interleavings of the two 3-statement runs: each context ends `ok`
having counted its one handled exception, no error recorded, no `what` buffer left behind. -/
theorem handler_found_under_every_schedule :
    ∀ sched ∈ [[0,0,0,1,1,1],[0,0,1,0,1,1],[0,0,1,1,0,1],[0,0,1,1,1,0],[0,1,0,0,1,1],[0,1,0,1,0,1],[0,1,0,1,1,0],
               [0,1,1,0,0,1],[0,1,1,0,1,0],[0,1,1,1,0,0],[1,0,0,0,1,1],[1,0,0,1,0,1],[1,0,0,1,1,0],[1,0,1,0,0,1],
               [1,0,1,0,1,0],[1,0,1,1,0,0],[1,1,0,0,0,1],[1,1,0,0,1,0],[1,1,0,1,0,0],[1,1,1,0,0,0]],
      let w := run whatDemo (sched.map Op.step)
      recordedCode w = none ∧
      ∀ c ∈ [0, 1], ((w.ctxs c).map fun x => (x.running, returnedVal x (.int 1), x.whatBuf.isNone)) =
        some (false, true, true) := by
  decide +kernel

/-- the witness discriminates: had context 0's clause been compared with context 1's name (what the
shared buffer could make the code do), the run would have ended with the unhandled USER error, which
the error record and the `what` buffer then show -/
example :
    let p : List Stmt := [.beginS [.raiseS "NAMEA"] [("NAMEBBBBBBBBBBBBBBB", [.nop])], .returnS (some (.lit (.int 1)))]
    let w : World := { initWorld [p] 50 with ctxs := fun c => if c = 0 then some { running := true } else none }
    let w' := run w [.step 0, .step 0]
    (recordedCode w', (w'.ctxs 0).map fun x => (x.running, returnedVal x (.int 1), x.whatBuf.map (·.1))) =
      (some Gen.EXC_RT_USER_S, some (false, false, some Gen.EXC_RT_USER_S)) := by
  decide +kernel

/-! ### non-vacuity of the schedule theorems -/

/-- Three contexts (original + two clones) running `demoProg` under an interleaved schedule: each
ends with Y = 6 and the output "6\n" of its own. -/
def demoRun : World :=
  run demoWorld ([.start 0 0, .start 1 0, .start 2 0] ++ [2, 0, 1, 1, 2, 0, 0, 2, 1, 1, 0, 2, 2, 1, 0].map Op.step)

example : ((demoRun.ctxs 1).map fun c => (c.running, lookupVar c.st.vars "Y" == .int 6, c.st.output)) =
    some (false, true, [54, 10]) := by
  decide +kernel

example : ((demoRun.ctxs 2).map fun c => (c.running, lookupVar c.st.vars "Y" == .int 6, c.st.output)) =
    some (false, true, [54, 10]) := by
  decide +kernel

/-- freeing the original in the middle changes nothing for clone 1 -/
example :
    ((run demoWorld ([.start 1 0, .step 1, .step 1, .purge 0, .step 1, .free 0, .step 1, .step 1])).ctxs 1).map
      (fun c => (c.running, lookupVar c.st.vars "Y" == .int 6, c.st.output)) = some (false, true, [54, 10]) := by
  decide +kernel

end BlocV.C14
